/-
  Bnum.Lemmas.Random — lemmas about `Model/Random.lean` (property C20).
  Part A: pure arithmetic of the rejection zone (an interval whose length is a multiple of `range`
          contains the same number of multiples of `range` wherever it starts).
  Part B: the byte stream: little-endian values, `Standard`, slice fill = element-wise `gen`.
  Part C: the uniform sampler: no panic, closed forms of the zones, range membership.
  Part D: the model computes exactly what `Spec/Random.lean` (the law the driver prints as the
          spec answer) says.
-/
import Bnum.Model.Random
import Bnum.Spec.Random
import Bnum.Lemmas.Basic
import Bnum.Lemmas.Digit
namespace Bnum.Rand

/-! ## Part A — counting accepted words -/

/-- number of `v < N` satisfying `p` -/
def countBelow (p : Nat → Bool) : Nat → Nat
  | 0 => 0
  | N + 1 => countBelow p N + (if p N then 1 else 0)

theorem countBelow_eq_filter (p : Nat → Bool) (N : Nat) :
    countBelow p N = ((List.range N).filter p).length := by
  induction N with
  | zero => rfl
  | succ N ih =>
    rw [List.range_succ, List.filter_append, List.length_append, ← ih, countBelow]
    by_cases h : p N <;> simp [h]

theorem countBelow_congr {p q : Nat → Bool} {N : Nat} (h : ∀ v < N, p v = q v) :
    countBelow p N = countBelow q N := by
  induction N with
  | zero => rfl
  | succ N ih =>
    rw [countBelow, countBelow, ih (fun v hv => h v (by omega)), h N (by omega)]

/-- an interval `[c, c+k)` that lies below `N` has `k` elements below `N` -/
theorem countBelow_interval (c k N : Nat) :
    countBelow (fun v => decide (c ≤ v ∧ v < c + k)) N = min (c + k) N - min c N := by
  induction N with
  | zero => simp [countBelow]
  | succ N ih =>
    rw [countBelow, ih]
    by_cases h : c ≤ N ∧ N < c + k
    · rw [if_pos (by simpa using h)]; omega
    · rw [if_neg (by simpa using h)]; omega

/-- `a ≤ v*r ↔ ⌈a/r⌉ ≤ v` -/
theorem ceil_le_iff {a r v : Nat} (hr : 0 < r) : (a + r - 1) / r ≤ v ↔ a ≤ v * r := by
  rw [← Nat.lt_succ_iff, Nat.div_lt_iff_lt_mul hr, Nat.succ_mul]
  omega

/-- KEY LEMMA: an interval `[a, a + k*r)` contains exactly the multiples `v*r` with
    `⌈a/r⌉ ≤ v < ⌈a/r⌉ + k` — `k` of them. -/
theorem mul_mem_interval_iff {a r k v : Nat} (hr : 0 < r) :
    (a ≤ v * r ∧ v * r < a + k * r) ↔ ((a + r - 1) / r ≤ v ∧ v < (a + r - 1) / r + k) := by
  have hc : ∀ u, (a + r - 1) / r ≤ u ↔ a ≤ u * r := fun u => ceil_le_iff hr
  generalize (a + r - 1) / r = c at *
  rw [hc]
  refine and_congr_right (fun _ => ?_)
  by_cases hv : v < k
  · have : v * r < k * r := Nat.mul_lt_mul_of_pos_right hv hr
    constructor <;> intro _ <;> omega
  · obtain ⟨u, rfl⟩ : ∃ u, v = u + k := ⟨v - k, by omega⟩
    have h1 := hc u
    rw [Nat.add_mul]
    constructor
    · intro h
      have : ¬ a ≤ u * r := by omega
      have : ¬ c ≤ u := fun h' => this (h1.mp h')
      omega
    · intro h
      have : ¬ c ≤ u := by omega
      have : ¬ a ≤ u * r := fun h' => this (h1.mpr h')
      omega

theorem count_multiples_interval {a r k N : Nat} (hr : 0 < r) (hN : a + k * r ≤ N * r) :
    countBelow (fun v => decide (a ≤ v * r ∧ v * r < a + k * r)) N = k := by
  rw [countBelow_congr (q := fun v => decide ((a + r - 1) / r ≤ v ∧ v < (a + r - 1) / r + k))
    (fun v _ => by simp only [mul_mem_interval_iff hr]), countBelow_interval]
  by_cases hk : k = 0
  · subst hk; omega
  have hc : (a + r - 1) / r + k ≤ N := by
    -- the last element v = c + k - 1 satisfies v*r < a + k*r ≤ N*r
    have h := (@mul_mem_interval_iff a r k ((a + r - 1) / r + k - 1) hr).mpr
      ⟨by generalize (a + r - 1) / r = c; omega, by generalize (a + r - 1) / r = c; omega⟩
    generalize (a + r - 1) / r = c at *
    have : (c + k - 1) * r < N * r := by omega
    have := Nat.lt_of_mul_lt_mul_right this
    omega
  omega

/-- low/high parts of `t` against a zone: `t % m ≤ zone ∧ t / m = y ↔ y*m ≤ t < y*m + zone + 1` -/
theorem lo_hi_iff {t m zone y : Nat} (hz : zone < m) :
    (t % m ≤ zone ∧ t / m = y) ↔ (y * m ≤ t ∧ t < y * m + (zone + 1)) := by
  have hm : 0 < m := by omega
  have hd := Nat.div_add_mod t m
  constructor
  · rintro ⟨h1, rfl⟩
    rw [Nat.mul_comm]; constructor <;> omega
  · rintro ⟨h1, h2⟩
    have hy : t / m = y := by
      apply Nat.div_eq_of_lt_le
      · exact h1
      · rw [Nat.succ_mul]; omega
    refine ⟨?_, hy⟩
    rw [hy, Nat.mul_comm] at hd
    omega

/-- ACCEPT-COUNT UNIFORMITY (pure arithmetic).  If `zone + 1` is a multiple of `range` and
    `zone < m`, every `y < range` is the high part `⌊v·range/m⌋` of exactly `(zone+1)/range`
    accepted words `v < m` (accepted: low part `v·range mod m ≤ zone`). -/
theorem accept_count {m range zone y : Nat} (hr : 0 < range) (hz : zone < m)
    (hdvd : range ∣ zone + 1) (hy : y < range) :
    countBelow (fun v => decide ((v * range) % m ≤ zone ∧ (v * range) / m = y)) m
      = (zone + 1) / range := by
  obtain ⟨k, hk⟩ := hdvd
  rw [hk, Nat.mul_div_cancel_left _ hr]
  rw [countBelow_congr (q := fun v => decide (y * m ≤ v * range ∧ v * range < y * m + k * range))
    (fun v _ => by simp only [lo_hi_iff hz, hk, Nat.mul_comm range k])]
  apply count_multiples_interval hr
  have : (y + 1) * m ≤ range * m := Nat.mul_le_mul_right m (by omega)
  rw [Nat.succ_mul] at this
  rw [Nat.mul_comm k range, ← hk, Nat.mul_comm m range]
  omega

/-! ## Part B — the byte stream -/

/-- every entry of the scripted stream is a byte -/
def StreamOK (s : Stream) : Prop := ∀ b ∈ s, b < 256
instance (s : Stream) : Decidable (StreamOK s) := by unfold StreamOK; exact inferInstance

theorem StreamOK.take {s : Stream} (h : StreamOK s) (k : Nat) : StreamOK (s.take k) :=
  fun b hb => h b (List.mem_of_mem_take hb)
theorem StreamOK.drop {s : Stream} (h : StreamOK s) (k : Nat) : StreamOK (s.drop k) :=
  fun b hb => h b (List.mem_of_mem_drop hb)

theorem leValue_append (a b : List Nat) :
    leValue (a ++ b) = leValue a + 256 ^ a.length * leValue b := by
  induction a with
  | nil => simp [leValue]
  | cons x xs ih => simp only [List.cons_append, leValue, ih, List.length_cons, Nat.pow_succ]; ring

theorem leValue_lt {bs : List Nat} (h : StreamOK bs) : leValue bs < 256 ^ bs.length := by
  induction bs with
  | nil => simp [leValue]
  | cons x xs ih =>
    have hx : x < 256 := h x (by simp)
    have := ih (fun b hb => h b (by simp [hb]))
    simp only [leValue, List.length_cons, Nat.pow_succ]; omega

theorem B_eq_256 (k : Nat) : B (8 * k) = 256 ^ k := by
  unfold B; rw [Nat.pow_mul]

theorem digitBytes_eq (k : Nat) : digitBytes (8 * k) = k := by
  unfold digitBytes; omega

theorem digitsOfBytes_length (k n : Nat) (bs : List Nat) : (digitsOfBytes k n bs).length = n := by
  induction n generalizing bs with
  | zero => rfl
  | succ n ih => simp [digitsOfBytes, ih]

theorem digitsOfBytes_WF {k n : Nat} {bs : List Nat} (hok : StreamOK bs) (hlen : n * k ≤ bs.length) :
    WF (8 * k) n (digitsOfBytes k n bs) := by
  induction n generalizing bs with
  | zero => exact WF_nil _
  | succ n ih =>
    rw [Nat.succ_mul] at hlen
    rw [digitsOfBytes, WF_cons]
    refine ⟨?_, ih (hok.drop k) (by rw [List.length_drop]; omega)⟩
    have := leValue_lt (hok.take k)
    rw [List.length_take, Nat.min_eq_left (by omega)] at this
    rw [B_eq_256]; exact this

/-- digits read from the byte view, as a value: the little-endian value of the bytes -/
theorem U_digitsOfBytes' {w k n : Nat} {bs : List Nat} (hB : B w = 256 ^ k)
    (hlen : n * k ≤ bs.length) : U w (digitsOfBytes k n bs) = leValue (bs.take (n * k)) := by
  induction n generalizing bs with
  | zero => simp [digitsOfBytes, leValue]
  | succ n ih =>
    rw [Nat.succ_mul] at hlen
    rw [digitsOfBytes, U, ih (by rw [List.length_drop]; omega), Nat.succ_mul, Nat.add_comm (n * k) k,
      List.take_add, leValue_append, List.length_take, Nat.min_eq_left (by omega), hB]
theorem U_digitsOfBytes {k n : Nat} {bs : List Nat} (hlen : n * k ≤ bs.length) :
    U (8 * k) (digitsOfBytes k n bs) = leValue (bs.take (n * k)) :=
  U_digitsOfBytes' (B_eq_256 k) hlen

theorem tryFillBytes_of_le {k : Nat} {s : Stream} (h : k ≤ s.length) :
    tryFillBytes k s = some (s.take k, s.drop k) := by simp [tryFillBytes, h]
theorem tryFillBytes_of_lt {k : Nat} {s : Stream} (h : s.length < k) :
    tryFillBytes k s = none := by simp [tryFillBytes]; omega

/-- `Standard` (unsigned and signed): succeeds iff `BYTES = n*k` bytes are left; consumes exactly
    those; the result is a well-formed integer whose value is their little-endian value. -/
theorem gen_eq {k n : Nat} {s : Stream} (h : n * k ≤ s.length) :
    UI.gen (8 * k) n s = some (digitsOfBytes k n (s.take (n * k)), s.drop (n * k)) := by
  simp [UI.gen, fillDigits, digitBytes_eq, tryFillBytes_of_le h]
theorem gen_none {k n : Nat} {s : Stream} (h : s.length < n * k) : UI.gen (8 * k) n s = none := by
  simp [UI.gen, fillDigits, digitBytes_eq, tryFillBytes_of_lt h]

theorem genVal_eq {k n : Nat} {s : Stream} (h : n * k ≤ s.length) :
    genVal (8 * k) n s = some (leValue (s.take (n * k)), s.drop (n * k)) := by
  rw [genVal, gen_eq h]
  simp only
  rw [U_digitsOfBytes (by rw [List.length_take]; omega), List.take_take, Nat.min_self]
theorem genVal_none {k n : Nat} {s : Stream} (h : s.length < n * k) : genVal (8 * k) n s = none := by
  rw [genVal, gen_none h]

theorem genVal_lt {k n : Nat} {s rest : Stream} {v : Nat} (hok : StreamOK s)
    (h : genVal (8 * k) n s = some (v, rest)) : v < M (8 * k) n ∧ rest = s.drop (n * k) ∧ n * k ≤ s.length := by
  by_cases hl : n * k ≤ s.length
  · rw [genVal_eq hl] at h
    simp only [Option.some.injEq, Prod.mk.injEq] at h
    obtain ⟨rfl, rfl⟩ := h
    refine ⟨?_, rfl, hl⟩
    have := leValue_lt (hok.take (n * k))
    rw [List.length_take, Nat.min_eq_left hl] at this
    rw [M_eq_pow, B_eq_256, ← Nat.pow_mul, Nat.mul_comm k n]; exact this
  · rw [genVal_none (by omega)] at h; cases h

/-- bytes of a value -/
theorem leValue_ofNat (L v : Nat) : leValue (ofNat 8 L v) = v % 256 ^ L := by
  induction L generalizing v with
  | zero => simp [ofNat, leValue, Nat.mod_one]
  | succ L ih =>
    have h8 : B 8 = 256 := by decide
    rw [ofNat, leValue, ih, h8, Nat.pow_succ', Nat.mod_mul]
theorem ofNat_length (w L v : Nat) : (ofNat w L v).length = L := by
  induction L generalizing v with
  | zero => rfl
  | succ L ih => simp [ofNat, ih]
theorem ofNat_ok (L v : Nat) : StreamOK (ofNat 8 L v) := by
  induction L generalizing v with
  | zero => intro b hb; cases hb
  | succ L ih =>
    intro b hb
    rw [ofNat, List.mem_cons] at hb
    rcases hb with rfl | hb
    · have : B 8 = 256 := by decide
      rw [this]; omega
    · exact ih _ b hb

/-- every `BITS`-bit value is produced by some stream (the little-endian bytes of the value) -/
theorem genVal_surjective (k n v : Nat) (hv : v < M (8 * k) n) :
    genVal (8 * k) n (ofNat 8 (n * k) v) = some (v, []) := by
  have hl : (ofNat 8 (n * k) v).length = n * k := ofNat_length _ _ _
  rw [genVal_eq (by omega), List.take_of_length_le (by omega), List.drop_of_length_le (by omega),
    leValue_ofNat, Nat.mod_eq_of_lt]
  rw [M_eq_pow, B_eq_256, ← Nat.pow_mul, Nat.mul_comm k n] at hv; exact hv

theorem fillSlice_eq_core (w n len : Nat) (s : Stream) :
    fillSlice w n len s =
      match tryFillBytes (len * (n * digitBytes w)) s with
      | none => none
      | some (bs, rest) => some (elemsOfBytes (digitBytes w) n len bs, rest) := by
  unfold fillSlice
  rcases len with _ | len
  · simp [tryFillBytes, elemsOfBytes]
  · rw [if_pos (Nat.succ_pos _)]; rfl

/-- SLICE FILL = ELEMENT-WISE `gen`: `try_fill_slice` on `len` elements gives exactly what `len`
    consecutive `rng.gen()` calls give (values, remaining stream, and failure when the stream is
    too short), for every digit width and count. -/
theorem fillSlice_eq_genMany (w n len : Nat) (s : Stream) :
    fillSlice w n len s = genMany w n len s := by
  rw [fillSlice_eq_core]
  obtain ⟨k, hk⟩ : ∃ k, digitBytes w = k := ⟨_, rfl⟩
  induction len generalizing s with
  | zero => simp [tryFillBytes, elemsOfBytes, genMany]
  | succ len ih =>
    rw [hk] at ih
    rw [genMany, UI.gen, fillDigits, hk]
    by_cases h1 : n * k ≤ s.length
    · rw [tryFillBytes_of_le h1]
      simp only
      rw [← ih]
      by_cases h2 : (len + 1) * (n * k) ≤ s.length
      · have h3 : len * (n * k) ≤ (s.drop (n * k)).length := by
          rw [List.length_drop, Nat.succ_mul] at *; omega
        rw [tryFillBytes_of_le h2, tryFillBytes_of_le h3]
        simp only [elemsOfBytes]
        have e1 : (len + 1) * (n * k) - n * k = len * (n * k) := by rw [Nat.succ_mul]; omega
        have e2 : n * k + len * (n * k) = (len + 1) * (n * k) := by rw [Nat.succ_mul]; omega
        rw [List.take_take, Nat.min_eq_left (by rw [Nat.succ_mul]; omega), List.drop_take,
          List.drop_drop, e1, e2]
      · have h3 : (s.drop (n * k)).length < len * (n * k) := by
          rw [List.length_drop, Nat.succ_mul] at *; omega
        rw [tryFillBytes_of_lt (by omega), tryFillBytes_of_lt h3]
    · have h2 : s.length < (len + 1) * (n * k) := by rw [Nat.succ_mul]; omega
      rw [tryFillBytes_of_lt h2, tryFillBytes_of_lt (by omega)]


/-! ## Part C — the uniform sampler -/

@[simp] theorem Outcome.ok_bind' {α β} (a : α) (f : α → Outcome β) : (Outcome.ok a >>= f) = f a := rfl
@[simp] theorem Outcome.pure_eq' {α} (a : α) : (pure a : Outcome α) = .ok a := rfl

/-- value of a pattern under the signedness -/
def val (signed : Bool) (m x : Nat) : Int := if signed then toInt m x else (x : Int)

/-- `MAX - ((MAX - range + 1) % range)` -/
def zoneExact (m range : Nat) : Nat := m - 1 - m % range
/-- `(range << range.leading_zeros()) - 1` -/
def zonePow2 (W range : Nat) : Nat := range * 2 ^ (W - bitLen W range) - 1
/-- the zone of `sample_single_inclusive` -/
def zoneSingle (W range : Nat) : Nat := if W ≤ 16 then zoneExact (2 ^ W) range else zonePow2 W range

theorem bitLen_zero (fuel : Nat) : bitLen fuel 0 = 0 := by cases fuel <;> simp [bitLen]

theorem bitLen_spec {fuel x : Nat} (hx : x < 2 ^ fuel) (h0 : x ≠ 0) :
    x < 2 ^ bitLen fuel x ∧ 2 ^ bitLen fuel x ≤ 2 * x ∧ bitLen fuel x ≤ fuel ∧ 1 ≤ bitLen fuel x := by
  induction fuel generalizing x with
  | zero => simp at hx; omega
  | succ fuel ih =>
    rw [bitLen, if_neg h0]
    by_cases h1 : x / 2 = 0
    · rw [h1, bitLen_zero]; simp; omega
    · rw [Nat.pow_succ] at hx
      obtain ⟨a, b, c, d⟩ := ih (x := x / 2) (by omega) h1
      rw [Nat.pow_succ]
      refine ⟨by omega, by omega, by omega, by omega⟩

theorem bitLen_max {W : Nat} : bitLen W (2 ^ W - 1) = W := by
  rcases W with _ | W
  · rfl
  · have h2 : 2 ≤ 2 ^ (W + 1) := by
      have := Nat.pow_le_pow_right (n := 2) (by decide) (Nat.succ_pos W); simpa using this
    obtain ⟨a, _, c, _⟩ := bitLen_spec (fuel := W + 1) (x := 2 ^ (W + 1) - 1) (by omega) (by omega)
    by_contra hne
    have : bitLen (W + 1) (2 ^ (W + 1) - 1) ≤ W := by omega
    have := Nat.pow_le_pow_right (n := 2) (by decide) this
    generalize bitLen (W + 1) (2 ^ (W + 1) - 1) = b at *
    rw [Nat.pow_succ] at a h2
    omega

theorem M_eq_two_pow (w n : Nat) : M w n = 2 ^ (w * n) := rfl

theorem M_ge_two {w n : Nat} (hW : 1 ≤ w * n) : 2 ≤ M w n := by
  have := Nat.pow_le_pow_right (n := 2) (by decide) hW; simpa [M] using this

theorem M_even' {w n : Nat} (hW : 1 ≤ w * n) : M w n = 2 * (M w n / 2) := by
  obtain ⟨j, hj⟩ : ∃ j, w * n = j + 1 := ⟨w * n - 1, by omega⟩
  rw [M_eq_two_pow, hj, Nat.pow_succ]; omega

/-- the unsigned `Sub` operator does not overflow when `b ≤ a` -/
theorem opSub_unsigned {dbg : Bool} {m a b : Nat} (hb : b ≤ a) (ha : a < m) :
    opSub false dbg m a b = .ok (a - b) := by
  have : ¬ a < b := by omega
  simp only [opSub, wrappingSub, this, decide_false, Bool.and_false, Bool.false_eq_true, if_false]
  rw [show a + m - b = (a - b) + m by omega, Nat.add_mod_right, Nat.mod_eq_of_lt (by omega)]

/-- `(MAX - range + 1) % range` : never panics, equals `m mod range` -/
theorem intsToReject_eq {dbg : Bool} {m range : Nat} (hr : range ≠ 0) (hrm : range < m) :
    intsToReject dbg m range = .ok (m % range) := by
  unfold intsToReject
  rw [opSub_unsigned (by omega) (by omega)]
  simp only [Outcome.ok_bind', opRem, if_neg hr, addDigit]
  have e1 : (m - 1 - range + 1) % m = m - range := by
    rw [show m - 1 - range + 1 = m - range by omega]; exact Nat.mod_eq_of_lt (by omega)
  rw [e1, Nat.mod_eq_sub_mod (a := m) (by omega)]

theorem mod_lt_of_lt {m range : Nat} (hr : range ≠ 0) (hrm : range < m) : m % range ≤ m - 1 := by
  have := Nat.mod_lt m (Nat.pos_of_ne_zero hr); omega

/-- facts about the exact zone -/
theorem zoneExact_spec {m range : Nat} (hr : range ≠ 0) (hrm : range < m) :
    zoneExact m range < m ∧ range ∣ zoneExact m range + 1 ∧ range ≤ zoneExact m range + 1 := by
  have h1 := Nat.mod_lt m (Nat.pos_of_ne_zero hr)
  have h2 := Nat.div_add_mod m range
  have h3 : 1 ≤ m / range := Nat.div_pos (by omega) (Nat.pos_of_ne_zero hr)
  have h4 : range * 1 ≤ range * (m / range) := Nat.mul_le_mul_left _ h3
  have e : zoneExact m range + 1 = range * (m / range) := by unfold zoneExact; omega
  refine ⟨by unfold zoneExact; omega, ?_, ?_⟩
  · rw [e]; exact Nat.dvd_mul_right _ _
  · rw [e]; omega

/-- facts about the power-of-two zone -/
theorem zonePow2_spec {W range : Nat} (hr : range ≠ 0) (hrm : range < 2 ^ W) :
    range * 2 ^ (W - bitLen W range) < 2 ^ W ∧ 2 ^ W ≤ 2 * (range * 2 ^ (W - bitLen W range)) ∧
    W - bitLen W range < W ∧ 1 ≤ range * 2 ^ (W - bitLen W range) := by
  obtain ⟨a, b, c, d⟩ := bitLen_spec hrm hr
  have hp : 2 ^ bitLen W range * 2 ^ (W - bitLen W range) = 2 ^ W := by
    rw [← Nat.pow_add]; congr 1; omega
  have hpos : 0 < 2 ^ (W - bitLen W range) := Nat.pow_pos (by decide)
  refine ⟨?_, ?_, by omega, Nat.mul_pos (Nat.pos_of_ne_zero hr) hpos⟩
  · rw [← hp]; exact Nat.mul_lt_mul_of_pos_right a hpos
  · rw [← hp, ← Nat.mul_assoc]; exact Nat.mul_le_mul_right _ b

theorem zonePow2_facts {W range : Nat} (hr : range ≠ 0) (hrm : range < 2 ^ W) :
    zonePow2 W range < 2 ^ W ∧ range ∣ zonePow2 W range + 1 ∧ range ≤ zonePow2 W range + 1 := by
  obtain ⟨a, _, _, d⟩ := zonePow2_spec hr hrm
  have hpos : 0 < 2 ^ (W - bitLen W range) := Nat.pow_pos (by decide)
  have e : zonePow2 W range + 1 = range * 2 ^ (W - bitLen W range) := by unfold zonePow2; omega
  refine ⟨by unfold zonePow2; omega, ?_, ?_⟩
  · rw [e]; exact Nat.dvd_mul_right _ _
  · rw [e]; exact Nat.le_mul_of_pos_right _ hpos

theorem zoneSingle_facts {W range : Nat} (hr : range ≠ 0) (hrm : range < 2 ^ W) :
    zoneSingle W range < 2 ^ W ∧ range ∣ zoneSingle W range + 1 ∧ range ≤ zoneSingle W range + 1 := by
  unfold zoneSingle; split
  · exact zoneExact_spec hr hrm
  · exact zonePow2_facts hr hrm

/-- the zone of `sample_single_inclusive`: no panic, closed form -/
theorem singleZone_eq {dbg : Bool} {W range : Nat} (hr : range ≠ 0) (hrm : range < 2 ^ W) :
    singleZone dbg W (2 ^ W) range = .ok (zoneSingle W range) := by
  have hm : 0 < 2 ^ W := Nat.pow_pos (by decide)
  unfold singleZone zoneSingle
  rw [bitLen_max]
  split
  · rw [intsToReject_eq hr hrm]
    simp only [Outcome.ok_bind']
    rw [opSub_unsigned (mod_lt_of_lt hr hrm) (by omega)]; rfl
  obtain ⟨a, _, c, d⟩ := zonePow2_spec hr hrm
  have : ¬ W ≤ W - bitLen W range := by omega
  simp only [opShl, leadingZeros, this, decide_false, Bool.and_false, Bool.false_eq_true, if_false,
    Outcome.ok_bind', Outcome.pure_eq', Nat.mod_eq_of_lt c, Nat.mod_eq_of_lt a, wrappingSub, zonePow2]
  congr 1
  generalize range * 2 ^ (W - bitLen W range) = sh at *
  rw [show sh + 2 ^ W - 1 = (sh - 1) + 2 ^ W by omega, Nat.add_mod_right, Nat.mod_eq_of_lt (by omega)]

theorem rangeOf_lt {m low high : Nat} (hm : 0 < m) : rangeOf m low high < m := Nat.mod_lt _ hm


@[simp] theorem Outcome.bind_ok {α β} (a : α) (f : α → Outcome β) : (Outcome.ok a).bind f = f a := rfl
@[simp] theorem Outcome.bind_panic {α β} (f : α → Outcome β) : (Outcome.panic).bind f = .panic := rfl

theorem val_lt_iff {signed : Bool} {m a b : Nat} : lt signed m a b = true ↔ val signed m a < val signed m b := by
  cases signed <;> simp [lt, val]
theorem val_le_iff {signed : Bool} {m a b : Nat} : le signed m a b = true ↔ val signed m a ≤ val signed m b := by
  cases signed <;> simp [le, val]

/-- closed form of `new_inclusive`: never panics on a non-empty range -/
theorem newInclusive_eq {signed dbg : Bool} {w n low high : Nat} (hW : 1 ≤ w * n)
    (hle : le signed (M w n) low high = true) :
    newInclusive signed dbg w n low high = .ok
      { low := low, range := rangeOf (M w n) low high,
        z := if rangeOf (M w n) low high ≠ 0 then M w n % rangeOf (M w n) low high else 0 } := by
  have hm := M_ge_two hW
  have hr := rangeOf_lt (low := low) (high := high) (show 0 < M w n by omega)
  unfold newInclusive
  simp only [hle, Bool.not_true, Bool.false_eq_true, if_false]
  by_cases h0 : rangeOf (M w n) low high = 0
  · simp [h0]
  · simp only [ne_eq, h0, not_false_eq_true, if_true]
    rw [intsToReject_eq h0 hr]; rfl

theorem newInclusive_panic {signed dbg : Bool} {w n low high : Nat}
    (hle : le signed (M w n) low high = false) : newInclusive signed dbg w n low high = .panic := by
  simp [newInclusive, hle]

/-- closed form of `sample` on a sampler built by `new_inclusive` -/
theorem sample_eq {dbg : Bool} {w n low range : Nat} {s : Stream} (hW : 1 ≤ w * n)
    (hr : range < M w n) :
    sample dbg w n { low := low, range := range, z := if range ≠ 0 then M w n % range else 0 } s =
      .ok (if range = 0 then genVal w n s
           else rejectLoop w n low range (zoneExact (M w n) range) (s.length + 1) s) := by
  have hm := M_ge_two hW
  unfold sample
  by_cases h0 : range = 0
  · simp [h0]
  · simp only [ne_eq, h0, not_false_eq_true, if_true, if_false]
    rw [opSub_unsigned (mod_lt_of_lt h0 hr) (by omega)]
    rfl

/-- closed form of `sample_single_inclusive`: never panics on a non-empty range -/
theorem sampleSingleInclusive_eq {signed dbg : Bool} {w n low high : Nat} {s : Stream}
    (hW : 1 ≤ w * n) (hle : le signed (M w n) low high = true) :
    sampleSingleInclusive signed dbg w n low high s =
      .ok (if rangeOf (M w n) low high = 0 then genVal w n s
           else rejectLoop w n low (rangeOf (M w n) low high)
                  (zoneSingle (w * n) (rangeOf (M w n) low high)) (s.length + 1) s) := by
  have hm := M_ge_two hW
  have hr := rangeOf_lt (low := low) (high := high) (show 0 < M w n by omega)
  unfold sampleSingleInclusive
  simp only [hle, Bool.not_true, Bool.false_eq_true, if_false]
  by_cases h0 : rangeOf (M w n) low high = 0
  · simp [h0]
  · simp only [h0, if_false]
    rw [M_eq_two_pow] at hr h0 ⊢
    rw [singleZone_eq h0 hr]; rfl

theorem sampleSingleInclusive_panic {signed dbg : Bool} {w n low high : Nat} {s : Stream}
    (hle : le signed (M w n) low high = false) :
    sampleSingleInclusive signed dbg w n low high s = .panic := by
  simp [sampleSingleInclusive, hle]

/-- `high - ONE` after `assert!(low < high)`: no overflow in either build mode; its value is
    `high - 1` and the inclusive range `[low, high-1]` is non-empty -/
theorem subOne_eq {signed dbg : Bool} {m low high : Nat} (hm : m = 2 * (m / 2)) (hm2 : 4 ≤ m)
    (hl : low < m) (hh : high < m) (hlt : lt signed m low high = true) :
    opSub signed dbg m high 1 = .ok (wrappingSub m high 1) ∧ wrappingSub m high 1 < m ∧
    val signed m (wrappingSub m high 1) = val signed m high - 1 ∧
    le signed m low (wrappingSub m high 1) = true := by
  rw [val_lt_iff] at hlt
  rw [val_le_iff]
  have hws : wrappingSub m high 1 = if high = 0 then m - 1 else high - 1 := by
    unfold wrappingSub; rw [mod_ite (by omega)]; split_ifs <;> omega
  cases signed
  · simp only [val, Bool.false_eq_true, if_false] at *
    have h1 : ¬ high < 1 := by omega
    have h2 : high ≠ 0 := by omega
    rw [hws, if_neg h2]
    refine ⟨?_, by omega, by omega, by omega⟩
    simp only [opSub, Bool.false_eq_true, if_false, h1, decide_false, Bool.and_false, hws, if_neg h2]
  · simp only [val, if_true] at *
    have h1 : toInt m 1 = 1 := by unfold toInt; split_ifs <;> omega
    have hrep : repS m (toInt m high - toInt m 1) := by
      rw [h1]; unfold repS toInt at *; split_ifs at * <;> omega
    refine ⟨?_, ?_, ?_, ?_⟩
    · simp only [opSub, if_true, hrep, not_true_eq_false, decide_false, Bool.and_false,
        Bool.false_eq_true, if_false]
    · rw [hws]; split_ifs <;> omega
    · rw [hws]; unfold toInt at *; split_ifs at * <;> omega
    · rw [hws]; unfold toInt at *; split_ifs at * <;> omega


/-- the arithmetic of an accepted draw: with `range = high - low + 1 ≠ 0 (mod m)` and `hi < range`,
    `low.wrapping_add(hi)` has value `low + hi`, which lies in `[low, high]` -/
theorem offset_in_range {signed : Bool} {m low high hi : Nat} (hm : m = 2 * (m / 2)) (hm2 : 2 ≤ m)
    (hl : low < m) (hh : high < m) (hle : val signed m low ≤ val signed m high)
    (h0 : rangeOf m low high ≠ 0) (hhi : hi < rangeOf m low high) :
    (rangeOf m low high : Int) = val signed m high - val signed m low + 1 ∧
    wrappingAdd m low hi < m ∧
    val signed m (wrappingAdd m low hi) = val signed m low + hi := by
  unfold rangeOf wrappingAdd wrappingSub at *
  rw [mod_ite (x := high + m - low) (by omega)] at *
  rw [mod_ite (x := _ + 1) (by split_ifs <;> omega)] at *
  rw [mod_ite (x := low + hi) (by split_ifs at hhi <;> omega)]
  cases signed
  · simp only [val, Bool.false_eq_true, if_false] at *
    split_ifs at * <;> omega
  · simp only [val, if_true] at *
    unfold toInt at *
    split_ifs at * <;> omega

/-- the full range: `range` wraps to `0` exactly when `[low, high]` is everything -/
theorem full_range {signed : Bool} {m low high x : Nat} (hm : m = 2 * (m / 2))
    (hl : low < m) (hh : high < m) (hle : val signed m low ≤ val signed m high)
    (h0 : rangeOf m low high = 0) (hx : x < m) :
    val signed m low ≤ val signed m x ∧ val signed m x ≤ val signed m high := by
  unfold rangeOf wrappingAdd wrappingSub at *
  rw [mod_ite (x := high + m - low) (by omega)] at *
  rw [mod_ite (x := _ + 1) (by split_ifs <;> omega)] at *
  cases signed
  · simp only [val, Bool.false_eq_true, if_false] at *
    split_ifs at * <;> omega
  · simp only [val, if_true] at *
    unfold toInt at *
    split_ifs at * <;> omega


theorem genVal_rest {k n : Nat} {s rest : Stream} {v : Nat}
    (h : genVal (8 * k) n s = some (v, rest)) : rest = s.drop (n * k) ∧ n * k ≤ s.length := by
  by_cases hl : n * k ≤ s.length
  · rw [genVal_eq hl] at h
    simp only [Option.some.injEq, Prod.mk.injEq] at h
    exact ⟨h.2.symm, hl⟩
  · rw [genVal_none (by omega)] at h; cases h

theorem rejectLoop_succ (w n low range zone fuel : Nat) (s : Stream) :
    rejectLoop w n low range zone (fuel + 1) s =
      match genVal w n s with
      | none => none
      | some (v, rest) =>
        if (v * range) % M w n ≤ zone then some (wrappingAdd (M w n) low ((v * range) / M w n), rest)
        else rejectLoop w n low range zone fuel rest := rfl

/-- what an accepted draw is: some word `v` of the stream with low part inside the zone, mapped to
    `low + ⌊v·range/m⌋`; whole words were consumed -/
theorem rejectLoop_some {k n low range zone fuel : Nat} {s rest : Stream} {x : Nat} (hok : StreamOK s)
    (h : rejectLoop (8 * k) n low range zone fuel s = some (x, rest)) :
    ∃ v j, v < M (8 * k) n ∧ (v * range) % M (8 * k) n ≤ zone ∧
      x = wrappingAdd (M (8 * k) n) low ((v * range) / M (8 * k) n) ∧
      1 ≤ j ∧ j * (n * k) ≤ s.length ∧ rest = s.drop (j * (n * k)) ∧
      v = leValue ((s.drop ((j - 1) * (n * k))).take (n * k)) := by
  induction fuel generalizing s with
  | zero => cases h
  | succ fuel ih =>
    rw [rejectLoop_succ] at h
    cases hg : genVal (8 * k) n s with
    | none => rw [hg] at h; cases h
    | some p =>
      obtain ⟨v, r⟩ := p
      rw [hg] at h
      obtain ⟨hv, hr, hlen⟩ := genVal_lt hok hg
      simp only at h
      by_cases hz : (v * range) % M (8 * k) n ≤ zone
      · rw [if_pos hz] at h
        simp only [Option.some.injEq, Prod.mk.injEq] at h
        refine ⟨v, 1, hv, hz, h.1.symm, Nat.le_refl 1, by omega, by rw [← h.2, hr, Nat.one_mul], ?_⟩
        rw [genVal_eq hlen] at hg
        simp only [Option.some.injEq, Prod.mk.injEq] at hg
        simp [← hg.1]
      · rw [if_neg hz] at h
        obtain ⟨v', j, a, b, c, d, e, f, g⟩ := ih (hr ▸ hok.drop _) h
        subst hr
        rw [List.length_drop] at e
        refine ⟨v', j + 1, a, b, c, by omega, by rw [Nat.succ_mul]; omega, ?_, ?_⟩
        · rw [f, List.drop_drop, Nat.succ_mul]; congr 1; omega
        · rw [g, List.drop_drop]; congr 3
          obtain ⟨i, rfl⟩ : ∃ i, j = i + 1 := ⟨j - 1, by omega⟩
          simp only [Nat.add_sub_cancel, Nat.succ_mul]; omega

/-- the fuel `stream length + 1` is never what ends the loop: more fuel changes nothing -/
theorem rejectLoop_fuel {k n low range zone fuel : Nat} {s : Stream} (hnk : 1 ≤ n * k)
    (hf : s.length < fuel) :
    rejectLoop (8 * k) n low range zone (fuel + 1) s = rejectLoop (8 * k) n low range zone fuel s := by
  induction fuel generalizing s with
  | zero => omega
  | succ fuel ih =>
    rw [rejectLoop_succ, rejectLoop_succ (fuel := fuel)]
    cases hg : genVal (8 * k) n s with
    | none => rfl
    | some p =>
      obtain ⟨v, r⟩ := p
      obtain ⟨hr, hlen⟩ := genVal_rest hg
      simp only
      split
      · rfl
      · apply ih; rw [hr, List.length_drop]; omega

theorem rejectLoop_fuel_ge {k n low range zone fuel : Nat} {s : Stream} (hnk : 1 ≤ n * k)
    (hf : s.length + 1 ≤ fuel) :
    rejectLoop (8 * k) n low range zone fuel s =
      rejectLoop (8 * k) n low range zone (s.length + 1) s := by
  induction fuel with
  | zero => omega
  | succ fuel ih =>
    by_cases h : s.length + 1 ≤ fuel
    · rw [rejectLoop_fuel hnk (by omega), ih h]
    · have : fuel = s.length := by omega
      rw [this]

theorem hi_lt_range {m range v : Nat} (hr : range ≠ 0) (hv : v < m) : v * range / m < range := by
  have hm : 0 < m := by omega
  rw [Nat.div_lt_iff_lt_mul hm]
  exact Nat.mul_comm range m ▸ Nat.mul_lt_mul_of_pos_right hv (Nat.pos_of_ne_zero hr)

/-- every value returned by the rejection loop for `[low, high]` lies in `[low, high]` -/
theorem rejectLoop_in_range {signed : Bool} {k n low high zone fuel : Nat} {s rest : Stream} {x : Nat}
    (hW : 1 ≤ 8 * k * n) (hok : StreamOK s)
    (hl : low < M (8 * k) n) (hh : high < M (8 * k) n)
    (hle : val signed (M (8 * k) n) low ≤ val signed (M (8 * k) n) high)
    (h0 : rangeOf (M (8 * k) n) low high ≠ 0)
    (h : rejectLoop (8 * k) n low (rangeOf (M (8 * k) n) low high) zone fuel s = some (x, rest)) :
    x < M (8 * k) n ∧ val signed (M (8 * k) n) low ≤ val signed (M (8 * k) n) x ∧
      val signed (M (8 * k) n) x ≤ val signed (M (8 * k) n) high := by
  obtain ⟨v, j, hv, _, hx, _⟩ := rejectLoop_some hok h
  have hhi := hi_lt_range h0 hv
  obtain ⟨a, b, c⟩ := offset_in_range (M_even' hW) (M_ge_two hW) hl hh hle h0 hhi
  rw [← hx] at b c
  generalize v * rangeOf (M (8 * k) n) low high / M (8 * k) n = hi at *
  refine ⟨b, by omega, by omega⟩


/-- membership in the inclusive range, on values -/
def InRange (signed : Bool) (m low high x : Nat) : Prop :=
  val signed m low ≤ val signed m x ∧ val signed m x ≤ val signed m high

theorem le_cases (signed : Bool) (m a b : Nat) : le signed m a b = true ∨ le signed m a b = false := by
  cases le signed m a b <;> simp
theorem lt_cases (signed : Bool) (m a b : Nat) : lt signed m a b = true ∨ lt signed m a b = false := by
  cases lt signed m a b <;> simp

/-- a draw (full range or rejection loop with any zone) for `[low, high]` is in `[low, high]` -/
theorem draw_in_range {signed : Bool} {k n low high zone : Nat} {s rest : Stream} {x : Nat}
    (hW : 1 ≤ 8 * k * n) (hok : StreamOK s)
    (hl : low < M (8 * k) n) (hh : high < M (8 * k) n)
    (hle : le signed (M (8 * k) n) low high = true)
    (h : (if rangeOf (M (8 * k) n) low high = 0 then genVal (8 * k) n s
          else rejectLoop (8 * k) n low (rangeOf (M (8 * k) n) low high) zone (s.length + 1) s)
        = some (x, rest)) :
    x < M (8 * k) n ∧ InRange signed (M (8 * k) n) low high x := by
  rw [val_le_iff] at hle
  by_cases h0 : rangeOf (M (8 * k) n) low high = 0
  · rw [if_pos h0] at h
    obtain ⟨hx, _⟩ := genVal_lt hok h
    exact ⟨hx, full_range (M_even' hW) hl hh hle h0 hx⟩
  · rw [if_neg h0] at h
    exact rejectLoop_in_range hW hok hl hh hle h0 h

theorem sampleSingleInclusive_in_range {signed dbg : Bool} {k n low high : Nat} {s rest : Stream}
    {x : Nat} (hW : 1 ≤ 8 * k * n) (hok : StreamOK s)
    (hl : low < M (8 * k) n) (hh : high < M (8 * k) n)
    (h : sampleSingleInclusive signed dbg (8 * k) n low high s = .ok (some (x, rest))) :
    x < M (8 * k) n ∧ InRange signed (M (8 * k) n) low high x := by
  rcases le_cases signed (M (8 * k) n) low high with hle | hle
  · rw [sampleSingleInclusive_eq hW hle] at h
    exact draw_in_range hW hok hl hh hle (Outcome.ok.inj h)
  · rw [sampleSingleInclusive_panic hle] at h; cases h

theorem uniformNewInclusiveSample_eq {signed dbg : Bool} {w n low high : Nat} {s : Stream}
    (hW : 1 ≤ w * n) (hle : le signed (M w n) low high = true) :
    uniformNewInclusiveSample signed dbg w n low high s =
      .ok (if rangeOf (M w n) low high = 0 then genVal w n s
           else rejectLoop w n low (rangeOf (M w n) low high)
                  (zoneExact (M w n) (rangeOf (M w n) low high)) (s.length + 1) s) := by
  unfold uniformNewInclusiveSample
  rw [newInclusive_eq hW hle, Outcome.bind_ok,
    sample_eq hW (rangeOf_lt (by have := M_ge_two hW; omega))]

theorem uniformNewInclusiveSample_in_range {signed dbg : Bool} {k n low high : Nat} {s rest : Stream}
    {x : Nat} (hW : 1 ≤ 8 * k * n) (hok : StreamOK s)
    (hl : low < M (8 * k) n) (hh : high < M (8 * k) n)
    (h : uniformNewInclusiveSample signed dbg (8 * k) n low high s = .ok (some (x, rest))) :
    x < M (8 * k) n ∧ InRange signed (M (8 * k) n) low high x := by
  rcases le_cases signed (M (8 * k) n) low high with hle | hle
  · rw [uniformNewInclusiveSample_eq hW hle] at h
    exact draw_in_range hW hok hl hh hle (Outcome.ok.inj h)
  · rw [uniformNewInclusiveSample, newInclusive_panic hle] at h; cases h

/-- `sample_single(low, high)` = `sample_single_inclusive(low, high - 1)`, no overflow in `high - 1` -/
theorem sampleSingle_eq {signed dbg : Bool} {w n low high : Nat} {s : Stream}
    (hW : 2 ≤ w * n) (hl : low < M w n) (hh : high < M w n)
    (hlt : lt signed (M w n) low high = true) :
    sampleSingle signed dbg w n low high s =
      sampleSingleInclusive signed dbg w n low (wrappingSub (M w n) high 1) s := by
  have h4 : 4 ≤ M w n := by
    have := Nat.pow_le_pow_right (n := 2) (by decide) hW; simpa [M] using this
  obtain ⟨a, _⟩ := subOne_eq (dbg := dbg) (M_even' (by omega)) h4 hl hh hlt
  unfold sampleSingle
  simp only [hlt, Bool.not_true, Bool.false_eq_true, if_false]
  rw [a]; rfl

theorem new_eq {signed dbg : Bool} {w n low high : Nat}
    (hW : 2 ≤ w * n) (hl : low < M w n) (hh : high < M w n)
    (hlt : lt signed (M w n) low high = true) :
    new signed dbg w n low high = newInclusive signed dbg w n low (wrappingSub (M w n) high 1) := by
  have h4 : 4 ≤ M w n := by
    have := Nat.pow_le_pow_right (n := 2) (by decide) hW; simpa [M] using this
  obtain ⟨a, _⟩ := subOne_eq (dbg := dbg) (M_even' (by omega)) h4 hl hh hlt
  unfold new
  simp only [hlt, Bool.not_true, Bool.false_eq_true, if_false]
  rw [a]; rfl

theorem sampleSingle_panic {signed dbg : Bool} {w n low high : Nat} {s : Stream}
    (hlt : lt signed (M w n) low high = false) : sampleSingle signed dbg w n low high s = .panic := by
  simp [sampleSingle, hlt]
theorem new_panic {signed dbg : Bool} {w n low high : Nat}
    (hlt : lt signed (M w n) low high = false) : new signed dbg w n low high = .panic := by
  simp [new, hlt]

/-- membership in the half-open range -/
def InRangeExcl (signed : Bool) (m low high x : Nat) : Prop :=
  val signed m low ≤ val signed m x ∧ val signed m x < val signed m high

theorem sampleSingle_in_range {signed dbg : Bool} {k n low high : Nat} {s rest : Stream}
    {x : Nat} (hW : 2 ≤ 8 * k * n) (hok : StreamOK s)
    (hl : low < M (8 * k) n) (hh : high < M (8 * k) n)
    (h : sampleSingle signed dbg (8 * k) n low high s = .ok (some (x, rest))) :
    x < M (8 * k) n ∧ InRangeExcl signed (M (8 * k) n) low high x := by
  rcases lt_cases signed (M (8 * k) n) low high with hlt | hlt
  · have h4 : 4 ≤ M (8 * k) n := by
      have := Nat.pow_le_pow_right (n := 2) (by decide) hW; simpa [M] using this
    obtain ⟨_, b, c, d⟩ := subOne_eq (dbg := dbg) (M_even' (by omega)) h4 hl hh hlt
    rw [sampleSingle_eq hW hl hh hlt] at h
    obtain ⟨hx, h1, h2⟩ := sampleSingleInclusive_in_range (by omega) hok hl b h
    exact ⟨hx, h1, by omega⟩
  · rw [sampleSingle_panic hlt] at h; cases h

theorem uniformNewSample_in_range {signed dbg : Bool} {k n low high : Nat} {s rest : Stream}
    {x : Nat} (hW : 2 ≤ 8 * k * n) (hok : StreamOK s)
    (hl : low < M (8 * k) n) (hh : high < M (8 * k) n)
    (h : uniformNewSample signed dbg (8 * k) n low high s = .ok (some (x, rest))) :
    x < M (8 * k) n ∧ InRangeExcl signed (M (8 * k) n) low high x := by
  rcases lt_cases signed (M (8 * k) n) low high with hlt | hlt
  · have h4 : 4 ≤ M (8 * k) n := by
      have := Nat.pow_le_pow_right (n := 2) (by decide) hW; simpa [M] using this
    obtain ⟨_, b, c, d⟩ := subOne_eq (dbg := dbg) (M_even' (by omega)) h4 hl hh hlt
    have h' : uniformNewInclusiveSample signed dbg (8 * k) n low (wrappingSub (M (8 * k) n) high 1) s
        = .ok (some (x, rest)) := by
      rw [← h, uniformNewSample, uniformNewInclusiveSample, new_eq hW hl hh hlt]
    obtain ⟨hx, h1, h2⟩ := uniformNewInclusiveSample_in_range (by omega) hok hl b h'
    exact ⟨hx, h1, by omega⟩
  · rw [uniformNewSample, new_panic hlt] at h; cases h

/-- panics exactly on the empty range (both build modes) -/
theorem sampleSingleInclusive_panic_iff {signed dbg : Bool} {w n low high : Nat} {s : Stream}
    (hW : 1 ≤ w * n) :
    sampleSingleInclusive signed dbg w n low high s = .panic ↔ le signed (M w n) low high = false := by
  rcases le_cases signed (M w n) low high with hle | hle
  · rw [sampleSingleInclusive_eq hW hle, hle]; simp
  · rw [sampleSingleInclusive_panic hle, hle]; simp

theorem sampleSingle_panic_iff {signed dbg : Bool} {w n low high : Nat} {s : Stream}
    (hW : 2 ≤ w * n) (hl : low < M w n) (hh : high < M w n) :
    sampleSingle signed dbg w n low high s = .panic ↔ lt signed (M w n) low high = false := by
  rcases lt_cases signed (M w n) low high with hlt | hlt
  · have h4 : 4 ≤ M w n := by
      have := Nat.pow_le_pow_right (n := 2) (by decide) hW; simpa [M] using this
    obtain ⟨_, b, c, d⟩ := subOne_eq (dbg := dbg) (M_even' (by omega)) h4 hl hh hlt
    rw [sampleSingle_eq hW hl hh hlt, sampleSingleInclusive_eq (by omega) d, hlt]; simp
  · rw [sampleSingle_panic hlt, hlt]; simp


theorem val_inj {signed : Bool} {m a b : Nat} (ha : a < m) (hb : b < m)
    (h : val signed m a = val signed m b) : a = b := by
  cases signed
  · simpa [val] using h
  · simp only [val, if_true] at h; unfold toInt at h; split_ifs at h <;> omega

/-- NUMBER OF PREIMAGES OF A VALUE.  For a non-full range `[low, high]`, a zone with
    `range ∣ zone + 1`, `zone < m`: every `x ∈ [low, high]` is the image
    `low.wrapping_add(⌊v·range/m⌋)` of exactly `(zone+1)/range` accepted words `v < m`. -/
theorem preimage_count {signed : Bool} {m low high zone x : Nat} (hm : m = 2 * (m / 2)) (hm2 : 2 ≤ m)
    (hl : low < m) (hh : high < m) (hle : val signed m low ≤ val signed m high)
    (h0 : rangeOf m low high ≠ 0) (hz : zone < m) (hdvd : rangeOf m low high ∣ zone + 1)
    (hx : x < m) (hin : InRange signed m low high x) :
    countBelow (fun v => decide ((v * rangeOf m low high) % m ≤ zone ∧
        wrappingAdd m low ((v * rangeOf m low high) / m) = x)) m = (zone + 1) / rangeOf m low high := by
  obtain ⟨y, hy⟩ : ∃ y : Nat, (y : Int) = val signed m x - val signed m low :=
    ⟨(val signed m x - val signed m low).toNat, by have := hin.1; omega⟩
  have hr0 := (offset_in_range (hi := 0) hm hm2 hl hh hle h0 (Nat.pos_of_ne_zero h0)).1
  have hyr : y < rangeOf m low high := by have := hin.2; omega
  rw [← accept_count (m := m) (Nat.pos_of_ne_zero h0) hz hdvd hyr]
  apply countBelow_congr
  intro v hv
  have hhi := hi_lt_range h0 hv
  obtain ⟨_, b, c⟩ := offset_in_range hm hm2 hl hh hle h0 hhi
  generalize v * rangeOf m low high / m = hi at *
  have : wrappingAdd m low hi = x ↔ hi = y := by
    constructor
    · intro h; rw [h] at c; omega
    · intro h; exact val_inj b hx (by rw [c, h]; omega)
  simp only [this]

theorem genVal_append {k n : Nat} {b t : Stream} (hb : b.length = n * k) :
    genVal (8 * k) n (b ++ t) = some (leValue b, t) := by
  rw [genVal_eq (by rw [List.length_append]; omega), ← hb, List.take_left', List.drop_left'] <;> rfl

/-- one step of the rejection loop on a stream that starts with the word `b` -/
theorem rejectLoop_word {k n low range zone fuel : Nat} {b t : Stream} (hb : b.length = n * k) :
    rejectLoop (8 * k) n low range zone (fuel + 1) (b ++ t) =
      if (leValue b * range) % M (8 * k) n ≤ zone
      then some (wrappingAdd (M (8 * k) n) low ((leValue b * range) / M (8 * k) n), t)
      else rejectLoop (8 * k) n low range zone fuel t := by
  rw [rejectLoop_succ, genVal_append hb]

/-- every accepted word is actually reachable: the one-word stream of `v` returns its image -/
theorem rejectLoop_accepts {k n low range zone fuel v : Nat} (hv : v < M (8 * k) n)
    (hacc : (v * range) % M (8 * k) n ≤ zone) :
    rejectLoop (8 * k) n low range zone (fuel + 1) (ofNat 8 (n * k) v) =
      some (wrappingAdd (M (8 * k) n) low ((v * range) / M (8 * k) n), []) := by
  have hl : (ofNat 8 (n * k) v).length = n * k := ofNat_length _ _ _
  have hv' : v < 256 ^ (n * k) := by
    rw [M_eq_pow, B_eq_256, ← Nat.pow_mul, Nat.mul_comm k n] at hv; exact hv
  have := rejectLoop_word (low := low) (range := range) (zone := zone) (fuel := fuel) (t := []) hl
  rw [List.append_nil, leValue_ofNat, Nat.mod_eq_of_lt hv', if_pos hacc] at this
  exact this

/-- the build mode is irrelevant -/
theorem sampleSingleInclusive_dbg {signed : Bool} {w n low high : Nat} {s : Stream} (hW : 1 ≤ w * n) :
    sampleSingleInclusive signed true w n low high s = sampleSingleInclusive signed false w n low high s := by
  rcases le_cases signed (M w n) low high with hle | hle
  · rw [sampleSingleInclusive_eq hW hle, sampleSingleInclusive_eq hW hle]
  · rw [sampleSingleInclusive_panic hle, sampleSingleInclusive_panic hle]

theorem sampleSingle_dbg {signed : Bool} {w n low high : Nat} {s : Stream} (hW : 2 ≤ w * n)
    (hl : low < M w n) (hh : high < M w n) :
    sampleSingle signed true w n low high s = sampleSingle signed false w n low high s := by
  rcases lt_cases signed (M w n) low high with hlt | hlt
  · rw [sampleSingle_eq hW hl hh hlt, sampleSingle_eq hW hl hh hlt, sampleSingleInclusive_dbg (by omega)]
  · rw [sampleSingle_panic hlt, sampleSingle_panic hlt]

theorem uniformNewInclusiveSample_dbg {signed : Bool} {w n low high : Nat} {s : Stream} (hW : 1 ≤ w * n) :
    uniformNewInclusiveSample signed true w n low high s =
      uniformNewInclusiveSample signed false w n low high s := by
  rcases le_cases signed (M w n) low high with hle | hle
  · rw [uniformNewInclusiveSample_eq hW hle, uniformNewInclusiveSample_eq hW hle]
  · simp only [uniformNewInclusiveSample, newInclusive_panic hle, Outcome.bind_panic]

theorem uniformNewSample_dbg {signed : Bool} {w n low high : Nat} {s : Stream} (hW : 2 ≤ w * n)
    (hl : low < M w n) (hh : high < M w n) :
    uniformNewSample signed true w n low high s = uniformNewSample signed false w n low high s := by
  rcases lt_cases signed (M w n) low high with hlt | hlt
  · have := uniformNewInclusiveSample_dbg (signed := signed) (w := w) (n := n) (low := low)
      (high := wrappingSub (M w n) high 1) (s := s) (by omega)
    simp only [uniformNewSample, new_eq hW hl hh hlt]
    exact this
  · simp only [uniformNewSample, new_panic hlt, Outcome.bind_panic]


/-! ## Part D — the model computes what `Spec/Random.lean` says -/

theorem spec_leVal (bs : List Nat) : Spec.Random.leVal bs = leValue bs := by
  induction bs with
  | nil => rfl
  | cons b bs ih => simp only [Spec.Random.leVal, List.foldr, leValue] at *; rw [ih]

theorem spec_words_lt {k fuel : Nat} {s : Stream} (h : s.length < k) :
    Spec.Random.words k (fuel + 1) s = [] := by
  simp [Spec.Random.words]; omega
theorem spec_words_ge {k fuel : Nat} {s : Stream} (h : k ≤ s.length) :
    Spec.Random.words k (fuel + 1) s =
      leValue (s.take k) :: Spec.Random.words k fuel (s.drop k) := by
  simp [Spec.Random.words, h, spec_leVal]

theorem firstAccepted_shift (m range zone : Nat) (ws : List Nat) (i : Nat) :
    Spec.Random.firstAccepted m range zone ws i =
      (Spec.Random.firstAccepted m range zone ws 0).map (fun p => (p.1, p.2 + i)) := by
  induction ws generalizing i with
  | nil => rfl
  | cons v vs ih =>
    simp only [Spec.Random.firstAccepted]
    split
    · simp [Nat.add_comm]
    · rw [ih (i + 1), ih (0 + 1)]
      cases Spec.Random.firstAccepted m range zone vs 0 <;> simp [Nat.add_comm, Nat.add_left_comm]

/-- the rejection loop = "first accepted word" of the Spec -/
theorem rejectLoop_eq_spec {k n low range zone fuel : Nat} {s : Stream} :
    rejectLoop (8 * k) n low range zone fuel s =
      (Spec.Random.firstAccepted (M (8 * k) n) range zone (Spec.Random.words (n * k) fuel s) 0).map
        (fun p => (wrappingAdd (M (8 * k) n) low p.1, s.drop (p.2 * (n * k)))) := by
  induction fuel generalizing s with
  | zero => rfl
  | succ fuel ih =>
    rw [rejectLoop_succ]
    by_cases hl : n * k ≤ s.length
    · rw [genVal_eq hl, spec_words_ge hl]
      simp only [Spec.Random.firstAccepted]
      split
      · simp
      · rw [ih, firstAccepted_shift _ _ _ _ (0 + 1)]
        cases Spec.Random.firstAccepted (M (8 * k) n) range zone
          (Spec.Random.words (n * k) fuel (List.drop (n * k) s)) 0 with
        | none => rfl
        | some p => simp [List.drop_drop, Nat.succ_mul, Nat.add_comm]
    · rw [genVal_none (by omega), spec_words_lt (by omega)]; rfl

theorem spec_words_length (k fuel : Nat) (s : Stream) :
    (Spec.Random.words k fuel s).length * k ≤ s.length := by
  induction fuel generalizing s with
  | zero => simp [Spec.Random.words]
  | succ fuel ih =>
    by_cases hl : k ≤ s.length
    · rw [spec_words_ge hl, List.length_cons, Nat.succ_mul]
      have := ih (s.drop k); rw [List.length_drop] at this; omega
    · rw [spec_words_lt (by omega)]; simp

theorem firstAccepted_le {m range zone : Nat} {ws : List Nat} {h c : Nat}
    (hf : Spec.Random.firstAccepted m range zone ws 0 = some (h, c)) :
    1 ≤ c ∧ c ≤ ws.length ∧ ∃ v ∈ ws, (v * range) % m ≤ zone ∧ h = (v * range) / m := by
  induction ws generalizing h c with
  | nil => cases hf
  | cons v vs ih =>
    simp only [Spec.Random.firstAccepted] at hf
    split at hf
    · simp only [Option.some.injEq, Prod.mk.injEq] at hf
      refine ⟨by omega, by simp; omega, v, by simp, ‹_›, hf.1.symm⟩
    · rw [firstAccepted_shift] at hf
      cases hf' : Spec.Random.firstAccepted m range zone vs 0 with
      | none => rw [hf'] at hf; cases hf
      | some p =>
        rw [hf'] at hf
        simp only [Option.map_some, Option.some.injEq, Prod.mk.injEq] at hf
        obtain ⟨a, b, v', hv', hacc, hh⟩ := ih (h := p.1) (c := p.2) hf'
        refine ⟨by omega, by simp; omega, v', by simp [hv'], hacc, by rw [← hf.1]; exact hh⟩

theorem spec_words_lt_m {k n fuel : Nat} {s : Stream} (hok : StreamOK s) :
    ∀ v ∈ Spec.Random.words (n * k) fuel s, v < M (8 * k) n := by
  induction fuel generalizing s with
  | zero => intro v hv; cases hv
  | succ fuel ih =>
    intro v hv
    by_cases hl : n * k ≤ s.length
    · rw [spec_words_ge hl, List.mem_cons] at hv
      rcases hv with rfl | hv
      · have := leValue_lt (hok.take (n * k))
        rw [List.length_take, Nat.min_eq_left hl] at this
        rw [M_eq_pow, B_eq_256, ← Nat.pow_mul, Nat.mul_comm k n]; exact this
      · exact ih (hok.drop _) v hv
    · rw [spec_words_lt (by omega)] at hv; cases hv


theorem spec_zoneExact (m range : Nat) : Spec.Random.zoneExact m range = zoneExact m range := by
  unfold Spec.Random.zoneExact zoneExact; omega

theorem normalize_spec (m : Nat) : ∀ (fuel r : Nat), r < m →
    ∃ j, j ≤ fuel ∧ Spec.Random.normalize m fuel r = r * 2 ^ j ∧ r * 2 ^ j < m ∧
      (m ≤ 2 * (r * 2 ^ j) ∨ j = fuel)
  | 0, r, hr => ⟨0, Nat.le_refl 0, by simp [Spec.Random.normalize], by simpa using hr, Or.inr rfl⟩
  | fuel + 1, r, hr => by
    rw [Spec.Random.normalize]
    split
    · obtain ⟨j, a, b, c, d⟩ := normalize_spec m fuel (2 * r) ‹_›
      refine ⟨j + 1, by omega, ?_, ?_, ?_⟩
      · rw [b, Nat.pow_succ]; ring
      · rw [Nat.pow_succ]; rw [show r * (2 ^ j * 2) = 2 * r * 2 ^ j by ring]; exact c
      · rw [Nat.pow_succ, show r * (2 ^ j * 2) = 2 * r * 2 ^ j by ring]; omega
    · exact ⟨0, by omega, by simp, by simpa using hr, Or.inl (by simp; omega)⟩

theorem pow2_window_unique {r m a b : Nat}
    (ha : r * 2 ^ a < m) (ha' : m ≤ 2 * (r * 2 ^ a)) (hb : r * 2 ^ b < m) (hb' : m ≤ 2 * (r * 2 ^ b)) :
    a = b := by
  have key : ∀ {a b : Nat}, a < b → r * 2 ^ a < m → m ≤ 2 * (r * 2 ^ a) → r * 2 ^ b < m → False := by
    intro a b hab h1 h2 h3
    have : 2 ^ (a + 1) ≤ 2 ^ b := Nat.pow_le_pow_right (by decide) hab
    have := Nat.mul_le_mul_left r this
    rw [Nat.pow_succ] at this
    have e : r * (2 ^ a * 2) = 2 * (r * 2 ^ a) := by ring
    omega
  rcases Nat.lt_trichotomy a b with h | h | h
  · exact (key h ha ha' hb).elim
  · exact h
  · exact (key h hb hb' ha).elim

theorem spec_zonePow2 {W range : Nat} (hr : range ≠ 0) (hrm : range < 2 ^ W) :
    Spec.Random.zonePow2 W (2 ^ W) range = zonePow2 W range := by
  obtain ⟨j, a, b, c, d⟩ := normalize_spec (2 ^ W) W range hrm
  obtain ⟨p, q, _, _⟩ := zonePow2_spec hr hrm
  have hd : 2 ^ W ≤ 2 * (range * 2 ^ j) := by
    rcases d with d | d
    · exact d
    · subst d
      have : 1 * 2 ^ j ≤ range * 2 ^ j := Nat.mul_le_mul_right _ (Nat.pos_of_ne_zero hr)
      omega
  have := pow2_window_unique c hd p q
  unfold Spec.Random.zonePow2 zonePow2
  rw [b, this]

theorem spec_zoneSingle {W range : Nat} (hr : range ≠ 0) (hrm : range < 2 ^ W) :
    Spec.Random.zoneSingle W (2 ^ W) range = zoneSingle W range := by
  unfold Spec.Random.zoneSingle zoneSingle
  split
  · exact spec_zoneExact _ _
  · exact spec_zonePow2 hr hrm

/-- `range = 0` happens exactly for the full range -/
theorem rangeSize_full {signed : Bool} {m low high : Nat} (hm : m = 2 * (m / 2))
    (hl : low < m) (hh : high < m) (hle : val signed m low ≤ val signed m high)
    (h0 : rangeOf m low high = 0) :
    Spec.Random.rangeSize (val signed m low) (val signed m high) = m := by
  unfold Spec.Random.rangeSize
  unfold rangeOf wrappingAdd wrappingSub at *
  rw [mod_ite (x := high + m - low) (by omega)] at *
  rw [mod_ite (x := _ + 1) (by split_ifs <;> omega)] at *
  cases signed
  · simp only [val, Bool.false_eq_true, if_false] at *
    split_ifs at * <;> omega
  · simp only [val, if_true] at *
    unfold toInt at *
    split_ifs at * <;> omega

theorem rangeSize_eq {signed : Bool} {m low high : Nat} (hm : m = 2 * (m / 2)) (hm2 : 2 ≤ m)
    (hl : low < m) (hh : high < m) (hle : val signed m low ≤ val signed m high)
    (h0 : rangeOf m low high ≠ 0) :
    Spec.Random.rangeSize (val signed m low) (val signed m high) = rangeOf m low high := by
  have := (offset_in_range (hi := 0) hm hm2 hl hh hle h0 (Nat.pos_of_ne_zero h0)).1
  unfold Spec.Random.rangeSize; omega


/-- a draw as the Spec reports it: (value, number of bytes consumed) -/
def drawView (signed : Bool) (m : Nat) (s : Stream) (d : Draw) : Option (Int × Nat) :=
  d.map (fun p => (val signed m p.1, s.length - p.2.length))

/-- MODEL = SPEC for one draw on `[low, high]` with the zone `zone` -/
theorem draw_eq_spec {signed : Bool} {k n low high zone : Nat} {zone' : Nat → Nat} {s : Stream}
    (hW : 1 ≤ 8 * k * n) (hok : StreamOK s)
    (hl : low < M (8 * k) n) (hh : high < M (8 * k) n)
    (hle : val signed (M (8 * k) n) low ≤ val signed (M (8 * k) n) high)
    (hz : rangeOf (M (8 * k) n) low high ≠ 0 → zone' (rangeOf (M (8 * k) n) low high) = zone) :
    drawView signed (M (8 * k) n) s
      (if rangeOf (M (8 * k) n) low high = 0 then genVal (8 * k) n s
       else rejectLoop (8 * k) n low (rangeOf (M (8 * k) n) low high) zone (s.length + 1) s) =
    Spec.Random.sampleInclusive signed (M (8 * k) n) (n * k) zone'
      (val signed (M (8 * k) n) low) (val signed (M (8 * k) n) high) s := by
  have hm := M_even' hW
  have hm2 := M_ge_two hW
  unfold Spec.Random.sampleInclusive
  by_cases h0 : rangeOf (M (8 * k) n) low high = 0
  · rw [if_pos h0]
    simp only [rangeSize_full hm hl hh hle h0, if_true]
    by_cases hlen : n * k ≤ s.length
    · rw [genVal_eq hlen, spec_words_ge hlen]
      simp only [drawView, Option.map_some, List.length_drop, Spec.Random.wordValue, val]
      congr 3; omega
    · rw [genVal_none (by omega), spec_words_lt (by omega)]; rfl
  · rw [if_neg h0]
    have hne : rangeOf (M (8 * k) n) low high ≠ M (8 * k) n :=
      Nat.ne_of_lt (rangeOf_lt (by omega))
    simp only [rangeSize_eq hm hm2 hl hh hle h0, if_neg hne, hz h0]
    rw [rejectLoop_eq_spec]
    cases hf : Spec.Random.firstAccepted (M (8 * k) n) (rangeOf (M (8 * k) n) low high) zone
      (Spec.Random.words (n * k) (s.length + 1) s) 0 with
    | none => rfl
    | some p =>
      obtain ⟨h, c⟩ := p
      obtain ⟨_, hc, v, hv, _, hh'⟩ := firstAccepted_le hf
      have hvm := spec_words_lt_m (k := k) (n := n) hok v hv
      have hhi := hi_lt_range h0 hvm
      rw [← hh'] at hhi
      obtain ⟨_, _, c3⟩ := offset_in_range hm hm2 hl hh hle h0 hhi
      have hwl := spec_words_length (n * k) (s.length + 1) s
      have : c * (n * k) ≤ s.length :=
        Nat.le_trans (Nat.mul_le_mul_right _ hc) hwl
      simp only [drawView, Option.map_some, List.length_drop, c3]
      congr 3; omega


theorem sampleSingleInclusive_eq_spec {signed dbg : Bool} {k n low high : Nat} {s : Stream}
    (hW : 1 ≤ 8 * k * n) (hok : StreamOK s) (hl : low < M (8 * k) n) (hh : high < M (8 * k) n)
    (hle : val signed (M (8 * k) n) low ≤ val signed (M (8 * k) n) high) :
    ∃ d, sampleSingleInclusive signed dbg (8 * k) n low high s = .ok d ∧
      drawView signed (M (8 * k) n) s d =
        Spec.Random.sampleInclusive signed (M (8 * k) n) (n * k)
          (Spec.Random.zoneSingle (8 * k * n) (M (8 * k) n))
          (val signed (M (8 * k) n) low) (val signed (M (8 * k) n) high) s := by
  refine ⟨_, sampleSingleInclusive_eq hW (val_le_iff.mpr hle), ?_⟩
  apply draw_eq_spec hW hok hl hh hle
  intro h0
  have hr := rangeOf_lt (low := low) (high := high) (M_pos (8 * k) n)
  rw [M_eq_two_pow] at *
  exact spec_zoneSingle h0 hr

theorem uniformNewInclusiveSample_eq_spec {signed dbg : Bool} {k n low high : Nat} {s : Stream}
    (hW : 1 ≤ 8 * k * n) (hok : StreamOK s) (hl : low < M (8 * k) n) (hh : high < M (8 * k) n)
    (hle : val signed (M (8 * k) n) low ≤ val signed (M (8 * k) n) high) :
    ∃ d, uniformNewInclusiveSample signed dbg (8 * k) n low high s = .ok d ∧
      drawView signed (M (8 * k) n) s d =
        Spec.Random.sampleInclusive signed (M (8 * k) n) (n * k)
          (Spec.Random.zoneExact (M (8 * k) n))
          (val signed (M (8 * k) n) low) (val signed (M (8 * k) n) high) s := by
  refine ⟨_, uniformNewInclusiveSample_eq hW (val_le_iff.mpr hle), ?_⟩
  exact draw_eq_spec hW hok hl hh hle (fun _ => spec_zoneExact _ _)

theorem sampleSingle_eq_spec {signed dbg : Bool} {k n low high : Nat} {s : Stream}
    (hW : 2 ≤ 8 * k * n) (hok : StreamOK s) (hl : low < M (8 * k) n) (hh : high < M (8 * k) n)
    (hlt : val signed (M (8 * k) n) low < val signed (M (8 * k) n) high) :
    ∃ d, sampleSingle signed dbg (8 * k) n low high s = .ok d ∧
      drawView signed (M (8 * k) n) s d =
        Spec.Random.sampleInclusive signed (M (8 * k) n) (n * k)
          (Spec.Random.zoneSingle (8 * k * n) (M (8 * k) n))
          (val signed (M (8 * k) n) low) (val signed (M (8 * k) n) high - 1) s := by
  have h4 : 4 ≤ M (8 * k) n := by
    have := Nat.pow_le_pow_right (n := 2) (by decide) hW; simpa [M] using this
  have hlt' := val_lt_iff.mpr hlt
  obtain ⟨_, b, c, d⟩ := subOne_eq (dbg := dbg) (M_even' (by omega)) h4 hl hh hlt'
  rw [sampleSingle_eq hW hl hh hlt', ← c]
  exact sampleSingleInclusive_eq_spec (by omega) hok hl b (val_le_iff.mp d)

theorem uniformNewSample_eq_spec {signed dbg : Bool} {k n low high : Nat} {s : Stream}
    (hW : 2 ≤ 8 * k * n) (hok : StreamOK s) (hl : low < M (8 * k) n) (hh : high < M (8 * k) n)
    (hlt : val signed (M (8 * k) n) low < val signed (M (8 * k) n) high) :
    ∃ d, uniformNewSample signed dbg (8 * k) n low high s = .ok d ∧
      drawView signed (M (8 * k) n) s d =
        Spec.Random.sampleInclusive signed (M (8 * k) n) (n * k)
          (Spec.Random.zoneExact (M (8 * k) n))
          (val signed (M (8 * k) n) low) (val signed (M (8 * k) n) high - 1) s := by
  have h4 : 4 ≤ M (8 * k) n := by
    have := Nat.pow_le_pow_right (n := 2) (by decide) hW; simpa [M] using this
  have hlt' := val_lt_iff.mpr hlt
  obtain ⟨_, b, c, d⟩ := subOne_eq (dbg := dbg) (M_even' (by omega)) h4 hl hh hlt'
  have e : uniformNewSample signed dbg (8 * k) n low high s =
      uniformNewInclusiveSample signed dbg (8 * k) n low (wrappingSub (M (8 * k) n) high 1) s := by
    rw [uniformNewSample, uniformNewInclusiveSample, new_eq hW hl hh hlt']
  rw [e, ← c]
  exact uniformNewInclusiveSample_eq_spec (by omega) hok hl b (val_le_iff.mp d)

/-- `Standard` = the Spec's first word -/
theorem standard_eq_spec {k n : Nat} {s : Stream} :
    (genVal (8 * k) n s).map (fun p => (p.1, s.length - p.2.length)) =
      Spec.Random.standard (n * k) s := by
  unfold Spec.Random.standard
  by_cases hlen : n * k ≤ s.length
  · rw [genVal_eq hlen, spec_words_ge hlen]
    simp only [Option.map_some, List.length_drop]
    congr 2; omega
  · rw [genVal_none (by omega), spec_words_lt (by omega)]; rfl

theorem spec_words_take (k : Nat) : ∀ (len fuel : Nat) (s : Stream), len ≤ fuel →
    (Spec.Random.words k fuel s).take len = Spec.Random.words k len s
  | 0, _, _, _ => by simp [Spec.Random.words]
  | len + 1, 0, _, h => by omega
  | len + 1, fuel + 1, s, h => by
    by_cases hl : k ≤ s.length
    · rw [spec_words_ge hl, spec_words_ge hl, List.take_succ_cons,
        spec_words_take k len fuel _ (by omega)]
    · rw [spec_words_lt (by omega), spec_words_lt (by omega)]; rfl

theorem genMany_spec {k n : Nat} (hnk : 1 ≤ n * k) : ∀ (len : Nat) (s : Stream),
    (len * (n * k) ≤ s.length → ∃ ds, genMany (8 * k) n len s = some (ds, s.drop (len * (n * k))) ∧
        ds.map (U (8 * k)) = Spec.Random.words (n * k) len s ∧
        (Spec.Random.words (n * k) len s).length = len) ∧
    (s.length < len * (n * k) → genMany (8 * k) n len s = none ∧
        (Spec.Random.words (n * k) len s).length < len)
  | 0, s => ⟨fun _ => ⟨[], by simp [genMany], by simp [Spec.Random.words], by simp [Spec.Random.words]⟩,
             fun h => by omega⟩
  | len + 1, s => by
    rw [Nat.succ_mul]
    by_cases hl : n * k ≤ s.length
    · obtain ⟨ih1, ih2⟩ := genMany_spec hnk len (s.drop (n * k))
      rw [List.length_drop] at ih1 ih2
      rw [genMany, gen_eq hl, spec_words_ge hl]
      constructor
      · intro h
        obtain ⟨ds, a, b, c⟩ := ih1 (by omega)
        refine ⟨_ :: ds, by simp only [a, List.drop_drop]; congr 3; omega, ?_, by simp [c]⟩
        rw [List.map_cons, b, U_digitsOfBytes (by rw [List.length_take]; omega), List.take_take,
          Nat.min_self]
      · intro h
        obtain ⟨a, b⟩ := ih2 (by omega)
        exact ⟨by simp only [a], by simp; omega⟩
    · constructor
      · intro h; omega
      · intro _
        rw [genMany, gen_none (by omega), spec_words_lt (by omega)]
        exact ⟨rfl, by simp⟩

/-- slice fill = the Spec's first `len` words -/
theorem fillSlice_eq_spec {k n len : Nat} {s : Stream} (hnk : 1 ≤ n * k) :
    (fillSlice (8 * k) n len s).map (fun p => (p.1.map (U (8 * k)), s.length - p.2.length)) =
      Spec.Random.fill (n * k) len s := by
  rw [fillSlice_eq_genMany]
  unfold Spec.Random.fill
  obtain ⟨h1, h2⟩ := genMany_spec hnk len s
  have hwl := spec_words_length (n * k) len s
  by_cases hl : len * (n * k) ≤ s.length
  · obtain ⟨ds, a, b, c⟩ := h1 hl
    have : len ≤ s.length + 1 := by
      have : len * 1 ≤ len * (n * k) := Nat.mul_le_mul_left _ hnk
      omega
    simp only [spec_words_take _ _ _ _ this, c, if_true, a, Option.map_some, b, List.length_drop]
    congr 3; omega
  · obtain ⟨a, b⟩ := h2 (by omega)
    rw [a]
    simp only [Option.map_none]
    rw [if_neg]
    rw [List.length_take]
    by_cases h : len ≤ s.length + 1
    · have := spec_words_take (n * k) len (s.length + 1) s h
      have e := congrArg List.length this
      rw [List.length_take] at e
      omega
    · have := spec_words_length (n * k) (s.length + 1) s
      have h1 : (Spec.Random.words (n * k) (s.length + 1) s).length * 1 ≤
          (Spec.Random.words (n * k) (s.length + 1) s).length * (n * k) := Nat.mul_le_mul_left _ hnk
      omega


/-- rand's `gen_range` forwarders add nothing: the assertion they make is the one the sampler makes -/
theorem genRange_eq (signed dbg : Bool) (w n low high : Nat) (s : Stream) :
    genRange signed dbg w n low high s = sampleSingle signed dbg w n low high s := by
  unfold genRange
  rcases lt_cases signed (M w n) low high with h | h
  · simp [h]
  · simp [h, sampleSingle_panic h]
theorem genRangeInclusive_eq (signed dbg : Bool) (w n low high : Nat) (s : Stream) :
    genRangeInclusive signed dbg w n low high s = sampleSingleInclusive signed dbg w n low high s := by
  unfold genRangeInclusive
  rcases le_cases signed (M w n) low high with h | h
  · simp [h]
  · simp [h, sampleSingleInclusive_panic h]

end Bnum.Rand
