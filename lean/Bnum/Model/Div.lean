/-
  Bnum.Model.Div — division and remainder.
    `src/buint/checked.rs`   div_rem_digit, div_rem_unchecked, div_rem, checked_div/rem/…_euclid,
                             checked_next_multiple_of
    `src/buint/div.rs`       basecase_div_rem (Knuth, TAOCP 4.3.1 Algorithm D) with its local
                             `Remainder<M>` / `Mul<M>` structs
    `src/buint/{wrapping,overflowing,saturating,mod,const_trait_fillers}.rs`  div/rem forms
    `src/bint/{overflowing,checked,wrapping,saturating,mod,const_trait_fillers}.rs`  signed layer
  The shifts used by Algorithm D (`unchecked_shl_internal`, `wrapping_shr` →
  `unchecked_shr_pad_internal::<false>`) are modelled here (namespace `KD`) exactly as their loops
  are written, independently of Model/Shift.lean.

  Conventions: `UI.*` = `BUint<N>`, `II.*` = `BInt<N>`; everything that can panic returns `Outcome`;
  a function whose body (transitively) uses the `cfg(debug_assertions)`-dependent unsuffixed
  `add`/`sub`/`neg` takes `dbg : Bool`.

  Index safety.  `basecase_div_rem(self, v, n)` indexes `v.digits[n-1]`, `v.digits[n-2]`,
  computes `m = self.last_digit_index() + 1 - n` (usize) and then touches the `N+1` remainder digits
  `j .. j+n` for `j ≤ m`.  The three conditions `2 ≤ n`, `n ≤ N`, `n ≤ ldi(self)+1` are exactly what
  is needed for all of these to be in bounds / not to underflow (`j + n ≤ m + n = ldi+1 ≤ N`), and
  when one of them fails the Rust code panics in both build modes (index out of bounds, or
  subtraction overflow in debug resp. the out-of-bounds access that follows the wrapped value in
  release).  The model tests them once up front (`panic`) and afterwards uses total list accessors.
  The remaining precondition of the (crate-private) function is `v.digits[n-1] ≠ 0`: it holds at its
  single call site (`n = last_digit_index(v) + 1` with `last_digit_index(v) ≠ 0`); for a zero top
  digit the Rust behaviour is build-mode dependent garbage (`<<` by the full digit width) and is
  not modelled.  `q_hat -= 1` is never executed with `q_hat = 0` (each decrement is guarded by a
  strict `>` against a product with `q_hat`, or by a borrow that a zero `q_hat` cannot produce), so
  it is modelled by truncated subtraction.
-/
import Bnum.Model.Cmp
namespace Bnum

/-! ## helpers local to Algorithm D (`KD`) -/
namespace KD

/-- number of significant bits of a digit -/
def bitLen (d : Nat) : Nat := if d = 0 then 0 else Nat.log2 d + 1
/-- `uN::leading_zeros` -/
def leadingZeros (w d : Nat) : Nat := w - bitLen d
/-- `d << s` on a digit (`s < w` at every use) -/
@[inline] def dshl (w d s : Nat) : Nat := (d <<< s) % B w
/-- `d >> s` on a digit -/
@[inline] def dshr (d s : Nat) : Nat := d >>> s
/-- `uN::checked_add` -/
def uCheckedAdd (w a b : Nat) : Option Nat := if a + b < B w then some (a + b) else none

/-- `bit_shift != 0` loop of `unchecked_shl_internal` (ascending, state: carry) -/
def shlBitsLoop (w bs cs : Nat) : List Nat → Nat → List Nat
  | [], _ => []
  | d :: ds, carry => (dshl w d bs ||| carry) :: shlBitsLoop w bs cs ds (dshr d cs)

/-- `BUint::unchecked_shl_internal` (`rhs >> BIT_SHIFT` = `rhs / w`, `rhs & BITS_MINUS_1` = `rhs % w`
    because every digit width is a power of two) -/
def uncheckedShlInternal (w : Nat) (x : List Nat) (rhs : Nat) : List Nat :=
  let n := x.length
  let digitShift := rhs / w
  let bitShift := rhs % w
  if bitShift != 0 then
    let carryShift := w - bitShift
    List.replicate (min digitShift n) 0
      ++ shlBitsLoop w bitShift carryShift (x.take (n - digitShift)) 0
  else
    List.replicate (min digitShift n) 0 ++ x.take (n - digitShift)

/-- `bit_shift != 0` loop of `unchecked_shr_pad_internal::<false>`: runs from the top digit down;
    input and output are most-significant-first -/
def shrBitsLoop (w bs cs : Nat) : List Nat → Nat → List Nat
  | [], _ => []
  | d :: ds, carry => (dshr d bs ||| carry) :: shrBitsLoop w bs cs ds (dshl w d cs)

/-- `BUint::unchecked_shr_internal` = `unchecked_shr_pad_internal::<false>` -/
def uncheckedShrInternal (w : Nat) (x : List Nat) (rhs : Nat) : List Nat :=
  let n := x.length
  let digitShift := rhs / w
  let bitShift := rhs % w
  if bitShift != 0 then
    let carryShift := w - bitShift
    (shrBitsLoop w bitShift carryShift (x.drop digitShift).reverse 0).reverse
      ++ List.replicate (min digitShift n) 0
  else
    x.drop digitShift ++ List.replicate (min digitShift n) 0

/-- `BUint::overflowing_shr` -/
def overflowingShr (w : Nat) (x : List Nat) (rhs : Nat) : List Nat × Bool :=
  let bits := w * x.length
  if rhs ≥ bits then (uncheckedShrInternal w x (rhs &&& (bits - 1)), true)
  else (uncheckedShrInternal w x rhs, false)

/-- `BUint::wrapping_shr` -/
def wrappingShr (w : Nat) (x : List Nat) (rhs : Nat) : List Nat := (overflowingShr w x rhs).1

/-! ### `struct Remainder<M> { first, rest: [Digit; M] }` = the list `first :: rest` (`M+1` digits) -/

/-- `Remainder::new(uint, shift)` -/
def remNew (w : Nat) (x : List Nat) (shift : Nat) : List Nat :=
  dshl w (x.headD 0) shift :: wrappingShr w x (w - shift)

/-- `Remainder::digit(index)` -/
@[inline] def remDigit (u : List Nat) (i : Nat) : Nat := u.getD i 0

/-- `Remainder::shr(shift)` : two passes, the second only `if shift > 0` -/
def remShr (w : Nat) (u : List Nat) (shift : Nat) : List Nat :=
  let m := u.length - 1
  let out := (u.take m).map (fun d => dshr d shift)
  if shift > 0 then
    List.zipWith (fun o r => o ||| dshl w r (w - shift)) out (u.drop 1)
  else out

/-! ### `struct Mul<M> { last, rest: [Digit; M] }` = the list `rest ++ [last]` (`M+1` digits) -/

/-- loop of `Mul::new` (state: carry); the final carry becomes `last` -/
def mulLoop (w rhs : Nat) : List Nat → Nat → List Nat
  | [], carry => [carry]
  | d :: ds, carry =>
    let r := Digit.carryingMul w d rhs carry 0
    r.1 :: mulLoop w rhs ds r.2

/-- `Mul::new(uint, rhs)` -/
def mulNew (w : Nat) (v : List Nat) (rhs : Nat) : List Nat := mulLoop w rhs v 0

/-- loop of `Remainder::sub`: `k` digit steps on the window `u[start..]` against `mul[0..]` -/
def subLoopK (w : Nat) : Nat → List Nat → List Nat → Bool → List Nat × Bool
  | 0, u, _, b => (u, b)
  | k + 1, x :: u, y :: mul, b =>
    let r := Digit.borrowingSub w x y b
    let rest := subLoopK w k u mul r.2
    (r.1 :: rest.1, rest.2)
  | _ + 1, u, _, b => (u, b)   -- out of bounds: excluded by the guards of `basecaseDivRem`

/-- `Remainder::sub(rhs, start, range)` : digits `start ..= start+range` -/
def remSub (w : Nat) (u mul : List Nat) (start range : Nat) : List Nat × Bool :=
  let r := subLoopK w (range + 1) (u.drop start) mul false
  (u.take start ++ r.1, r.2)

/-- loop of `Remainder::add` followed by the `if carry { … wrapping_add(1) }` on the next digit -/
def addLoopK (w : Nat) : Nat → List Nat → List Nat → Bool → List Nat
  | 0, u, _, c =>
    if c then
      match u with
      | x :: u' => ((x + 1) % B w) :: u'
      | [] => []
    else u
  | k + 1, x :: u, y :: v, c =>
    let r := Digit.carryingAdd w x y c
    r.1 :: addLoopK w k u v r.2
  | _ + 1, u, _, _ => u        -- out of bounds: excluded by the guards of `basecaseDivRem`

/-- `Remainder::add(rhs, start, range)` : digits `start .. start+range`, carry into `start+range` -/
def remAdd (w : Nat) (u v : List Nat) (start range : Nat) : List Nat :=
  u.take start ++ addLoopK w range (u.drop start) v false

/-- `tuple_gt((lo, hi), (lo', hi'))` -/
def tupleGt (a b : Nat × Nat) : Bool := decide (a.2 > b.2) || (a.2 == b.2 && decide (a.1 > b.1))

/-- step D3: the estimate `q_hat` with its (at most two) corrections -/
def qHat (w n vn1 vn2 : Nat) (u : List Nat) (j : Nat) : Nat :=
  let ujn := remDigit u (j + n)
  if ujn < vn1 then
    let qr := Digit.divRemWide w (remDigit u (j + n - 1)) ujn vn1
    let qh := qr.1
    let rh := qr.2
    if tupleGt (Digit.wideningMul w qh vn2) (remDigit u (j + n - 2), rh) then
      let qh := qh - 1
      match uCheckedAdd w rh vn1 with
      | some rh' =>
        if tupleGt (Digit.wideningMul w qh vn2) (remDigit u (j + n - 2), rh') then qh - 1 else qh
      | none => qh
    else qh
  else B w - 1

/-- one iteration of the `while j > 0` loop (after `j -= 1`): steps D3–D6 for index `j`;
    returns the new remainder and the quotient digit -/
def step (w n : Nat) (v : List Nat) (vn1 vn2 : Nat) (u : List Nat) (j : Nat) : List Nat × Nat :=
  let qh := qHat w n vn1 vn2 u j
  let r := remSub w u (mulNew w v qh) j n            -- D4
  if r.2 then (remAdd w r.1 v j n, qh - 1)            -- D5/D6
  else (r.1, qh)

/-- the main loop: `cnt = j` before `j -= 1` -/
def loop (w n : Nat) (v : List Nat) (vn1 vn2 : Nat) : Nat → List Nat → List Nat → List Nat × List Nat
  | 0, u, q => (u, q)
  | j + 1, u, q =>
    let r := step w n v vn1 vn2 u j
    loop w n v vn1 vn2 j r.1 (q.set j r.2)

/-- `BUint::basecase_div_rem(self, v, n)` -/
def basecaseDivRem (w : Nat) (a v : List Nat) (n : Nat) : Outcome (List Nat × List Nat) :=
  let len := a.length
  let ldi := lastDigitIndex a
  if n < 2 ∨ len < n ∨ ldi + 1 < n then .panic else
  let m := ldi + 1 - n
  let shift := leadingZeros w (v.getD (n - 1) 0)
  let v := uncheckedShlInternal w v shift                       -- D1
  let vn1 := v.getD (n - 1) 0
  let vn2 := v.getD (n - 2) 0
  let u := remNew w a shift
  let r := loop w n v vn1 vn2 (m + 1) u (zero len)              -- D2–D7
  .ok (r.2, remShr w r.1 shift)                                 -- D8

/-! ### unsuffixed `add` / `sub` / `neg` (`int/ops.rs trait_fillers`, `bint/const_trait_fillers.rs`):
    `strict_*` under `debug_assertions`, `wrapping_*` otherwise -/
def uOpAdd (dbg : Bool) (w : Nat) (a b : List Nat) : Outcome (List Nat) :=
  if dbg then Outcome.expect (UI.checkedAdd w a b) else .ok (UI.wrappingAdd w a b)
def uOpSub (dbg : Bool) (w : Nat) (a b : List Nat) : Outcome (List Nat) :=
  if dbg then Outcome.expect (UI.checkedSub w a b) else .ok (UI.wrappingSub w a b)
def iOpAdd (dbg : Bool) (w : Nat) (a b : List Nat) : Outcome (List Nat) :=
  if dbg then Outcome.expect (II.checkedAdd w a b) else .ok (II.wrappingAdd w a b)
def iOpSub (dbg : Bool) (w : Nat) (a b : List Nat) : Outcome (List Nat) :=
  if dbg then Outcome.expect (II.checkedSub w a b) else .ok (II.wrappingSub w a b)
def iOpNeg (dbg : Bool) (w : Nat) (a : List Nat) : Outcome (List Nat) :=
  if dbg then Outcome.expect (II.checkedNeg w a) else .ok (II.wrappingNeg w a)

end KD

/-! ## `BUint` -/
namespace UI
open KD

/-- loop of `div_rem_digit` (`i` from `N` down to 1): the recursion reaches the top digit first and
    threads `rem` downwards, exactly the order of the Rust loop -/
def divRemDigitLoop (w rhs : Nat) : List Nat → List Nat × Nat
  | [] => ([], 0)
  | d :: ds =>
    let hi := divRemDigitLoop w rhs ds
    let qr := Digit.divRemWide w d hi.2 rhs
    (qr.1 :: hi.1, qr.2)

/-- `BUint::div_rem_digit`.  For `rhs = 0` the first `div_rem_wide` panics (`debug_assert!(0 < 0)` in
    debug, division by zero in release). -/
def divRemDigit (w : Nat) (a : List Nat) (rhs : Nat) : Outcome (List Nat × Nat) :=
  if rhs = 0 ∧ a ≠ [] then .panic else .ok (divRemDigitLoop w rhs a)

/-- `BUint::div_rem_unchecked` -/
def divRemUnchecked (w : Nat) (a b : List Nat) : Outcome (List Nat × List Nat) :=
  let n := a.length
  if isZero a then .ok (zero n, zero n) else
  match cmp a b with
  | .lt => .ok (zero n, a)
  | .eq => .ok (one n, zero n)
  | .gt =>
    let ldi := lastDigitIndex b
    if ldi == 0 then
      match divRemDigit w a (b.headD 0) with
      | .ok p => .ok (p.1, fromDigit n p.2)
      | .panic => .panic
    else basecaseDivRem w a b (ldi + 1)

/-- `BUint::div_rem` -/
def divRem (w : Nat) (a b : List Nat) : Outcome (List Nat × List Nat) :=
  if isZero b then .panic else divRemUnchecked w a b

def checkedDiv (w : Nat) (a b : List Nat) : Outcome (Option (List Nat)) :=
  if isZero b then .ok none else (divRemUnchecked w a b).map (fun p => some p.1)
def checkedDivEuclid (w : Nat) (a b : List Nat) := checkedDiv w a b
def checkedRem (w : Nat) (a b : List Nat) : Outcome (Option (List Nat)) :=
  if isZero b then .ok none else (divRemUnchecked w a b).map (fun p => some p.2)
def checkedRemEuclid (w : Nat) (a b : List Nat) := checkedRem w a b

/-- `option_expect!(self.checked_div(rhs), "attempt to divide by zero")` -/
def wrappingDiv (w : Nat) (a b : List Nat) : Outcome (List Nat) :=
  (checkedDiv w a b).bind Outcome.expect
def wrappingDivEuclid (w : Nat) (a b : List Nat) := wrappingDiv w a b
def wrappingRem (w : Nat) (a b : List Nat) : Outcome (List Nat) :=
  (checkedRem w a b).bind Outcome.expect
def wrappingRemEuclid (w : Nat) (a b : List Nat) := wrappingRem w a b

def overflowingDiv (w : Nat) (a b : List Nat) : Outcome (List Nat × Bool) :=
  (wrappingDiv w a b).map (fun q => (q, false))
def overflowingDivEuclid (w : Nat) (a b : List Nat) := overflowingDiv w a b
def overflowingRem (w : Nat) (a b : List Nat) : Outcome (List Nat × Bool) :=
  (wrappingRem w a b).map (fun r => (r, false))
def overflowingRemEuclid (w : Nat) (a b : List Nat) := overflowingRem w a b

def divEuclid (w : Nat) (a b : List Nat) := wrappingDivEuclid w a b
def remEuclid (w : Nat) (a b : List Nat) := wrappingRemEuclid w a b
def saturatingDiv (w : Nat) (a b : List Nat) := divEuclid w a b
/-- `const_trait_fillers::div` (also `Div::div`) -/
def div (w : Nat) (a b : List Nat) := wrappingDiv w a b
def rem (w : Nat) (a b : List Nat) := wrappingRem w a b
def divFloor (w : Nat) (a b : List Nat) := wrappingDiv w a b

/-- `BUint::div_ceil` -/
def divCeil (dbg : Bool) (w : Nat) (a b : List Nat) : Outcome (List Nat) :=
  match divRem w a b with
  | .ok p => if isZero p.2 then .ok p.1 else uOpAdd dbg w p.1 (one a.length)
  | .panic => .panic

/-- `BUint::next_multiple_of` -/
def nextMultipleOf (dbg : Bool) (w : Nat) (a b : List Nat) : Outcome (List Nat) :=
  match wrappingRem w a b with
  | .ok rem =>
    if isZero rem then .ok a
    else
      match uOpSub dbg w b rem with
      | .ok s => uOpAdd dbg w a s
      | .panic => .panic
  | .panic => .panic

/-- `BUint::checked_next_multiple_of` -/
def checkedNextMultipleOf (dbg : Bool) (w : Nat) (a b : List Nat) : Outcome (Option (List Nat)) :=
  match checkedRem w a b with
  | .ok (some rem) =>
    if isZero rem then .ok (some a)
    else
      match uOpSub dbg w b rem with
      | .ok s => .ok (checkedAdd w a s)
      | .panic => .panic
  | .ok none => .ok none
  | .panic => .panic

end UI

/-! ## `BInt` -/
namespace II
open KD


/-- `BInt::div_rem_unchecked` -/
def divRemUnchecked (dbg : Bool) (w : Nat) (a b : List Nat) : Outcome (List Nat × List Nat) :=
  let n := a.length
  if II.eq a (iMin w n) && isOne b then .ok (a, zero n) else
  match UI.divRemUnchecked w (unsignedAbs w a) (unsignedAbs w b) with
  | .panic => .panic
  | .ok p =>
    let div := p.1
    let rem := p.2
    match isNegative w a, isNegative w b with
    | false, false => .ok (div, rem)
    | false, true =>
      match iOpNeg dbg w div with
      | .ok d => .ok (d, rem)
      | .panic => .panic
    | true, false =>
      match iOpNeg dbg w div with
      | .ok d =>
        match iOpNeg dbg w rem with
        | .ok r => .ok (d, r)
        | .panic => .panic
      | .panic => .panic
    | true, true =>
      match iOpNeg dbg w rem with
      | .ok r => .ok (div, r)
      | .panic => .panic

/-- `BInt::overflowing_div` -/
def overflowingDiv (dbg : Bool) (w : Nat) (a b : List Nat) : Outcome (List Nat × Bool) :=
  let n := a.length
  if isZero b then .panic
  else if II.eq a (iMin w n) && II.eq b (negOne w n) then .ok (a, true)
  else if II.eq a (iMin w n) && isOne b then .ok (a, false)
  else (divRemUnchecked dbg w a b).map (fun p => (p.1, false))

/-- `BInt::overflowing_div_euclid` -/
def overflowingDivEuclid (dbg : Bool) (w : Nat) (a b : List Nat) : Outcome (List Nat × Bool) :=
  let n := a.length
  if isZero b then .panic
  else if II.eq a (iMin w n) && II.eq b (negOne w n) then .ok (a, true)
  else if II.eq a (iMin w n) && isOne b then .ok (a, false)
  else
    match divRemUnchecked dbg w a b with
    | .panic => .panic
    | .ok p =>
      if isNegative w a && !(isZero p.2) then
        if isNegative w b then (iOpAdd dbg w p.1 (one n)).map (fun d => (d, false))
        else (iOpSub dbg w p.1 (one n)).map (fun d => (d, false))
      else .ok (p.1, false)

/-- `BInt::overflowing_rem` -/
def overflowingRem (dbg : Bool) (w : Nat) (a b : List Nat) : Outcome (List Nat × Bool) :=
  let n := a.length
  if isZero b then .panic
  else if II.eq a (iMin w n) && II.eq b (negOne w n) then .ok (zero n, true)
  else (divRemUnchecked dbg w a b).map (fun p => (p.2, false))

/-- `BInt::overflowing_rem_euclid` -/
def overflowingRemEuclid (dbg : Bool) (w : Nat) (a b : List Nat) : Outcome (List Nat × Bool) :=
  let n := a.length
  if isZero b then .panic
  else if II.eq a (iMin w n) && II.eq b (negOne w n) then .ok (zero n, true)
  else
    match divRemUnchecked dbg w a b with
    | .panic => .panic
    | .ok p =>
      let rem := p.2
      if isNegative w rem then
        if isNegative w b then .ok (II.wrappingSub w rem b, false)
        else .ok (II.wrappingAdd w rem b, false)
      else .ok (rem, false)

def checkedDiv (dbg : Bool) (w : Nat) (a b : List Nat) : Outcome (Option (List Nat)) :=
  if isZero b then .ok none else (overflowingDiv dbg w a b).map tupleToOption
def checkedDivEuclid (dbg : Bool) (w : Nat) (a b : List Nat) : Outcome (Option (List Nat)) :=
  if isZero b then .ok none else (overflowingDivEuclid dbg w a b).map tupleToOption
def checkedRem (dbg : Bool) (w : Nat) (a b : List Nat) : Outcome (Option (List Nat)) :=
  if isZero b then .ok none else (overflowingRem dbg w a b).map tupleToOption
def checkedRemEuclid (dbg : Bool) (w : Nat) (a b : List Nat) : Outcome (Option (List Nat)) :=
  if isZero b then .ok none else (overflowingRemEuclid dbg w a b).map tupleToOption

def wrappingDiv (dbg : Bool) (w : Nat) (a b : List Nat) : Outcome (List Nat) :=
  (overflowingDiv dbg w a b).map (·.1)
def wrappingDivEuclid (dbg : Bool) (w : Nat) (a b : List Nat) : Outcome (List Nat) :=
  (overflowingDivEuclid dbg w a b).map (·.1)
def wrappingRem (dbg : Bool) (w : Nat) (a b : List Nat) : Outcome (List Nat) :=
  (overflowingRem dbg w a b).map (·.1)
def wrappingRemEuclid (dbg : Bool) (w : Nat) (a b : List Nat) : Outcome (List Nat) :=
  (overflowingRemEuclid dbg w a b).map (·.1)

/-- `BInt::saturating_div` -/
def saturatingDiv (dbg : Bool) (w : Nat) (a b : List Nat) : Outcome (List Nat) :=
  (overflowingDiv dbg w a b).map (fun p => if p.2 then iMax w a.length else p.1)

/-- `const_trait_fillers::div`: the MIN / -1 test comes first, then the zero test -/
def div (dbg : Bool) (w : Nat) (a b : List Nat) : Outcome (List Nat) :=
  let n := a.length
  if II.eq a (iMin w n) && II.eq b (negOne w n) then .panic
  else if isZero b then .panic
  else (divRemUnchecked dbg w a b).map (·.1)
def rem (dbg : Bool) (w : Nat) (a b : List Nat) : Outcome (List Nat) :=
  let n := a.length
  if II.eq a (iMin w n) && II.eq b (negOne w n) then .panic
  else if isZero b then .panic
  else (divRemUnchecked dbg w a b).map (·.2)

/-- `BInt::div_euclid`: `assert!(self.ne(&MIN) || rhs.ne(&NEG_ONE))` -/
def divEuclid (dbg : Bool) (w : Nat) (a b : List Nat) : Outcome (List Nat) :=
  let n := a.length
  if !(II.ne a (iMin w n) || II.ne b (negOne w n)) then .panic
  else wrappingDivEuclid dbg w a b
def remEuclid (dbg : Bool) (w : Nat) (a b : List Nat) : Outcome (List Nat) :=
  let n := a.length
  if !(II.ne a (iMin w n) || II.ne b (negOne w n)) then .panic
  else wrappingRemEuclid dbg w a b

/-- `BInt::next_multiple_of` -/
def nextMultipleOf (dbg : Bool) (w : Nat) (a b : List Nat) : Outcome (List Nat) :=
  match wrappingRemEuclid dbg w a b with
  | .panic => .panic
  | .ok rem =>
    if isZero rem then .ok a
    else if isNegative w rem == isNegative w b then
      match iOpSub dbg w b rem with
      | .ok s => iOpAdd dbg w a s
      | .panic => .panic
    else iOpSub dbg w a rem

/-- `BInt::checked_next_multiple_of` -/
def checkedNextMultipleOf (dbg : Bool) (w : Nat) (a b : List Nat) : Outcome (Option (List Nat)) :=
  if isZero b then .ok none else
  match wrappingRemEuclid dbg w a b with
  | .panic => .panic
  | .ok rem =>
    if isZero rem then .ok (some a)
    else if isNegative w rem == isNegative w b then .ok (II.checkedAdd w a (II.wrappingSub w b rem))
    else .ok (II.checkedSub w a rem)

/-- `BInt::div_floor` -/
def divFloor (dbg : Bool) (w : Nat) (a b : List Nat) : Outcome (List Nat) :=
  if isZero b then .panic else
  match divRemUnchecked dbg w a b with
  | .panic => .panic
  | .ok p =>
    if isZero p.2 || (isNegative w a == isNegative w b) then .ok p.1
    else iOpSub dbg w p.1 (one a.length)

/-- `BInt::div_ceil` -/
def divCeil (dbg : Bool) (w : Nat) (a b : List Nat) : Outcome (List Nat) :=
  if isZero b then .panic else
  match divRemUnchecked dbg w a b with
  | .panic => .panic
  | .ok p =>
    if isZero p.2 || (isNegative w a != isNegative w b) then .ok p.1
    else iOpAdd dbg w p.1 (one a.length)

end II
end Bnum
