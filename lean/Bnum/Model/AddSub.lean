/-
  Bnum.Model.AddSub — `src/buint/overflowing.rs`, `src/bint/overflowing.rs` (add/sub/neg/abs part),
  `src/int/bigint_helpers.rs`, and the checked / wrapping / saturating projections.
  `UI.*`  = `BUint<N>` methods, `II.*` = `BInt<N>` methods. Digit lists are little-endian.
-/
import Bnum.Model.Digit
namespace Bnum

/-! ### constants and small helpers (`consts.rs`, `mod.rs`) -/
/-- `Self::ZERO` -/
def zero (n : Nat) : List Nat := List.replicate n 0
/-- `BUint::MAX` / all-ones pattern -/
def allOnes (w n : Nat) : List Nat := List.replicate n (B w - 1)
/-- `from_digit(d)`: `out = ZERO; out.digits[0] = d` (index panic for `N = 0` not modelled: `N ≥ 1`) -/
def fromDigit (n d : Nat) : List Nat :=
  match n with
  | 0 => []
  | k + 1 => d :: List.replicate k 0
/-- `Self::ONE` -/
def one (n : Nat) : List Nat := fromDigit n 1
/-- most significant digit (`digits[N-1]`) -/
def topDigit (x : List Nat) : Nat := x.getLastD 0
/-- `BInt::is_negative` : sign bit of the top digit -/
def isNegative (w : Nat) (x : List Nat) : Bool := Prim.isNeg w (topDigit x)
/-- `BInt::MIN` : top digit `2^(w-1)`, rest zero -/
def iMin (w n : Nat) : List Nat :=
  match n with
  | 0 => []
  | k + 1 => List.replicate k 0 ++ [B w / 2]
/-- `BInt::MAX` -/
def iMax (w n : Nat) : List Nat :=
  match n with
  | 0 => []
  | k + 1 => List.replicate k (B w - 1) ++ [B w / 2 - 1]
/-- digit-wise `!` -/
def bnot (w : Nat) (x : List Nat) : List Nat := x.map (Prim.not w)
/-- `is_zero` : early-exit scan -/
def isZero : List Nat → Bool
  | [] => true
  | d :: ds => if d != 0 then false else isZero ds

namespace UI
/-- loop of `BUint::overflowing_add` (state: carry) -/
def addLoop (w : Nat) : List Nat → List Nat → Bool → List Nat × Bool
  | a :: as, b :: bs, c =>
    let r := Digit.carryingAdd w a b c
    let rest := addLoop w as bs r.2
    (r.1 :: rest.1, rest.2)
  | _, _, c => ([], c)

def overflowingAdd (w : Nat) (a b : List Nat) : List Nat × Bool := addLoop w a b false

def subLoop (w : Nat) : List Nat → List Nat → Bool → List Nat × Bool
  | a :: as, b :: bs, c =>
    let r := Digit.borrowingSub w a b c
    let rest := subLoop w as bs r.2
    (r.1 :: rest.1, rest.2)
  | _, _, c => ([], c)

def overflowingSub (w : Nat) (a b : List Nat) : List Nat × Bool := subLoop w a b false

/-- `(self.not()).overflowing_add(ONE)` then `!b` -/
def overflowingNeg (w : Nat) (a : List Nat) : List Nat × Bool :=
  let r := overflowingAdd w (bnot w a) (one a.length)
  (r.1, !r.2)

/-- `overflowing_add_signed(self, rhs: BInt)` -/
def overflowingAddSigned (w : Nat) (a b : List Nat) : List Nat × Bool :=
  let r := overflowingAdd w a b
  (r.1, isNegative w b != r.2)

def checkedAdd (w : Nat) (a b : List Nat) := tupleToOption (overflowingAdd w a b)
def checkedSub (w : Nat) (a b : List Nat) := tupleToOption (overflowingSub w a b)
/-- `BUint::checked_neg`: `if self.is_zero() { Some(self) } else { None }` (not a projection of
    `overflowing_neg`; `w` is unused but kept so that the signature is unchanged) -/
def checkedNeg (_w : Nat) (a : List Nat) : Option (List Nat) := if isZero a then some a else none
def checkedAddSigned (w : Nat) (a b : List Nat) := tupleToOption (overflowingAddSigned w a b)
def wrappingAdd (w : Nat) (a b : List Nat) := (overflowingAdd w a b).1
def wrappingSub (w : Nat) (a b : List Nat) := (overflowingSub w a b).1
def wrappingNeg (w : Nat) (a : List Nat) := (overflowingNeg w a).1
def wrappingAddSigned (w : Nat) (a b : List Nat) := (overflowingAddSigned w a b).1
def saturateUp (w : Nat) (n : Nat) (p : List Nat × Bool) : List Nat := if p.2 then allOnes w n else p.1
def saturateDown (n : Nat) (p : List Nat × Bool) : List Nat := if p.2 then zero n else p.1
def saturatingAdd (w : Nat) (a b : List Nat) := saturateUp w a.length (overflowingAdd w a b)
def saturatingSub (w : Nat) (a b : List Nat) := saturateDown a.length (overflowingSub w a b)
def saturatingAddSigned (w : Nat) (a b : List Nat) :=
  if isNegative w b then saturateDown a.length (overflowingAddSigned w a b)
  else saturateUp w a.length (overflowingAddSigned w a b)

/-- `bigint_helpers::carrying_add` -/
def carryingAdd (w : Nat) (a b : List Nat) (carry : Bool) : List Nat × Bool :=
  let r1 := overflowingAdd w a b
  if carry then
    let r2 := overflowingAdd w r1.1 (one a.length)
    (r2.1, r1.2 ^^ r2.2)
  else r1

def borrowingSub (w : Nat) (a b : List Nat) (borrow : Bool) : List Nat × Bool :=
  let r1 := overflowingSub w a b
  if borrow then
    let r2 := overflowingSub w r1.1 (one a.length)
    (r2.1, r1.2 ^^ r2.2)
  else r1

/-! `int/strict.rs impls!`, `buint/strict.rs`: `option_expect!(self.checked_*(..), ..)` -/
def strictAdd (w : Nat) (a b : List Nat) : Outcome (List Nat) := Outcome.expect (checkedAdd w a b)
def strictSub (w : Nat) (a b : List Nat) : Outcome (List Nat) := Outcome.expect (checkedSub w a b)
def strictNeg (w : Nat) (a : List Nat) : Outcome (List Nat) := Outcome.expect (checkedNeg w a)
def strictAddSigned (w : Nat) (a b : List Nat) : Outcome (List Nat) :=
  Outcome.expect (checkedAddSigned w a b)
/-- unsuffixed `add` of `int/ops.rs trait_fillers!` (= `Add::add`): `strict_add` under
    `debug_assertions`, `wrapping_add` otherwise -/
def add (dbg : Bool) (w : Nat) (a b : List Nat) : Outcome (List Nat) :=
  if dbg then strictAdd w a b else .ok (wrappingAdd w a b)
/-- unsuffixed `sub` of `trait_fillers!` -/
def sub (dbg : Bool) (w : Nat) (a b : List Nat) : Outcome (List Nat) :=
  if dbg then strictSub w a b else .ok (wrappingSub w a b)
end UI

namespace II
/-- `BInt::NEG_ONE` (shared constant; do not redefine in other modules) -/
def negOne (w n : Nat) : List Nat := allOnes w n

/-- `BInt::overflowing_add`: `N-1` unsigned digit steps then one signed step on the top digit -/
def addLoop (w : Nat) : List Nat → List Nat → Bool → List Nat × Bool
  | [a], [b], c =>
    let r := Digit.carryingAddSigned w a b c
    ([r.1], r.2)
  | a :: as, b :: bs, c =>
    let r := Digit.carryingAdd w a b c
    let rest := addLoop w as bs r.2
    (r.1 :: rest.1, rest.2)
  | _, _, c => ([], c)

def overflowingAdd (w : Nat) (a b : List Nat) : List Nat × Bool := addLoop w a b false

def subLoop (w : Nat) : List Nat → List Nat → Bool → List Nat × Bool
  | [a], [b], c =>
    let r := Digit.borrowingSubSigned w a b c
    ([r.1], r.2)
  | a :: as, b :: bs, c =>
    let r := Digit.borrowingSub w a b c
    let rest := subLoop w as bs r.2
    (r.1 :: rest.1, rest.2)
  | _, _, c => ([], c)

def overflowingSub (w : Nat) (a b : List Nat) : List Nat × Bool := subLoop w a b false

def overflowingAddUnsigned (w : Nat) (a b : List Nat) : List Nat × Bool :=
  let r := overflowingAdd w a b
  (r.1, isNegative w b != r.2)

def overflowingSubUnsigned (w : Nat) (a b : List Nat) : List Nat × Bool :=
  let r := overflowingSub w a b
  (r.1, isNegative w b != r.2)

/-- `BInt::overflowing_neg`: complement-and-increment with early exit; the last digit is
    incremented as a signed digit and its overflow is the result flag. -/
def negLoop (w : Nat) : List Nat → List Nat × Bool
  | [] => ([], false)
  | [d] =>
    let r := Prim.iOverflowingAdd w (Prim.not w d) 1
    ([r.1], r.2)
  | d :: ds =>
    let r := Prim.uOverflowingAdd w (Prim.not w d) 1
    if !r.2 then (r.1 :: ds.map (Prim.not w), false)
    else
      let rest := negLoop w ds
      (r.1 :: rest.1, rest.2)

def overflowingNeg (w : Nat) (a : List Nat) : List Nat × Bool := negLoop w a

def overflowingAbs (w : Nat) (a : List Nat) : List Nat × Bool :=
  if isNegative w a then overflowingNeg w a else (a, false)

def checkedAdd (w : Nat) (a b : List Nat) := tupleToOption (overflowingAdd w a b)
def checkedSub (w : Nat) (a b : List Nat) := tupleToOption (overflowingSub w a b)
def checkedAddUnsigned (w : Nat) (a b : List Nat) := tupleToOption (overflowingAddUnsigned w a b)
def checkedSubUnsigned (w : Nat) (a b : List Nat) := tupleToOption (overflowingSubUnsigned w a b)
def checkedNeg (w : Nat) (a : List Nat) := tupleToOption (overflowingNeg w a)
def checkedAbs (w : Nat) (a : List Nat) := tupleToOption (overflowingAbs w a)
/-- `from_bits(self.bits.wrapping_add(rhs.bits))` -/
def wrappingAdd (w : Nat) (a b : List Nat) := UI.wrappingAdd w a b
def wrappingSub (w : Nat) (a b : List Nat) := UI.wrappingSub w a b
def wrappingAddUnsigned (w : Nat) (a b : List Nat) := (overflowingAddUnsigned w a b).1
def wrappingSubUnsigned (w : Nat) (a b : List Nat) := (overflowingSubUnsigned w a b).1
def wrappingNeg (w : Nat) (a : List Nat) := (overflowingNeg w a).1
def wrappingAbs (w : Nat) (a : List Nat) := (overflowingAbs w a).1
def saturatingAdd (w : Nat) (a b : List Nat) : List Nat :=
  match checkedAdd w a b with
  | some r => r
  | none => if isNegative w a then iMin w a.length else iMax w a.length
def saturatingSub (w : Nat) (a b : List Nat) : List Nat :=
  match checkedSub w a b with
  | some r => r
  | none => if isNegative w a then iMin w a.length else iMax w a.length
def saturatingAddUnsigned (w : Nat) (a b : List Nat) : List Nat :=
  match checkedAddUnsigned w a b with
  | some r => r
  | none => iMax w a.length
def saturatingSubUnsigned (w : Nat) (a b : List Nat) : List Nat :=
  match checkedSubUnsigned w a b with
  | some r => r
  | none => iMin w a.length
def saturatingNeg (w : Nat) (a : List Nat) : List Nat :=
  match checkedNeg w a with
  | some r => r
  | none => iMax w a.length
def saturatingAbs (w : Nat) (a : List Nat) : List Nat :=
  match checkedAbs w a with
  | some r => r
  | none => iMax w a.length
/-- `unsigned_abs` -/
def unsignedAbs (w : Nat) (a : List Nat) : List Nat :=
  if isNegative w a then wrappingNeg w a else a

def carryingAdd (w : Nat) (a b : List Nat) (carry : Bool) : List Nat × Bool :=
  let r1 := overflowingAdd w a b
  if carry then
    let r2 := overflowingAdd w r1.1 (one a.length)
    (r2.1, r1.2 ^^ r2.2)
  else r1

def borrowingSub (w : Nat) (a b : List Nat) (borrow : Bool) : List Nat × Bool :=
  let r1 := overflowingSub w a b
  if borrow then
    let r2 := overflowingSub w r1.1 (one a.length)
    (r2.1, r1.2 ^^ r2.2)
  else r1

/-! `int/strict.rs impls!`, `bint/strict.rs`: `option_expect!(self.checked_*(..), ..)` -/
def strictAdd (w : Nat) (a b : List Nat) : Outcome (List Nat) := Outcome.expect (checkedAdd w a b)
def strictSub (w : Nat) (a b : List Nat) : Outcome (List Nat) := Outcome.expect (checkedSub w a b)
def strictNeg (w : Nat) (a : List Nat) : Outcome (List Nat) := Outcome.expect (checkedNeg w a)
def strictAbs (w : Nat) (a : List Nat) : Outcome (List Nat) := Outcome.expect (checkedAbs w a)
def strictAddUnsigned (w : Nat) (a b : List Nat) : Outcome (List Nat) :=
  Outcome.expect (checkedAddUnsigned w a b)
def strictSubUnsigned (w : Nat) (a b : List Nat) : Outcome (List Nat) :=
  Outcome.expect (checkedSubUnsigned w a b)
/-- unsuffixed `add` of `int/ops.rs trait_fillers!`: `strict_add` under `debug_assertions`,
    `wrapping_add` otherwise -/
def add (dbg : Bool) (w : Nat) (a b : List Nat) : Outcome (List Nat) :=
  if dbg then strictAdd w a b else .ok (wrappingAdd w a b)
/-- unsuffixed `sub` of `trait_fillers!` -/
def sub (dbg : Bool) (w : Nat) (a b : List Nat) : Outcome (List Nat) :=
  if dbg then strictSub w a b else .ok (wrappingSub w a b)
end II
end Bnum
