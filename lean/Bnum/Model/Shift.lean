/-
  Bnum.Model.Shift — shifts and rotations.
    `src/buint/mod.rs`   rotate_digits_left, unchecked_rotate_left, rotate_left, rotate_right,
                          unbounded_shl, unbounded_shr, unchecked_shl_internal,
                          unchecked_shr_pad_internal<NEG>, unchecked_shr_internal
    `src/bint/mod.rs`    rotate_left, rotate_right, unbounded_shl, unbounded_shr
    `src/{buint,bint}/overflowing.rs`  overflowing_shl / overflowing_shr
    `src/{buint,bint}/checked.rs`      checked_shl / checked_shr
    `src/{buint,bint}/wrapping.rs`     wrapping_shl / wrapping_shr
    `src/int/strict.rs`  strict_shl / strict_shr,  `src/int/unchecked.rs` unchecked_shl / unchecked_shr
    `src/int/ops.rs`     `trait_fillers!` shl / shr (body depends on `cfg(debug_assertions)`)

  Shift amounts are `ExpType = u32` values, modelled as `Nat` (callers pass `s < 2^32`; the model is
  total in `s`).  `Self::BITS = w * N` is `w * a.length`.

  Digit index arithmetic.  The Rust writes `rhs >> digit::BIT_SHIFT` and `rhs & digit::BITS_MINUS_1`
  where `BIT_SHIFT = BITS.trailing_zeros()`.  Every digit type (u8/u16/u32/u64) has `w = 2^k`, for
  which these are exactly `rhs / w` and `rhs % w` (`Bnum.Shift.digit_split_pow2` in Lemmas/Shift.lean);
  the model uses the latter so that it is meaningful for every `w`.
  In contrast `rhs & (Self::BITS - 1)` (amount reduction in overflowing_shl / overflowing_shr) is modelled
  literally with `&&&`, because `Self::BITS = w * N` is NOT a power of two in general.

  History: before the `fix:` commit in /repo (a393892) `rotate_left` / `rotate_right` reduced the
  amount with `n & (BITS - 1)`, which is not `n mod BITS` when `BITS` is not a power of two (24-bit
  `rotate_left(8)` was the identity).  The model below mirrors the repaired code (`n % Self::BITS`).
-/
import Bnum.Model.AddSub
namespace Bnum

namespace Shift
/-- `d << s` on a digit, `s < w` at every call site (so no shift-overflow panic / masking) -/
@[inline] def dshl (w d s : Nat) : Nat := (d * 2 ^ s) % B w
/-- `d >> s` on a digit, `s < w` at every call site -/
@[inline] def dshr (d s : Nat) : Nat := d / 2 ^ s
/-- `(rhs >> digit::BIT_SHIFT) as usize` (see header) -/
@[inline] def digitShift (w s : Nat) : Nat := s / w
/-- `rhs & digit::BITS_MINUS_1` (see header) -/
@[inline] def bitShift (w s : Nat) : Nat := s % w
/-- `rhs & (Self::BITS - 1)` : literal bit-and -/
@[inline] def maskBits (bits s : Nat) : Nat := s &&& (bits - 1)

/-- the bit-shifting loop shared by `unchecked_shl_internal` and `unchecked_rotate_left`
    (from the least significant source digit upwards, state: `carry`):
    `out[i] = (cur << bit_shift) | carry; carry = cur >> carry_shift`.
    Returns the written digits and the final carry. -/
def shlCarryLoop (w bs : Nat) : List Nat → Nat → List Nat × Nat
  | [], carry => ([], carry)
  | d :: ds, carry =>
    let rest := shlCarryLoop w bs ds (dshr d (w - bs))
    ((dshl w d bs ||| carry) :: rest.1, rest.2)

/-- the loop of `unchecked_shr_pad_internal`; it runs from the most significant source digit
    downwards, so the argument and the result are most-significant-first:
    `out[index] = (cur >> bit_shift) | carry; carry = cur << carry_shift`. -/
def shrCarryLoop (w bs : Nat) : List Nat → Nat → List Nat
  | [], _ => []
  | d :: ds, carry => (dshr d bs ||| carry) :: shrCarryLoop w bs ds (dshl w d (w - bs))
/-- `digits[i] |= v` on the first element of a list (`out.digits[0] |= carry` in
    `unchecked_rotate_left`; `out.digits[num_copies - 1] |= MAX << carry_shift` on the
    most-significant-first list in `unchecked_shr_pad_internal`) -/
def orHead (v : Nat) : List Nat → List Nat
  | [] => []
  | d :: t => (d ||| v) :: t
end Shift

open Shift

namespace UI

/-- `rotate_digits_left(n)`: `out[i] = self[i - n]` for `n ≤ i < N`, then
    `out[i - (N - n)] = self[i]` for `N - n ≤ i < N`.  (Only called with `n ≤ N`; `N - n` would
    underflow otherwise.) -/
def rotateDigitsLeft (a : List Nat) (k : Nat) : List Nat :=
  a.drop (a.length - k) ++ a.take (a.length - k)

/-- `unchecked_rotate_left(rhs)` (callers pass `rhs ≤ BITS`) -/
def uncheckedRotateLeft (w : Nat) (a : List Nat) (s : Nat) : List Nat :=
  let ds := digitShift w s
  let bs := bitShift w s
  let out := rotateDigitsLeft a ds
  if bs != 0 then
    let r := shlCarryLoop w bs out 0
    -- `out.digits[0] |= carry`
    orHead r.2 r.1
  else out

/-- `rotate_left(n)`: `unchecked_rotate_left(n % Self::BITS)` -/
def rotateLeft (w : Nat) (a : List Nat) (n : Nat) : List Nat :=
  uncheckedRotateLeft w a (n % (w * a.length))

/-- `rotate_right(n)`: `let n = n % Self::BITS; unchecked_rotate_left(Self::BITS - n)` -/
def rotateRight (w : Nat) (a : List Nat) (n : Nat) : List Nat :=
  let n' := n % (w * a.length)
  uncheckedRotateLeft w a (w * a.length - n')

/-- `unchecked_shl_internal(rhs)`: `out = ZERO`, digits `digit_shift ≤ i < N` are written from
    `self.digits[i - digit_shift]`. -/
def uncheckedShlInternal (w : Nat) (a : List Nat) (s : Nat) : List Nat :=
  let n := a.length
  let ds := digitShift w s
  let bs := bitShift w s
  let src := a.take (n - ds)
  if bs != 0 then
    List.replicate (min ds n) 0 ++ (shlCarryLoop w bs src 0).1
  else
    List.replicate (min ds n) 0 ++ src

/-- `unchecked_shr_pad_internal::<NEG>(rhs)`: `out = MAX` or `ZERO`, digits `0 ≤ index < N - digit_shift`
    are written from `self.digits[index + digit_shift]`, most significant first; for `NEG` the top
    written digit gets `|= Digit::MAX << carry_shift`.
    (`num_copies - 1` underflows when `digit_shift ≥ N`; every caller passes `rhs < BITS`, see
    `Shift.maskBits_lt`, so `digit_shift < N`.) -/
def uncheckedShrPadInternal (w : Nat) (neg : Bool) (a : List Nat) (s : Nat) : List Nat :=
  let n := a.length
  let pad := if neg then B w - 1 else 0
  let ds := digitShift w s
  let bs := bitShift w s
  if bs != 0 then
    let cs := w - bs
    -- most significant first: `r[0]` is `out.digits[num_copies - 1]`
    let r := shrCarryLoop w bs (a.drop ds).reverse 0
    -- `if NEG { out.digits[num_copies - 1] |= Digit::MAX << carry_shift }`
    let r := if neg then orHead (dshl w (B w - 1) cs) r else r
    r.reverse ++ List.replicate (min ds n) pad
  else
    a.drop ds ++ List.replicate (min ds n) pad

/-- `unchecked_shr_internal` -/
def uncheckedShrInternal (w : Nat) (a : List Nat) (s : Nat) : List Nat :=
  uncheckedShrPadInternal w false a s

/-- `unbounded_shl` -/
def unboundedShl (w : Nat) (a : List Nat) (s : Nat) : List Nat :=
  if s ≥ w * a.length then zero a.length else uncheckedShlInternal w a s

/-- `unbounded_shr` -/
def unboundedShr (w : Nat) (a : List Nat) (s : Nat) : List Nat :=
  if s ≥ w * a.length then zero a.length else uncheckedShrPadInternal w false a s

/-- `overflowing_shl` -/
def overflowingShl (w : Nat) (a : List Nat) (s : Nat) : List Nat × Bool :=
  if s ≥ w * a.length then (uncheckedShlInternal w a (maskBits (w * a.length) s), true)
  else (uncheckedShlInternal w a s, false)

/-- `overflowing_shr` -/
def overflowingShr (w : Nat) (a : List Nat) (s : Nat) : List Nat × Bool :=
  if s ≥ w * a.length then (uncheckedShrInternal w a (maskBits (w * a.length) s), true)
  else (uncheckedShrInternal w a s, false)

/-- `checked_shl` (BUint: direct test, not via overflowing) -/
def checkedShl (w : Nat) (a : List Nat) (s : Nat) : Option (List Nat) :=
  if s ≥ w * a.length then none else some (uncheckedShlInternal w a s)

/-- `checked_shr` -/
def checkedShr (w : Nat) (a : List Nat) (s : Nat) : Option (List Nat) :=
  if s ≥ w * a.length then none else some (uncheckedShrInternal w a s)

def wrappingShl (w : Nat) (a : List Nat) (s : Nat) : List Nat := (overflowingShl w a s).1
def wrappingShr (w : Nat) (a : List Nat) (s : Nat) : List Nat := (overflowingShr w a s).1

/-- `strict_shl`: `option_expect!(self.checked_shl(rhs), ..)` -/
def strictShl (w : Nat) (a : List Nat) (s : Nat) : Outcome (List Nat) := Outcome.expect (checkedShl w a s)
def strictShr (w : Nat) (a : List Nat) (s : Nat) : Outcome (List Nat) := Outcome.expect (checkedShr w a s)

/-- `unchecked_shl` (`checked_shl(rhs).unwrap_unchecked()`: undefined behaviour on `None`, which the
    model keeps visible as `none`) -/
def uncheckedShl (w : Nat) (a : List Nat) (s : Nat) : Option (List Nat) := checkedShl w a s
def uncheckedShr (w : Nat) (a : List Nat) (s : Nat) : Option (List Nat) := checkedShr w a s

/-- `shl` of `trait_fillers!` (= `Shl<ExpType>::shl`): `strict_shl` under `debug_assertions`,
    `wrapping_shl` otherwise -/
def shl (dbg : Bool) (w : Nat) (a : List Nat) (s : Nat) : Outcome (List Nat) :=
  if dbg then strictShl w a s else .ok (wrappingShl w a s)
def shr (dbg : Bool) (w : Nat) (a : List Nat) (s : Nat) : Outcome (List Nat) :=
  if dbg then strictShr w a s else .ok (wrappingShr w a s)

end UI

namespace II
/-- `from_bits(self.bits.rotate_left(n))` -/
def rotateLeft (w : Nat) (a : List Nat) (n : Nat) : List Nat := UI.rotateLeft w a n
def rotateRight (w : Nat) (a : List Nat) (n : Nat) : List Nat := UI.rotateRight w a n

/-- `from_bits(self.bits.unbounded_shl(rhs))` -/
def unboundedShl (w : Nat) (a : List Nat) (s : Nat) : List Nat := UI.unboundedShl w a s

/-- `BInt::unbounded_shr` -/
def unboundedShr (w : Nat) (a : List Nat) (s : Nat) : List Nat :=
  if s ≥ w * a.length then
    if isNegative w a then allOnes w a.length else zero a.length
  else
    if isNegative w a then UI.uncheckedShrPadInternal w true a s
    else UI.uncheckedShrPadInternal w false a s

/-- `BInt::overflowing_shl` -/
def overflowingShl (w : Nat) (a : List Nat) (s : Nat) : List Nat × Bool :=
  let r := UI.overflowingShl w a s
  (r.1, r.2)

/-- `BInt::overflowing_shr` -/
def overflowingShr (w : Nat) (a : List Nat) (s : Nat) : List Nat × Bool :=
  let (overflow, shift) :=
    if s ≥ w * a.length then (true, maskBits (w * a.length) s) else (false, s)
  let u :=
    if isNegative w a then UI.uncheckedShrPadInternal w true a shift
    else UI.uncheckedShrPadInternal w false a shift
  (u, overflow)

def checkedShl (w : Nat) (a : List Nat) (s : Nat) : Option (List Nat) := tupleToOption (overflowingShl w a s)
def checkedShr (w : Nat) (a : List Nat) (s : Nat) : Option (List Nat) := tupleToOption (overflowingShr w a s)
def wrappingShl (w : Nat) (a : List Nat) (s : Nat) : List Nat := (overflowingShl w a s).1
def wrappingShr (w : Nat) (a : List Nat) (s : Nat) : List Nat := (overflowingShr w a s).1
def strictShl (w : Nat) (a : List Nat) (s : Nat) : Outcome (List Nat) := Outcome.expect (checkedShl w a s)
def strictShr (w : Nat) (a : List Nat) (s : Nat) : Outcome (List Nat) := Outcome.expect (checkedShr w a s)
def uncheckedShl (w : Nat) (a : List Nat) (s : Nat) : Option (List Nat) := checkedShl w a s
def uncheckedShr (w : Nat) (a : List Nat) (s : Nat) : Option (List Nat) := checkedShr w a s
def shl (dbg : Bool) (w : Nat) (a : List Nat) (s : Nat) : Outcome (List Nat) :=
  if dbg then strictShl w a s else .ok (wrappingShl w a s)
def shr (dbg : Bool) (w : Nat) (a : List Nat) (s : Nat) : Outcome (List Nat) :=
  if dbg then strictShr w a s else .ok (wrappingShr w a s)
end II
end Bnum
