/-
  Bnum.Model.Basic — values, well-formedness, outcomes.
  Import-free (core Lean only) so that the driver links as a `lean_exe`.

  A bnum integer `BUint<N>` / `BInt<N>` over a digit type of `w` bits is a little-endian
  `List Nat` of length `N` whose entries are `< 2^w`.
-/
namespace Bnum

/-- digit base `2^w` -/
@[inline] def B (w : Nat) : Nat := 2 ^ w

/-- unsigned value of a little-endian digit list -/
def U (w : Nat) : List Nat → Nat
  | [] => 0
  | d :: ds => d + B w * U w ds

/-- well-formed: exactly `n` digits, each `< 2^w` -/
def WF (w n : Nat) (x : List Nat) : Prop := x.length = n ∧ ∀ d ∈ x, d < B w

instance (w n : Nat) (x : List Nat) : Decidable (WF w n x) := by unfold WF; exact inferInstance

/-- `2^(w*n)`: the modulus of an `n`-digit integer -/
@[inline] def M (w n : Nat) : Nat := 2 ^ (w * n)

/-- half modulus (`2^(w*n-1)`) : signed MIN magnitude -/
@[inline] def H (w n : Nat) : Nat := 2 ^ (w * n - 1)

/-- two's-complement value of a `w*n`-bit pattern given its unsigned value -/
def toInt (m : Nat) (u : Nat) : Int := if 2 * u < m then (u : Int) else (u : Int) - m

/-- signed value of a digit list (two's complement, `n = x.length`) -/
def S (w : Nat) (x : List Nat) : Int := toInt (M w x.length) (U w x)

/-- reduce an exact integer into the unsigned range `[0, m)` -/
def wrapU (m : Nat) (z : Int) : Nat := (z % (m : Int)).toNat

/-- the pattern (as unsigned value) of an exact integer in two's complement modulo `m` -/
abbrev wrapPat := wrapU

/-- reduce an exact integer into the signed range `[-m/2, m/2)` -/
def wrapS (m : Nat) (z : Int) : Int := toInt m (wrapU m z)

def repU (m : Nat) (z : Int) : Prop := 0 ≤ z ∧ z < m
def repS (m : Nat) (z : Int) : Prop := -(m : Int) ≤ 2 * z ∧ 2 * z < m

instance (m : Nat) (z : Int) : Decidable (repU m z) := by unfold repU; exact inferInstance
instance (m : Nat) (z : Int) : Decidable (repS m z) := by unfold repS; exact inferInstance

/-- digits of a natural number, exactly `n` of them (value reduced mod `2^(w*n)`) -/
def ofNat (w : Nat) : Nat → Nat → List Nat
  | 0, _ => []
  | n + 1, v => v % B w :: ofNat w n (v / B w)

/-- digits of the two's-complement pattern of an integer -/
def ofInt (w n : Nat) (z : Int) : List Nat := ofNat w n (wrapU (M w n) z)

/-- Result of a Rust function that may panic. -/
inductive Outcome (α : Type) where
  | ok : α → Outcome α
  | panic : Outcome α
  deriving Repr, DecidableEq

namespace Outcome
@[inline] def bind {α β} (x : Outcome α) (f : α → Outcome β) : Outcome β :=
  match x with
  | ok a => f a
  | panic => panic
@[inline] def map {α β} (f : α → β) (x : Outcome α) : Outcome β :=
  match x with
  | ok a => ok (f a)
  | panic => panic
instance : Monad Outcome where
  pure := ok
  bind := bind
/-- `option_expect!` / `.expect(..)`: `None` panics -/
@[inline] def expect {α} : Option α → Outcome α
  | some a => ok a
  | none => panic
end Outcome

/-- `helpers::tuple_to_option` -/
@[inline] def tupleToOption {α} (p : α × Bool) : Option α := if p.2 then none else some p.1

end Bnum
