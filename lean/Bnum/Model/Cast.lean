/-
  Bnum.Model.Cast — integer casts (`As` / `CastFrom`):
    `src/buint/cast.rs`  (`cast_up`, `cast_down`, `buint_as_int!`, `as_buint!`, bool/char,
                          same-digit `CastFrom`, `buint_as_different_digit_bigint!`),
    `src/bint/cast.rs`   (`bint_as!`, `as_bint!`, same-digit `CastFrom`,
                          `bint_as_different_digit_bigint!`),
    `cast_signed` (`buint/mod.rs`), `cast_unsigned` / `to_bits` / `from_bits` (`bint/mod.rs`).
  The float casts of those files are NOT here (Model/Float*.lean, property C14).
  Import-free (core Lean only).

  Modelling notes
  * A primitive integer is a `PTy = (bits, signed)` word holding a pattern `Nat < 2^bits`
    (`usize`/`isize` = 64 bits).  `PInt.*` are the Rust primitive operations on such patterns
    (trusted leaf layer, like `Prim.*`).
  * Arrays are lists; `a[i]` / `a[i] = d` are `idx` / `upd`, which PANIC out of bounds, so the
    "never panics" theorems are real theorems about the index arithmetic of the loops.
  * `<<` / `>>` by `s ≥ BITS` panic in debug builds (and mask the amount in release builds): the model
    panics in both (`PInt.shl`/`PInt.shr`); the theorems show the case is unreachable.
  * `i << BIT_SHIFT` is modelled as `i * w` (`BIT_SHIFT = log2 BITS`; every digit width is a power
    of two) — this is the one place where the generic-`w` model abstracts from the literal text.
  * `usize` counters never overflow (`i ≤ N`).
  * A `BInt<N>` is the same digit list as its `bits : BUint<N>`; `from_bits`/`to_bits` are the
    identity on digit lists.
-/
import Bnum.Model.AddSub
namespace Bnum

/-- a primitive integer type: `u8 … u128, usize (64), i8 … i128, isize (64)` -/
structure PTy where
  bits : Nat
  signed : Bool
  deriving DecidableEq, Repr

namespace PInt
/-- `x < 0` / `x.is_negative()` on a pattern of type `t` (always `false` for unsigned types) -/
def isNeg (t : PTy) (p : Nat) : Bool := t.signed && decide (B t.bits ≤ 2 * p)
/-- `p as T₂` where `p : T₁ = (k₁, s₁)` and `T₂` has `k₂` bits: truncation, or zero- or sign-extension -/
def cast (k₁ : Nat) (s₁ : Bool) (k₂ : Nat) (p : Nat) : Nat :=
  if k₂ ≤ k₁ then p % B k₂
  else if s₁ && decide (B k₁ ≤ 2 * p) then p + (B k₂ - B k₁) else p
/-- `a << s` on a `k`-bit integer (signed or not): `s ≥ k` overflows -/
def shl (k a s : Nat) : Outcome Nat := if s < k then .ok ((a * 2 ^ s) % B k) else .panic
/-- the shifted pattern of `a >> s`, `s < k`: logical for unsigned, arithmetic for signed types -/
def shrRaw (k : Nat) (signed : Bool) (a s : Nat) : Nat :=
  if signed && decide (B k ≤ 2 * a) then a / 2 ^ s + (B k - B (k - s)) else a / 2 ^ s
/-- `a >> s`: `s ≥ k` overflows -/
def shr (k : Nat) (signed : Bool) (a s : Nat) : Outcome Nat :=
  if s < k then .ok (shrRaw k signed a s) else .panic
/-- `a.wrapping_shr(s)`: the amount is masked to the width (`s & (k-1)`, `k` a power of two) -/
def wrappingShr (k : Nat) (signed : Bool) (a s : Nat) : Nat := shrRaw k signed a (s % k)
end PInt

namespace Arr
/-- `a[i]` -/
def idx (a : List Nat) (i : Nat) : Outcome Nat :=
  match a[i]? with
  | some d => .ok d
  | none => .panic
/-- `a[i] = d` -/
def upd (a : List Nat) (i d : Nat) : Outcome (List Nat) :=
  if i < a.length then .ok (a.set i d) else .panic
/-- `while i < stop { s = body(i, s); i += 1 }` run for `k` iterations starting at `i` -/
def forN {σ : Type} (body : Nat → σ → Outcome σ) : Nat → Nat → σ → Outcome σ
  | 0, _, s => .ok s
  | k + 1, i, s => (body i s).bind (forN body k (i + 1))
/-- `let mut i = start; while i < stop { s = body(i, s); i += 1 }` -/
def forRange {σ : Type} (body : Nat → σ → Outcome σ) (start stop : Nat) (s : σ) : Outcome σ :=
  forN body (stop - start) start s
end Arr
open Arr

namespace UI
/-! ### same digit type (`macro cast!` in `buint/cast.rs`) -/

/-- `cast_up::<M>(self, digit)`: `digits = [digit; M]`, then copy `self` into the low part.
    `M - N` underflows if `M < N` (never called that way). -/
def castUp (self : List Nat) (m digit : Nat) : Outcome (List Nat) :=
  let n := self.length
  if m < n then .panic
  else
    forRange (fun i digits =>
      let index := i - (m - n)
      (idx self index).bind fun d => upd digits index d) (m - n) m (List.replicate m digit)

/-- `cast_down::<M>(self)` -/
def castDown (self : List Nat) (m : Nat) : Outcome (List Nat) :=
  forRange (fun i out => (idx self i).bind fun d => upd out i d) 0 m (zero m)

/-- `impl CastFrom<BUint<M>> for BUint<N>` (same digit) -/
def castFromU (src : List Nat) (n : Nat) : Outcome (List Nat) :=
  if src.length < n then castUp src n 0 else castDown src n

/-- `impl CastFrom<BInt<M>> for BUint<N>` (same digit) -/
def castFromI (w : Nat) (src : List Nat) (n : Nat) : Outcome (List Nat) :=
  if src.length < n then
    let paddingDigit := if isNegative w src then B w - 1 else 0
    castUp src n paddingDigit
  else castDown src n

/-! ### primitive → `BUint` (`as_buint!`) -/

/-- loop of `as_buint!`: `while from != 0 && i < N` (fuel = `N - i`) -/
def asBuintLoop (w : Nat) (t : PTy) : Nat → Nat → Nat → List Nat → Outcome (List Nat)
  | 0, _, _, out => .ok out
  | f + 1, i, frm, out =>
    if frm != 0 then
      let masked := PInt.cast t.bits t.signed w frm &&& (B w - 1)
      (upd out i masked).bind fun out =>
        let frm := if t.bits ≤ w then 0 else PInt.wrappingShr t.bits t.signed frm w
        asBuintLoop w t f (i + 1) frm out
    else .ok out

/-- `impl CastFrom<$ty> for BUint<N>` for the twelve primitive integer types -/
def castFromPrim (w n : Nat) (t : PTy) (p : Nat) : Outcome (List Nat) :=
  let out := if PInt.isNeg t p then allOnes w n else zero n
  asBuintLoop w t n 0 p out

/-- `impl CastFrom<bool> for BUint<N>` -/
def castFromBool (n : Nat) (b : Bool) : List Nat := if b then one n else zero n

/-- `impl CastFrom<char> for BUint<N>`: `Self::cast_from(from as u32)` -/
def castFromChar (w n : Nat) (c : Nat) : Outcome (List Nat) := castFromPrim w n ⟨32, false⟩ c

/-! ### `BUint` → primitive (`buint_as_int!`) -/

/-- loop of `buint_as_int!`: `while i << BIT_SHIFT < $int::BITS && i < N` (fuel = `N - i`) -/
def asIntLoop (w k : Nat) (x : List Nat) : Nat → Nat → Nat → Outcome Nat
  | 0, _, out => .ok out
  | f + 1, i, out =>
    if i * w < k then
      (idx x i).bind fun d =>
      (PInt.shl k (PInt.cast w false k d) (i * w)).bind fun sh =>
        asIntLoop w k x f (i + 1) (out ||| sh)
    else .ok out

/-- `impl CastFrom<BUint<N>> for $int` -/
def castToPrim (w : Nat) (x : List Nat) (t : PTy) : Outcome Nat :=
  asIntLoop w t.bits x x.length 0 0

/-! ### different digit types (`buint_as_different_digit_bigint!`, `bint_as_different_…!`)
  `w₁` = `$OtherDigit::BITS` (source), `w₂` = `$Digit::BITS` (target). -/

/-- target digit narrower than source digit: every wide digit is split.  The same loop text occurs
    in the unsigned macro (`out = ZERO`) and in the signed one (`out = MAX`). -/
def splitLoop (w₁ w₂ : Nat) (src : List Nat) (stop : Nat) (out : List Nat) : Outcome (List Nat) :=
  let divideCount := w₁ / w₂
  forRange (fun i out =>
    (idx src (i / divideCount)).bind fun widerDigit =>
      let miniShift := i % divideCount
      (PInt.shr w₁ false widerDigit (miniShift * w₂)).bind fun sh =>
        upd out i (PInt.cast w₁ false w₂ sh)) 0 stop out

/-- target digit wider: narrow digits are or-ed into `current_digit`, flushed every
    `DIVIDE_COUNT` digits and on the last one.  State `(current_digit, out)`. -/
def packLoop (w₁ w₂ : Nat) (src : List Nat) (stop : Nat) (out : List Nat) : Outcome (List Nat) :=
  let divideCount := w₂ / w₁
  (forRange (fun i (st : Nat × List Nat) =>
    let miniShift := i % divideCount
    (idx src i).bind fun d =>
    (PInt.shl w₂ (PInt.cast w₁ false w₂ d) (miniShift * w₁)).bind fun sh =>
      let cur := st.1 ||| sh
      if miniShift == divideCount - 1 || i == stop - 1 then
        (upd st.2 (i / divideCount) cur).bind fun out => .ok (0, out)
      else .ok (cur, st.2)) 0 stop (0, out)).map (·.2)

/-- the and-not variant used for negative sources (`current_digit = MAX`) -/
def packLoopNeg (w₁ w₂ : Nat) (src : List Nat) (stop : Nat) (out : List Nat) :
    Outcome (List Nat) :=
  let divideCount := w₂ / w₁
  (forRange (fun i (st : Nat × List Nat) =>
    let miniShift := i % divideCount
    (idx src i).bind fun d =>
    (PInt.shl w₂ (PInt.cast w₁ false w₂ (Prim.not w₁ d)) (miniShift * w₁)).bind fun sh =>
      let cur := st.1 &&& Prim.not w₂ sh
      if miniShift == divideCount - 1 || i == stop - 1 then
        (upd st.2 (i / divideCount) cur).bind fun out => .ok (B w₂ - 1, out)
      else .ok (cur, st.2)) 0 stop (B w₂ - 1, out)).map (·.2)

/-- `impl CastFrom<$OtherBUint<M>> for $BUint<N>` -/
def castFromUD (w₁ : Nat) (src : List Nat) (w₂ n : Nat) : Outcome (List Nat) :=
  let m := src.length
  let out := zero n
  if w₂ < w₁ then
    let divideCount := w₁ / w₂
    let stopIndex := if m * w₁ > n * w₂ then n else m * divideCount
    splitLoop w₁ w₂ src stopIndex out
  else
    let divideCount := w₂ / w₁
    let stopIndex := if m * w₁ > n * w₂ then n * divideCount else m
    packLoop w₁ w₂ src stopIndex out

/-- `impl CastFrom<$OtherBInt<M>> for $BUint<N>` -/
def castFromID (w₁ : Nat) (src : List Nat) (w₂ n : Nat) : Outcome (List Nat) :=
  let m := src.length
  if !isNegative w₁ src || m * w₁ ≥ n * w₂ then castFromUD w₁ src w₂ n
  else
    let out := allOnes w₂ n
    if w₂ < w₁ then
      let divideCount := w₁ / w₂
      let stopIndex := if m * w₁ > n * w₂ then n else m * divideCount
      splitLoop w₁ w₂ src stopIndex out
    else
      let stopIndex := if m * w₁ > n * w₂ then n * (w₂ / w₁) else m
      packLoopNeg w₁ w₂ src stopIndex out

/-- `BUint::cast_signed` = `BInt::from_bits(self)` -/
def castSigned (x : List Nat) : List Nat := x
end UI

namespace II
/-- `BInt::from_bits` -/
def fromBits (x : List Nat) : List Nat := x
/-- `BInt::to_bits` -/
def toBits (x : List Nat) : List Nat := x
/-- `BInt::cast_unsigned` = `self.to_bits()` -/
def castUnsigned (x : List Nat) : List Nat := toBits x

/-- `impl CastFrom<BUint<M>> for BInt<N>` (same digit): `from_bits(BUint::cast_from(from))` -/
def castFromU (src : List Nat) (n : Nat) : Outcome (List Nat) := (UI.castFromU src n).map fromBits
/-- `impl CastFrom<BInt<M>> for BInt<N>` (same digit) -/
def castFromI (w : Nat) (src : List Nat) (n : Nat) : Outcome (List Nat) :=
  (UI.castFromI w src n).map fromBits
/-- `impl CastFrom<$OtherBUint<M>> for $BInt<N>` -/
def castFromUD (w₁ : Nat) (src : List Nat) (w₂ n : Nat) : Outcome (List Nat) :=
  (UI.castFromUD w₁ src w₂ n).map fromBits
/-- `impl CastFrom<$OtherBInt<M>> for $BInt<N>` -/
def castFromID (w₁ : Nat) (src : List Nat) (w₂ n : Nat) : Outcome (List Nat) :=
  (UI.castFromID w₁ src w₂ n).map fromBits
/-- `as_bint!`: `from_bits(BUint::cast_from(from))` -/
def castFromPrim (w n : Nat) (t : PTy) (p : Nat) : Outcome (List Nat) :=
  (UI.castFromPrim w n t p).map fromBits
def castFromBool (n : Nat) (b : Bool) : List Nat := fromBits (UI.castFromBool n b)
def castFromChar (w n : Nat) (c : Nat) : Outcome (List Nat) := (UI.castFromChar w n c).map fromBits

/-- the negative branch of `bint_as!`: `out = !0; out &= !((!digits[i]) as $int << (i*w))` -/
def asIntLoopNeg (w k : Nat) (x : List Nat) : Nat → Nat → Nat → Outcome Nat
  | 0, _, out => .ok out
  | f + 1, i, out =>
    if i * w < k then
      (idx x i).bind fun d =>
      (PInt.shl k (PInt.cast w false k (Prim.not w d)) (i * w)).bind fun sh =>
        asIntLoopNeg w k x f (i + 1) (out &&& Prim.not k sh)
    else .ok out

/-- `impl CastFrom<BInt<N>> for $int` -/
def castToPrim (w : Nat) (x : List Nat) (t : PTy) : Outcome Nat :=
  if isNegative w x then asIntLoopNeg w t.bits (toBits x) x.length 0 (Prim.not t.bits 0)
  else UI.castToPrim w (toBits x) t
end II

/-- The `CastFrom` impl selected for a bnum → bnum cast: the `cast!` impls when both sides have
    the same digit type, the `*_as_different_digit_bigint!` impls otherwise (trait resolution). -/
def castBnum (w₁ : Nat) (s₁ : Bool) (src : List Nat) (w₂ n : Nat) (s₂ : Bool) :
    Outcome (List Nat) :=
  if w₁ = w₂ then
    match s₁, s₂ with
    | false, false => UI.castFromU src n
    | true, false => UI.castFromI w₁ src n
    | false, true => II.castFromU src n
    | true, true => II.castFromI w₁ src n
  else
    match s₁, s₂ with
    | false, false => UI.castFromUD w₁ src w₂ n
    | true, false => UI.castFromID w₁ src w₂ n
    | false, true => II.castFromUD w₁ src w₂ n
    | true, true => II.castFromID w₁ src w₂ n

/-- bnum → primitive -/
def castToPrim (w : Nat) (s : Bool) (x : List Nat) (t : PTy) : Outcome Nat :=
  if s then II.castToPrim w x t else UI.castToPrim w x t
/-- primitive → bnum (`from_bits` is the identity on digits) -/
def castFromPrim (w n : Nat) (s : Bool) (t : PTy) (p : Nat) : Outcome (List Nat) :=
  if s then II.castFromPrim w n t p else UI.castFromPrim w n t p

end Bnum
