/-
  Bnum.Model.C18Extra — the remaining `num_integer::Integer` / `num_traits` entry points of C18 that
  have no definition in Model/NumTraits.lean:

  * num-integer 0.1.47's PROVIDED `Integer` methods, which bnum does not override and which therefore
    run num-integer's generic bodies on the crate's `div_floor` / `mod_floor` / `gcd` / `lcm` /
    `+` / `-` (`src/lib.rs` of num-integer, `trait Integer`):
      div_ceil           `let (q, r) = self.div_mod_floor(other); if r.is_zero() { q } else { q + Self::one() }`
      gcd_lcm            `(self.gcd(other), self.lcm(other))`
      next_multiple_of   `let m = self.mod_floor(other);
                          self.clone() + if m.is_zero() { Self::zero() } else { other.clone() - m }`
      prev_multiple_of   `self.clone() - self.mod_floor(other)`
      inc / dec          `*self = self.clone() + Self::one()` / `… - Self::one()`
    (`+`, `-` are the unsuffixed operators of `int/ops.rs`: strict under `debug_assertions`,
    wrapping otherwise.)
  * `MulAddAssign::mul_add_assign` (`src/int/numtraits.rs`): `*self = self.mul_add(a, b)`.
  * the by-reference `SaturatingAdd` / `SaturatingSub` / `SaturatingMul` impls
    (`num_trait_impl!`: `Self::saturating_add(*self, *rhs)`), distinct Rust impls from the deprecated
    by-value `Saturating` trait.

  Import-free (core Lean + other Model files).
-/
import Bnum.Model.NumTraits
namespace Bnum
namespace NumT

namespace U
/-- provided `Integer::div_ceil` -/
def divCeil (dbg : Bool) (w : Nat) (a b : List Nat) : Outcome (List Nat) :=
  (divModFloor w a b).bind fun p =>
    if isZeroT p.2 then .ok p.1 else UI.add dbg w p.1 (oneV a.length)
/-- provided `Integer::gcd_lcm` -/
def gcdLcm (dbg : Bool) (w : Nat) (a b : List Nat) : Outcome (List Nat × List Nat) :=
  (gcd dbg w a b).bind fun g => (lcm dbg w a b).bind fun l => .ok (g, l)
/-- provided `Integer::next_multiple_of` -/
def nextMultipleOf (dbg : Bool) (w : Nat) (a b : List Nat) : Outcome (List Nat) :=
  (modFloor w a b).bind fun m =>
    (if isZeroT m then .ok (zeroV a.length) else UI.sub dbg w b m).bind fun d =>
    UI.add dbg w a d
/-- provided `Integer::prev_multiple_of` -/
def prevMultipleOf (dbg : Bool) (w : Nat) (a b : List Nat) : Outcome (List Nat) :=
  (modFloor w a b).bind fun m => UI.sub dbg w a m
/-- provided `Integer::inc` -/
def inc (dbg : Bool) (w : Nat) (a : List Nat) : Outcome (List Nat) := UI.add dbg w a (oneV a.length)
/-- provided `Integer::dec` -/
def dec (dbg : Bool) (w : Nat) (a : List Nat) : Outcome (List Nat) := UI.sub dbg w a (oneV a.length)
/-- `MulAddAssign::mul_add_assign`: `*self = self.mul_add(a, b)` -/
def mulAddAssign (dbg : Bool) (w : Nat) (x a b : List Nat) : Outcome (List Nat) := mulAdd dbg w x a b
/-- `SaturatingAdd::saturating_add(&self, &Self)` etc. (`num_trait_impl!`) -/
def saturatingAddRef (w : Nat) (a b : List Nat) := UI.saturatingAdd w a b
def saturatingSubRef (w : Nat) (a b : List Nat) := UI.saturatingSub w a b
def saturatingMulRef (w : Nat) (a b : List Nat) := UI.saturatingMul w a b
/-- `PrimInt::pow(self, exp: u32)` (`prim_int_methods!`): `Self::pow(self, exp)` -/
def primIntPow (w : Nat) (dbg : Bool) (a : List Nat) (e : Nat) := UI.pow w dbg a e
end U

namespace I
/-- provided `Integer::div_ceil` -/
def divCeil (dbg : Bool) (w : Nat) (a b : List Nat) : Outcome (List Nat) :=
  (divModFloor dbg w a b).bind fun p =>
    if isZeroT p.2 then .ok p.1 else II.add dbg w p.1 (oneV a.length)
/-- provided `Integer::gcd_lcm` -/
def gcdLcm (dbg : Bool) (w : Nat) (a b : List Nat) : Outcome (List Nat × List Nat) :=
  (gcd dbg w a b).bind fun g => (lcm dbg w a b).bind fun l => .ok (g, l)
/-- provided `Integer::next_multiple_of` -/
def nextMultipleOf (dbg : Bool) (w : Nat) (a b : List Nat) : Outcome (List Nat) :=
  (modFloor dbg w a b).bind fun m =>
    (if isZeroT m then .ok (zeroV a.length) else II.sub dbg w b m).bind fun d =>
    II.add dbg w a d
/-- provided `Integer::prev_multiple_of` -/
def prevMultipleOf (dbg : Bool) (w : Nat) (a b : List Nat) : Outcome (List Nat) :=
  (modFloor dbg w a b).bind fun m => II.sub dbg w a m
/-- provided `Integer::inc` -/
def inc (dbg : Bool) (w : Nat) (a : List Nat) : Outcome (List Nat) := II.add dbg w a (oneV a.length)
/-- provided `Integer::dec` -/
def dec (dbg : Bool) (w : Nat) (a : List Nat) : Outcome (List Nat) := II.sub dbg w a (oneV a.length)
/-- `MulAddAssign::mul_add_assign`: `*self = self.mul_add(a, b)` -/
def mulAddAssign (dbg : Bool) (w : Nat) (x a b : List Nat) : Outcome (List Nat) := mulAdd dbg w x a b
def saturatingAddRef (w : Nat) (a b : List Nat) := II.saturatingAdd w a b
def saturatingSubRef (w : Nat) (a b : List Nat) := II.saturatingSub w a b
def saturatingMulRef (w : Nat) (a b : List Nat) := II.saturatingMul w a b
def primIntPow (w : Nat) (dbg : Bool) (a : List Nat) (e : Nat) := II.pow w dbg a e
end I

end NumT
end Bnum
