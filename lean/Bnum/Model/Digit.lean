/-
  Bnum.Model.Digit — Rust primitive integer operations on one digit (trusted leaf layer, validated
  exhaustively at w = 8 by harness bin `prim`) and `src/digit.rs` (modelled 1:1 on top of them).
  Unsigned digits and the *patterns* of signed digits are both `Nat < 2^w`.
-/
import Bnum.Model.Basic
namespace Bnum
namespace Prim
/-- `uN::overflowing_add` -/
@[inline] def uOverflowingAdd (w a b : Nat) : Nat × Bool := ((a + b) % B w, decide (B w ≤ a + b))
/-- `uN::overflowing_sub` -/
@[inline] def uOverflowingSub (w a b : Nat) : Nat × Bool := ((a + B w - b) % B w, decide (a < b))
/-- `iN::overflowing_add` on patterns -/
@[inline] def iOverflowingAdd (w a b : Nat) : Nat × Bool :=
  ((a + b) % B w, decide (¬ repS (B w) (toInt (B w) a + toInt (B w) b)))
/-- `iN::overflowing_sub` on patterns -/
@[inline] def iOverflowingSub (w a b : Nat) : Nat × Bool :=
  ((a + B w - b) % B w, decide (¬ repS (B w) (toInt (B w) a - toInt (B w) b)))
/-- `!d` -/
@[inline] def not (w a : Nat) : Nat := B w - 1 - a
/-- `iN::is_negative` on a pattern -/
@[inline] def isNeg (w a : Nat) : Bool := decide (B w ≤ 2 * a)
end Prim

namespace Digit
/-- `digit::carrying_add` -/
def carryingAdd (w a b : Nat) (carry : Bool) : Nat × Bool :=
  let (s1, o1) := Prim.uOverflowingAdd w a b
  if carry then
    let (s2, o2) := Prim.uOverflowingAdd w s1 1
    (s2, o1 || o2)
  else (s1, o1)

/-- `digit::borrowing_sub` -/
def borrowingSub (w a b : Nat) (borrow : Bool) : Nat × Bool :=
  let (s1, o1) := Prim.uOverflowingSub w a b
  if borrow then
    let (s2, o2) := Prim.uOverflowingSub w s1 1
    (s2, o1 || o2)
  else (s1, o1)

/-- `digit::carrying_add_signed` -/
def carryingAddSigned (w a b : Nat) (carry : Bool) : Nat × Bool :=
  let (s1, o1) := Prim.iOverflowingAdd w a b
  if carry then
    let (s2, o2) := Prim.iOverflowingAdd w s1 1
    (s2, o1 != o2)
  else (s1, o1)

/-- `digit::borrowing_sub_signed` -/
def borrowingSubSigned (w a b : Nat) (borrow : Bool) : Nat × Bool :=
  let (s1, o1) := Prim.iOverflowingSub w a b
  if borrow then
    let (s2, o2) := Prim.iOverflowingSub w s1 1
    (s2, o1 != o2)
  else (s1, o1)

/-- `digit::widening_mul` (the `DoubleDigit` product never wraps: see `Lemmas`) -/
def wideningMul (w a b : Nat) : Nat × Nat :=
  let prod := (a * b) % (B w * B w)
  (prod % B w, (prod / B w) % B w)

/-- `digit::carrying_mul` -/
def carryingMul (w a b carry current : Nat) : Nat × Nat :=
  let prod := (carry + current + a * b) % (B w * B w)
  (prod % B w, (prod / B w) % B w)

/-- `digit::div_rem_wide` (requires `high < rhs`; `debug_assert` modelled by callers' invariants) -/
def divRemWide (w low high rhs : Nat) : Nat × Nat :=
  let a := ((high * B w) % (B w * B w)) ||| low
  ((a / rhs) % B w, (a % rhs) % B w)
end Digit
end Bnum
