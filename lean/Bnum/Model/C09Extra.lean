/-
  Bnum.Model.C09Extra — the remaining entry points of `src/cast/mod.rs` (property C09):
    * the blanket `impl<U> As for U { fn as_<T: CastFrom<Self>>(self) -> T { T::cast_from(self) } }`
    * `primitive_cast_impl!`: `impl CastFrom<$from> for $ty { fn cast_from(from) -> Self { from as Self } }`
      for the twelve primitive integer types.
  Import-free (core Lean only).
-/
import Bnum.Model.Cast
namespace Bnum

/-- `As::as_::<T>(self)`: the trait bound `T : CastFrom<Self>` is the function argument `castFrom`
    (trait resolution picks it); the body is `T::cast_from(self)`. -/
def as_ {σ τ : Type} (castFrom : σ → τ) (self : σ) : τ := castFrom self

/-- `impl CastFrom<$from> for $ty` between primitive integers: `from as Self` -/
def castPrim (t₁ t₂ : PTy) (p : Nat) : Nat := PInt.cast t₁.bits t₁.signed t₂.bits p

end Bnum
