/-
  Bnum.Model.BitOps — the counting / bit-manipulation functions of `src/buint/mod.rs`
  (count_ones … trailing_ones, bits, bit, set_bit, power_of_two, is_power_of_two, next_power_of_two,
  swap_bytes, reverse_bits), `checked_next_power_of_two` (`src/buint/checked.rs`),
  `wrapping_next_power_of_two` (`src/buint/wrapping.rs`), the signed forwarders / `signum` /
  `is_positive` of `src/bint/mod.rs`, and the trait glue of `src/{buint,bint}/cmp.rs`
  (`PartialOrd`, `Ord`) plus the derived `PartialEq` / `Hash`.

  Import-free (core Lean only).  `Prim.*` are the Rust primitive-integer methods on ONE digit
  (trusted leaf layer; a digit is a `Nat < 2^w`).

  Modelling notes
  * `ExpType = u32` counters are modelled by `Nat`: every count is `≤ BITS = w*N`, which the crate
    assumes fits `u32` (it computes `Self::BITS as ExpType` itself), so `+=` never overflows.
  * `index as usize >> digit::BIT_SHIFT` and `index & digit::BITS_MINUS_1` are modelled literally,
    with `BIT_SHIFT = BITS.trailing_zeros()`; they equal `index / w` and `index % w` only when `w` is
    a power of two (`bitShift_pow2`, `digitIndex_eq`, `bitIndex_eq` in Lemmas/Bits.lean), which holds
    for every real digit type (8/16/32/64).
-/
import Bnum.Model.Cmp
import Bnum.Model.Bits
namespace Bnum

namespace Prim
/-- fuel loop for `trailing_zeros`: number of low zero bits, capped by the fuel -/
def tzLoop : Nat → Nat → Nat
  | 0, _ => 0
  | f + 1, x => if x % 2 == 1 then 0 else 1 + tzLoop f (x / 2)
/-- `uN::trailing_zeros` of a `w`-bit digit (`w` for `0`) -/
def trailingZeros (w d : Nat) : Nat := tzLoop w d
/-- fuel loop for `count_ones` -/
def popLoop : Nat → Nat → Nat
  | 0, _ => 0
  | f + 1, x => x % 2 + popLoop f (x / 2)
/-- `uN::count_ones` -/
def countOnes (w d : Nat) : Nat := popLoop w d
/-- `uN::count_zeros` (`(!self).count_ones()`) -/
def countZeros (w d : Nat) : Nat := countOnes w (not w d)
/-- fuel loop for the bit length -/
def lenLoop : Nat → Nat → Nat
  | 0, _ => 0
  | f + 1, x => if x == 0 then 0 else 1 + lenLoop f (x / 2)
/-- `uN::leading_zeros` of a `w`-bit digit (`w` for `0`) -/
def leadingZeros (w d : Nat) : Nat := w - lenLoop w d
/-- `uN::leading_ones` (`(!self).leading_zeros()`) -/
def leadingOnes (w d : Nat) : Nat := leadingZeros w (not w d)
/-- `uN::trailing_ones` (`(!self).trailing_zeros()`) -/
def trailingOnes (w d : Nat) : Nat := trailingZeros w (not w d)
/-- fuel loop for `reverse_bits`: shifts the low bit of `x` into `acc`, `f` times -/
def revLoop : Nat → Nat → Nat → Nat
  | 0, _, acc => acc
  | f + 1, x, acc => revLoop f (x / 2) (2 * acc + x % 2)
/-- `uN::reverse_bits` -/
def reverseBits (w d : Nat) : Nat := revLoop w d 0
/-- fuel loop for `swap_bytes`: shifts the low byte of `x` into `acc`, `f` times -/
def swapLoop : Nat → Nat → Nat → Nat
  | 0, _, acc => acc
  | f + 1, x, acc => swapLoop f (x / 256) (256 * acc + x % 256)
/-- `uN::swap_bytes` (the digit has `w / 8` bytes) -/
def swapBytes (w d : Nat) : Nat := swapLoop (w / 8) d 0
/-- `iN::is_positive` on a pattern -/
@[inline] def isPos (w a : Nat) : Bool := decide (0 < a ∧ 2 * a < B w)
end Prim

/-- `digit::BIT_SHIFT = BITS.trailing_zeros()` (`BITS : u32`) -/
def bitShift (w : Nat) : Nat := Prim.trailingZeros 32 w
/-- `index as usize >> digit::BIT_SHIFT` -/
def digitIndex (w index : Nat) : Nat := index >>> bitShift w
/-- `index & digit::BITS_MINUS_1` -/
def bitIndex (w index : Nat) : Nat := index &&& (w - 1)

namespace UI
/-- loop of `count_ones` (state: `ones`) -/
def countOnesLoop (w : Nat) : List Nat → Nat → Nat
  | [], ones => ones
  | d :: ds, ones => countOnesLoop w ds (ones + Prim.countOnes w d)
def countOnes (w : Nat) (x : List Nat) : Nat := countOnesLoop w x 0

def countZerosLoop (w : Nat) : List Nat → Nat → Nat
  | [], zeros => zeros
  | d :: ds, zeros => countZerosLoop w ds (zeros + Prim.countZeros w d)
def countZeros (w : Nat) (x : List Nat) : Nat := countZerosLoop w x 0

/-- loop of `leading_zeros`, over the *reversed* digits (`i` runs from `N-1` down), `break` on the
    first non-zero digit -/
def lzLoop (w : Nat) : List Nat → Nat → Nat
  | [], zeros => zeros
  | d :: ds, zeros =>
    let zeros' := zeros + Prim.leadingZeros w d
    if d != 0 then zeros' else lzLoop w ds zeros'
def leadingZeros (w : Nat) (x : List Nat) : Nat := lzLoop w x.reverse 0

/-- loop of `trailing_zeros` (digits in order), `break` on the first non-zero digit -/
def tzLoop (w : Nat) : List Nat → Nat → Nat
  | [], zeros => zeros
  | d :: ds, zeros =>
    let zeros' := zeros + Prim.trailingZeros w d
    if d != 0 then zeros' else tzLoop w ds zeros'
def trailingZeros (w : Nat) (x : List Nat) : Nat := tzLoop w x 0

/-- loop of `leading_ones` over the reversed digits, `break` on the first digit `!= Digit::MAX` -/
def loLoop (w : Nat) : List Nat → Nat → Nat
  | [], ones => ones
  | d :: ds, ones =>
    let ones' := ones + Prim.leadingOnes w d
    if d != B w - 1 then ones' else loLoop w ds ones'
def leadingOnes (w : Nat) (x : List Nat) : Nat := loLoop w x.reverse 0

def toLoop (w : Nat) : List Nat → Nat → Nat
  | [], ones => ones
  | d :: ds, ones =>
    let ones' := ones + Prim.trailingOnes w d
    if d != B w - 1 then ones' else toLoop w ds ones'
def trailingOnes (w : Nat) (x : List Nat) : Nat := toLoop w x 0

/-- `bits`: `Self::BITS as ExpType - self.leading_zeros()` (never underflows: `leadingZeros_le`) -/
def bits (w : Nat) (x : List Nat) : Nat := w * x.length - leadingZeros w x

/-- `bit`: the array index panics when out of bounds -/
def bit (w : Nat) (x : List Nat) (index : Nat) : Outcome Bool :=
  match x[digitIndex w index]? with
  | none => .panic
  | some digit => .ok ((digit &&& (1 <<< bitIndex w index)) != 0)

/-- `set_bit` (`&mut self` → returns the new value) -/
def setBit (w : Nat) (x : List Nat) (index : Nat) (value : Bool) : Outcome (List Nat) :=
  match x[digitIndex w index]? with
  | none => .panic
  | some digit =>
    let shift := bitIndex w index
    .ok (x.set (digitIndex w index)
      ((digit &&& Prim.not w (1 <<< shift)) ||| (value.toNat <<< shift)))

/-- `power_of_two(power)`: `out = ZERO; out.digits[power >> BIT_SHIFT] = 1 << (power & (BITS-1))` -/
def powerOfTwo (w n : Nat) (power : Nat) : Outcome (List Nat) :=
  if digitIndex w power < n then
    .ok ((zero n).set (digitIndex w power) (1 <<< bitIndex w power))
  else .panic

/-- loop of `is_power_of_two` (state: `ones`), early `return false` -/
def isPow2Loop (w : Nat) : List Nat → Nat → Bool
  | [], ones => ones == 1
  | d :: ds, ones =>
    let ones' := ones + Prim.countOnes w d
    if ones' > 1 then false else isPow2Loop w ds ones'
def isPowerOfTwo (w : Nat) (x : List Nat) : Bool := isPow2Loop w x 0

/-- `checked_next_power_of_two` (the inner `power_of_two` could panic in principle) -/
def checkedNextPowerOfTwo (w : Nat) (x : List Nat) : Outcome (Option (List Nat)) :=
  if isPowerOfTwo w x then .ok (some x)
  else
    let b := bits w x
    if b == w * x.length then .ok none
    else (powerOfTwo w x.length b).map some

/-- `wrapping_next_power_of_two` -/
def wrappingNextPowerOfTwo (w : Nat) (x : List Nat) : Outcome (List Nat) :=
  (checkedNextPowerOfTwo w x).map fun
    | some r => r
    | none => zero x.length

/-- `next_power_of_two`: `option_expect!(checked…)` in debug, `wrapping…` in release -/
def nextPowerOfTwo (dbg : Bool) (w : Nat) (x : List Nat) : Outcome (List Nat) :=
  if dbg then (checkedNextPowerOfTwo w x).bind Outcome.expect
  else wrappingNextPowerOfTwo w x

/-- `swap_bytes`: `out[i] = self[N-1-i].swap_bytes()` -/
def swapBytes (w : Nat) (x : List Nat) : List Nat := x.reverse.map (Prim.swapBytes w)
/-- `reverse_bits`: `out[i] = self[N-1-i].reverse_bits()` -/
def reverseBits (w : Nat) (x : List Nat) : List Nat := x.reverse.map (Prim.reverseBits w)
end UI

namespace II
def countOnes (w : Nat) (x : List Nat) : Nat := UI.countOnes w x
def countZeros (w : Nat) (x : List Nat) : Nat := UI.countZeros w x
def leadingZeros (w : Nat) (x : List Nat) : Nat := UI.leadingZeros w x
def trailingZeros (w : Nat) (x : List Nat) : Nat := UI.trailingZeros w x
def leadingOnes (w : Nat) (x : List Nat) : Nat := UI.leadingOnes w x
def trailingOnes (w : Nat) (x : List Nat) : Nat := UI.trailingOnes w x
def swapBytes (w : Nat) (x : List Nat) : List Nat := UI.swapBytes w x
def reverseBits (w : Nat) (x : List Nat) : List Nat := UI.reverseBits w x
def bits (w : Nat) (x : List Nat) : Nat := UI.bits w x
def bit (w : Nat) (x : List Nat) (index : Nat) : Outcome Bool := UI.bit w x index
def bitand (a b : List Nat) : List Nat := UI.bitand a b
def bitor (a b : List Nat) : List Nat := UI.bitor a b
def bitxor (a b : List Nat) : List Nat := UI.bitxor a b
def not (w : Nat) (a : List Nat) : List Nat := UI.not w a
/-- `signum` -/
def signum (w : Nat) (x : List Nat) : List Nat :=
  if isNegative w x then negOne w x.length
  else if isZero x then zero x.length
  else one x.length
/-- `is_positive`: `sd.is_positive() || (sd == 0 && !self.bits.is_zero())` -/
def isPositive (w : Nat) (x : List Nat) : Bool :=
  let sd := topDigit x
  Prim.isPos w sd || (sd == 0 && !isZero x)
/-- `is_power_of_two`: `!self.is_negative() && self.bits.is_power_of_two()` -/
def isPowerOfTwo (w : Nat) (x : List Nat) : Bool := !isNegative w x && UI.isPowerOfTwo w x
end II

/-! ### trait glue: `src/buint/cmp.rs`, `src/bint/cmp.rs`, `#[derive(PartialEq, Eq, Hash)]` -/
namespace Traits
variable (cmp : List Nat → List Nat → Ordering)
/-- `PartialOrd::partial_cmp` = `Some(self.cmp(other))` -/
def partialCmp (a b : List Nat) : Option Ordering := some (cmp a b)
/-- `Ord::cmp` = `Self::cmp(self, other)` -/
def ordCmp (a b : List Nat) : Ordering := cmp a b
/-- `Ord::max` / `min` / `clamp` are *overridden* in `{buint,bint}/cmp.rs` to forward to the inherent
    functions (core's provided bodies are not used) -/
def ordMax (a b : List Nat) : List Nat := CmpImpl.max cmp a b
def ordMin (a b : List Nat) : List Nat := CmpImpl.min cmp a b
def ordClamp (a mn mx : List Nat) : Outcome (List Nat) := CmpImpl.clamp cmp a mn mx
/-- operator `<` : core's default `PartialOrd::lt` = `matches!(partial_cmp, Some(Less))` -/
def opLt (a b : List Nat) : Bool := match partialCmp cmp a b with | some .lt => true | _ => false
def opLe (a b : List Nat) : Bool :=
  match partialCmp cmp a b with | some .lt | some .eq => true | _ => false
def opGt (a b : List Nat) : Bool := match partialCmp cmp a b with | some .gt => true | _ => false
def opGe (a b : List Nat) : Bool :=
  match partialCmp cmp a b with | some .gt | some .eq => true | _ => false
/-- operator `==` : the *derived* `PartialEq` on `[Digit; N]` (element-wise equality of the arrays) -/
def opEq (a b : List Nat) : Bool := a == b
def opNe (a b : List Nat) : Bool := !(opEq a b)
/-- `#[derive(Hash)]`: the hasher is fed the digit array (for `BInt`: its `bits` field, i.e. the
    same array) and nothing else.  The model of `hash` is therefore "an arbitrary function `h` of
    the digit list". -/
def hashWith {α : Type} (h : List Nat → α) (x : List Nat) : α := h x
end Traits

end Bnum
