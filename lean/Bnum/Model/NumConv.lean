/-
  Bnum.Model.NumConv — `num_traits::{FromPrimitive, ToPrimitive, AsPrimitive}` (property C19):
    `src/buint/numtraits.rs`  (`FromPrimitive for BUint`: `from_u64`, `from_i64`, `from_u128`,
                               `from_i128`, `from_float!`; `ToPrimitive`: `to_int!`, `to_f32/f64`;
                               `u32_bits` / `u64_bits`),
    `src/buint/cast.rs`       (`decode_f32` / `decode_f64`),
    `src/bint/numtraits.rs`   (`from_uint!`, `from_int!`, `from_float!`, `to_uint!`, `to_int!`,
                               `to_f32/f64`, `Signed::is_negative`),
    `src/int/numtraits.rs`    (`impl_as_primitive_big_num_for_primitive!`: `as_ = cast_from`),
    `src/int/ops.rs`          (`try_shift_impl!`: `Shl<i16>`), `src/bint/const_trait_fillers.rs`
                              (`neg`),
    num-traits 0.2.19 `src/cast.rs` (the PROVIDED methods of `FromPrimitive` that `BUint` does not
                               override: `from_u8/u16/u32/usize`, `from_i8/i16/i32/isize`).
  Import-free (core Lean only).  Conventions of Model/Cast.lean (primitive words `PTy`, `Arr.idx` /
  `Arr.upd` panic out of bounds, `i << BIT_SHIFT` is `i * w`) and Model/Float.lean (a float is its
  bit pattern, a format is `FloatFmt`).

  TRUSTED PLUMBING (value level, not bnum code)
  * num-traits defaults: `from_u8(n) = from_u64(From::from(n))` (zero-extension),
    `from_i8(n) = from_i64(From::from(n))` (sign-extension), `from_usize(n) =
    n.to_u64().and_then(from_u64)` and `from_isize(n) = n.to_i64().and_then(from_i64)` where
    `usize::to_u64` / `isize::to_i64` are `Some(self as _)` because the sizes are equal on the
    64-bit target.  `BInt` overrides all twelve `from_*`, and both types override all twelve `to_*`
    and `to_f32` / `to_f64`, so no other default is reachable.
  * `u64::try_from(i64)` is `Ok(int as u64)` iff `int ≥ 0`.
  * primitive float predicates (`is_finite`, `== 0.0`, `is_sign_negative`, unary minus, `to_bits`)
    and `u32::leading_zeros` / `checked_shr` on the mantissa word.
  * `to_f32` / `to_f64` / `as_` delegate to the `CastFrom` impls modelled in Model/Cast.lean (integer
    targets) and Model/Float.lean (float targets, value-level integer side).
-/
import Bnum.Model.Convert
import Bnum.Model.Float
import Bnum.Model.Shift
namespace Bnum
namespace NumC
open Arr

/-! ### shared loop of `from_u64` / `from_u128` (BUint), `from_uint!` and `from_int!` (BInt)

  ```
  while i << BIT_SHIFT < BITS_OF_PRIM {
      let d = (n >> (i << BIT_SHIFT)) as Digit;
      if d != initial_digit { if i < N { out.digits[i] = d; } else { return None; } }
      i += 1;
  }
  ```
  The four Rust loops differ only in the primitive type (`k` bits, `signed` selects the arithmetic
  `>>` and the sign-extending `as`) and in `initial_digit` (0 except for negative `from_int!`).
  Result `none` = early `return None`; fuel `k` (at most `⌈k / w⌉ ≤ k` iterations). -/
def fromLoop (w k : Nat) (signed : Bool) (p initial : Nat) :
    Nat → Nat → List Nat → Outcome (Option (List Nat))
  | 0, _, out => .ok (some out)
  | f + 1, i, out =>
    if i * w < k then
      (PInt.shr k signed p (i * w)).bind fun sh =>
        let d := PInt.cast k signed w sh
        if d != initial then
          if i < out.length then
            (upd out i d).bind fun out => fromLoop w k signed p initial f (i + 1) out
          else .ok none
        else fromLoop w k signed p initial f (i + 1) out
    else .ok (some out)

/-! ### primitive helpers (trusted leaf layer) -/

/-- `u32_bits` / `u64_bits`: `BITS - u.leading_zeros()` -/
def mantBits (u : Nat) : Nat := Flt.bitsOf u
/-- `uN::checked_shr` on a `k`-bit word -/
def primCheckedShr (k a s : Nat) : Option Nat := if s < k then some (a >>> s) else none
/-- `f.is_finite()` -/
def isFinite (F : FloatFmt) (x : Nat) : Bool := decide (Flt.absBits F x < Flt.infinity F)
/-- `f == 0.0` (true for `+0.0` and `-0.0`) -/
def isZeroF (F : FloatFmt) (x : Nat) : Bool := decide (Flt.absBits F x = 0)

/-- `decode_f32` / `decode_f64` (buint/cast.rs): `(mant, exp)` with `|f| = mant · 2^exp` for normal
    floats (for subnormals the Rust value is half the true one: the exponent field 0 is not
    replaced by 1; kept as is) -/
def decodeFloat (F : FloatFmt) (bits : Nat) : Nat × Int :=
  let mantMask := (2 ^ F.bits - 1) >>> (F.bits - (F.p - 1))
  let expMask := (2 ^ F.bits - 1) >>> 1
  let bias : Int := (F.emax : Int) - 1
  let exp := (bits &&& expMask) >>> (F.p - 1)
  let mant := bits &&& mantMask
  let mant := if exp != 0 then mant ||| (1 <<< (F.p - 1)) else mant
  (mant, (exp : Int) - (bias + (F.p : Int) - 1))

/-- `Shl<i16> for BUint` (`try_shift_impl!`): debug builds `ExpType::try_from(rhs).expect(..)`,
    release builds `rhs as ExpType`; then `Self::shl` (`strict_shl` / `wrapping_shl`) -/
def shlI16 (dbg : Bool) (w : Nat) (a : List Nat) (rhs : Int) : Outcome (List Nat) :=
  if dbg then
    if rhs < 0 then .panic else UI.shl true w a rhs.toNat
  else UI.shl false w a (rhs % (2 ^ 32 : Int)).toNat

/-- `BInt::neg`: `strict_neg` under `debug_assertions`, `wrapping_neg` otherwise -/
def negI (dbg : Bool) (w : Nat) (a : List Nat) : Outcome (List Nat) :=
  if dbg then II.strictNeg w a else .ok (II.wrappingNeg w a)

/-! ### num-traits plumbing (trusted) -/

/-- `From::from(n)`: lossless widening `uK → u64` / `iK → i64` -/
def widen64 (t : PTy) (p : Nat) : Nat := PInt.cast t.bits t.signed 64 p
/-- `usize::to_u64` / `isize::to_i64` (num-traits `impl_to_primitive_*`: equal sizes ⇒
    `Some(self as _)`) -/
def sizeTo64 (t : PTy) (p : Nat) : Option Nat := some (PInt.cast t.bits t.signed 64 p)

/-- the twelve primitive integer types (`usize` / `isize` are 64-bit words that take their own
    route through the num-traits defaults) -/
inductive PrimT where
  | u8 | u16 | u32 | u64 | u128 | usize | i8 | i16 | i32 | i64 | i128 | isize
  deriving DecidableEq, Repr

def PrimT.ty : PrimT → PTy
  | .u8 => ⟨8, false⟩ | .u16 => ⟨16, false⟩ | .u32 => ⟨32, false⟩ | .u64 => ⟨64, false⟩
  | .u128 => ⟨128, false⟩ | .usize => ⟨64, false⟩
  | .i8 => ⟨8, true⟩ | .i16 => ⟨16, true⟩ | .i32 => ⟨32, true⟩ | .i64 => ⟨64, true⟩
  | .i128 => ⟨128, true⟩ | .isize => ⟨64, true⟩

namespace UI
/-! ### `impl FromPrimitive for BUint<N>` -/

/-- `from_u64` (`k = 64`) / `from_u128` (`k = 128`) -/
def fromUintK (w n k p : Nat) : Outcome (Option (List Nat)) :=
  fromLoop w k false p 0 k 0 (zero n)
def fromU64 (w n p : Nat) : Outcome (Option (List Nat)) := fromUintK w n 64 p
def fromU128 (w n p : Nat) : Outcome (Option (List Nat)) := fromUintK w n 128 p

/-- `from_i64` / `from_i128`: `match uK::try_from(int) { Ok(int) => from_uK(int), _ => None }` -/
def fromIntK (w n k p : Nat) : Outcome (Option (List Nat)) :=
  if PInt.isNeg ⟨k, true⟩ p then .ok none else fromUintK w n k p
def fromI64 (w n p : Nat) : Outcome (Option (List Nat)) := fromIntK w n 64 p
def fromI128 (w n p : Nat) : Outcome (Option (List Nat)) := fromIntK w n 128 p

/-- `FromPrimitive::from_<prim>` for `BUint<N>`: the four overridden methods, else the
    num-traits defaults -/
def fromPrim (w n : Nat) (t : PrimT) (p : Nat) : Outcome (Option (List Nat)) :=
  match t with
  | .u64 => fromU64 w n p
  | .u128 => fromU128 w n p
  | .i64 => fromI64 w n p
  | .i128 => fromI128 w n p
  | .u8 | .u16 | .u32 => fromU64 w n (widen64 t.ty p)
  | .i8 | .i16 | .i32 => fromI64 w n (widen64 t.ty p)
  | .usize => match sizeTo64 t.ty p with
    | some q => fromU64 w n q
    | none => .ok none
  | .isize => match sizeTo64 t.ty p with
    | some q => fromI64 w n q
    | none => .ok none

/-- `from_float!` (buint/numtraits.rs): `from_f32` / `from_f64`.  `Self::cast_from(mant)` is the
    `as_buint!` cast from the mantissa word (`u32` / `u64`). -/
def fromFloat (dbg : Bool) (F : FloatFmt) (w n : Nat) (f : Nat) : Outcome (Option (List Nat)) :=
  if !isFinite F f then .ok none else
  if isZeroF F f then .ok (some (zero n)) else
  if Flt.isSignNegative F f then .ok none else
  let (mant, exp) := decodeFloat F f
  if exp < 0 then
    let mant := (primCheckedShr F.bits mant (-exp).toNat).getD 0
    if mantBits mant > w * n then .ok none
    else (Bnum.UI.castFromPrim w n ⟨F.bits, false⟩ mant).map some
  else
    if mantBits mant + exp.toNat > w * n then .ok none
    else (Bnum.UI.castFromPrim w n ⟨F.bits, false⟩ mant).bind fun c =>
      (shlI16 dbg w c exp).map some

/-! ### `impl ToPrimitive for BUint<N>` -/

/-- `to_int!` (buint/numtraits.rs) for all twelve integer targets — the body is token for token
    that of `try_from_buint!` (Model/Convert.lean `UI.tryToPrim`) with `None` for `Err` -/
def toPrim (w : Nat) (x : List Nat) (t : PTy) : Outcome (Option Nat) :=
  let k := t.bits
  let fin (out i : Nat) : Outcome (Option Nat) :=
    if PInt.isNeg t out then .ok none
    else (restAll x 0 (x.length - i) i).bind fun ok => .ok (if ok then some out else none)
  if w > k then
    (idx x 0).bind fun d0 =>
      let small := PInt.cast w false k d0
      let trunc := PInt.cast k t.signed w small
      if d0 != trunc then .ok none else fin small 1
  else
    (asmOrLoop w k x x.length 0 0).bind fun r => fin r.1 r.2

/-- `to_f32` / `to_f64`: `Some(self.as_())` -/
def toFloat (dbg : Bool) (F : FloatFmt) (w : Nat) (x : List Nat) : Outcome (Option Nat) :=
  (Flt.floatFromBUint F (w * x.length) dbg (U w x)).map some
end UI

namespace II
/-! ### `impl FromPrimitive for BInt<N>` -/

/-- `from_uint!` -/
def fromUint (w n k p : Nat) : Outcome (Option (List Nat)) :=
  (fromLoop w k false p 0 k 0 (zero n)).bind fun r =>
    match r with
    | none => .ok none
    | some out => if isNegative w out then .ok none else .ok (some out)

/-- `from_int!` -/
def fromInt (w n k p : Nat) : Outcome (Option (List Nat)) :=
  let neg := PInt.isNeg ⟨k, true⟩ p
  let initialDigit := if neg then B w - 1 else 0
  let out := II.fromBits (UI.fromDigits (List.replicate n initialDigit))
  (fromLoop w k true p initialDigit k 0 out).bind fun r =>
    match r with
    | none => .ok none
    | some out => if neg != isNegative w out then .ok none else .ok (some out)

/-- `FromPrimitive::from_<prim>` for `BInt<N>` (all twelve are overridden) -/
def fromPrim (w n : Nat) (t : PrimT) (p : Nat) : Outcome (Option (List Nat)) :=
  if t.ty.signed then fromInt w n t.ty.bits p else fromUint w n t.ty.bits p

/-- `from_float!` (bint/numtraits.rs) -/
def fromFloat (dbg : Bool) (F : FloatFmt) (w n : Nat) (f : Nat) : Outcome (Option (List Nat)) :=
  if Flt.isSignNegative F f then
    (UI.fromFloat dbg F w n (Flt.neg F f)).bind fun r =>
      match r with
      | none => .ok none
      | some u =>
        let i := II.fromBits u
        if II.eq i (iMin w n) then .ok (some (iMin w n))
        else if isNegative w i then .ok none
        else (negI dbg w i).map some
  else
    (UI.fromFloat dbg F w n f).bind fun r =>
      match r with
      | none => .ok none
      | some u =>
        let i := II.fromBits u
        if isNegative w i then .ok none else .ok (some i)

/-! ### `impl ToPrimitive for BInt<N>` -/

/-- `to_uint!` (unsigned targets) -/
def toPrimUnsigned (w : Nat) (x : List Nat) (t : PTy) : Outcome (Option Nat) :=
  if isNegative w x then .ok none else UI.toPrim w (II.toBits x) t

/-- `to_int!` (bint/numtraits.rs, signed targets) — token for token the body of
    `int_try_from_bint!` (Model/Convert.lean `II.tryToPrimSigned`) -/
def toPrimSigned (w : Nat) (x : List Nat) (t : PTy) : Outcome (Option Nat) :=
  let k := t.bits
  let neg := isNegative w x
  let out0 := if neg then Prim.not k 0 else 0
  let padding := if neg then B w - 1 else 0
  let fin (out i : Nat) : Outcome (Option Nat) :=
    (restAll x padding (x.length - i) i).bind fun ok =>
      if !ok then .ok none
      else if PInt.isNeg t out != neg then .ok none
      else .ok (some out)
  if w > k then
    (idx x 0).bind fun d0 =>
      let small := PInt.cast w false k d0
      let trunc := PInt.cast k t.signed w small
      if d0 != trunc then .ok none else fin small 1
  else if neg then (asmAndNotLoop w k x x.length 0 out0).bind fun r => fin r.1 r.2
  else (asmOrLoop w k x x.length 0 out0).bind fun r => fin r.1 r.2

def toPrim (w : Nat) (x : List Nat) (t : PTy) : Outcome (Option Nat) :=
  if t.signed then toPrimSigned w x t else toPrimUnsigned w x t

/-- `to_f32` / `to_f64`: `Some(self.as_())` -/
def toFloat (dbg : Bool) (F : FloatFmt) (w : Nat) (x : List Nat) : Outcome (Option Nat) :=
  (Flt.floatFromBInt F (w * x.length) dbg (U w x)).map some
end II

/-! ### dispatch on the signedness of the bnum type -/

/-- `<bnum as FromPrimitive>::from_<prim>(p)` -/
def fromPrim (w n : Nat) (s : Bool) (t : PrimT) (p : Nat) : Outcome (Option (List Nat)) :=
  if s then II.fromPrim w n t p else UI.fromPrim w n t p
/-- `<bnum as FromPrimitive>::from_f32 / from_f64` -/
def fromFloat (dbg : Bool) (F : FloatFmt) (w n : Nat) (s : Bool) (f : Nat) :
    Outcome (Option (List Nat)) :=
  if s then II.fromFloat dbg F w n f else UI.fromFloat dbg F w n f
/-- `ToPrimitive::to_<prim>` -/
def toPrim (w : Nat) (s : Bool) (x : List Nat) (t : PTy) : Outcome (Option Nat) :=
  if s then II.toPrim w x t else UI.toPrim w x t
/-- `ToPrimitive::to_f32 / to_f64` -/
def toFloat (dbg : Bool) (F : FloatFmt) (w : Nat) (s : Bool) (x : List Nat) : Outcome (Option Nat) :=
  if s then II.toFloat dbg F w x else UI.toFloat dbg F w x
/-- `AsPrimitive<$int>::as_` = `<$int>::cast_from(self)` -/
def asPrim (w : Nat) (s : Bool) (x : List Nat) (t : PTy) : Outcome Nat := castToPrim w s x t
/-- `AsPrimitive<f32/f64>::as_` = `<$float>::cast_from(self)` -/
def asFloat (dbg : Bool) (F : FloatFmt) (w : Nat) (s : Bool) (x : List Nat) : Outcome Nat :=
  if s then Flt.floatFromBInt F (w * x.length) dbg (U w x)
  else Flt.floatFromBUint F (w * x.length) dbg (U w x)

end NumC
end Bnum
