/-
  Bnum.Model.Mul — `src/buint/mul.rs` (`long_mul`), `src/buint/bigint_helpers.rs` (`widening_mul`,
  `carrying_mul`), `overflowing_mul` / `checked_mul` / `wrapping_mul` / `saturating_mul` of
  `src/{buint,bint}/{overflowing,checked,wrapping,saturating}.rs`, `strict_mul` (`src/int/strict.rs`)
  and the unsuffixed `mul` (`src/int/ops.rs`, body depends on `cfg(debug_assertions)`).

  Data representation of the two nested `while` loops.  Row `i` of the Rust code touches
  `out.digits[i + j]` for `j = 0, 1, …` only, and `out.digits[i]` is final once row `i` is done.
  The loop state of row `i` is therefore modelled by the *tail* `out.digits[i..N]` (length `N - i`);
  the outer recursion (structural over the digits of `self`) emits digit `i` after row `i` and
  continues on the tail.  The test `index < N` of the Rust inner loop is "the tail is not exhausted".
-/
import Bnum.Model.AddSub
namespace Bnum
namespace UI

/-! ### `long_mul` -/

/-- inner loop of `long_mul`, part `index ≥ N`: `if self.digits[i] != 0 && rhs.digits[j] != 0
    { overflow = true; break; }` — early-exit scan over the remaining digits of `rhs`. -/
def mulRowScan (a : Nat) : List Nat → Bool
  | [] => false
  | b :: bs => if a != 0 && b != 0 then true else mulRowScan a bs

/-- inner loop (`while j < N`) of `long_mul` for one digit `a = self.digits[i]`.
    Arguments: the tail `out.digits[i..]`, the digits `rhs.digits[j..]`, the running `carry`.
    Result: the new tail, the final `carry`, and whether the `overflow = true; break` branch ran. -/
def mulRow (w a : Nat) : List Nat → List Nat → Nat → List Nat × Nat × Bool
  | o :: os, b :: bs, carry =>
    let r := Digit.carryingMul w a b carry o
    let rest := mulRow w a os bs r.2
    (r.1 :: rest.1, rest.2)
  | [], bs, carry => ([], carry, mulRowScan a bs)
  | os, [], carry => (os, carry, false)

/-- outer loop (`while i < N`) of `long_mul`.
    Arguments: `self.digits[i..]`, `rhs`, the tail `out.digits[i..]`, the sticky `overflow`. -/
def longMulLoop (w : Nat) : List Nat → List Nat → List Nat → Bool → List Nat × Bool
  | [], _, out, ov => (out, ov)
  | a :: as, b, out, ov =>
    let r := mulRow w a out b 0
    -- `break` sets `overflow`; then `if carry != 0 { overflow = true; }`
    let ov1 := ov || r.2.2
    let ov2 := if r.2.1 != 0 then true else ov1
    match r.1 with
    | d :: rest =>
      let r2 := longMulLoop w as b rest ov2
      (d :: r2.1, r2.2)
    | [] => ([], ov2)

/-- `BUint::long_mul` -/
def longMul (w : Nat) (a b : List Nat) : List Nat × Bool :=
  longMulLoop w a b (zero a.length) false

/-- `BUint::overflowing_mul` -/
def overflowingMul (w : Nat) (a b : List Nat) : List Nat × Bool := longMul w a b
/-- `BUint::checked_mul` -/
def checkedMul (w : Nat) (a b : List Nat) := tupleToOption (overflowingMul w a b)
/-- `BUint::wrapping_mul` -/
def wrappingMul (w : Nat) (a b : List Nat) := (overflowingMul w a b).1
/-- `BUint::saturating_mul` -/
def saturatingMul (w : Nat) (a b : List Nat) := saturateUp w a.length (overflowingMul w a b)
/-- `strict_mul`: `option_expect!(self.checked_mul(rhs), ..)` -/
def strictMul (w : Nat) (a b : List Nat) : Outcome (List Nat) := Outcome.expect (checkedMul w a b)
/-- `mul` / `Mul::mul`: `strict_mul` under `cfg(debug_assertions)`, else `wrapping_mul` -/
def mul (w : Nat) (dbg : Bool) (a b : List Nat) : Outcome (List Nat) :=
  if dbg then strictMul w a b else .ok (wrappingMul w a b)

/-! ### `widening_mul`, `carrying_mul` (`bigint_helpers.rs`) -/

/-- first inner loop of `widening_mul` (`while j < N - i`): runs over the tail `low.digits[i..]`
    and the leading digits of `rhs`; returns the new tail, the carry and the unread digits of `rhs`. -/
def wideRowLow (w a : Nat) : List Nat → List Nat → Nat → List Nat × Nat × List Nat
  | l :: ls, b :: bs, carry =>
    let r := Digit.carryingMul w a b carry l
    let rest := wideRowLow w a ls bs r.2
    (r.1 :: rest.1, rest.2)
  | [], bs, carry => ([], carry, bs)
  | ls, [], carry => (ls, carry, [])

/-- second inner loop of `widening_mul` (`while j < N`, `index = i + j - N`) over `high.digits[0..]`
    and the remaining digits of `rhs`, followed by `high.digits[i] = carry`. -/
def wideRowHigh (w a : Nat) : List Nat → List Nat → Nat → List Nat
  | h :: hs, b :: bs, carry =>
    let r := Digit.carryingMul w a b carry h
    r.1 :: wideRowHigh w a hs bs r.2
  | _ :: hs, [], carry => carry :: hs
  | [], _, _ => []

/-- outer loop of `widening_mul`. Arguments: `self.digits[i..]`, `rhs`, `low.digits[i..]`, `high`. -/
def wideLoop (w : Nat) : List Nat → List Nat → List Nat → List Nat → List Nat × List Nat
  | [], _, low, high => (low, high)
  | a :: as, b, low, high =>
    let r := wideRowLow w a low b 0
    let high' := wideRowHigh w a high r.2.2 r.2.1
    match r.1 with
    | d :: rest =>
      let r2 := wideLoop w as b rest high'
      (d :: r2.1, r2.2)
    | [] => ([], high')

/-- `BUint::widening_mul` : `(low, high)` -/
def wideningMul (w : Nat) (a b : List Nat) : List Nat × List Nat :=
  wideLoop w a b (zero a.length) (zero a.length)

/-- `BUint::carrying_mul` : `(low, high)` -/
def carryingMul (w : Nat) (a b c : List Nat) : List Nat × List Nat :=
  let r := wideningMul w a b
  let s := overflowingAdd w r.1 c
  if s.2 then (s.1, wrappingAdd w r.2 (one a.length)) else (s.1, r.2)

end UI

namespace II
/-- `BInt::overflowing_mul` -/
def overflowingMul (w : Nat) (a b : List Nat) : List Nat × Bool :=
  let r := UI.overflowingMul w (unsignedAbs w a) (unsignedAbs w b)
  let out := r.1
  if isNegative w a == isNegative w b then (out, r.2 || isNegative w out)
  else
    match checkedNeg w out with
    | some n => (n, r.2 || isNegative w out)
    | none => (out, r.2)
/-- `BInt::checked_mul` -/
def checkedMul (w : Nat) (a b : List Nat) := tupleToOption (overflowingMul w a b)
/-- `BInt::wrapping_mul` : `from_bits(self.bits.wrapping_mul(rhs.bits))` -/
def wrappingMul (w : Nat) (a b : List Nat) := UI.wrappingMul w a b
/-- `BInt::saturating_mul` -/
def saturatingMul (w : Nat) (a b : List Nat) : List Nat :=
  match checkedMul w a b with
  | some r => r
  | none => if isNegative w a == isNegative w b then iMax w a.length else iMin w a.length
/-- `strict_mul` -/
def strictMul (w : Nat) (a b : List Nat) : Outcome (List Nat) := Outcome.expect (checkedMul w a b)
/-- `mul` / `Mul::mul` -/
def mul (w : Nat) (dbg : Bool) (a b : List Nat) : Outcome (List Nat) :=
  if dbg then strictMul w a b else .ok (wrappingMul w a b)
end II
end Bnum
