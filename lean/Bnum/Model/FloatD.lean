/-
  Bnum.Model.FloatD — DIGIT-LEVEL model of the float <-> bnum integer casts (property C14):
  the generic functions `cast_float_from_uint::<BUint<N>, F>` (`src/cast/float/float_from_uint.rs`)
  and `cast_uint_from_float::<F, BUint<N>>` (`src/cast/float/uint_from_float.rs`) instantiated at a
  bnum integer, and the call sites in `src/buint/cast.rs` / `src/bint/cast.rs`.
  Import-free (core Lean + other Model files).

  Where the value-level model (Model/Float.lean, `Flt.*`) takes the integer as a `Nat`, this model
  takes / produces the little-endian digit list and calls the digit-level implementations of the
  trait methods the generic code uses:
    `Bits::bits`            → `UI.bits w a`            (Model/BitOps.lean)
    `Bits::bit`             → `UI.bit w a i`           (array index: `Outcome`)
    `trailing_zeros`        → `UI.trailingZeros w a`
    `value >> shift`        → `UI.shr dbg w a s`       (unsuffixed operator of `int/ops.rs`:
                                                        `strict_shr` in debug, `wrapping_shr` in release)
    `U::cast_from(m) << k`  → `UI.shl dbg w x k`
    `F::Mantissa::cast_from(value)` → `UI.castToPrim w a ⟨bits, false⟩`   (`buint_as_int!`, Model/Cast.lean)
    `U::cast_from(mant)`    → `UI.castFromPrim w n ⟨bits, false⟩ m`      (`as_buint!`)
    `U::ZERO/MIN`, `U::MAX` → `zero n`, `allOnes w n`;  `BInt::MIN/MAX` → `iMin w n`, `iMax w n`
    `unsigned_abs`, `is_negative`, unsuffixed `neg`, `>=` on `BUint` → `II.unsignedAbs`, `isNegative`,
                                `bintNeg` (strict in debug / wrapping in release), `Traits.opGe UI.cmp`.
  Everything on the float / mantissa-primitive side (`ConvertFloatParts`, `is_nan`, …, `+`, `>>`, `<<`
  on u32/u64) is shared with Model/Float.lean (`Flt.*`).
  Lemmas/FloatD.lean proves that these functions REFINE the value-level ones (same `Outcome`, same
  bit pattern / same value), for every digit width `w = 2^s` and every `n ≥ 1`, both build modes.
-/
import Bnum.Model.Float
import Bnum.Model.BitOps
import Bnum.Model.Shift
import Bnum.Model.Cast
namespace Bnum
namespace FltD
open Flt

/-- the mantissa primitive type (u32 / u64) of a format -/
def mantTy (F : FloatFmt) : PTy := ⟨F.bits, false⟩

/-- the `mantissa` block of `cast_float_from_uint` on a `BUint<N>` -/
def roundMantissaD (F : FloatFmt) (dbg : Bool) (w : Nat) (value : List Nat) (bitWidth : Nat)
    (exponent : Int) : Outcome (Int × Nat) :=
  if bitWidth ≤ F.p then
    (UI.castToPrim w value (mantTy F)).bind fun m =>
      .ok (exponent, (m <<< (F.p - bitWidth)) % 2 ^ F.bits)
  else
    let shift := bitWidth - F.p
    (UI.bit w value (shift - 1)).bind fun gteHalf =>
    (UI.shr dbg w value shift).bind fun shiftedValue =>
    (UI.castToPrim w shiftedValue (mantTy F)).bind fun shifted =>
    if gteHalf && (Flt.bit shifted 0 || UI.trailingZeros w value != shift - 1) then
      match mantAdd F dbg shifted 1 with
      | .panic => .panic
      | .ok shifted =>
        if Flt.bit shifted F.p then .ok (exponent + 1, shifted >>> 1) else .ok (exponent, shifted)
    else .ok (exponent, shifted)

/-- `cast_float_from_uint::<BUint<N>, F>(value)` -/
def castFloatFromUintD (F : FloatFmt) (dbg : Bool) (w : Nat) (value : List Nat) : Outcome Nat :=
  let bitWidth := UI.bits w value
  if bitWidth = 0 then .ok (Flt.zero F) else
  let exponent := bitWidth - 1
  if 2 ^ 31 ≤ exponent then .ok (infinity F) else
  let exponent : Int := (exponent : Int)
  if exponent ≥ (F.emax : Int) then .ok (infinity F) else
  match roundMantissaD F dbg w value bitWidth exponent with
  | .panic => .panic
  | .ok (exponent, mantissa) => fromSignedParts F dbg false exponent mantissa

/-- the final `match ExpType::try_from(exp)` of `cast_uint_from_float` on a `BUint<N>` -/
def shiftMantissaD (F : FloatFmt) (dbg : Bool) (w n : Nat) (exp : Int) (mant : Nat) :
    Outcome (List Nat) :=
  if exp < 0 then .ok (allOnes w n) else
  let e := exp.toNat
  if e ≥ w * n then .ok (allOnes w n) else
  let mbw := bitsOf mant
  if e ≤ mbw - 1 then UI.castFromPrim w n (mantTy F) (mant >>> (mbw - 1 - e))
  else (UI.castFromPrim w n (mantTy F) mant).bind fun u => UI.shl dbg w u (e - (mbw - 1))

/-- `cast_uint_from_float::<F, BUint<N>>(value)` (tree after e77dd54) -/
def castUintFromFloatD (F : FloatFmt) (dbg : Bool) (w n : Nat) (value : Nat) : Outcome (List Nat) :=
  if isNan F value then .ok (zero n) else
  let isInf := isInfinite F value
  let (sign, exp, mant) := intoNormalisedSignedParts F value
  if sign then .ok (zero n) else
  if isInf then .ok (allOnes w n) else
  if mant = 0 then .ok (zero n) else
  if exp ≤ -1 then .ok (zero n) else
  shiftMantissaD F dbg w n exp mant

/-! ### call sites -/

/-- `CastFrom<BUint<N>> for f32/f64` -/
def floatFromBUint (F : FloatFmt) (dbg : Bool) (w : Nat) (a : List Nat) : Outcome Nat :=
  castFloatFromUintD F dbg w a

/-- `CastFrom<f32/f64> for BUint<N>` -/
def buintFromFloat (F : FloatFmt) (dbg : Bool) (w n : Nat) (x : Nat) : Outcome (List Nat) :=
  castUintFromFloatD F dbg w n x

/-- `CastFrom<BInt<N>> for f32/f64`: `f = cast_from(from.unsigned_abs()); if from.is_negative() { -f }` -/
def floatFromBInt (F : FloatFmt) (dbg : Bool) (w : Nat) (a : List Nat) : Outcome Nat :=
  match castFloatFromUintD F dbg w (II.unsignedAbs w a) with
  | .panic => .panic
  | .ok f => if isNegative w a then .ok (neg F f) else .ok f

/-- the inherent unsuffixed `BInt::neg` (`bint/const_trait_fillers.rs`; same text as `Ops.bintNeg`):
    `strict_neg` under `debug_assertions`, `wrapping_neg` otherwise -/
def bintNeg (dbg : Bool) (w : Nat) (a : List Nat) : Outcome (List Nat) :=
  if dbg then II.strictNeg w a else .ok (II.wrappingNeg w a)

/-- `bint_cast_from_float!` -/
def bintFromFloat (F : FloatFmt) (dbg : Bool) (w n : Nat) (x : Nat) : Outcome (List Nat) :=
  if isSignNegative F x then
    (castUintFromFloatD F dbg w n (neg F x)).bind fun u =>
      if Traits.opGe UI.cmp u (II.toBits (iMin w n)) then .ok (iMin w n)
      else bintNeg dbg w (II.fromBits u)
  else
    (castUintFromFloatD F dbg w n x).bind fun u =>
      let i := II.fromBits u
      if isNegative w i then .ok (iMax w n) else .ok i

end FltD
end Bnum
