/-
  Bnum.Model.C06Extra — the two `BInt` forwarders of `src/bint/mod.rs:364-373` that had no model of
  their own:

      pub const fn is_zero(&self) -> bool { self.bits.is_zero() }
      pub const fn is_one(&self)  -> bool { self.bits.is_one() }

  (named `isZeroBits` / `isOneBits` — not `II.isZero` — so that the unqualified `isZero` inside
  `namespace Bnum.II` sections of other files keeps meaning the `BUint` scan `Bnum.isZero`).
  Import-free (core Lean only).
-/
import Bnum.Model.BitOps
namespace Bnum.II

/-- `BInt::is_zero`: `self.bits.is_zero()` -/
def isZeroBits (x : List Nat) : Bool := isZero x
/-- `BInt::is_one`: `self.bits.is_one()` -/
def isOneBits (x : List Nat) : Bool := isOne x

end Bnum.II
