/-
  Bnum.Model.Radix — `src/buint/radix.rs` (everything), `src/bint/radix.rs`, the two `FromStr`
  impls (`src/buint/radix.rs`, `src/bint/convert.rs`), `assert_range!` (`src/int/radix.rs`),
  `ParseIntError` kinds (`src/errors/parseint.rs`).  The radix-256 path of `from_radix_be/le`
  delegates to `UI.fromBeSlice` / `UI.fromLeSlice` of Model/Endian.lean (`digit::BYTES = w / 8`).
  Import-free (core Lean only + other Model files).

  Data representation.  `&str` / `&[u8]` / `Vec<u8>` are `List Nat` of bytes (`< 256`), `radix : u32`
  is a `Nat`.  `Result<Self, ParseIntError>` is `PRes`; everything that can panic is an `Outcome`.

  Index loops.  `from_buf_radix_internal` reads `buf[idx]` with `idx` an affine function of the loop
  counter that depends on `BE`.  Every such loop is modelled by structural recursion over the *view*
  of `buf` that the loop walks through, in loop order:
    * general arm:      `(if BE then buf else buf.reverse).drop sign`     (most significant first)
    * power-of-two arm: `(if BE then buf.reverse else buf).take len`      (least significant first)
    * its overflow scan `(buf.drop sign).take (N * digits_per_digit)`     (`buf[i]`, regardless of BE)
  All indices of the Rust code are in bounds (the length tests of the Rust code guarantee it), so no
  index panic is modelled.  Chunks are `take power` / `drop power` of the view (`start`, `end`).

  Modelling notes
  * `u8 as $Digit`, `(x & mask) as u8`, `(r % radix) as u8` are lossless for every real digit type
    (`w ≥ 8`); they are modelled by the identity.  `radix as $Digit` can truncate (`256 as u8 = 0`)
    and is modelled by `% B w`; `radix as u8` by `% 256`.
  * `first * radix + d` / `n * radix + d` on `$Digit` would panic in debug builds and wrap in release
    builds on overflow.  The model panics in both (`accLoop`); `Lemmas/Radix.lean` proves the branch
    unreachable, so the difference is unobservable.
  * `radix_base` / `radix_base_half` loop forever in Rust when `radix as $Digit < 2`; the model stops
    after `w` iterations (fuel).  Not reachable through the public API for `w ≥ 8` (radix 256 with
    `u8` digits takes the early exits).
  * `Vec::with_capacity(div_ceil(self.bits(), …))` has no observable effect and is dropped.
  * `ilog2(a) = 31 - a.leading_zeros() as u8` would underflow for `a = 0`; never called with `0`.
-/
import Bnum.Model.AddSub
import Bnum.Model.Cmp
import Bnum.Model.BitOps
import Bnum.Model.Div
import Bnum.Model.Endian
namespace Bnum

/-- `core::num::IntErrorKind` (the four kinds the crate produces) -/
inductive IntErrorKind where
  | empty | invalidDigit | posOverflow | negOverflow
  deriving DecidableEq, Repr

/-- `Result<Self, ParseIntError>` -/
inductive PRes where
  | ok : List Nat → PRes
  | err : IntErrorKind → PRes
  deriving DecidableEq, Repr

/-- `crate::nightly::ok!` : `Result → Option` -/
def PRes.toOption : PRes → Option (List Nat)
  | .ok x => some x
  | .err _ => none

namespace Prim
/-- continuation byte `0x80..=0xBF` -/
@[inline] def utf8Cont (b : Nat) : Bool := decide (0x80 ≤ b ∧ b ≤ 0xBF)
/-- `core::str::from_utf8(buf).is_ok()` (Unicode Table 3-7, well-formed UTF-8 byte sequences) -/
def utf8Valid : List Nat → Bool
  | [] => true
  | b0 :: rest =>
    if b0 < 0x80 then utf8Valid rest
    else if 0xC2 ≤ b0 ∧ b0 ≤ 0xDF then
      match rest with
      | b1 :: r => utf8Cont b1 && utf8Valid r
      | _ => false
    else if 0xE0 ≤ b0 ∧ b0 ≤ 0xEF then
      match rest with
      | b1 :: b2 :: r =>
        (if b0 = 0xE0 then decide (0xA0 ≤ b1 ∧ b1 ≤ 0xBF)
         else if b0 = 0xED then decide (0x80 ≤ b1 ∧ b1 ≤ 0x9F)
         else utf8Cont b1) && utf8Cont b2 && utf8Valid r
      | _ => false
    else if 0xF0 ≤ b0 ∧ b0 ≤ 0xF4 then
      match rest with
      | b1 :: b2 :: b3 :: r =>
        (if b0 = 0xF0 then decide (0x90 ≤ b1 ∧ b1 ≤ 0xBF)
         else if b0 = 0xF4 then decide (0x80 ≤ b1 ∧ b1 ≤ 0x8F)
         else utf8Cont b1) && utf8Cont b2 && utf8Cont b3 && utf8Valid r
      | _ => false
    else false
end Prim

namespace Radix

/-- `assert_range!(radix, max)` -/
@[inline] def inRange (radix max : Nat) : Bool := decide (2 ≤ radix ∧ radix ≤ max)

/-- `ilog2(a: u32) = 31 - a.leading_zeros() as u8` -/
def ilog2 (a : Nat) : Nat := 31 - Prim.leadingZeros 32 a

/-- `u32::is_power_of_two` -/
def u32IsPowerOfTwo (a : Nat) : Bool := Prim.countOnes 32 a == 1

/-- loop of `radix_base` (`radix` already cast to `$Digit`); `base.checked_mul(radix)` -/
def radixBaseLoop (w radix : Nat) : Nat → Nat → Nat → Nat × Nat
  | 0, base, power => (base, power)
  | f + 1, base, power =>
    if base * radix < B w then radixBaseLoop w radix f (base * radix) (power + 1)
    else (base, power)
/-- `radix_base(radix) -> (base, power)` : the largest power of `radix` that fits a digit -/
def radixBase (w radix : Nat) : Nat × Nat :=
  let radix := radix % B w
  radixBaseLoop w radix w radix 1

/-- `HALF_BITS_MAX = $Digit::MAX >> ($Digit::BITS / 2)` -/
def halfBitsMax (w : Nat) : Nat := (B w - 1) >>> (w / 2)
/-- loop of `radix_base_half` -/
def radixBaseHalfLoop (w radix : Nat) : Nat → Nat → Nat → Nat × Nat
  | 0, base, power => (base, power)
  | f + 1, base, power =>
    let n := base * radix
    if n < B w ∧ n ≤ halfBitsMax w then radixBaseHalfLoop w radix f n (power + 1)
    else (base, power)
/-- `radix_base_half(radix) -> (base, power)` -/
def radixBaseHalf (w radix : Nat) : Nat × Nat :=
  let radix := radix % B w
  radixBaseHalfLoop w radix w radix 1

/-- `byte_to_digit::<FROM_STR>(byte)` -/
def byteToDigit (fromStr : Bool) (byte : Nat) : Nat :=
  if fromStr then
    if 48 ≤ byte ∧ byte ≤ 57 then byte - 48
    else if 97 ≤ byte ∧ byte ≤ 122 then byte - 97 + 10
    else if 65 ≤ byte ∧ byte ≤ 90 then byte - 65 + 10
    else 255
  else byte

/-- validity scans `while … { if byte_to_digit(buf[i]) >= radix_u8 { return Err(InvalidDigit) } }`:
    `true` iff the scan finds an invalid digit -/
def hasInvalid (fromStr : Bool) (radix : Nat) : List Nat → Bool
  | [] => false
  | b :: bs => if byteToDigit fromStr b ≥ radix % 256 then true else hasInvalid fromStr radix bs

/-- `while … { d = byte_to_digit(buf[idx]); if d >= radix_u8 { return Err(InvalidDigit) }
    acc = acc * (radix as $Digit) + d as $Digit }` — `.ok none` = the `InvalidDigit` exit;
    `$Digit` overflow panics (see the header). -/
def accLoop (w : Nat) (fromStr : Bool) (radix : Nat) : List Nat → Nat → Outcome (Option Nat)
  | [], acc => .ok (some acc)
  | b :: bs, acc =>
    let d := byteToDigit fromStr b
    if d ≥ radix % 256 then .ok none
    else
      let v := acc * (radix % B w) + d
      if v ≥ B w then .panic else accLoop w fromStr radix bs v

/-- `while j < N { (low, high) = carrying_mul(out.digits[j], base, carry, 0); … }` -/
def mulDigitLoop (w base : Nat) : List Nat → Nat → List Nat × Nat
  | [], carry => ([], carry)
  | d :: ds, carry =>
    let r := Digit.carryingMul w d base carry 0
    let rest := mulDigitLoop w base ds r.2
    (r.1 :: rest.1, rest.2)

/-- main loop of the general arm (`while start < buf.len()`); `rest` = the bytes from `start` on,
    fuel = number of remaining bytes (each iteration consumes `power ≥ 1` of them). -/
def chunkLoop (w : Nat) (fromStr : Bool) (radix base power : Nat) :
    Nat → List Nat → List Nat → Outcome PRes
  | _, [], out => .ok (.ok out)
  | 0, _ :: _, out => .ok (.ok out)
  | f + 1, b :: bs, out =>
    let rest := b :: bs
    let m := mulDigitLoop w base out 0
    let chunk := rest.take power
    if m.2 ≠ 0 then
      -- `while start < buf.len() && start < end` validity scan, then `PosOverflow`
      if hasInvalid fromStr radix chunk then .ok (.err .invalidDigit) else .ok (.err .posOverflow)
    else
      match accLoop w fromStr radix chunk 0 with
      | .panic => .panic
      | .ok none => .ok (.err .invalidDigit)
      | .ok (some nn) =>
        match UI.checkedAdd w m.1 (fromDigit out.length nn) with
        | none => .ok (.err .posOverflow)
        | some o => chunkLoop w fromStr radix base power f (rest.drop power) o

/-- the general arm (`_ =>`) of `from_buf_radix_internal`; `len = input_digits_len` -/
def generalArm (w n : Nat) (fromStr be : Bool) (buf : List Nat) (radix off len : Nat) :
    Outcome PRes :=
  let bp := radixBase w radix
  let base := bp.1
  let power := bp.2
  let r := len % power
  let split := if r == 0 then power else r
  let view := (if be then buf else buf.reverse).drop off
  match accLoop w fromStr radix (view.take split) 0 with
  | .panic => .panic
  | .ok none => .ok (.err .invalidDigit)
  | .ok (some first) =>
    -- `out = ZERO; out.digits[0] = first`
    chunkLoop w fromStr radix base power view.length (view.drop split) (fromDigit n first)

/-- one digit of the power-of-two arm: `out.digits[i] |= (d as $Digit) << (j * log2r)` for the
    bytes of one chunk (least significant first); `none` = the `InvalidDigit` exit -/
def packLoop (w : Nat) (fromStr : Bool) (radix log2r : Nat) : List Nat → Nat → Nat → Option Nat
  | [], _, acc => some acc
  | b :: bs, j, acc =>
    let d := byteToDigit fromStr b
    if d ≥ radix % 256 then none
    else packLoop w fromStr radix log2r bs (j + 1) (acc ||| ((d <<< (j * log2r)) % B w))

/-- `while i < full_digits { … }` followed by the `remaining_digits` loop: the view (least
    significant byte first) is consumed `bdpd` bytes per digit; fuel = number of bytes. -/
def packAll (w : Nat) (fromStr : Bool) (radix log2r bdpd : Nat) :
    Nat → List Nat → Option (List Nat)
  | _, [] => some []
  | 0, _ :: _ => some []
  | f + 1, b :: bs =>
    let rest := b :: bs
    match packLoop w fromStr radix log2r (rest.take bdpd) 0 0 with
    | none => none
    | some d =>
      match packAll w fromStr radix log2r bdpd f (rest.drop bdpd) with
      | none => none
      | some ds => some (d :: ds)

/-- the loop at the top of the `2 | 4 | 16 | 256 =>` arm (repair of F2, /repo commit e0b6218):
    `while input_digits_len > 0 { if byte_to_digit(buf[idx]) != 0 { break; } input_digits_len -= 1; }`
    with `idx = buf.len() - input_digits_len` (BE) / `input_digits_len - 1` (LE).  The argument is
    the most-significant-first view of the `input_digits_len` digit bytes; the result is the new
    `input_digits_len` (= length of the view that is left when the loop stops). -/
def skipZerosLoop (fromStr : Bool) : List Nat → Nat
  | [] => 0
  | b :: bs => if byteToDigit fromStr b != 0 then (b :: bs).length else skipZerosLoop fromStr bs

/-- the `2 | 4 | 16 | 256 =>` arm of `from_buf_radix_internal` (`len0` = `input_digits_len` on entry).
    Overflow is decided from the digit count after the most significant zero digits are skipped. -/
def pow2Arm (w n : Nat) (fromStr be : Bool) (buf : List Nat) (radix off len0 : Nat) : PRes :=
  let msf := if be then buf.drop (buf.length - len0) else (buf.take len0).reverse
  let len := skipZerosLoop fromStr msf
  let log2r := ilog2 radix
  let bdpd := w / log2r
  let full := len / bdpd
  let remaining := len % bdpd
  if full > n || (full == n && remaining != 0) then
    if hasInvalid fromStr radix ((buf.drop off).take (n * bdpd)) then .err .invalidDigit
    else .err .posOverflow
  else
    let view := (if be then buf.reverse else buf).take len
    match packAll w fromStr radix log2r bdpd view.length view with
    | none => .err .invalidDigit
    | some ds => .ok (ds ++ List.replicate (n - ds.length) 0)

/-- `from_buf_radix_internal::<FROM_STR, BE>(buf, radix, leading_sign)` -/
def fromBufRadixInternal (w n : Nat) (fromStr be : Bool) (buf : List Nat) (radix : Nat)
    (leadingSign : Bool) : Outcome PRes :=
  if leadingSign && buf.length == 1 then .ok (.err .invalidDigit) else
  let off := if leadingSign then 1 else 0
  let len := buf.length - off
  if radix == 2 || radix == 4 || radix == 16 || radix == 256 then
    .ok (pow2Arm w n fromStr be buf radix off len)
  else generalArm w n fromStr be buf radix off len

end Radix

/-! ### `BUint` parsing API -/
namespace UI
open Radix

/-- `BUint::from_str_radix` (`src` = the bytes of the `&str`) -/
def fromStrRadix (w n : Nat) (src : List Nat) (radix : Nat) : Outcome PRes :=
  if !inRange radix 36 then .panic else
  if src.isEmpty then .ok (.err .empty) else
  let leadingPlus := src.head? == some 43
  fromBufRadixInternal w n true true src radix leadingPlus

/-- `BUint::parse_bytes` -/
def parseBytes (w n : Nat) (buf : List Nat) (radix : Nat) : Outcome (Option (List Nat)) :=
  if !Prim.utf8Valid buf then .ok none else
  (fromStrRadix w n buf radix).map PRes.toOption

/-- `BUint::from_radix_be` -/
def fromRadixBe (w n : Nat) (buf : List Nat) (radix : Nat) : Outcome (Option (List Nat)) :=
  if !inRange radix 256 then .panic else
  if buf.isEmpty then .ok (some (zero n)) else
  if radix == 256 then UI.fromBeSlice (w / 8) n buf else
  (fromBufRadixInternal w n false true buf radix false).map PRes.toOption

/-- `BUint::from_radix_le` -/
def fromRadixLe (w n : Nat) (buf : List Nat) (radix : Nat) : Outcome (Option (List Nat)) :=
  if !inRange radix 256 then .panic else
  if buf.isEmpty then .ok (some (zero n)) else
  if radix == 256 then UI.fromLeSlice (w / 8) n buf else
  (fromBufRadixInternal w n false false buf radix false).map PRes.toOption

/-- `<BUint as FromStr>::from_str` -/
def fromStr (w n : Nat) (src : List Nat) : Outcome PRes := fromStrRadix w n src 10

/-- `BUint::parse_str_radix` (the `const` twin): the `Ok` payload, `panic!(e.description())` on `Err` -/
def parseStrRadix (w n : Nat) (src : List Nat) (radix : Nat) : Outcome (List Nat) :=
  match fromStrRadix w n src radix with
  | .ok (.ok x) => .ok x
  | .ok (.err _) => .panic
  | .panic => .panic

end UI

/-! ### `BUint` printing API -/
namespace Radix

/-- `for _ in 0..k { out.push((d & mask) as u8); d >>= bits; }` -/
def chop (mask bits : Nat) : Nat → Nat → List Nat
  | 0, _ => []
  | k + 1, d => (d &&& mask) :: chop mask bits k (d >>> bits)

/-- `while r != 0 { out.push((r & mask) as u8); r >>= bits; }` (fuel `w`: `r < 2^w`, `bits ≥ 1`) -/
def drainBits (mask bits : Nat) : Nat → Nat → List Nat
  | 0, _ => []
  | f + 1, r => if r == 0 then [] else (r &&& mask) :: drainBits mask bits f (r >>> bits)

/-- `to_bitwise_digits_le(bits)` -/
def toBitwiseDigitsLe (w : Nat) (x : List Nat) (bits : Nat) : List Nat :=
  let ldi := lastDigitIndex x
  let mask := (1 <<< bits) - 1
  let dpbd := w / bits
  let r := x.getD ldi 0
  (x.take ldi).flatMap (chop mask bits dpbd) ++ drainBits mask bits w r

/-- inner `while rbits >= bits` of `to_inexact_bitwise_digits_le` for the current digit `c`;
    returns `(r, rbits, pushed bytes)`; fuel `w + 8` (`rbits < w + bits`) -/
def inexactInner (w bits mask c : Nat) : Nat → Nat → Nat → Nat × Nat × List Nat
  | 0, r, rbits => (r, rbits, [])
  | f + 1, r, rbits =>
    if rbits ≥ bits then
      let o := r &&& mask
      let r1 := r >>> bits
      let r2 := if rbits > w then c >>> (w - (rbits - bits)) else r1
      let rest := inexactInner w bits mask c f r2 (rbits - bits)
      (rest.1, rest.2.1, o :: rest.2.2)
    else (r, rbits, [])

/-- `for c in self.digits { r |= c << rbits; rbits += BITS; while … }` then
    `if rbits != 0 { out.push(r as u8) }` -/
def inexactOuter (w bits mask : Nat) : List Nat → Nat → Nat → List Nat
  | [], r, rbits => if rbits != 0 then [r % 256] else []
  | c :: cs, r, rbits =>
    let r0 := r ||| ((c <<< rbits) % B w)
    let st := inexactInner w bits mask c (w + 8) r0 (rbits + w)
    st.2.2 ++ inexactOuter w bits mask cs st.1 st.2.1

/-- `while let Some(&0) = out.last() { out.pop(); }` -/
def popZeros (out : List Nat) : List Nat := (out.reverse.dropWhile (· == 0)).reverse

/-- `to_inexact_bitwise_digits_le(bits)` -/
def toInexactBitwiseDigitsLe (w : Nat) (x : List Nat) (bits : Nat) : List Nat :=
  let mask := (1 <<< bits) - 1
  popZeros (inexactOuter w bits mask x 0 0)

/-- `for _ in 0..power { out.push((r % radix) as u8); r /= radix; }` -/
def emit (radix : Nat) : Nat → Nat → List Nat
  | 0, _ => []
  | k + 1, r => (r % radix) :: emit radix k (r / radix)

/-- `while r != 0 { out.push((r % radix) as u8); r /= radix; }` (fuel `w`) -/
def drainRadix (radix : Nat) : Nat → Nat → List Nat
  | 0, _ => []
  | f + 1, r => if r == 0 then [] else (r % radix) :: drainRadix radix f (r / radix)

/-- `while copy.last_digit_index() > 0 { (q, r) = copy.div_rem_digit(base); … copy = q }` followed
    by the free-running loop on `copy.digits[0]`; fuel `w * N + 1` (the quotient loses a bit per
    iteration since `base ≥ 2`) -/
def divLoop (w radix base power : Nat) : Nat → List Nat → Outcome (List Nat)
  | 0, _ => .ok []
  | f + 1, copy =>
    if lastDigitIndex copy > 0 then
      match UI.divRemDigit w copy base with
      | .panic => .panic
      | .ok qr =>
        match divLoop w radix base power f qr.1 with
        | .panic => .panic
        | .ok rest => .ok (emit radix power qr.2 ++ rest)
    else .ok (drainRadix radix w (copy.headD 0))

/-- `to_radix_digits_le(radix)` -/
def toRadixDigitsLe (w : Nat) (x : List Nat) (radix : Nat) : Outcome (List Nat) :=
  let bp := radixBaseHalf w radix
  divLoop w (radix % B w) bp.1 bp.2 (w * x.length + 1) x
end Radix

namespace UI
open Radix

/-- `BUint::to_radix_le` -/
def toRadixLe (w : Nat) (x : List Nat) (radix : Nat) : Outcome (List Nat) :=
  if !inRange radix 256 then .panic else
  if isZero x then .ok [0]
  else if u32IsPowerOfTwo radix then
    if w == 8 && radix == 256 then .ok (x.take (lastDigitIndex x + 1))
    else
      let bits := ilog2 radix
      if w % bits == 0 then .ok (toBitwiseDigitsLe w x bits)
      else .ok (toInexactBitwiseDigitsLe w x bits)
  else if radix == 10 then toRadixDigitsLe w x 10
  else toRadixDigitsLe w x radix

/-- `BUint::to_radix_be` -/
def toRadixBe (w : Nat) (x : List Nat) (radix : Nat) : Outcome (List Nat) :=
  (toRadixLe w x radix).map List.reverse

/-- the `for byte in out.iter_mut()` loop of `to_str_radix` -/
def digitToAscii (byte : Nat) : Nat := if byte < 10 then byte + 48 else byte + 87

/-- `BUint::to_str_radix` -/
def toStrRadix (w : Nat) (x : List Nat) (radix : Nat) : Outcome (List Nat) :=
  if !inRange radix 36 then .panic else
  (toRadixBe w x radix).map (List.map digitToAscii)
end UI

/-! ### `BInt` API (`src/bint/radix.rs`, `src/bint/convert.rs`) -/
namespace II
open Radix

/-- the part of `BInt::from_str_radix` after the call of `from_buf_radix_internal` -/
def finishParse (w n : Nat) (negative : Bool) : PRes → Outcome PRes
  | .ok uint =>
    if negative then
      match UI.bit w uint (w * n - 1) with
      | .panic => .panic
      | .ok b =>
        if b && UI.trailingZeros w uint != w * n - 1 then .ok (.err .negOverflow)
        else .ok (.ok (II.wrappingNeg w uint))
    else
      if isNegative w uint then .ok (.err .posOverflow) else .ok (.ok uint)
  | .err k =>
    if k == .posOverflow && negative then .ok (.err .negOverflow) else .ok (.err k)

/-- `BInt::from_str_radix` -/
def fromStrRadix (w n : Nat) (src : List Nat) (radix : Nat) : Outcome PRes :=
  if !inRange radix 36 then .panic else
  if src.isEmpty then .ok (.err .empty) else
  let negative := src.head? == some 45
  let leadingSign := negative || src.head? == some 43
  (fromBufRadixInternal w n true true src radix leadingSign).bind (finishParse w n negative)

/-- `BInt::parse_bytes` -/
def parseBytes (w n : Nat) (buf : List Nat) (radix : Nat) : Outcome (Option (List Nat)) :=
  if !Prim.utf8Valid buf then .ok none else
  (fromStrRadix w n buf radix).map PRes.toOption

/-- `BInt::from_radix_be`: `from_bits` of the unsigned result -/
def fromRadixBe (w n : Nat) (buf : List Nat) (radix : Nat) := UI.fromRadixBe w n buf radix
def fromRadixLe (w n : Nat) (buf : List Nat) (radix : Nat) := UI.fromRadixLe w n buf radix

/-- `<BInt as FromStr>::from_str` -/
def fromStr (w n : Nat) (src : List Nat) : Outcome PRes := fromStrRadix w n src 10

/-- `BInt::parse_str_radix` -/
def parseStrRadix (w n : Nat) (src : List Nat) (radix : Nat) : Outcome (List Nat) :=
  match fromStrRadix w n src radix with
  | .ok (.ok x) => .ok x
  | .ok (.err _) => .panic
  | .panic => .panic

/-- `BInt::to_radix_le` / `to_radix_be`: of `self.bits` -/
def toRadixLe (w : Nat) (x : List Nat) (radix : Nat) := UI.toRadixLe w x radix
def toRadixBe (w : Nat) (x : List Nat) (radix : Nat) := UI.toRadixBe w x radix

/-- `BInt::to_str_radix`: `format!("-{}", self.unsigned_abs().to_str_radix(radix))` -/
def toStrRadix (w : Nat) (x : List Nat) (radix : Nat) : Outcome (List Nat) :=
  if isNegative w x then (UI.toStrRadix w (unsignedAbs w x) radix).map (45 :: ·)
  else UI.toStrRadix w x radix
end II
end Bnum
