/-
  Bnum.Model.Endian — `src/buint/endian.rs`, `src/bint/endian.rs` and `swap_bytes` of
  `src/buint/mod.rs` (modelled a second time, independently of Model/BitOps.lean, as
  `Endian.swapBytes`: reverse digit order + per-digit byte swap).

  Import-free (core Lean only).  Parameters
    * `bw`  bytes per digit (`digit::BYTES`, 1/2/4/8); the digit width is `w = 8 * bw` bits;
    * `n`   digit count `N`;
    * `e`   target endianness, `true` = little (`cfg(target_endian = "little")`).
  Byte strings / byte arrays are `List Nat` with entries `< 256`.

  Modelling notes
  * `usize` is modelled by `Nat`.  A `usize` subtraction that would underflow is `Outcome.panic`
    (`usub`: debug builds panic on the subtraction, release builds wrap to an index `≥ 2^63` which then
    panics on the slice/array access), every slice / array access is bounds-checked (`idx`, `setIdx`).
    `i << BYTE_SHIFT`, `j + addition`, `N * BYTES` never exceed `slice.len()`/`Self::BYTES` (+ `BYTES`)
    so they cannot overflow `usize`.
  * `len >> BYTE_SHIFT`, `i << BYTE_SHIFT`, `len & (BYTES - 1)` are modelled literally with
    `BYTE_SHIFT = BYTES.trailing_zeros()` (= `log2 BYTES`, `BYTES` being a power of two).
  * `while j < hi { body; j += 1 }` starting from `j = lo` is `forLoop body (hi - lo) lo`.
  * An early `return None` of the slice constructors is the `none` of `Outcome (Option _)`.
  * `Prim.*` are the Rust primitive-integer methods on ONE digit / byte (trusted leaf layer).
-/
import Bnum.Model.Digit
namespace Bnum
namespace Endian

namespace Prim
/-- `uN::to_le_bytes` (`bw` bytes) -/
def toLeBytes (bw d : Nat) : List Nat := ofNat 8 bw d
/-- `uN::to_be_bytes` -/
def toBeBytes (bw d : Nat) : List Nat := (toLeBytes bw d).reverse
/-- `uN::from_le_bytes` -/
def fromLeBytes (bytes : List Nat) : Nat := U 8 bytes
/-- `uN::from_be_bytes` -/
def fromBeBytes (bytes : List Nat) : Nat := U 8 bytes.reverse
/-- `uN::swap_bytes` -/
def swapBytes (bw d : Nat) : Nat := fromBeBytes (toLeBytes bw d)
/-- `(b as i8).is_negative()` on a byte -/
def byteIsNeg (b : Nat) : Bool := decide (128 ≤ b)
end Prim

/-- `digit::BYTE_SHIFT = BYTES.trailing_zeros()` (`BYTES` is a power of two) -/
def byteShift (bw : Nat) : Nat := Nat.log2 bw

/-- `a[i]` : an out-of-range index panics -/
def idx (a : List Nat) (i : Nat) : Outcome Nat :=
  match a[i]? with
  | some v => .ok v
  | none => .panic
/-- `a[i] = v` on a fixed-size array : an out-of-range index panics -/
def setIdx (a : List Nat) (i v : Nat) : Outcome (List Nat) :=
  if i < a.length then .ok (a.set i v) else .panic
/-- `usize` subtraction used as an index: underflow panics -/
def usub (a b : Nat) : Outcome Nat := if b ≤ a then .ok (a - b) else .panic

/-- `let mut j = lo; while j < lo + k { s = body(j, s); j += 1 }` -/
def forLoop {σ : Type} (body : Nat → σ → Outcome σ) : Nat → Nat → σ → Outcome σ
  | 0, _, s => .ok s
  | k + 1, j, s =>
    match body j s with
    | .ok s' => forLoop body k (j + 1) s'
    | .panic => .panic

/-- `swap_bytes`: `out[i] = self[N-1-i].swap_bytes()` -/
def swapBytes (bw : Nat) (x : List Nat) : List Nat := x.reverse.map (Prim.swapBytes bw)

/-- the digit-assembly block of `from_be_slice` / `from_be_bytes` for digit `i` (`len = slice.len()`
    resp. `N * BYTES`):
    `init_index = len - BYTES; for j in init_index..len { digit_bytes[j - init_index] = slice[j - (i << BYTE_SHIFT)] }` -/
def beDigit (bw : Nat) (slice : List Nat) (len i : Nat) : Outcome Nat :=
  match usub len bw with
  | .panic => .panic
  | .ok initIndex =>
    match forLoop (fun j db =>
        match usub j initIndex, usub j (i <<< byteShift bw) with
        | .ok dst, .ok src =>
          match idx slice src with
          | .ok v => setIdx db dst v
          | .panic => .panic
        | _, _ => .panic) (len - initIndex) initIndex (List.replicate bw 0) with
    | .ok digitBytes => .ok (Prim.fromBeBytes digitBytes)
    | .panic => .panic

/-- the digit-assembly block of `from_le_slice` / `from_le_bytes` for digit `i`:
    `init_index = i << BYTE_SHIFT; for j in init_index..init_index + BYTES { digit_bytes[j - init_index] = slice[j] }` -/
def leDigit (bw : Nat) (slice : List Nat) (i : Nat) : Outcome Nat :=
  let initIndex := i <<< byteShift bw
  match forLoop (fun j db =>
      match usub j initIndex with
      | .ok dst =>
        match idx slice j with
        | .ok v => setIdx db dst v
        | .panic => .panic
      | .panic => .panic) (initIndex + bw - initIndex) initIndex (List.replicate bw 0) with
  | .ok digitBytes => .ok (Prim.fromLeBytes digitBytes)
  | .panic => .panic

/-- the incomplete most significant digit of `from_be_slice`:
    `last = [pad; BYTES]; for j in 0..rem { last[BYTES - rem + j] = slice[j] }` -/
def beLastDigit (bw : Nat) (slice : List Nat) (rem pad : Nat) : Outcome Nat :=
  match forLoop (fun j db =>
      match usub bw rem with
      | .ok off =>
        match idx slice j with
        | .ok v => setIdx db (off + j) v
        | .panic => .panic
      | .panic => .panic) rem 0 (List.replicate bw pad) with
  | .ok lastBytes => .ok (Prim.fromBeBytes lastBytes)
  | .panic => .panic

/-- the incomplete most significant digit of `from_le_slice`:
    `addition = exact << BYTE_SHIFT; j = 0; while j + addition < len { last[j] = slice[j + addition] }` -/
def leLastDigit (bw : Nat) (slice : List Nat) (exact pad : Nat) : Outcome Nat :=
  let addition := exact <<< byteShift bw
  match forLoop (fun j db =>
      match idx slice (j + addition) with
      | .ok v => setIdx db j v
      | .panic => .panic) (slice.length - addition) 0 (List.replicate bw pad) with
  | .ok lastBytes => .ok (Prim.fromLeBytes lastBytes)
  | .panic => .panic

/-- `while i < exact { digit = …; set_digit(i, digit) (may `return None`); i += 1 }`
    run for `k` more iterations from index `i` -/
def sliceLoop (getDigit : Nat → Outcome Nat)
    (setDigit : Nat → Nat → List Nat → Outcome (Option (List Nat))) :
    Nat → Nat → List Nat → Outcome (Option (List Nat))
  | 0, _, out => .ok (some out)
  | k + 1, i, out =>
    match getDigit i with
    | .panic => .panic
    | .ok digit =>
      match setDigit i digit out with
      | .panic => .panic
      | .ok none => .ok none
      | .ok (some out') => sliceLoop getDigit setDigit k (i + 1) out'

/-- `BUint`: `if i < N { out.digits[i] = digit } else if digit != 0 { return None }` -/
def setDigitU (n i digit : Nat) (out : List Nat) : Outcome (Option (List Nat)) :=
  if i < n then
    match setIdx out i digit with
    | .ok o => .ok (some o)
    | .panic => .panic
  else if digit != 0 then .ok none
  else .ok (some out)

/-- `BInt`: macro `set_digit!` -/
def setDigitI (w n : Nat) (isNegative : Bool) (signBits : Nat) (i digit : Nat) (out : List Nat) :
    Outcome (Option (List Nat)) :=
  if i == n - 1 then
    if Bnum.Prim.isNeg w digit == isNegative then
      match setIdx out i digit with
      | .ok o => .ok (some o)
      | .panic => .panic
    else .ok none
  else if i < n then
    match setIdx out i digit with
    | .ok o => .ok (some o)
    | .panic => .panic
  else if digit != signBits then .ok none
  else .ok (some out)

/-- body of `to_le_bytes` / `to_be_bytes`: `for j in 0..BYTES { bytes[(i << BYTE_SHIFT) + j] = digit_bytes[j] }` -/
def putDigitBytes (bw i : Nat) (digitBytes bytes : List Nat) : Outcome (List Nat) :=
  forLoop (fun j bytes =>
    match idx digitBytes j with
    | .ok v => setIdx bytes ((i <<< byteShift bw) + j) v
    | .panic => .panic) bw 0 bytes

/-- `to_be_bytes` loop: `while i > 0 { db = digits[N - i].to_be_bytes(); i -= 1; put(i, db) }` -/
def toBeBytesLoop (bw n : Nat) (digits : List Nat) : Nat → List Nat → Outcome (List Nat)
  | 0, bytes => .ok bytes
  | i + 1, bytes =>
    match usub n (i + 1) with
    | .panic => .panic
    | .ok k =>
      match idx digits k with
      | .panic => .panic
      | .ok d =>
        match putDigitBytes bw i (Prim.toBeBytes bw d) bytes with
        | .panic => .panic
        | .ok bytes' => toBeBytesLoop bw n digits i bytes'
end Endian

namespace UI
open Endian
/-- `BUint::from_be` -/
def fromBe (e : Bool) (bw : Nat) (x : List Nat) : List Nat := if e then swapBytes bw x else x
/-- `BUint::from_le` -/
def fromLe (e : Bool) (bw : Nat) (x : List Nat) : List Nat := if e then x else swapBytes bw x
/-- `BUint::to_be` -/
def toBe (e : Bool) (bw : Nat) (x : List Nat) : List Nat := fromBe e bw x
/-- `BUint::to_le` -/
def toLe (e : Bool) (bw : Nat) (x : List Nat) : List Nat := fromLe e bw x

/-- `BUint::from_be_slice` -/
def fromBeSlice (bw n : Nat) (slice : List Nat) : Outcome (Option (List Nat)) :=
  let len := slice.length
  let out := List.replicate n 0
  let exact := len >>> byteShift bw
  match sliceLoop (beDigit bw slice len) (setDigitU n) exact 0 out with
  | .panic => .panic
  | .ok none => .ok none
  | .ok (some out) =>
    let rem := len &&& (bw - 1)
    if rem == 0 then .ok (some out)
    else
      match beLastDigit bw slice rem 0 with
      | .panic => .panic
      | .ok digit => setDigitU n exact digit out

/-- `BUint::from_le_slice` -/
def fromLeSlice (bw n : Nat) (slice : List Nat) : Outcome (Option (List Nat)) :=
  let len := slice.length
  let out := List.replicate n 0
  let exact := len >>> byteShift bw
  match sliceLoop (leDigit bw slice) (setDigitU n) exact 0 out with
  | .panic => .panic
  | .ok none => .ok none
  | .ok (some out) =>
    if len &&& (bw - 1) == 0 then .ok (some out)
    else
      match leLastDigit bw slice exact 0 with
      | .panic => .panic
      | .ok digit => setDigitU n exact digit out

/-- `BUint::to_be_bytes` (nightly) -/
def toBeBytes (bw n : Nat) (x : List Nat) : Outcome (List Nat) :=
  toBeBytesLoop bw n x n (List.replicate (n * bw) 0)

/-- `BUint::to_le_bytes` (nightly) -/
def toLeBytes (bw n : Nat) (x : List Nat) : Outcome (List Nat) :=
  forLoop (fun i bytes =>
    match idx x i with
    | .ok d => putDigitBytes bw i (Prim.toLeBytes bw d) bytes
    | .panic => .panic) n 0 (List.replicate (n * bw) 0)

/-- `BUint::to_ne_bytes` (nightly) -/
def toNeBytes (e : Bool) (bw n : Nat) (x : List Nat) : Outcome (List Nat) :=
  if e then toLeBytes bw n x else toBeBytes bw n x

/-- `BUint::from_be_bytes` (nightly); `bytes : [u8; N * BYTES]` -/
def fromBeBytes (bw n : Nat) (bytes : List Nat) : Outcome (List Nat) :=
  forLoop (fun i out =>
    match beDigit bw bytes (n * bw) i with
    | .ok d => setIdx out i d
    | .panic => .panic) n 0 (List.replicate n 0)

/-- `BUint::from_le_bytes` (nightly) -/
def fromLeBytes (bw n : Nat) (bytes : List Nat) : Outcome (List Nat) :=
  forLoop (fun i out =>
    match leDigit bw bytes i with
    | .ok d => setIdx out i d
    | .panic => .panic) n 0 (List.replicate n 0)

/-- `BUint::from_ne_bytes` (nightly) -/
def fromNeBytes (e : Bool) (bw n : Nat) (bytes : List Nat) : Outcome (List Nat) :=
  if e then fromLeBytes bw n bytes else fromBeBytes bw n bytes
end UI

namespace II
open Endian
/-- `BInt::from_be`: `from_bits(BUint::from_be(x.bits))` -/
def fromBe (e : Bool) (bw : Nat) (x : List Nat) : List Nat := UI.fromBe e bw x
def fromLe (e : Bool) (bw : Nat) (x : List Nat) : List Nat := UI.fromLe e bw x
def toBe (e : Bool) (bw : Nat) (x : List Nat) : List Nat := fromBe e bw x
def toLe (e : Bool) (bw : Nat) (x : List Nat) : List Nat := fromLe e bw x

/-- `BInt::from_be_slice` -/
def fromBeSlice (bw n : Nat) (slice : List Nat) : Outcome (Option (List Nat)) :=
  let w := 8 * bw
  let len := slice.length
  if len == 0 then .ok (some (List.replicate n 0))
  else
    match idx slice 0 with
    | .panic => .panic
    | .ok b0 =>
      let isNegative := Prim.byteIsNeg b0
      let signBits := if isNegative then B w - 1 else 0
      let out := if isNegative then List.replicate n (B w - 1) else List.replicate n 0
      let exact := len >>> byteShift bw
      match sliceLoop (beDigit bw slice len) (setDigitI w n isNegative signBits) exact 0 out with
      | .panic => .panic
      | .ok none => .ok none
      | .ok (some out) =>
        let rem := len &&& (bw - 1)
        if rem == 0 then .ok (some out)
        else
          let padByte := if isNegative then 255 else 0
          match beLastDigit bw slice rem padByte with
          | .panic => .panic
          | .ok digit => setDigitI w n isNegative signBits exact digit out

/-- `BInt::from_le_slice` -/
def fromLeSlice (bw n : Nat) (slice : List Nat) : Outcome (Option (List Nat)) :=
  let w := 8 * bw
  let len := slice.length
  if len == 0 then .ok (some (List.replicate n 0))
  else
    match usub len 1 with
    | .panic => .panic
    | .ok lenM1 =>
    match idx slice lenM1 with
    | .panic => .panic
    | .ok bl =>
      let isNegative := Prim.byteIsNeg bl
      let signBits := if isNegative then B w - 1 else 0
      let out := List.replicate n signBits
      let exact := len >>> byteShift bw
      match sliceLoop (leDigit bw slice) (setDigitI w n isNegative signBits) exact 0 out with
      | .panic => .panic
      | .ok none => .ok none
      | .ok (some out) =>
        if len &&& (bw - 1) == 0 then .ok (some out)
        else
          let padByte := if isNegative then 255 else 0
          match leLastDigit bw slice exact padByte with
          | .panic => .panic
          | .ok digit => setDigitI w n isNegative signBits exact digit out

def toBeBytes (bw n : Nat) (x : List Nat) : Outcome (List Nat) := UI.toBeBytes bw n x
def toLeBytes (bw n : Nat) (x : List Nat) : Outcome (List Nat) := UI.toLeBytes bw n x
def toNeBytes (e : Bool) (bw n : Nat) (x : List Nat) : Outcome (List Nat) := UI.toNeBytes e bw n x
def fromBeBytes (bw n : Nat) (bytes : List Nat) : Outcome (List Nat) := UI.fromBeBytes bw n bytes
def fromLeBytes (bw n : Nat) (bytes : List Nat) : Outcome (List Nat) := UI.fromLeBytes bw n bytes
def fromNeBytes (e : Bool) (bw n : Nat) (bytes : List Nat) : Outcome (List Nat) :=
  UI.fromNeBytes e bw n bytes
end II
end Bnum
