/-
  Bnum.Model.Bits — digit-wise logic of `src/buint/const_trait_fillers.rs` (bitand/bitor/bitxor/not).
  (`bnot` lives in Model/AddSub.lean.)  The counting / bit-manipulation functions of
  `src/buint/mod.rs` are in Model/BitOps.lean.
-/
import Bnum.Model.AddSub
namespace Bnum
namespace UI
def bitand : List Nat → List Nat → List Nat
  | a :: as, b :: bs => (a &&& b) :: bitand as bs
  | _, _ => []
def bitor : List Nat → List Nat → List Nat
  | a :: as, b :: bs => (a ||| b) :: bitor as bs
  | _, _ => []
def bitxor : List Nat → List Nat → List Nat
  | a :: as, b :: bs => (a ^^^ b) :: bitxor as bs
  | _, _ => []
def not (w : Nat) (a : List Nat) : List Nat := bnot w a
end UI
end Bnum
