/-
  Bnum.Model.Float — float <-> bnum integer casts (property C14):
    `src/cast/float/mod.rs`              (`ConvertFloatParts::{into_*_parts, from_*_parts,
                                           round_exponent_mantissa}`, `FloatCastHelper` constants),
    `src/cast/float/float_from_uint.rs`  (`cast_float_from_uint`),
    `src/cast/float/uint_from_float.rs`  (`cast_uint_from_float`),
    `src/buint/cast.rs` / `src/bint/cast.rs` call sites (`CastFrom<BUint/BInt> for f32/f64`,
                                           `CastFrom<f32/f64> for BUint/BInt`,
                                           `bint_cast_from_float!`).
  Import-free (core Lean only).

  Modelling notes
  * A float is its BIT PATTERN (`Nat < 2^bits`), never a Lean `Float`.  A format is
    `FloatFmt = (bits, p, emax)`: `bits` = width of the float and of its `Mantissa` integer type
    (u32 / u64), `p = MANTISSA_DIGITS` (24 / 53), `emax = MAX_EXP` (128 / 1024).
    `EXPONENT_BITS = bits - p`, `EXP_BIAS = emax - 1`, `MIN_EXP = 3 - emax`.
  * The mantissa type is a primitive unsigned integer of `bits` bits: `&`, `|`, `^`, `>>`, `<<`, `+`
    on it are the Nat operations reduced mod `2^bits` where the Rust operation can lose bits
    (`<<`), and `+` overflow is a debug panic / release wrap (`Outcome`, `dbg`).
  * `UnsignedExp = u32`; `SignedExp = i32` is modelled by `Int` (all exponents that occur are bounded
    by `bits + emax + 2^31`, far from the i32 limits only through the explicit `try_from`, which is
    modelled: `i32::try_from(u32)` fails iff the value is `≥ 2^31`).
  * THE BNUM-INTEGER SIDE IS AT VALUE LEVEL.  The generic functions `cast_float_from_uint<U, F>` and
    `cast_uint_from_float<F, U>` use `U` only through `bits()`, `bit(i)`, `>>`, `<<`,
    `trailing_zeros()`, `cast_from` (to / from the mantissa type), `ZERO/ONE/MIN/MAX` and `BITS`.
    Here `U` is a `Nat` value `v < 2^W` with `W = U::BITS`:
      `value.bits()` = `bitsOf v` (= `Nat.log2 v + 1`, 0 for 0), `value.bit(i)` = `v.testBit i`,
      `value >> s` = `v / 2^s`, `U::cast_from(mant) << k` = `(mant % 2^W * 2^k) % 2^W`,
      `value.trailing_zeros()` = `trailingZeros W v`, `Mantissa::cast_from(u)` = `u % 2^bits`.
    The digit-level implementations of these operations (`BUint::{bits, bit, shr, shl,
    trailing_zeros, is_power_of_two}`, the primitive <-> BUint casts, `unsigned_abs`, `is_negative`,
    `neg`) are modelled and proved against exactly these value-level meanings in Model/BitOps.lean,
    Model/Shift.lean, Model/Cast.lean, Model/AddSub.lean (other properties); they are composed here
    at value level.  The Drive handler converts the hex pattern to the value with `U`.
  * History: up to snapshot a8327ce `cast_uint_from_float` had two branches `exp < -1 → ZERO` and
    `exp == -1 → (ZERO if the mantissa is a power of two, else ONE)`, which returned 1 for floats in
    (0.5, 1) where `as` truncates to 0 (finding F3).  Commit e77dd54 replaced them by the single
    `exp <= -1 → ZERO`; the model mirrors the repaired tree.
-/
import Bnum.Model.Basic
namespace Bnum

/-- a binary interchange float format -/
structure FloatFmt where
  /-- total width; also the width of the `Mantissa` integer type -/
  bits : Nat
  /-- `MANTISSA_DIGITS` (including the implicit bit) -/
  p : Nat
  /-- `MAX_EXP` -/
  emax : Nat
  deriving Repr, DecidableEq

def fmtF32 : FloatFmt := ⟨32, 24, 128⟩
def fmtF64 : FloatFmt := ⟨64, 53, 1024⟩

namespace Flt

/-! ### value-level integer helpers (`helpers::Bits`, `FloatMantissa`) -/

/-- `Bits::bits`: number of significant bits -/
def bitsOf (v : Nat) : Nat := if v = 0 then 0 else Nat.log2 v + 1
/-- `Bits::bit` -/
def bit (v i : Nat) : Bool := v.testBit i
/-- number of trailing zero bits of a non-zero value, searching at most `fuel` positions -/
def tzAux : Nat → Nat → Nat
  | 0, _ => 0
  | fuel + 1, v => if v % 2 = 1 then 0 else tzAux fuel (v / 2) + 1
/-- `trailing_zeros` of a `W`-bit integer (`W` for zero) -/
def trailingZeros (W v : Nat) : Nat := if v = 0 then W else tzAux (bitsOf v) v
/-- `is_power_of_two` -/
def isPowerOfTwo (v : Nat) : Bool := v != 0 && 2 ^ Nat.log2 v == v

/-! ### `FloatCastHelper` constants and primitive float predicates (on patterns) -/

/-- `EXPONENT_BITS` -/
def expBits (F : FloatFmt) : Nat := F.bits - F.p
/-- `EXP_BIAS = MAX_EXP - 1` -/
def bias (F : FloatFmt) : Int := (F.emax : Int) - 1
/-- `MIN_EXP` -/
def minExp (F : FloatFmt) : Int := 3 - (F.emax : Int)
/-- pattern of `F::INFINITY`: exponent field all ones, fraction zero -/
def infinity (F : FloatFmt) : Nat := (2 ^ expBits F - 1) * 2 ^ (F.p - 1)
/-- `F::ZERO` -/
def zero (_F : FloatFmt) : Nat := 0
/-- `F::NEG_ZERO` -/
def negZero (F : FloatFmt) : Nat := 2 ^ (F.bits - 1)
/-- `is_sign_negative` -/
def isSignNegative (F : FloatFmt) (x : Nat) : Bool := decide (2 ^ (F.bits - 1) ≤ x)
/-- the pattern without its sign bit (`abs`) -/
def absBits (F : FloatFmt) (x : Nat) : Nat := x % 2 ^ (F.bits - 1)
/-- `is_nan` (primitive) -/
def isNan (F : FloatFmt) (x : Nat) : Bool := decide (infinity F < absBits F x)
/-- `is_infinite` (primitive) -/
def isInfinite (F : FloatFmt) (x : Nat) : Bool := decide (absBits F x = infinity F)
/-- unary minus on a primitive float: flips the sign bit (also of NaNs) -/
def neg (F : FloatFmt) (x : Nat) : Nat :=
  if isSignNegative F x then x - 2 ^ (F.bits - 1) else x + 2 ^ (F.bits - 1)

/-! ### `ConvertFloatParts` (cast/float/mod.rs) -/

/-- `into_raw_parts`: `(sign, exponent field, fraction field)` -/
def intoRawParts (F : FloatFmt) (x : Nat) : Bool × Nat × Nat :=
  let sign := isSignNegative F x
  let signMask := (2 ^ F.bits - 1) >>> 1
  let exp := (x &&& signMask) >>> (F.p - 1)
  let mant := x &&& ((2 ^ F.bits - 1) >>> (F.bits - (F.p - 1)))
  (sign, exp, mant)

/-- `into_biased_parts` -/
def intoBiasedParts (F : FloatFmt) (x : Nat) : Bool × Nat × Nat :=
  let (sign, exp, mant) := intoRawParts F x
  if exp = 0 then (sign, 1, mant) else (sign, exp, mant ||| (1 <<< (F.p - 1)))

/-- `into_signed_biased_parts` (`exp as i32`; the field has fewer than 31 bits) -/
def intoSignedBiasedParts (F : FloatFmt) (x : Nat) : Bool × Int × Nat :=
  let (sign, exp, mant) := intoBiasedParts F x
  (sign, (exp : Int), mant)

/-- `into_signed_parts` -/
def intoSignedParts (F : FloatFmt) (x : Nat) : Bool × Int × Nat :=
  let (sign, exp, mant) := intoSignedBiasedParts F x
  (sign, exp - bias F, mant)

/-- `into_normalised_signed_parts` (note the `mant >> shift` of the Rust source) -/
def intoNormalisedSignedParts (F : FloatFmt) (x : Nat) : Bool × Int × Nat :=
  let (sign, exp, mant) := intoSignedParts F x
  let shift := F.p - bitsOf mant
  if mant = 0 || shift = 0 then (sign, exp, mant)
  else (sign, exp - (shift : Int), mant >>> shift)

/-- `from_raw_parts` -/
def fromRawParts (F : FloatFmt) (dbg : Bool) (sign : Bool) (exponent mantissa : Nat) : Outcome Nat :=
  if dbg && !(decide (bitsOf mantissa ≤ F.p - 1)) then .panic else
  let bits := ((exponent % 2 ^ F.bits) <<< (F.p - 1)) % 2 ^ F.bits ||| mantissa
  let bits := if sign then bits ||| (1 <<< (F.bits - 1)) else bits
  .ok bits

/-- `from_biased_parts` -/
def fromBiasedParts (F : FloatFmt) (dbg : Bool) (sign : Bool) (exponent mantissa : Nat) : Outcome Nat :=
  if dbg && !(exponent != 0) then .panic else
  if bit mantissa (F.p - 1) then
    fromRawParts F dbg sign exponent (mantissa ^^^ (1 <<< (F.p - 1)))
  else
    if dbg && !(exponent == 1) then .panic else
    fromRawParts F dbg sign 0 mantissa

/-- `from_signed_biased_parts` (`exponent as u32` wraps a negative exponent) -/
def fromSignedBiasedParts (F : FloatFmt) (dbg : Bool) (sign : Bool) (exponent : Int) (mantissa : Nat) :
    Outcome Nat :=
  if dbg && decide (exponent < 0) then .panic else
  fromBiasedParts F dbg sign (exponent % (2 ^ 32 : Int)).toNat mantissa

/-- `from_signed_parts` -/
def fromSignedParts (F : FloatFmt) (dbg : Bool) (sign : Bool) (exponent : Int) (mantissa : Nat) :
    Outcome Nat :=
  fromSignedBiasedParts F dbg sign (exponent + bias F) mantissa

/-- `a + b` on the mantissa type: overflow panics in debug builds, wraps in release builds -/
def mantAdd (F : FloatFmt) (dbg : Bool) (a b : Nat) : Outcome Nat :=
  if a + b < 2 ^ F.bits then .ok (a + b) else if dbg then .panic else .ok ((a + b) % 2 ^ F.bits)

/-- `round_exponent_mantissa::<TIES_EVEN>` (used by `from_normalised_signed_parts` only; the shift
    amounts there are `1 ≤ shift < bits`, other amounts are a shift overflow) -/
def roundExponentMantissa (F : FloatFmt) (dbg : Bool) (tiesEven : Bool) (exponent : Int)
    (mantissa shift : Nat) : Outcome (Int × Nat) :=
  if F.bits ≤ shift then .panic else
  let shifted := mantissa >>> shift
  if !tiesEven then .ok (exponent, shifted) else
  if shift = 0 then .panic else
  let discarded := mantissa &&& ((2 ^ F.bits - 1) >>> (F.bits - shift))
  if bit discarded (shift - 1) then
    if shifted &&& 1 == 1 || !(isPowerOfTwo discarded) then
      match mantAdd F dbg shifted 1 with
      | .panic => .panic
      | .ok shifted =>
        if bit shifted shift then .ok (exponent + 1, shifted >>> 1) else .ok (exponent, shifted)
    else .ok (exponent, shifted)
  else .ok (exponent, shifted)

/-- `from_normalised_signed_parts` (not used by the integer casts; modelled for completeness) -/
def fromNormalisedSignedParts (F : FloatFmt) (dbg : Bool) (sign : Bool) (exponent : Int)
    (mantissa : Nat) : Outcome Nat :=
  if dbg && !(mantissa == 0 || bitsOf mantissa == F.p) then .panic else
  if exponent < minExp F - 1 then
    let shift := (minExp F - 1 - exponent).toNat
    match roundExponentMantissa F dbg true (minExp F - 1) mantissa shift with
    | .panic => .panic
    | .ok (e, m) => fromSignedParts F dbg sign e m
  else fromSignedParts F dbg sign exponent mantissa

/-! ### `cast_float_from_uint` (cast/float/float_from_uint.rs) -/

/-- the `mantissa` block of `cast_float_from_uint`: `(exponent, mantissa)` after rounding -/
def roundMantissa (F : FloatFmt) (W : Nat) (dbg : Bool) (value bitWidth : Nat) (exponent : Int) :
    Outcome (Int × Nat) :=
  if bitWidth ≤ F.p then
    -- the cast preserves the value (no truncation)
    .ok (exponent, ((value % 2 ^ F.bits) <<< (F.p - bitWidth)) % 2 ^ F.bits)
  else
    let shift := bitWidth - F.p
    let gteHalf := bit value (shift - 1)
    let shifted := (value >>> shift) % 2 ^ F.bits
    if gteHalf && (bit shifted 0 || trailingZeros W value != shift - 1) then
      -- ties-to-even: round up
      match mantAdd F dbg shifted 1 with
      | .panic => .panic
      | .ok shifted =>
        if bit shifted F.p then .ok (exponent + 1, shifted >>> 1) else .ok (exponent, shifted)
    else .ok (exponent, shifted)

/-- `cast_float_from_uint::<U, F>(value)`, `W = U::BITS`, `value < 2^W` -/
def castFloatFromUint (F : FloatFmt) (W : Nat) (dbg : Bool) (value : Nat) : Outcome Nat :=
  let bitWidth := bitsOf value
  if bitWidth = 0 then .ok (zero F) else
  let exponent := bitWidth - 1
  -- `F::SignedExp::try_from(exponent)`: i32 from u32
  if 2 ^ 31 ≤ exponent then .ok (infinity F) else
  let exponent : Int := (exponent : Int)
  if exponent ≥ (F.emax : Int) then .ok (infinity F) else
  match roundMantissa F W dbg value bitWidth exponent with
  | .panic => .panic
  | .ok (exponent, mantissa) => fromSignedParts F dbg false exponent mantissa

/-! ### `cast_uint_from_float` (cast/float/uint_from_float.rs) -/

/-- the final `match ExpType::try_from(exp)` of `cast_uint_from_float` -/
def shiftMantissa (W : Nat) (exp : Int) (mant : Nat) : Nat :=
  if exp < 0 then 2 ^ W - 1 else   -- `try_from` fails (unreachable)
  let e := exp.toNat
  if e ≥ W then 2 ^ W - 1 else
  let mbw := bitsOf mant
  if e ≤ mbw - 1 then (mant >>> (mbw - 1 - e)) % 2 ^ W
  else ((mant % 2 ^ W) <<< (e - (mbw - 1))) % 2 ^ W

/-- `cast_uint_from_float::<F, U>(value)`, `W = U::BITS`; result is the value of the `U`.
    (Tree after commit e77dd54 `fix: float to integer casts truncate values in (0.5, 1) to zero`:
    one branch `exp <= -1 → ZERO`.) -/
def castUintFromFloat (F : FloatFmt) (W : Nat) (value : Nat) : Nat :=
  if isNan F value then 0 else
  let isInf := isInfinite F value
  let (sign, exp, mant) := intoNormalisedSignedParts F value
  if sign then 0 else
  if isInf then 2 ^ W - 1 else
  if mant = 0 then 0 else
  if exp ≤ -1 then 0 else
  shiftMantissa W exp mant

/-! ### call sites (buint/cast.rs, bint/cast.rs), on `W`-bit patterns -/

/-- `CastFrom<BUint<N>> for f32/f64` -/
def floatFromBUint (F : FloatFmt) (W : Nat) (dbg : Bool) (v : Nat) : Outcome Nat :=
  castFloatFromUint F W dbg v

/-- `CastFrom<f32/f64> for BUint<N>` -/
def buintFromFloat (F : FloatFmt) (W : Nat) (x : Nat) : Nat := castUintFromFloat F W x

/-- `BInt::is_negative` on the pattern -/
def patIsNegative (W : Nat) (pat : Nat) : Bool := decide (2 ^ (W - 1) ≤ pat)
/-- `BInt::unsigned_abs` on the pattern -/
def patUnsignedAbs (W : Nat) (pat : Nat) : Nat := if patIsNegative W pat then (2 ^ W - pat) % 2 ^ W else pat

/-- `CastFrom<BInt<N>> for f32/f64`: magnitude, then negate -/
def floatFromBInt (F : FloatFmt) (W : Nat) (dbg : Bool) (pat : Nat) : Outcome Nat :=
  match castFloatFromUint F W dbg (patUnsignedAbs W pat) with
  | .panic => .panic
  | .ok f => if patIsNegative W pat then .ok (neg F f) else .ok f

/-- `CastFrom<f32/f64> for BInt<N>` (`bint_cast_from_float!`); result is the pattern -/
def bintFromFloat (F : FloatFmt) (W : Nat) (x : Nat) : Nat :=
  if isSignNegative F x then
    let u := buintFromFloat F W (neg F x)
    if u ≥ 2 ^ (W - 1) then 2 ^ (W - 1)          -- `Self::MIN`
    else (2 ^ W - u) % 2 ^ W                      -- `-Self::from_bits(u)`
  else
    let u := buintFromFloat F W x
    if patIsNegative W u then 2 ^ (W - 1) - 1     -- `Self::MAX`
    else u

end Flt
end Bnum
