/-
  Bnum.Model.NumTraits — the `num_traits` / `num_integer` implementations (feature `numtraits`):
    `src/int/numtraits.rs`    forwarding impls (`impls!`, `prim_int_methods!`)
    `src/buint/numtraits.rs`  `Integer`, `PrimInt`, `fixpoint`, `Roots` for `BUint<N>`
    `src/bint/numtraits.rs`   `Integer`, `PrimInt`, `Roots`, `Signed` for `BInt<N>`
  (`FromPrimitive` / `ToPrimitive` / `AsPrimitive` / `NumCast` belong to C19 and are not modelled
  here, except that `Roots` calls `ToPrimitive::to_u128`: its `to_int!` macro body is token for token
  the body of `try_from_buint!` (`src/buint/convert.rs`), already modelled as `UI.tryToPrim`.)

  Import-free (core Lean + other Model files).  Everything lives in `Bnum.NumT`:
  `NumT.U.*` = trait methods of `BUint<N>`, `NumT.I.*` = trait methods of `BInt<N>`,
  `NumT.Prim.*` = trusted leaf layer, `NumT.Inh.*` = two inherent `BInt` functions that no other
  Model file contains (`abs`, `neg`).

  Modelling notes
  * Method resolution.  Inside the trait impls, `self : &Self`.  `self.div_floor(&x)` therefore
    resolves to the *trait* method `Integer::div_floor(&self, &Self)` (the inherent
    `BInt::div_floor(self, Self)` takes `self` by value and is only found after auto-deref), while
    `out.abs()`, `self.unsigned_abs()`, `.wrapping_neg()`, `.is_zero()` resolve to inherent methods.
    Operators: `/`, `%` = `Self::div`, `Self::rem` (`const_trait_fillers`); `*`, `+`, `-`, `-=`,
    `<<`, `>>` (also with an `i32` literal amount: `ExpType::try_from(1)` succeeds) = the unsuffixed
    `mul`/`add`/`sub`/`shl`/`shr` of `int/ops.rs`, i.e. `strict_*` under `debug_assertions` and
    `wrapping_*` otherwise — hence the `dbg` parameter and `Outcome` nearly everywhere.
    `<`, `>`, `<=` = core's provided `PartialOrd` methods over `partial_cmp = Some(cmp)`
    (`Traits.opLt` …).
  * Loops without a syntactic bound (`loop { … }` of the binary gcd, the two `while` loops of
    `fixpoint`) recurse on a fuel counter.  Fuel exhaustion would be non-termination of the Rust
    code; the model answers `panic` there and `Lemmas/NumTraits.lean` proves it is never reached
    (`NumT.U.gcdLoop` : the sum of the operands strictly decreases; `NumT.U.fixDown` : `self`
    strictly decreases).  The callers pass `2 * 2^BITS` resp. `2^BITS`.
  * `#[cfg(not(test))] if let Some(n) = self.to_u128() { return n.sqrt().into(); }` IS compiled in
    every non-`cfg(test)` build (so in the harness): values below `2^128` never reach the Newton
    iteration.  `u128::sqrt/cbrt/nth_root` are num-integer's primitive implementations (bit tricks and
    an `f64` first guess); they are modelled at value level by `NumT.Prim.uRoot` = "the exact integer
    root" — a TRUSTED ASSUMPTION about num-integer, not something this project verifies.
    `.into()` is `From<u128> for BUint<N>` (`UI.fromUint … 128`).
  * `n_minus_1.into()`, `n.into()` are `From<u32> for BUint<N>` (`UI.fromUint … 32`); `bits / n + 1`
    etc. are `u32` computations that cannot overflow (`bits ≤ BITS`, which the crate casts to `u32`).
  * History.  Two defects of the pinned snapshot were repaired in /repo and the model below mirrors
    the repaired code:
      F4 (commit 1a88b70)  `Integer::div_floor` / `mod_floor` for `BInt` were `*self / *other` and
          `*self % *other`, i.e. truncating (`-7 div_floor 2 = -3`, `mod_floor = -1`), and `div_rem`
          was built from them.  Now `div_rem = (/, %)`, `div_floor` / `mod_floor` adjust the
          truncated pair by the sign test of Leijen's note.
      F5 (commit 7f46e5d)  the Newton step of `nth_root(n)`, `n ≥ 4`, computed `self / s.pow(n-1)`;
          for the first guess `s = 2^(bits/n+1)` the power overflows whenever
          `(bits/n+1)(n-1) ≥ BITS` (panic "attempt to calculate power with overflow" in debug builds,
          division by the wrapped power `0` in release builds), e.g. `BUint::<4>::MAX.nth_root(17)`.
          Now `match s.checked_pow(n-1) { Some(pow) => self / pow, None => ZERO }`.
-/
import Bnum.Model.Pow
import Bnum.Model.Shift
import Bnum.Model.Convert
import Bnum.Model.Radix
import Bnum.Model.Endian
namespace Bnum
namespace NumT

/-! ## trusted leaf layer -/
namespace Prim

/-- `b ^ e ≤ x`, decided without ever building a number much larger than `x`
    (`e` ranges over all of `u32`): multiply up, stop as soon as the running power exceeds `x`.
    Arguments: remaining exponent, running power. -/
def powLeLoop (b x : Nat) : Nat → Nat → Bool
  | 0, acc => decide (acc ≤ x)
  | e + 1, acc => if acc > x then false else powLeLoop b x e (acc * b)

/-- `b ^ e ≤ x` -/
def powLe (b e x : Nat) : Bool :=
  if b = 0 then (e != 0) || decide (1 ≤ x)
  else if b = 1 then decide (1 ≤ x)
  else powLeLoop b x e 1

/-- bit-by-bit construction of the integer `n`-th root from bit `i-1` downwards -/
def rootLoop (n x : Nat) : Nat → Nat → Nat
  | 0, r => r
  | i + 1, r =>
    let c := r + 2 ^ i
    rootLoop n x i (if powLe c n x then c else r)

/-- `u128::sqrt` / `cbrt` / `nth_root(n)` of num-integer (`n ≥ 1`, `x < 2^128`): the integer `r` with
    `r^n ≤ x < (r+1)^n`.  TRUSTED: stands for num-integer's primitive `Roots` implementation. -/
def uRoot (n x : Nat) : Nat := rootLoop n x 128 0

end Prim

/-! ## two inherent `BInt` functions not present in other Model files -/
namespace Inh
/-- `BInt::abs`: `strict_abs` under `debug_assertions`; otherwise
    `match self.checked_abs() { Some(int) => int, None => Self::MIN }` -/
def abs (dbg : Bool) (w : Nat) (a : List Nat) : Outcome (List Nat) :=
  if dbg then II.strictAbs w a
  else
    match II.checkedAbs w a with
    | some r => .ok r
    | none => .ok (iMin w a.length)
/-- `BInt::neg` (`Neg::neg`): `strict_neg` under `debug_assertions`, `wrapping_neg` otherwise -/
def neg (dbg : Bool) (w : Nat) (a : List Nat) : Outcome (List Nat) := KD.iOpNeg dbg w a
end Inh

/-- `ToPrimitive::to_u128` for `BUint<N>` (`to_int!` = `try_from_buint!`, see the header) -/
def toU128 (w : Nat) (x : List Nat) : Outcome (Option Nat) := UI.tryToPrim w x ⟨128, false⟩
/-- `From<u128> for BUint<N>` -/
def fromU128 (w n v : Nat) : Outcome (List Nat) := UI.fromUint w n 128 v
/-- `From<u32> for BUint<N>` -/
def fromU32 (w n v : Nat) : Outcome (List Nat) := UI.fromUint w n 32 v

/-! ## `BUint<N>` -/
namespace U

/-! ### `impl Integer for BUint<N>` -/

/-- `Integer::div_floor`: `*self / *other` -/
def divFloor (w : Nat) (a b : List Nat) : Outcome (List Nat) := UI.div w a b
/-- `Integer::mod_floor`: `*self % *other` -/
def modFloor (w : Nat) (a b : List Nat) : Outcome (List Nat) := UI.rem w a b

/-- the `loop { … }` of `Integer::gcd` (state `a`, `b`; `b_tz` is constant).  First argument: fuel. -/
def gcdLoop (dbg : Bool) (w : Nat) : Nat → List Nat → List Nat → Nat → Outcome (List Nat)
  | 0, _, _, _ => .panic
  | f + 1, a, b, bTz =>
    -- `if a < b { swap(&mut a, &mut b) }`
    let p : List Nat × List Nat := if Traits.opLt UI.cmp a b then (b, a) else (a, b)
    -- `a -= b`
    match UI.sub dbg w p.1 p.2 with
    | .panic => .panic
    | .ok a' =>
      if isZero a' then .ok (UI.uncheckedShlInternal w p.2 bTz)
      else gcdLoop dbg w f (UI.uncheckedShrInternal w a' (UI.trailingZeros w a')) p.2 bTz

/-- `Integer::gcd` (binary gcd) -/
def gcd (dbg : Bool) (w : Nat) (a b : List Nat) : Outcome (List Nat) :=
  if isZero a then .ok b
  else if isZero b then .ok a
  else
    let aTz := UI.trailingZeros w a
    let bTz := UI.trailingZeros w b
    let a' := UI.uncheckedShrInternal w a aTz
    let b' := UI.uncheckedShrInternal w b bTz
    -- `if b_tz > a_tz { swap(&mut a_tz, &mut b_tz) }` : afterwards `b_tz` is the smaller one
    let bTz' := if bTz > aTz then aTz else bTz
    gcdLoop dbg w (2 * M w a.length) a' b' bTz'

/-- `Integer::lcm`: `self.div_floor(&self.gcd(other)) * *other` -/
def lcm (dbg : Bool) (w : Nat) (a b : List Nat) : Outcome (List Nat) :=
  if isZero a || isZero b then .ok (zero a.length)
  else
    (gcd dbg w a b).bind fun g =>
    (divFloor w a g).bind fun q =>
    UI.mul w dbg q b

/-- `Integer::is_multiple_of`: `self.mod_floor(other).is_zero()` -/
def isMultipleOf (w : Nat) (a b : List Nat) : Outcome Bool := (modFloor w a b).map isZero
/-- `Integer::divides` (deprecated alias) -/
def divides (w : Nat) (a b : List Nat) : Outcome Bool := isMultipleOf w a b
/-- `Integer::is_even`: `self.digits[0] & 1 == 0` (`N ≥ 1`) -/
def isEven (a : List Nat) : Bool := (a.headD 0 &&& 1) == 0
/-- `Integer::is_odd` -/
def isOdd (a : List Nat) : Bool := (a.headD 0 &&& 1) == 1
/-- `Integer::div_rem`: `Self::div_rem(*self, *rhs)` -/
def divRem (w : Nat) (a b : List Nat) : Outcome (List Nat × List Nat) := UI.divRem w a b
/-- `Integer::div_mod_floor` (num-integer's provided method):
    `(self.div_floor(other), self.mod_floor(other))` -/
def divModFloor (w : Nat) (a b : List Nat) : Outcome (List Nat × List Nat) :=
  (divFloor w a b).bind fun q => (modFloor w a b).bind fun r => .ok (q, r)

/-! ### `fixpoint` and `impl Roots for BUint<N>` -/

/-- `check_zero_or_one!`: `last_digit_index() == 0 && (digits[0] == 0 || digits[0] == 1)` -/
def isZeroOrOne (a : List Nat) : Bool :=
  lastDigitIndex a == 0 && (a.headD 0 == 0 || a.headD 0 == 1)

/-- first loop of `fixpoint`: `while self < xn { self = if xn.bits() > max_bits
    { power_of_two(max_bits) } else { xn }; xn = f(self); }` — returns `(self, xn)` -/
def fixUp (w : Nat) (maxBits : Nat) (f : List Nat → Outcome (List Nat)) :
    Nat → List Nat → List Nat → Outcome (List Nat × List Nat)
  | 0, _, _ => .panic
  | k + 1, self, xn =>
    if Traits.opLt UI.cmp self xn then
      (if UI.bits w xn > maxBits then UI.powerOfTwo w self.length maxBits else .ok xn).bind
        fun self' => (f self').bind fun xn' => fixUp w maxBits f k self' xn'
    else .ok (self, xn)

/-- second loop of `fixpoint`: `while self > xn { self = xn; xn = f(self); }` — returns `self` -/
def fixDown (f : List Nat → Outcome (List Nat)) : Nat → List Nat → List Nat → Outcome (List Nat)
  | 0, _, _ => .panic
  | k + 1, self, xn =>
    if Traits.opGt UI.cmp self xn then (f xn).bind fun xn' => fixDown f k xn xn'
    else .ok self

/-- `BUint::fixpoint(self, max_bits, f)` -/
def fixpoint (w : Nat) (self : List Nat) (maxBits : Nat) (f : List Nat → Outcome (List Nat)) :
    Outcome (List Nat) :=
  let fuel := M w self.length
  (f self).bind fun xn =>
  (fixUp w maxBits f fuel self xn).bind fun p =>
  fixDown f fuel p.1 p.2

/-- closure of `sqrt`: `|s| { let q = self / s; let t = s + q; t >> 1 }` -/
def sqrtStep (dbg : Bool) (w : Nat) (x s : List Nat) : Outcome (List Nat) :=
  (UI.div w x s).bind fun q => (UI.add dbg w s q).bind fun t => UI.shr dbg w t 1

/-- the part of `sqrt` after the `to_u128` shortcut -/
def sqrtNewton (dbg : Bool) (w : Nat) (x : List Nat) : Outcome (List Nat) :=
  let maxBits := UI.bits w x / 2 + 1
  (UI.powerOfTwo w x.length maxBits).bind fun guess =>
  fixpoint w guess maxBits (sqrtStep dbg w x)

/-- `Roots::sqrt` -/
def sqrt (dbg : Bool) (w : Nat) (x : List Nat) : Outcome (List Nat) :=
  if isZeroOrOne x then .ok x
  else
    (toU128 w x).bind fun
      | some v => fromU128 w x.length (Prim.uRoot 2 v)
      | none => sqrtNewton dbg w x

/-- closure of `cbrt`: `|s| { let q = self / (s * s); let t = (s << 1) + q; t.div_rem_digit(3).0 }` -/
def cbrtStep (dbg : Bool) (w : Nat) (x s : List Nat) : Outcome (List Nat) :=
  (UI.mul w dbg s s).bind fun ss =>
  (UI.div w x ss).bind fun q =>
  (UI.shl dbg w s 1).bind fun s2 =>
  (UI.add dbg w s2 q).bind fun t =>
  (UI.divRemDigit w t 3).map (·.1)

def cbrtNewton (dbg : Bool) (w : Nat) (x : List Nat) : Outcome (List Nat) :=
  let maxBits := UI.bits w x / 3 + 1
  (UI.powerOfTwo w x.length maxBits).bind fun guess =>
  fixpoint w guess maxBits (cbrtStep dbg w x)

/-- `Roots::cbrt` -/
def cbrt (dbg : Bool) (w : Nat) (x : List Nat) : Outcome (List Nat) :=
  if isZeroOrOne x then .ok x
  else
    (toU128 w x).bind fun
      | some v => fromU128 w x.length (Prim.uRoot 3 v)
      | none => cbrtNewton dbg w x

/-- the tail of the closure of `nth_root`, given the quotient `q`:
    `let mul: Self = n_minus_1.into(); let t: Self = s * mul + q; t.div_rem_unchecked(n.into()).0` -/
def nthStepTail (dbg : Bool) (w n : Nat) (s q : List Nat) : Outcome (List Nat) :=
  (fromU32 w s.length (n - 1)).bind fun mul =>
  (UI.mul w dbg s mul).bind fun sm =>
  (UI.add dbg w sm q).bind fun t =>
  (fromU32 w s.length n).bind fun nn =>
  (UI.divRemUnchecked w t nn).map (·.1)

/-- closure of `nth_root`:
    `|s| { let q = match s.checked_pow(n_minus_1) { Some(pow) => self / pow, None => Self::ZERO }; … }` -/
def nthStep (dbg : Bool) (w n : Nat) (x s : List Nat) : Outcome (List Nat) :=
  (match UI.checkedPow w s (n - 1) with
   | some p => UI.div w x p
   | none => .ok (zero x.length)).bind fun q =>
  nthStepTail dbg w n s q

/-- the `_ =>` arm of `nth_root` after the `to_u128` shortcut -/
def nthNewton (dbg : Bool) (w n : Nat) (x : List Nat) : Outcome (List Nat) :=
  let bits := UI.bits w x
  if bits ≤ n then .ok (one x.length)
  else
    let maxBits := bits / n + 1
    (UI.powerOfTwo w x.length maxBits).bind fun guess =>
    fixpoint w guess maxBits (nthStep dbg w n x)

/-- `Roots::nth_root` -/
def nthRoot (dbg : Bool) (w : Nat) (x : List Nat) (n : Nat) : Outcome (List Nat) :=
  match n with
  | 0 => .panic
  | 1 => .ok x
  | 2 => sqrt dbg w x
  | 3 => cbrt dbg w x
  | _ =>
    if isZeroOrOne x then .ok x
    else
      (toU128 w x).bind fun
        | some v => fromU128 w x.length (Prim.uRoot n v)
        | none => nthNewton dbg w n x

/-! ### forwarders of `src/int/numtraits.rs` (`impls!`) and `PrimInt` -/
def minValue (n : Nat) : List Nat := zero n
def maxValue (w n : Nat) : List Nat := allOnes w n
def checkedAdd (w : Nat) (a b : List Nat) := UI.checkedAdd w a b
def checkedSub (w : Nat) (a b : List Nat) := UI.checkedSub w a b
def checkedMul (w : Nat) (a b : List Nat) := UI.checkedMul w a b
def checkedDiv (w : Nat) (a b : List Nat) := UI.checkedDiv w a b
def checkedRem (w : Nat) (a b : List Nat) := UI.checkedRem w a b
def checkedNeg (w : Nat) (a : List Nat) := UI.checkedNeg w a
def checkedShl (w : Nat) (a : List Nat) (s : Nat) := UI.checkedShl w a s
def checkedShr (w : Nat) (a : List Nat) (s : Nat) := UI.checkedShr w a s
def checkedDivEuclid (w : Nat) (a b : List Nat) := UI.checkedDivEuclid w a b
def checkedRemEuclid (w : Nat) (a b : List Nat) := UI.checkedRemEuclid w a b
def divEuclid (w : Nat) (a b : List Nat) := UI.divEuclid w a b
def remEuclid (w : Nat) (a b : List Nat) := UI.remEuclid w a b
def saturatingAdd (w : Nat) (a b : List Nat) := UI.saturatingAdd w a b
def saturatingSub (w : Nat) (a b : List Nat) := UI.saturatingSub w a b
def saturatingMul (w : Nat) (a b : List Nat) := UI.saturatingMul w a b
def wrappingAdd (w : Nat) (a b : List Nat) := UI.wrappingAdd w a b
def wrappingSub (w : Nat) (a b : List Nat) := UI.wrappingSub w a b
def wrappingMul (w : Nat) (a b : List Nat) := UI.wrappingMul w a b
def wrappingNeg (w : Nat) (a : List Nat) := UI.wrappingNeg w a
def wrappingShl (w : Nat) (a : List Nat) (s : Nat) := UI.wrappingShl w a s
def wrappingShr (w : Nat) (a : List Nat) (s : Nat) := UI.wrappingShr w a s
def overflowingAdd (w : Nat) (a b : List Nat) := UI.overflowingAdd w a b
def overflowingSub (w : Nat) (a b : List Nat) := UI.overflowingSub w a b
/-- `Pow<ExpType>::pow` and `PrimInt::pow` -/
def pow (w : Nat) (dbg : Bool) (a : List Nat) (e : Nat) := UI.pow w dbg a e
/-- `MulAdd::mul_add`: `(self * a) + b` -/
def mulAdd (dbg : Bool) (w : Nat) (x a b : List Nat) : Outcome (List Nat) :=
  (UI.mul w dbg x a).bind fun p => UI.add dbg w p b
/-- `Num::from_str_radix` -/
def fromStrRadix (w n : Nat) (src : List Nat) (radix : Nat) := UI.fromStrRadix w n src radix
def oneV (n : Nat) : List Nat := one n
def zeroV (n : Nat) : List Nat := zero n
def isOneT (a : List Nat) : Bool := isOne a
def isZeroT (a : List Nat) : Bool := isZero a
def countOnes (w : Nat) (a : List Nat) := UI.countOnes w a
def countZeros (w : Nat) (a : List Nat) := UI.countZeros w a
def leadingZeros (w : Nat) (a : List Nat) := UI.leadingZeros w a
def trailingZeros (w : Nat) (a : List Nat) := UI.trailingZeros w a
def leadingOnes (w : Nat) (a : List Nat) := UI.leadingOnes w a
def trailingOnes (w : Nat) (a : List Nat) := UI.trailingOnes w a
def rotateLeft (w : Nat) (a : List Nat) (k : Nat) := UI.rotateLeft w a k
def rotateRight (w : Nat) (a : List Nat) (k : Nat) := UI.rotateRight w a k
def swapBytes (w : Nat) (a : List Nat) := UI.swapBytes w a
def reverseBits (w : Nat) (a : List Nat) := UI.reverseBits w a
/-- `PrimInt::to_be` … `from_le` (`e` = target is little-endian, `bw` = bytes per digit) -/
def toBe (e : Bool) (bw : Nat) (a : List Nat) := UI.toBe e bw a
def toLe (e : Bool) (bw : Nat) (a : List Nat) := UI.toLe e bw a
def fromBe (e : Bool) (bw : Nat) (a : List Nat) := UI.fromBe e bw a
def fromLe (e : Bool) (bw : Nat) (a : List Nat) := UI.fromLe e bw a
/-- `PrimInt::signed_shl`, `unsigned_shl`: `self << n` -/
def signedShl (dbg : Bool) (w : Nat) (a : List Nat) (k : Nat) := UI.shl dbg w a k
def unsignedShl (dbg : Bool) (w : Nat) (a : List Nat) (k : Nat) := UI.shl dbg w a k
/-- `PrimInt::signed_shr`: `(BInt::from_bits(self) >> n).to_bits()` -/
def signedShr (dbg : Bool) (w : Nat) (a : List Nat) (k : Nat) := II.shr dbg w a k
/-- `PrimInt::unsigned_shr`: `self >> n` -/
def unsignedShr (dbg : Bool) (w : Nat) (a : List Nat) (k : Nat) := UI.shr dbg w a k
end U

/-! ## `BInt<N>` -/
namespace I

/-! ### `impl Integer for BInt<N>` -/

/-- `Integer::div_rem`: `(*self / *other, *self % *other)` -/
def divRem (dbg : Bool) (w : Nat) (a b : List Nat) : Outcome (List Nat × List Nat) :=
  (II.div dbg w a b).bind fun q => (II.rem dbg w a b).bind fun r => .ok (q, r)

/-- `(r.is_positive() && other.is_negative()) || (r.is_negative() && other.is_positive())`
    (`r : Self` ⇒ inherent methods, `other : &Self` ⇒ the `Signed` trait methods, which forward) -/
def floorAdjust (w : Nat) (r other : List Nat) : Bool :=
  (II.isPositive w r && Bnum.Prim.isNeg w (topDigit other)) ||
  (isNegative w r && II.isPositive w other)

/-- `Integer::div_floor`:
    `let (d, r) = self.div_rem(other); if <adjust> { d - Self::ONE } else { d }` -/
def divFloor (dbg : Bool) (w : Nat) (a b : List Nat) : Outcome (List Nat) :=
  (divRem dbg w a b).bind fun p =>
    if floorAdjust w p.2 b then II.sub dbg w p.1 (one a.length) else .ok p.1

/-- `Integer::mod_floor`: `let r = *self % *other; if <adjust> { r + *other } else { r }` -/
def modFloor (dbg : Bool) (w : Nat) (a b : List Nat) : Outcome (List Nat) :=
  (II.rem dbg w a b).bind fun r =>
    if floorAdjust w r b then II.add dbg w r b else .ok r

/-- `Integer::gcd`: `Self::from_bits(self.unsigned_abs().gcd(&other.unsigned_abs())).abs()` -/
def gcd (dbg : Bool) (w : Nat) (a b : List Nat) : Outcome (List Nat) :=
  (U.gcd dbg w (II.unsignedAbs w a) (II.unsignedAbs w b)).bind fun g => Inh.abs dbg w g

/-- `Integer::lcm`: `(self.div_floor(&self.gcd(other)) * *other).abs()` -/
def lcm (dbg : Bool) (w : Nat) (a b : List Nat) : Outcome (List Nat) :=
  if isZero a || isZero b then .ok (zero a.length)
  else
    (gcd dbg w a b).bind fun g =>
    (divFloor dbg w a g).bind fun q =>
    (II.mul w dbg q b).bind fun p =>
    Inh.abs dbg w p

def isMultipleOf (dbg : Bool) (w : Nat) (a b : List Nat) : Outcome Bool :=
  (modFloor dbg w a b).map isZero
def divides (dbg : Bool) (w : Nat) (a b : List Nat) : Outcome Bool := isMultipleOf dbg w a b
/-- `self.bits.is_even()` -/
def isEven (a : List Nat) : Bool := U.isEven a
def isOdd (a : List Nat) : Bool := U.isOdd a
/-- provided method `div_mod_floor`: `(self.div_floor(other), self.mod_floor(other))` -/
def divModFloor (dbg : Bool) (w : Nat) (a b : List Nat) : Outcome (List Nat × List Nat) :=
  (divFloor dbg w a b).bind fun q => (modFloor dbg w a b).bind fun r => .ok (q, r)

/-! ### `impl Roots for BInt<N>` -/

/-- `Roots::sqrt`: negative ⇒ `panic!("imaginary square root")` -/
def sqrt (dbg : Bool) (w : Nat) (x : List Nat) : Outcome (List Nat) :=
  if isNegative w x then .panic else U.sqrt dbg w x

/-- `Roots::cbrt`: negative ⇒ `-Self::from_bits(self.unsigned_abs().cbrt())` -/
def cbrt (dbg : Bool) (w : Nat) (x : List Nat) : Outcome (List Nat) :=
  if isNegative w x then (U.cbrt dbg w (II.unsignedAbs w x)).bind fun out => Inh.neg dbg w out
  else U.cbrt dbg w x

/-- `Roots::nth_root` -/
def nthRoot (dbg : Bool) (w : Nat) (x : List Nat) (n : Nat) : Outcome (List Nat) :=
  if isNegative w x then
    if n == 0 then .panic
    else if n == 1 then .ok x
    else if n % 2 == 0 then .panic
    else (U.nthRoot dbg w (II.unsignedAbs w x) n).map fun out => II.wrappingNeg w out
  else U.nthRoot dbg w x n

/-! ### `impl Signed for BInt<N>` -/
/-- `Signed::abs`: `Self::abs(*self)` -/
def abs (dbg : Bool) (w : Nat) (a : List Nat) := Inh.abs dbg w a
/-- `Signed::abs_sub`: `if *self <= *other { ZERO } else { *self - *other }` -/
def absSub (dbg : Bool) (w : Nat) (a b : List Nat) : Outcome (List Nat) :=
  if Traits.opLe (II.cmp w) a b then .ok (zero a.length) else II.sub dbg w a b
def signum (w : Nat) (a : List Nat) := II.signum w a
def isPositive (w : Nat) (a : List Nat) := II.isPositive w a
/-- `Signed::is_negative`: `self.signed_digit().is_negative()` -/
def isNegativeT (w : Nat) (a : List Nat) : Bool := Bnum.Prim.isNeg w (topDigit a)

/-! ### forwarders -/
def minValue (w n : Nat) : List Nat := iMin w n
def maxValue (w n : Nat) : List Nat := iMax w n
def checkedAdd (w : Nat) (a b : List Nat) := II.checkedAdd w a b
def checkedSub (w : Nat) (a b : List Nat) := II.checkedSub w a b
def checkedMul (w : Nat) (a b : List Nat) := II.checkedMul w a b
def checkedDiv (dbg : Bool) (w : Nat) (a b : List Nat) := II.checkedDiv dbg w a b
def checkedRem (dbg : Bool) (w : Nat) (a b : List Nat) := II.checkedRem dbg w a b
def checkedNeg (w : Nat) (a : List Nat) := II.checkedNeg w a
def checkedShl (w : Nat) (a : List Nat) (s : Nat) := II.checkedShl w a s
def checkedShr (w : Nat) (a : List Nat) (s : Nat) := II.checkedShr w a s
def checkedDivEuclid (dbg : Bool) (w : Nat) (a b : List Nat) := II.checkedDivEuclid dbg w a b
def checkedRemEuclid (dbg : Bool) (w : Nat) (a b : List Nat) := II.checkedRemEuclid dbg w a b
def divEuclid (dbg : Bool) (w : Nat) (a b : List Nat) := II.divEuclid dbg w a b
def remEuclid (dbg : Bool) (w : Nat) (a b : List Nat) := II.remEuclid dbg w a b
def saturatingAdd (w : Nat) (a b : List Nat) := II.saturatingAdd w a b
def saturatingSub (w : Nat) (a b : List Nat) := II.saturatingSub w a b
def saturatingMul (w : Nat) (a b : List Nat) := II.saturatingMul w a b
def wrappingAdd (w : Nat) (a b : List Nat) := II.wrappingAdd w a b
def wrappingSub (w : Nat) (a b : List Nat) := II.wrappingSub w a b
def wrappingMul (w : Nat) (a b : List Nat) := II.wrappingMul w a b
def wrappingNeg (w : Nat) (a : List Nat) := II.wrappingNeg w a
def wrappingShl (w : Nat) (a : List Nat) (s : Nat) := II.wrappingShl w a s
def wrappingShr (w : Nat) (a : List Nat) (s : Nat) := II.wrappingShr w a s
def overflowingAdd (w : Nat) (a b : List Nat) := II.overflowingAdd w a b
def overflowingSub (w : Nat) (a b : List Nat) := II.overflowingSub w a b
def pow (w : Nat) (dbg : Bool) (a : List Nat) (e : Nat) := II.pow w dbg a e
def mulAdd (dbg : Bool) (w : Nat) (x a b : List Nat) : Outcome (List Nat) :=
  (II.mul w dbg x a).bind fun p => II.add dbg w p b
def fromStrRadix (w n : Nat) (src : List Nat) (radix : Nat) := II.fromStrRadix w n src radix
def oneV (n : Nat) : List Nat := one n
def zeroV (n : Nat) : List Nat := zero n
def isOneT (a : List Nat) : Bool := isOne a
def isZeroT (a : List Nat) : Bool := isZero a
def countOnes (w : Nat) (a : List Nat) := II.countOnes w a
def countZeros (w : Nat) (a : List Nat) := II.countZeros w a
def leadingZeros (w : Nat) (a : List Nat) := II.leadingZeros w a
def trailingZeros (w : Nat) (a : List Nat) := II.trailingZeros w a
def leadingOnes (w : Nat) (a : List Nat) := II.leadingOnes w a
def trailingOnes (w : Nat) (a : List Nat) := II.trailingOnes w a
def rotateLeft (w : Nat) (a : List Nat) (k : Nat) := II.rotateLeft w a k
def rotateRight (w : Nat) (a : List Nat) (k : Nat) := II.rotateRight w a k
def swapBytes (w : Nat) (a : List Nat) := II.swapBytes w a
def reverseBits (w : Nat) (a : List Nat) := II.reverseBits w a
def toBe (e : Bool) (bw : Nat) (a : List Nat) := II.toBe e bw a
def toLe (e : Bool) (bw : Nat) (a : List Nat) := II.toLe e bw a
def fromBe (e : Bool) (bw : Nat) (a : List Nat) := II.fromBe e bw a
def fromLe (e : Bool) (bw : Nat) (a : List Nat) := II.fromLe e bw a
/-- `PrimInt::signed_shl`, `unsigned_shl`: `self << n` -/
def signedShl (dbg : Bool) (w : Nat) (a : List Nat) (k : Nat) := II.shl dbg w a k
def unsignedShl (dbg : Bool) (w : Nat) (a : List Nat) (k : Nat) := II.shl dbg w a k
/-- `PrimInt::signed_shr`: `self >> n` -/
def signedShr (dbg : Bool) (w : Nat) (a : List Nat) (k : Nat) := II.shr dbg w a k
/-- `PrimInt::unsigned_shr`: `Self::from_bits(self.to_bits() >> n)` -/
def unsignedShr (dbg : Bool) (w : Nat) (a : List Nat) (k : Nat) := UI.shr dbg w a k
end I

end NumT
end Bnum
