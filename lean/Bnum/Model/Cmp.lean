/-
  Bnum.Model.Cmp — `src/buint/const_trait_fillers.rs` (eq, ne, cmp), `src/bint/const_trait_fillers.rs`
  (signed cmp), `src/int/cmp.rs` (max/min/clamp/lt/le/gt/ge), `last_digit_index`, `is_one`.
-/
import Bnum.Model.AddSub
namespace Bnum

namespace UI
/-- `BUint::eq`: early-exit scan from digit 0 -/
def eq : List Nat → List Nat → Bool
  | a :: as, b :: bs => if a != b then false else eq as bs
  | _, _ => true
def ne (a b : List Nat) : Bool := !eq a b

/-- scan from the most significant digit: runs over the *reversed* lists -/
def cmpRev : List Nat → List Nat → Ordering
  | a :: as, b :: bs => if a > b then .gt else if a < b then .lt else cmpRev as bs
  | _, _ => .eq
/-- `BUint::cmp` -/
def cmp (a b : List Nat) : Ordering := cmpRev a.reverse b.reverse
end UI

namespace II
/-- `signed_digit()` comparison then unsigned compare of all digits -/
def cmp (w : Nat) (a b : List Nat) : Ordering :=
  let s1 := toInt (B w) (topDigit a)
  let s2 := toInt (B w) (topDigit b)
  if s1 = s2 then UI.cmp a b else if s1 > s2 then .gt else .lt
def eq (a b : List Nat) : Bool := UI.eq a b
def ne (a b : List Nat) : Bool := !eq a b
end II

/-! `int/cmp.rs impls!` over a given `cmp` (instantiated with `UI.cmp` and `II.cmp w`) -/
namespace CmpImpl
variable (cmp : List Nat → List Nat → Ordering)
def max (a b : List Nat) : List Nat :=
  match cmp a b with | .lt | .eq => b | _ => a
def min (a b : List Nat) : List Nat :=
  match cmp a b with | .lt | .eq => a | _ => b
def lt (a b : List Nat) : Bool := match cmp a b with | .lt => true | _ => false
def le (a b : List Nat) : Bool := match cmp a b with | .lt | .eq => true | _ => false
def gt (a b : List Nat) : Bool := match cmp a b with | .gt => true | _ => false
def ge (a b : List Nat) : Bool := match cmp a b with | .gt | .eq => true | _ => false
/-- `clamp`: `assert!(min.le(&max))` -/
def clamp (a mn mx : List Nat) : Outcome (List Nat) :=
  if !(le cmp mn mx) then .panic
  else if cmp a mn == .lt then .ok mn
  else if cmp a mx == .gt then .ok mx
  else .ok a
end CmpImpl

/-- `last_digit_index`: index of the most significant non-zero digit (0 if none) -/
def lastDigitIndex (x : List Nat) : Nat :=
  let rec go : List Nat → Nat → Nat → Nat
    | [], _, idx => idx
    | d :: ds, i, idx => go ds (i + 1) (if d != 0 then i else idx)
  match x with
  | [] => 0
  | _ :: ds => go ds 1 0

/-- `is_one` -/
def isOne : List Nat → Bool
  | [] => false
  | d :: ds => if d != 1 then false else isZero ds
end Bnum
