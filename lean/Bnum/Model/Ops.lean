/-
  Bnum.Model.Ops — every `core::ops` / `core::iter` / `core::cmp` / `Default` / `FromStr` trait
  implementation on `BUint<N>` and `BInt<N>`, one Lean definition per Rust `impl`, each written as
  the delegation the Rust text performs:
    `src/int/ops.rs`     `impls!` (Add, Mul, Sub, Shl<ExpType>, Shr<ExpType>, `Not for &T`, every
                         `assign_op_impl!`), `op_ref_impl!` (the three by-reference operand forms),
                         `assign_op_impl!` (`op=` by value and by reference), `shift_impl!` (u8, u16),
                         `try_shift_impl!` (i8…i128, isize, usize, u64, u128), `shift_self_impl!`
                         (amount of type `BUint<M>` / `BInt<M>`), `shift_assign_ops!`
    `src/buint/ops.rs`   Add<Digit>, Div<Digit>, Rem<Digit>, BitAnd, BitOr, BitXor, Div, Not, Rem
    `src/bint/ops.rs`    Neg, `Neg for &BInt`, BitAnd, BitOr, BitXor, Div, Not, Rem
    `src/{buint,bint}/mod.rs`   Default, Sum<Self>, Sum<&Self>, Product<Self>, Product<&Self>
    `src/{buint,bint}/cmp.rs`   PartialOrd, Ord (modelled in Model/BitOps.lean, namespace `Traits`;
                                re-exported here per type), `#[derive(PartialEq, Eq)]`
    `src/buint/radix.rs`, `src/bint/convert.rs`   FromStr (Model/Radix.lean `UI.fromStr`, `II.fromStr`)
    `src/bint/const_trait_fillers.rs`   the inherent `BInt::neg`

  The macro `impls!($Struct, …)` is ONE text instantiated for `BUint` and `BInt`; the model follows
  that: a record `Ty` bundles the *inherent* (`const fn`) methods of the type the macro is
  instantiated at (`Ops.buint w n`, `Ops.bint w n`), and every trait impl is written once over `Ty`.
  The impls that are written out separately in `buint/ops.rs` and `bint/ops.rs` (BitAnd, BitOr,
  BitXor, Div, Rem, Not) have literally the same body `Self::op(self, rhs)` in both files and are
  modelled once as well.

  Conventions.  `dbg : Bool` = `cfg(debug_assertions)`.  References are transparent (`*rhs` is the
  value).  `op=` returns the new value of `*self` (or `panic`).  A primitive shift amount is the
  pair (`t : PrimTy`, bit pattern `p < 2^t.bits`); `usize`/`isize` are 64 bits wide (the harness
  target).  The two primitive-integer facts used are the (trusted) leaf layer
      `rhs as u32`          = `PInt.cast t.bits t.signed 32 p`   (Model/Cast.lean)
      `u32::try_from(rhs)`  = `Ops.tryFromPrim t p`  (fails iff the value is negative or ≥ 2^32)
  A bnum-typed amount is a digit list over the same digit type; `ExpType::try_from(rhs)` is then the
  crate's own `TryFrom<BUint<M>> for u32` / `TryFrom<BInt<M>> for u32` (`Bnum.tryToPrim`,
  Model/Convert.lean).
-/
import Bnum.Model.Mul
import Bnum.Model.Div
import Bnum.Model.Shift
import Bnum.Model.Bits
import Bnum.Model.BitOps
import Bnum.Model.Convert
import Bnum.Model.Radix
namespace Bnum
namespace Ops

/-- the inherent `BInt::neg` (`bint/const_trait_fillers.rs`): `strict_neg` under
    `debug_assertions`, `wrapping_neg` otherwise -/
def bintNeg (dbg : Bool) (w : Nat) (a : List Nat) : Outcome (List Nat) :=
  if dbg then II.strictNeg w a else .ok (II.wrappingNeg w a)

/-- The inherent `const fn`s (`const_trait_fillers.rs`, `int/ops.rs trait_fillers!`) of the type a
    macro is instantiated at, and its constants.  `div`/`rem` take `dbg` because the signed ones
    reach the `cfg`-dependent unsuffixed `neg` (the unsigned ones ignore it). -/
structure Ty where
  w : Nat
  n : Nat
  signed : Bool
  add : Bool → List Nat → List Nat → Outcome (List Nat)
  sub : Bool → List Nat → List Nat → Outcome (List Nat)
  mul : Bool → List Nat → List Nat → Outcome (List Nat)
  div : Bool → List Nat → List Nat → Outcome (List Nat)
  rem : Bool → List Nat → List Nat → Outcome (List Nat)
  bitand : List Nat → List Nat → List Nat
  bitor : List Nat → List Nat → List Nat
  bitxor : List Nat → List Nat → List Nat
  not : List Nat → List Nat
  shl : Bool → List Nat → Nat → Outcome (List Nat)
  shr : Bool → List Nat → Nat → Outcome (List Nat)
  cmp : List Nat → List Nat → Ordering
  eq : List Nat → List Nat → Bool

/-- `BUint<N>` over `w`-bit digits -/
def buint (w n : Nat) : Ty where
  w := w
  n := n
  signed := false
  add := fun dbg a b => UI.add dbg w a b
  sub := fun dbg a b => UI.sub dbg w a b
  mul := fun dbg a b => UI.mul w dbg a b
  div := fun _ a b => UI.div w a b
  rem := fun _ a b => UI.rem w a b
  bitand := UI.bitand
  bitor := UI.bitor
  bitxor := UI.bitxor
  not := UI.not w
  shl := fun dbg a s => UI.shl dbg w a s
  shr := fun dbg a s => UI.shr dbg w a s
  cmp := UI.cmp
  eq := UI.eq

/-- `BInt<N>` over `w`-bit digits -/
def bint (w n : Nat) : Ty where
  w := w
  n := n
  signed := true
  add := fun dbg a b => II.add dbg w a b
  sub := fun dbg a b => II.sub dbg w a b
  mul := fun dbg a b => II.mul w dbg a b
  div := fun dbg a b => II.div dbg w a b
  rem := fun dbg a b => II.rem dbg w a b
  bitand := II.bitand
  bitor := II.bitor
  bitxor := II.bitxor
  not := II.not w
  shl := fun dbg a s => II.shl dbg w a s
  shr := fun dbg a s => II.shr dbg w a s
  cmp := II.cmp w
  eq := II.eq

/-- `Self::ZERO` -/
def Ty.zero (T : Ty) : List Nat := Bnum.zero T.n
/-- `Self::ONE` -/
def Ty.one (T : Ty) : List Nat := Bnum.one T.n

/-! ## Add  (`impls!`: `impl Add<Self>`, `assign_op_impl!(Add, AddAssign<$Struct<N>> …)`) -/
/-- `impl Add<Self> for $Struct<N>`: `Self::add(self, rhs)` -/
def add_vv (T : Ty) (dbg : Bool) (a b : List Nat) : Outcome (List Nat) := T.add dbg a b
/-- `op_ref_impl!` `impl Add<&T> for T`: `Add::<T>::add(self, *rhs)` -/
def add_vr (T : Ty) (dbg : Bool) (a b : List Nat) : Outcome (List Nat) := add_vv T dbg a b
/-- `op_ref_impl!` `impl Add<&T> for &T`: `Add::<T>::add(*self, *rhs)` -/
def add_rr (T : Ty) (dbg : Bool) (a b : List Nat) : Outcome (List Nat) := add_vv T dbg a b
/-- `op_ref_impl!` `impl Add<T> for &T`: `Add::<T>::add(*self, rhs)` -/
def add_rv (T : Ty) (dbg : Bool) (a b : List Nat) : Outcome (List Nat) := add_vv T dbg a b
/-- `impl AddAssign<T> for T`: `*self = Add::add(*self, rhs)` -/
def addAssign (T : Ty) (dbg : Bool) (a b : List Nat) : Outcome (List Nat) := add_vv T dbg a b
/-- `impl AddAssign<&T> for T`: `self.add_assign(*rhs)` -/
def addAssignRef (T : Ty) (dbg : Bool) (a b : List Nat) : Outcome (List Nat) := addAssign T dbg a b

/-! ## Sub -/
/-- `impl Sub for $Struct<N>`: `Self::sub(self, rhs)` -/
def sub_vv (T : Ty) (dbg : Bool) (a b : List Nat) : Outcome (List Nat) := T.sub dbg a b
def sub_vr (T : Ty) (dbg : Bool) (a b : List Nat) : Outcome (List Nat) := sub_vv T dbg a b
def sub_rr (T : Ty) (dbg : Bool) (a b : List Nat) : Outcome (List Nat) := sub_vv T dbg a b
def sub_rv (T : Ty) (dbg : Bool) (a b : List Nat) : Outcome (List Nat) := sub_vv T dbg a b
/-- `*self = Sub::sub(*self, rhs)` -/
def subAssign (T : Ty) (dbg : Bool) (a b : List Nat) : Outcome (List Nat) := sub_vv T dbg a b
/-- `self.sub_assign(*rhs)` -/
def subAssignRef (T : Ty) (dbg : Bool) (a b : List Nat) : Outcome (List Nat) := subAssign T dbg a b

/-! ## Mul -/
/-- `impl Mul for $Struct<N>`: `Self::mul(self, rhs)` -/
def mul_vv (T : Ty) (dbg : Bool) (a b : List Nat) : Outcome (List Nat) := T.mul dbg a b
def mul_vr (T : Ty) (dbg : Bool) (a b : List Nat) : Outcome (List Nat) := mul_vv T dbg a b
def mul_rr (T : Ty) (dbg : Bool) (a b : List Nat) : Outcome (List Nat) := mul_vv T dbg a b
def mul_rv (T : Ty) (dbg : Bool) (a b : List Nat) : Outcome (List Nat) := mul_vv T dbg a b
def mulAssign (T : Ty) (dbg : Bool) (a b : List Nat) : Outcome (List Nat) := mul_vv T dbg a b
def mulAssignRef (T : Ty) (dbg : Bool) (a b : List Nat) : Outcome (List Nat) := mulAssign T dbg a b

/-! ## Div  (`buint/ops.rs`, `bint/ops.rs`: `Self::div(self, rhs)`) -/
def div_vv (T : Ty) (dbg : Bool) (a b : List Nat) : Outcome (List Nat) := T.div dbg a b
def div_vr (T : Ty) (dbg : Bool) (a b : List Nat) : Outcome (List Nat) := div_vv T dbg a b
def div_rr (T : Ty) (dbg : Bool) (a b : List Nat) : Outcome (List Nat) := div_vv T dbg a b
def div_rv (T : Ty) (dbg : Bool) (a b : List Nat) : Outcome (List Nat) := div_vv T dbg a b
def divAssign (T : Ty) (dbg : Bool) (a b : List Nat) : Outcome (List Nat) := div_vv T dbg a b
def divAssignRef (T : Ty) (dbg : Bool) (a b : List Nat) : Outcome (List Nat) := divAssign T dbg a b

/-! ## Rem  (`Self::rem(self, rhs)`) -/
def rem_vv (T : Ty) (dbg : Bool) (a b : List Nat) : Outcome (List Nat) := T.rem dbg a b
def rem_vr (T : Ty) (dbg : Bool) (a b : List Nat) : Outcome (List Nat) := rem_vv T dbg a b
def rem_rr (T : Ty) (dbg : Bool) (a b : List Nat) : Outcome (List Nat) := rem_vv T dbg a b
def rem_rv (T : Ty) (dbg : Bool) (a b : List Nat) : Outcome (List Nat) := rem_vv T dbg a b
def remAssign (T : Ty) (dbg : Bool) (a b : List Nat) : Outcome (List Nat) := rem_vv T dbg a b
def remAssignRef (T : Ty) (dbg : Bool) (a b : List Nat) : Outcome (List Nat) := remAssign T dbg a b

/-! ## BitAnd / BitOr / BitXor  (`Self::bitand(self, rhs)` …; no panic, no `cfg`) -/
def bitand_vv (T : Ty) (a b : List Nat) : List Nat := T.bitand a b
def bitand_vr (T : Ty) (a b : List Nat) : List Nat := bitand_vv T a b
def bitand_rr (T : Ty) (a b : List Nat) : List Nat := bitand_vv T a b
def bitand_rv (T : Ty) (a b : List Nat) : List Nat := bitand_vv T a b
def bitandAssign (T : Ty) (a b : List Nat) : List Nat := bitand_vv T a b
def bitandAssignRef (T : Ty) (a b : List Nat) : List Nat := bitandAssign T a b

def bitor_vv (T : Ty) (a b : List Nat) : List Nat := T.bitor a b
def bitor_vr (T : Ty) (a b : List Nat) : List Nat := bitor_vv T a b
def bitor_rr (T : Ty) (a b : List Nat) : List Nat := bitor_vv T a b
def bitor_rv (T : Ty) (a b : List Nat) : List Nat := bitor_vv T a b
def bitorAssign (T : Ty) (a b : List Nat) : List Nat := bitor_vv T a b
def bitorAssignRef (T : Ty) (a b : List Nat) : List Nat := bitorAssign T a b

def bitxor_vv (T : Ty) (a b : List Nat) : List Nat := T.bitxor a b
def bitxor_vr (T : Ty) (a b : List Nat) : List Nat := bitxor_vv T a b
def bitxor_rr (T : Ty) (a b : List Nat) : List Nat := bitxor_vv T a b
def bitxor_rv (T : Ty) (a b : List Nat) : List Nat := bitxor_vv T a b
def bitxorAssign (T : Ty) (a b : List Nat) : List Nat := bitxor_vv T a b
def bitxorAssignRef (T : Ty) (a b : List Nat) : List Nat := bitxorAssign T a b

/-! ## Not, Neg -/
/-- `impl Not for $Struct<N>`: `Self::not(self)` -/
def not_v (T : Ty) (a : List Nat) : List Nat := T.not a
/-- `impl Not for &$Struct<N>` (`impls!`): `(*self).not()` — method resolution picks the inherent
    `not` -/
def not_r (T : Ty) (a : List Nat) : List Nat := T.not a
/-- `impl Neg for BInt<N>`: `Self::neg(self)` -/
def neg_v (dbg : Bool) (w : Nat) (a : List Nat) : Outcome (List Nat) := bintNeg dbg w a
/-- `impl Neg for &BInt<N>`: `BInt::neg(*self)` -/
def neg_r (dbg : Bool) (w : Nat) (a : List Nat) : Outcome (List Nat) := bintNeg dbg w a

/-! ## Shl / Shr with a primitive amount -/

/-- the twelve primitive integer types -/
inductive PrimTy where
  | u8 | u16 | u32 | u64 | u128 | usize | i8 | i16 | i32 | i64 | i128 | isize
  deriving DecidableEq, Repr

def PrimTy.bits : PrimTy → Nat
  | .u8 | .i8 => 8
  | .u16 | .i16 => 16
  | .u32 | .i32 => 32
  | .u64 | .i64 | .usize | .isize => 64
  | .u128 | .i128 => 128
def PrimTy.signed : PrimTy → Bool
  | .i8 | .i16 | .i32 | .i64 | .i128 | .isize => true
  | _ => false
def PrimTy.pty (t : PrimTy) : PTy := ⟨t.bits, t.signed⟩

/-- which macro of `int/ops.rs` generates `Shl<$rhs>` / `Shr<$rhs>` for `$Struct<N>` -/
inductive ShiftImpl where
  /-- `impl Shl<ExpType>` in `impls!`: `Self::shl(self, rhs)` -/
  | direct
  /-- `shift_impl!` (u8, u16): `self.shl(rhs as ExpType)` -/
  | cast
  /-- `try_shift_impl!`: debug `result_expect!(ExpType::try_from(rhs), …)`, release `rhs as ExpType` -/
  | tryFrom
  deriving DecidableEq, Repr

def PrimTy.impl : PrimTy → ShiftImpl
  | .u32 => .direct
  | .u8 | .u16 => .cast
  | _ => .tryFrom

/-- the integer denoted by the bit pattern `p` of a value of type `t` (not executed by any impl;
    used to state theorems) -/
def PrimTy.val (t : PrimTy) (p : Nat) : Int := if t.signed then toInt (B t.bits) p else (p : Int)

/-- `rhs as ExpType` -/
def asExp (t : PrimTy) (p : Nat) : Nat := PInt.cast t.bits t.signed 32 p
/-- core's `<u32 as TryFrom<$rhs>>::try_from(rhs)`: `Err` iff the value is negative or `> u32::MAX` -/
def tryFromPrim (t : PrimTy) (p : Nat) : Option Nat :=
  if PInt.isNeg t.pty p then none else if p < B 32 then some p else none

/-- the body shared by `impl Shl<$rhs>` / `impl Shr<$rhs>` (the macros take `$method`): `method` is
    the inherent `self.shl` / `self.shr` already applied to `self` -/
def shiftPrim (dbg : Bool) (t : PrimTy) (method : Nat → Outcome (List Nat)) (p : Nat) :
    Outcome (List Nat) :=
  match t.impl with
  | .direct => method p
  | .cast => method (asExp t p)
  | .tryFrom =>
    if dbg then
      match tryFromPrim t p with
      | some r => method r
      | none => .panic
    else method (asExp t p)

/-- `impl Shl<$rhs> for $Struct<N>` for the primitive type `t` -/
def shl_vv (T : Ty) (dbg : Bool) (t : PrimTy) (a : List Nat) (p : Nat) : Outcome (List Nat) :=
  shiftPrim dbg t (T.shl dbg a) p
/-- `op_ref_impl!(Shl<$rhs> …)` (through `shift_assign_ops!` → `assign_op_impl!`):
    `Shl::<$rhs>::shl(self, *rhs)` -/
def shl_vr (T : Ty) (dbg : Bool) (t : PrimTy) (a : List Nat) (p : Nat) := shl_vv T dbg t a p
/-- `Shl::<$rhs>::shl(*self, *rhs)` -/
def shl_rr (T : Ty) (dbg : Bool) (t : PrimTy) (a : List Nat) (p : Nat) := shl_vv T dbg t a p
/-- `Shl::<$rhs>::shl(*self, rhs)` -/
def shl_rv (T : Ty) (dbg : Bool) (t : PrimTy) (a : List Nat) (p : Nat) := shl_vv T dbg t a p
/-- `impl ShlAssign<$rhs>`: `*self = Shl::shl(*self, rhs)` -/
def shlAssign (T : Ty) (dbg : Bool) (t : PrimTy) (a : List Nat) (p : Nat) := shl_vv T dbg t a p
/-- `impl ShlAssign<&$rhs>`: `self.shl_assign(*rhs)` -/
def shlAssignRef (T : Ty) (dbg : Bool) (t : PrimTy) (a : List Nat) (p : Nat) := shlAssign T dbg t a p

/-- `impl Shr<$rhs> for $Struct<N>` for the primitive type `t` -/
def shr_vv (T : Ty) (dbg : Bool) (t : PrimTy) (a : List Nat) (p : Nat) : Outcome (List Nat) :=
  shiftPrim dbg t (T.shr dbg a) p
def shr_vr (T : Ty) (dbg : Bool) (t : PrimTy) (a : List Nat) (p : Nat) := shr_vv T dbg t a p
def shr_rr (T : Ty) (dbg : Bool) (t : PrimTy) (a : List Nat) (p : Nat) := shr_vv T dbg t a p
def shr_rv (T : Ty) (dbg : Bool) (t : PrimTy) (a : List Nat) (p : Nat) := shr_vv T dbg t a p
def shrAssign (T : Ty) (dbg : Bool) (t : PrimTy) (a : List Nat) (p : Nat) := shr_vv T dbg t a p
def shrAssignRef (T : Ty) (dbg : Bool) (t : PrimTy) (a : List Nat) (p : Nat) := shrAssign T dbg t a p

/-! ## Shl / Shr with an amount of type `BUint<M>` (`ks = false`) / `BInt<M>` (`ks = true`)
    (`shift_self_impl!`: the `try_from` + `result_expect!` is NOT `cfg`-gated) -/

/-- the body shared by `impl Shl<$rhs<M>>` / `impl Shr<$rhs<M>>`:
    `let rhs: ExpType = result_expect!(ExpType::try_from(rhs), …); self.$method(rhs)` -/
def shiftBnum (w : Nat) (ks : Bool) (method : Nat → Outcome (List Nat)) (k : List Nat) :
    Outcome (List Nat) :=
  match Bnum.tryToPrim w ks k ⟨32, false⟩ with
  | .ok (some r) => method r
  | _ => .panic

/-- `impl Shl<$rhs<M>> for $Struct<N>` -/
def shlB_vv (T : Ty) (dbg : Bool) (ks : Bool) (a k : List Nat) : Outcome (List Nat) :=
  shiftBnum T.w ks (T.shl dbg a) k
/-- `Shl::<$rhs<M>>::shl(self, *rhs)` -/
def shlB_vr (T : Ty) (dbg : Bool) (ks : Bool) (a k : List Nat) := shlB_vv T dbg ks a k
/-- `Shl::<$rhs<M>>::shl(*self, *rhs)` -/
def shlB_rr (T : Ty) (dbg : Bool) (ks : Bool) (a k : List Nat) := shlB_vv T dbg ks a k
/-- `Shl::<$rhs<M>>::shl(*self, rhs)` -/
def shlB_rv (T : Ty) (dbg : Bool) (ks : Bool) (a k : List Nat) := shlB_vv T dbg ks a k
/-- `*self = Shl::<$rhs<M>>::shl(*self, rhs)` -/
def shlBAssign (T : Ty) (dbg : Bool) (ks : Bool) (a k : List Nat) := shlB_vv T dbg ks a k
/-- `(*self).shl_assign(*rhs)` -/
def shlBAssignRef (T : Ty) (dbg : Bool) (ks : Bool) (a k : List Nat) := shlBAssign T dbg ks a k

/-- `impl Shr<$rhs<M>> for $Struct<N>` -/
def shrB_vv (T : Ty) (dbg : Bool) (ks : Bool) (a k : List Nat) : Outcome (List Nat) :=
  shiftBnum T.w ks (T.shr dbg a) k
def shrB_vr (T : Ty) (dbg : Bool) (ks : Bool) (a k : List Nat) := shrB_vv T dbg ks a k
def shrB_rr (T : Ty) (dbg : Bool) (ks : Bool) (a k : List Nat) := shrB_vv T dbg ks a k
def shrB_rv (T : Ty) (dbg : Bool) (ks : Bool) (a k : List Nat) := shrB_vv T dbg ks a k
def shrBAssign (T : Ty) (dbg : Bool) (ks : Bool) (a k : List Nat) := shrB_vv T dbg ks a k
def shrBAssignRef (T : Ty) (dbg : Bool) (ks : Bool) (a k : List Nat) := shrBAssign T dbg ks a k

/-! ## Sum / Product / Default -/

/-- `Iterator::fold` with a body that may panic -/
def foldO {α β : Type} (f : α → β → Outcome α) : α → List β → Outcome α
  | acc, [] => .ok acc
  | acc, x :: xs =>
    match f acc x with
    | .ok acc' => foldO f acc' xs
    | .panic => .panic

/-- `impl Sum<Self>`: `iter.fold(Self::ZERO, |a, b| a + b)` -/
def sum (T : Ty) (dbg : Bool) (xs : List (List Nat)) : Outcome (List Nat) :=
  foldO (fun a b => add_vv T dbg a b) T.zero xs
/-- `impl Sum<&Self>`: the closure's `a + b` has `b : &Self`, i.e. `Add<&T> for T` -/
def sumRef (T : Ty) (dbg : Bool) (xs : List (List Nat)) : Outcome (List Nat) :=
  foldO (fun a b => add_vr T dbg a b) T.zero xs
/-- `impl Product<Self>`: `iter.fold(Self::ONE, |a, b| a * b)` -/
def product (T : Ty) (dbg : Bool) (xs : List (List Nat)) : Outcome (List Nat) :=
  foldO (fun a b => mul_vv T dbg a b) T.one xs
/-- `impl Product<&Self>` -/
def productRef (T : Ty) (dbg : Bool) (xs : List (List Nat)) : Outcome (List Nat) :=
  foldO (fun a b => mul_vr T dbg a b) T.one xs
/-- `impl Default`: `Self::ZERO` -/
def default (T : Ty) : List Nat := T.zero

/-! ## PartialEq / Eq (derived), PartialOrd / Ord (`{buint,bint}/cmp.rs`; the generic definitions
    are `Traits.*` of Model/BitOps.lean) -/
def partialCmp (T : Ty) (a b : List Nat) : Option Ordering := Traits.partialCmp T.cmp a b
def ordCmp (T : Ty) (a b : List Nat) : Ordering := Traits.ordCmp T.cmp a b
def opLt (T : Ty) (a b : List Nat) : Bool := Traits.opLt T.cmp a b
def opLe (T : Ty) (a b : List Nat) : Bool := Traits.opLe T.cmp a b
def opGt (T : Ty) (a b : List Nat) : Bool := Traits.opGt T.cmp a b
def opGe (T : Ty) (a b : List Nat) : Bool := Traits.opGe T.cmp a b
def opEq (a b : List Nat) : Bool := Traits.opEq a b
def opNe (a b : List Nat) : Bool := Traits.opNe a b

/-! ## FromStr -/
/-- `<T as FromStr>::from_str(src)`: `Self::from_str_radix(src, 10)` -/
def fromStr (T : Ty) (src : List Nat) : Outcome PRes :=
  if T.signed then II.fromStr T.w T.n src else UI.fromStr T.w T.n src

/-! ## digit-operand forms (`buint/ops.rs`, `BUint` only) -/

/-- `while i < N && carry { (out.digits[i], carry) = out.digits[i].overflowing_add(1); i += 1 }`
    over the digits from index `i` on: stops at the first digit that does not carry -/
def addDigitLoop (w : Nat) : List Nat → Bool → List Nat
  | [], _ => []
  | d :: ds, carry =>
    if carry then
      let r := Prim.uOverflowingAdd w d 1
      r.1 :: addDigitLoop w ds r.2
    else d :: ds

/-- `impl Add<$Digit> for BUint<N>`: no overflow check in either build mode (the final carry is
    dropped).  `out.digits[0]` is an index panic for `N = 0`. -/
def addDigit (w : Nat) (a : List Nat) (d : Nat) : Outcome (List Nat) :=
  match a with
  | [] => .panic
  | a0 :: as =>
    let r := Digit.carryingAdd w a0 d false
    .ok (r.1 :: addDigitLoop w as r.2)

/-- `impl Div<$Digit> for BUint<N>`: `self.div_rem_digit(rhs).0` -/
def divDigit (w : Nat) (a : List Nat) (d : Nat) : Outcome (List Nat) :=
  (UI.divRemDigit w a d).map (·.1)
/-- `impl Rem<$Digit> for BUint<N>` (`Output = $Digit`): `self.div_rem_digit(rhs).1` -/
def remDigit (w : Nat) (a : List Nat) (d : Nat) : Outcome Nat :=
  (UI.divRemDigit w a d).map (·.2)

end Ops
end Bnum
