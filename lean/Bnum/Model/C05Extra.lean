/-
  Bnum.Model.C05Extra — the operator entry points of `src/int/ops.rs` for an `ExpType` (= u32) amount,
  i.e. what `x << k`, `x >> k`, `x <<= k`, `x >>= k` resolve to for `k : u32`:

    impl<const N: usize> Shl<ExpType> for $Struct<N> { fn shl(self, rhs) -> Self { Self::shl(self, rhs) } }
    impl<const N: usize> Shr<ExpType> for $Struct<N> { fn shr(self, rhs) -> Self { Self::shr(self, rhs) } }
    assign_op_impl!(Shl, ShlAssign<u32> ..):  fn shl_assign(&mut self, rhs) { *self = Shl::shl(*self, rhs) }

  `Self::shl` / `Self::shr` are the `trait_fillers!` functions modelled in Model/Shift.lean (`UI.shl`,
  `II.shl`, …, body depends on `cfg(debug_assertions)`).  `&mut self` becomes the returned value.
  (The other operand types and the by-reference forms are C17's subject.)
-/
import Bnum.Model.Shift
namespace Bnum

namespace UI
/-- `<BUint<N> as Shl<ExpType>>::shl` -/
def shlExp (dbg : Bool) (w : Nat) (a : List Nat) (s : Nat) : Outcome (List Nat) := shl dbg w a s
/-- `<BUint<N> as Shr<ExpType>>::shr` -/
def shrExp (dbg : Bool) (w : Nat) (a : List Nat) (s : Nat) : Outcome (List Nat) := shr dbg w a s
/-- `<BUint<N> as ShlAssign<ExpType>>::shl_assign`: `*self = Shl::shl(*self, rhs)` -/
def shlAssignExp (dbg : Bool) (w : Nat) (a : List Nat) (s : Nat) : Outcome (List Nat) := shlExp dbg w a s
/-- `<BUint<N> as ShrAssign<ExpType>>::shr_assign` -/
def shrAssignExp (dbg : Bool) (w : Nat) (a : List Nat) (s : Nat) : Outcome (List Nat) := shrExp dbg w a s
end UI

namespace II
/-- `<BInt<N> as Shl<ExpType>>::shl` -/
def shlExp (dbg : Bool) (w : Nat) (a : List Nat) (s : Nat) : Outcome (List Nat) := shl dbg w a s
/-- `<BInt<N> as Shr<ExpType>>::shr` -/
def shrExp (dbg : Bool) (w : Nat) (a : List Nat) (s : Nat) : Outcome (List Nat) := shr dbg w a s
/-- `<BInt<N> as ShlAssign<ExpType>>::shl_assign` -/
def shlAssignExp (dbg : Bool) (w : Nat) (a : List Nat) (s : Nat) : Outcome (List Nat) := shlExp dbg w a s
/-- `<BInt<N> as ShrAssign<ExpType>>::shr_assign` -/
def shrAssignExp (dbg : Bool) (w : Nat) (a : List Nat) (s : Nat) : Outcome (List Nat) := shrExp dbg w a s
end II

end Bnum
