/-
  Bnum.Model.C02Extra — the *client-side* chaining loop the doc comments of `carrying_mul`
  (`src/buint/bigint_helpers.rs`) describe: a little-endian vector of `BUint<N>` words times one
  `BUint<N>` word,

      let mut carry = c;
      for a in words { let (lo, hi) = a.carrying_mul(b, carry); out.push(lo); carry = hi; }

  It is not a function of the crate; it is the way property C02 says the helpers "can be chained
  into exact multi-word arithmetic".  Import-free (linked into `bnum_driver`).
-/
import Bnum.Model.Mul
namespace Bnum
namespace UI

/-- words `as` (little-endian) times the word `b`, plus the incoming carry word `c`, by chaining
    `carrying_mul`: the low words and the final carry word. -/
def mulWords (w : Nat) : List (List Nat) → List Nat → List Nat → List (List Nat) × List Nat
  | [], _, c => ([], c)
  | a :: as, b, c =>
    let r := carryingMul w a b c
    let rest := mulWords w as b r.2
    (r.1 :: rest.1, rest.2)

/-- value of a little-endian list of `n`-digit words (base `2^BITS = M w n`) -/
def UW (w n : Nat) : List (List Nat) → Nat
  | [] => 0
  | x :: xs => U w x + M w n * UW w n xs

end UI
end Bnum
