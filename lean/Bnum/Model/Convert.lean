/-
  Bnum.Model.Convert — checked / infallible conversions:
    `src/buint/convert.rs` (`from_uint!`, `try_from_iint!`, `try_from_buint!`, the four
       `*_try_from_*!` macros behind `BTryFrom`, `From<bool>`, `From<char>`, `From<[Digit; N]>`),
    `src/bint/convert.rs`  (`from_int!`, `from_uint!`, `int_try_from_bint!`, `uint_try_from_bint!`,
       `From<bool>`),
    `from_digits` / `digits` / `from_digit` (`src/buint/mod.rs`).
  `Result<T, TryFromIntError>` is `Option T` (`some` = `Ok`, `none` = `Err`); anything that can
  panic returns `Outcome`.  See Model/Cast.lean for the conventions on primitive words and arrays.
  DEFECTS KEPT: `From<uK> for BInt<N>` is `from_bits(BUint::from(int))`, so it wraps when the
  target has exactly `K` bits (F6); `From<uK/iK>` index out of bounds when the primitive is wider
  than the target (panic; documented limitation, outside C13).
-/
import Bnum.Model.Cast
import Bnum.Model.BitOps
namespace Bnum
open Arr

/-- `a - b` on `ExpType = u32`: underflow panics in debug builds (and would wrap in release) -/
def csub (a b : Nat) : Outcome Nat := if b ≤ a then .ok (a - b) else .panic

/-- `while i < N { if digits[i] != pad { return Err } i += 1 }` (fuel = `N - i`):
    `true` iff the loop falls through -/
def restAll (x : List Nat) (pad : Nat) : Nat → Nat → Outcome Bool
  | 0, _ => .ok true
  | f + 1, i =>
    if i < x.length then
      (idx x i).bind fun d => if d != pad then .ok false else restAll x pad f (i + 1)
    else .ok true

/-- `loop { let shift = i << BIT_SHIFT; if i >= N || shift >= $int::BITS { break; }
    out |= digits[i] as $int << shift; i += 1; }` — returns `(out, i)` (fuel = `N - i`) -/
def asmOrLoop (w k : Nat) (x : List Nat) : Nat → Nat → Nat → Outcome (Nat × Nat)
  | 0, i, out => .ok (out, i)
  | f + 1, i, out =>
    let shift := i * w
    if i ≥ x.length || shift ≥ k then .ok (out, i)
    else
      (idx x i).bind fun d =>
      (PInt.shl k (PInt.cast w false k d) shift).bind fun sh =>
        asmOrLoop w k x f (i + 1) (out ||| sh)

/-- the same loop with `out &= !((!digits[i]) as $int << shift)` -/
def asmAndNotLoop (w k : Nat) (x : List Nat) : Nat → Nat → Nat → Outcome (Nat × Nat)
  | 0, i, out => .ok (out, i)
  | f + 1, i, out =>
    let shift := i * w
    if i ≥ x.length || shift ≥ k then .ok (out, i)
    else
      (idx x i).bind fun d =>
      (PInt.shl k (PInt.cast w false k (Prim.not w d)) shift).bind fun sh =>
        asmAndNotLoop w k x f (i + 1) (out &&& Prim.not k sh)

namespace UI
/-! ### primitive → `BUint` -/

/-- loop of `from_uint!` (`while i << BIT_SHIFT < UINT_BITS`; at most `K` iterations) -/
def fromUintLoop (w k p : Nat) : Nat → Nat → List Nat → Outcome (List Nat)
  | 0, _, out => .ok out
  | f + 1, i, out =>
    if i * w < k then
      (PInt.shr k false p (i * w)).bind fun sh =>
        let d := PInt.cast k false w sh
        (if d != 0 then upd out i d else .ok out).bind fun out =>
          fromUintLoop w k p f (i + 1) out
    else .ok out

/-- `impl From<$uint> for BUint<N>` (`k = $uint::BITS`) -/
def fromUint (w n k p : Nat) : Outcome (List Nat) := fromUintLoop w k p k 0 (zero n)

/-- `impl TryFrom<$int> for BUint<N>` (`try_from_iint!`) -/
def tryFromIint (w n k p : Nat) : Outcome (Option (List Nat)) :=
  if PInt.isNeg ⟨k, true⟩ p then .ok none
  else
    let bits := PInt.cast k true k p
    (fromUint w n k bits).map some

/-- `impl From<bool> for BUint<N>` -/
def fromBool (n : Nat) (b : Bool) : List Nat := castFromBool n b
/-- `impl From<char> for BUint<N>` -/
def fromChar (w n c : Nat) : Outcome (List Nat) := castFromChar w n c

/-! ### `BUint` → primitive (`try_from_buint!`) -/
def tryToPrim (w : Nat) (x : List Nat) (t : PTy) : Outcome (Option Nat) :=
  let k := t.bits
  let fin (out i : Nat) : Outcome (Option Nat) :=
    if PInt.isNeg t out then .ok none
    else (restAll x 0 (x.length - i) i).bind fun ok => .ok (if ok then some out else none)
  if w > k then
    (idx x 0).bind fun d0 =>
      let small := PInt.cast w false k d0
      let trunc := PInt.cast k t.signed w small
      if d0 != trunc then .ok none else fin small 1
  else
    (asmOrLoop w k x x.length 0 0).bind fun r => fin r.1 r.2

/-! ### `BTryFrom` into `BUint<M>` (`uint_try_from_uint!`, `uint_try_from_int!`)
  `cast` is the `CastFrom` impl trait resolution selects (`castBnum`). -/
def btryFromU (w₁ : Nat) (src : List Nat) (w₂ n : Nat) : Outcome (Option (List Nat)) :=
  let fromBits := w₁ * src.length
  let selfBits := w₂ * n
  (if fromBits ≤ selfBits then .ok true
   else (csub fromBits (leadingZeros w₁ src)).bind fun b => .ok (decide (b ≤ selfBits))).bind
  fun c => if c then (castBnum w₁ false src w₂ n false).map some else .ok none

def btryFromI (w₁ : Nat) (src : List Nat) (w₂ n : Nat) : Outcome (Option (List Nat)) :=
  let fromBits := w₁ * src.length
  let selfBits := w₂ * n
  if isNegative w₁ src then .ok none
  else
    (if fromBits - 1 ≤ selfBits then .ok true
     else (csub fromBits (II.leadingZeros w₁ src)).bind fun b => .ok (decide (b ≤ selfBits))).bind
    fun c => if c then (castBnum w₁ true src w₂ n false).map some else .ok none

/-! ### digit array access -/
/-- `from_digits` / `From<[Digit; N]>` -/
def fromDigits (d : List Nat) : List Nat := d
/-- `digits()` / `From<BUint<N>> for [Digit; N]` -/
def digits (x : List Nat) : List Nat := x
/-- `from_digit`: `out = ZERO; out.digits[0] = digit` -/
def fromDigitO (n d : Nat) : Outcome (List Nat) := upd (zero n) 0 d
end UI

namespace II
/-! ### primitive → `BInt` -/

/-- loop of `from_int!` -/
def fromIntLoop (w k p : Nat) : Nat → Nat → List Nat → Outcome (List Nat)
  | 0, _, out => .ok out
  | f + 1, i, out =>
    if i * w < k then
      (PInt.shr k true p (i * w)).bind fun sh =>
        let d := PInt.cast k true w sh
        (upd out i d).bind fun out => fromIntLoop w k p f (i + 1) out
    else .ok out

/-- `impl From<$int> for BInt<N>` -/
def fromInt (w n k p : Nat) : Outcome (List Nat) :=
  let out := if PInt.isNeg ⟨k, true⟩ p then bnot w (zero n) else zero n
  fromIntLoop w k p k 0 out

/-- `impl From<$uint> for BInt<N>`: `from_bits(BUint::from(int))` (defect F6 when `K = BITS`) -/
def fromUint (w n k p : Nat) : Outcome (List Nat) := (UI.fromUint w n k p).map fromBits

/-- `impl From<bool> for BInt<N>` -/
def fromBool (n : Nat) (b : Bool) : List Nat := castFromBool n b

/-! ### `BInt` → primitive -/

/-- `int_try_from_bint!` (signed primitive target) -/
def tryToPrimSigned (w : Nat) (x : List Nat) (t : PTy) : Outcome (Option Nat) :=
  let k := t.bits
  let neg := isNegative w x
  let out0 := if neg then Prim.not k 0 else 0
  let padding := if neg then B w - 1 else 0
  let fin (out i : Nat) : Outcome (Option Nat) :=
    (restAll x padding (x.length - i) i).bind fun ok =>
      if !ok then .ok none
      else if PInt.isNeg t out != neg then .ok none
      else .ok (some out)
  if w > k then
    (idx x 0).bind fun d0 =>
      let small := PInt.cast w false k d0
      let trunc := PInt.cast k t.signed w small
      if d0 != trunc then .ok none else fin small 1
  else if neg then (asmAndNotLoop w k x x.length 0 out0).bind fun r => fin r.1 r.2
  else (asmOrLoop w k x x.length 0 out0).bind fun r => fin r.1 r.2

/-- `uint_try_from_bint!` (unsigned primitive target) -/
def tryToPrimUnsigned (w : Nat) (x : List Nat) (t : PTy) : Outcome (Option Nat) :=
  if isNegative w x then .ok none else UI.tryToPrim w (toBits x) t

/-- `TryFrom<BInt<N>> for $int` -/
def tryToPrim (w : Nat) (x : List Nat) (t : PTy) : Outcome (Option Nat) :=
  if t.signed then tryToPrimSigned w x t else tryToPrimUnsigned w x t

/-! ### `BTryFrom` into `BInt<M>` (`int_try_from_uint!`, `int_try_from_int!`) -/
def btryFromU (w₁ : Nat) (src : List Nat) (w₂ n : Nat) : Outcome (Option (List Nat)) :=
  let fromBits := w₁ * src.length
  (csub (w₂ * n) 1).bind fun selfBits1 =>
  (if fromBits ≤ selfBits1 then .ok true
   else (csub fromBits (UI.leadingZeros w₁ src)).bind fun b => .ok (decide (b ≤ selfBits1))).bind
  fun c => if c then (castBnum w₁ false src w₂ n true).map some else .ok none

def btryFromI (w₁ : Nat) (src : List Nat) (w₂ n : Nat) : Outcome (Option (List Nat)) :=
  let fromBits := w₁ * src.length
  let selfBits := w₂ * n
  if fromBits ≤ selfBits then (castBnum w₁ true src w₂ n true).map some
  else if isNegative w₁ src then
    (csub fromBits (leadingOnes w₁ src)).bind fun b =>
    (csub selfBits 1).bind fun s1 =>
      if b ≤ s1 then (castBnum w₁ true src w₂ n true).map some else .ok none
  else
    (csub fromBits (leadingZeros w₁ src)).bind fun b =>
    (csub selfBits 1).bind fun s1 =>
      if b ≤ s1 then (castBnum w₁ true src w₂ n true).map some else .ok none
end II

/-- `BTryFrom<src> for dst` dispatch -/
def btryFrom (w₁ : Nat) (s₁ : Bool) (src : List Nat) (w₂ n : Nat) (s₂ : Bool) :
    Outcome (Option (List Nat)) :=
  match s₁, s₂ with
  | false, false => UI.btryFromU w₁ src w₂ n
  | true, false => UI.btryFromI w₁ src w₂ n
  | false, true => II.btryFromU w₁ src w₂ n
  | true, true => II.btryFromI w₁ src w₂ n

/-- `TryFrom<bnum> for primitive` dispatch -/
def tryToPrim (w : Nat) (s : Bool) (x : List Nat) (t : PTy) : Outcome (Option Nat) :=
  if s then II.tryToPrim w x t else UI.tryToPrim w x t

/-- `From` / `TryFrom` primitive → bnum dispatch (`From` answers are wrapped in `some`) -/
def tryFromPrim (w n : Nat) (s : Bool) (t : PTy) (p : Nat) : Outcome (Option (List Nat)) :=
  match s, t.signed with
  | false, false => (UI.fromUint w n t.bits p).map some
  | false, true => UI.tryFromIint w n t.bits p
  | true, false => (II.fromUint w n t.bits p).map some
  | true, true => (II.fromInt w n t.bits p).map some

end Bnum
