/-
  Bnum.Model.Fmt — `src/buint/fmt.rs`, `src/bint/fmt.rs` (C12): the `Binary`, `Octal`, `LowerHex`,
  `UpperHex`, `Display`, `Debug`, `LowerExp`, `UpperExp` implementations of `BUint<N>` / `BInt<N>`.
  Import-free (core Lean only + other Model files).

  Strings are `List Nat` of bytes (everything these functions produce is ASCII, so bytes = chars).
  A `core::fmt::Formatter` is represented by the options it carries (`Fmt.Flags`); the text written
  to it is the returned byte list.  Writing to the `String`s used here never fails, so `fmt::Result`
  is not modelled; the only failures are panics (`Outcome.panic`), inherited from `to_str_radix`
  and from the string slicing in `exp_fmt!`.

  MODELLED, NOT VERIFIED — the parts of Rust's `core` that bnum calls (trusted leaf layer; the model
  below is transcribed from library/core/src/fmt/{mod.rs,num.rs} and validated against real `rustc`
  output, see the C12 report):
    * `Formatter::pad_integral`, `Formatter::padding`, `PostPadding::write`  → `Fmt.padIntegral`,
      `Fmt.padding` (sign `+`/`-`, `#` prefix, `0` flag = sign-aware zero padding that ignores
      fill/align, otherwise fill/align with default alignment Right, width counted in chars).
    * `{:b}` / `{:x}` / `{:X}` and `{:01$b}` / `{:01$x}` / `{:01$X}` of one primitive `$Digit`
      (`radix_integer!` digit loop, then `pad_integral(true, "0b"|"0x", digits)`) → `Fmt.primRadix`.
    * `{}` of a `usize` (the exponent) and of the literal `0` → `Fmt.primDec` (core formats decimals
      four/two digits at a time from a lookup table; the model uses the plain `% 10` loop).
    * `{}` of a `&str` with default options (`Formatter::pad` fast path) → the string itself.
    * `str::trim_end_matches('0')`, `str::len`, `&s[0..1]`, `&s[1..]`, `==` on strings.
  The flags that exist in `FormattingOptions` but are outside C12 (precision, `{:x?}` / `{:X?}`
  debug-hex) are not represented: bnum's implementations never read them.
-/
import Bnum.Model.Radix
namespace Bnum
namespace Fmt

/-- `core::fmt::Alignment` -/
inductive Align where
  | left | center | right
  deriving DecidableEq, Repr

/-- the part of `core::fmt::FormattingOptions` that `pad_integral` reads.  `fill` is the UTF-8
    encoding of the fill `char` (default `' '`); `width = 0` means "no width" (as in core, where the
    field is a `u16` that is `0` when absent). -/
structure Flags where
  fill : List Nat := [32]
  align : Option Align := none
  signPlus : Bool := false
  alternate : Bool := false
  zeroPad : Bool := false
  width : Nat := 0
  deriving DecidableEq, Repr

/-- `for _ in 0..k { buf.write_char(fill) }` -/
def fillN (fill : List Nat) : Nat → List Nat
  | 0 => []
  | k + 1 => fill ++ fillN fill k

/-- `Formatter::padding(padding, default)`: the pre-padding it writes and the `PostPadding` -/
def padding (fl : Flags) (pad : Nat) (dflt : Align) : List Nat × List Nat :=
  let align := match fl.align with | some a => a | none => dflt
  let left := match align with
    | .left => 0
    | .right => pad
    | .center => pad / 2
  (fillN fl.fill left, fillN fl.fill (pad - left))

/-- `write_prefix` inside `pad_integral` -/
def writePrefix (sign : Option Nat) (pfx : Option (List Nat)) : List Nat :=
  (match sign with | some c => [c] | none => []) ++ (match pfx with | some p => p | none => [])

/-- `Formatter::pad_integral(is_nonnegative, prefix, buf)` -/
def padIntegral (fl : Flags) (isNonneg : Bool) (pfx buf : List Nat) : List Nat :=
  let width0 := buf.length
  let sign : Option Nat := if !isNonneg then some 45 else if fl.signPlus then some 43 else none
  let width1 := if !isNonneg then width0 + 1 else if fl.signPlus then width0 + 1 else width0
  let pre : Option (List Nat) := if fl.alternate then some pfx else none
  let width := if fl.alternate then width1 + pfx.length else width1
  let min := fl.width
  if width ≥ min then
    writePrefix sign pre ++ buf
  else if fl.zeroPad then
    -- `self.options.fill('0').align(Some(Alignment::Right))`
    let p := padding { fl with fill := [48], align := some .right } (min - width) .right
    writePrefix sign pre ++ p.1 ++ buf ++ p.2
  else
    let p := padding fl (min - width) .right
    p.1 ++ writePrefix sign pre ++ buf ++ p.2

/-- `b"0123456789abcdef"[d]` -/
def lowerTab (d : Nat) : Nat := if d < 10 then 48 + d else 87 + d
/-- `b"0123456789ABCDEF"[d]` -/
def upperTab (d : Nat) : Nat := if d < 10 then 48 + d else 55 + d

/-- digit loop of core's `radix_integer!` (`loop { digit = remain % BASE; remain /= BASE;
    buf[--offset] = DIG_TAB[digit]; if remain == 0 { break } }`); `acc` = the text already in the
    buffer (to the right); fuel = `$Unsigned::BITS` -/
def radixLoop (base : Nat) (tab : Nat → Nat) : Nat → Nat → List Nat → List Nat
  | 0, _, acc => acc
  | f + 1, remain, acc =>
    let acc' := tab (remain % base) :: acc
    if remain / base == 0 then acc' else radixLoop base tab f (remain / base) acc'

/-- `<uN as Binary/LowerHex/UpperHex>::fmt` for an unsigned primitive of `bits` bits -/
def primRadix (fl : Flags) (bits base : Nat) (tab : Nat → Nat) (pfx : List Nat) (v : Nat) : List Nat :=
  padIntegral fl true pfx (radixLoop base tab bits v [])

/-- `format!("{}", v)` for a `usize` / the literal `0` (default options) -/
def primDec (v : Nat) : List Nat := padIntegral {} true [] (radixLoop 10 lowerTab 64 v [])

/-- the `for digit in self.digits.iter().rev()` loop of `fmt_method!` (argument: the digits most
    significant first; state: `format_string`) -/
def fmtMethodLoop (fmt0 fmtPad : Nat → List Nat) : List Nat → List Nat → List Nat
  | [], s => s
  | d :: ds, s =>
    if s.isEmpty then
      if d != 0 then fmtMethodLoop fmt0 fmtPad ds (s ++ fmt0 d)
      else fmtMethodLoop fmt0 fmtPad ds s
    else fmtMethodLoop fmt0 fmtPad ds (s ++ fmtPad d)

/-- `fmt_method!($format, $format_pad, $pad, $prefix)`; `$format` = `{:b}`/`{:x}`/`{:X}` (default
    options), `$format_pad` = `{:01$b}`/… (`0` flag, width `$pad`) of a `w`-bit primitive.  The
    prefix core would add to one digit under `#` is the same literal as bnum's `$prefix`. -/
def fmtMethod (fl : Flags) (w base : Nat) (tab : Nat → Nat) (pad : Nat) (pfx : List Nat)
    (x : List Nat) : List Nat :=
  let fmt0 := fun d => primRadix {} w base tab pfx d
  let fmtPad := fun d => primRadix { zeroPad := true, width := pad } w base tab pfx d
  let s := fmtMethodLoop fmt0 fmtPad x.reverse []
  padIntegral fl true pfx (if s.isEmpty then [48] else s)

/-- `str::trim_end_matches('0')` -/
def trimEndZeros (s : List Nat) : List Nat := (s.reverse.dropWhile (· == 48)).reverse

/-- the `let buf = …` of `exp_fmt!($e)` (`s` = `self.to_str_radix(10)`).  `s.len() - 1` on an empty
    string panics in debug builds and wraps in release builds, where `&""[0..1]` then panics. -/
def expBuf (e : List Nat) (s : List Nat) : Outcome (List Nat) :=
  if s == [48] then .ok (primDec 0 ++ e ++ [48])
  else if s.isEmpty then .panic
  else
    let exp := s.length - 1
    let t := trimEndZeros s
    if t.length == 1 then .ok (t.take 1 ++ e ++ primDec exp)
    else if t.length < 1 then .panic
    else .ok (t.take 1 ++ [46] ++ t.drop 1 ++ e ++ primDec exp)

end Fmt

/-! ### `BUint` (`src/buint/fmt.rs`) -/
namespace UI
open Fmt

/-- `<BUint as Binary>::fmt`: `fmt_method!("{:b}", "{:01$b}", $Digit::BITS, "0b")` -/
def fmtBinary (fl : Flags) (w : Nat) (x : List Nat) : Outcome (List Nat) :=
  .ok (fmtMethod fl w 2 lowerTab w [48, 98] x)
/-- `<BUint as LowerHex>::fmt`: `fmt_method!("{:x}", "{:01$x}", $Digit::HEX_PADDING, "0x")` -/
def fmtLowerHex (fl : Flags) (w : Nat) (x : List Nat) : Outcome (List Nat) :=
  .ok (fmtMethod fl w 16 lowerTab (w / 4) [48, 120] x)
/-- `<BUint as UpperHex>::fmt` -/
def fmtUpperHex (fl : Flags) (w : Nat) (x : List Nat) : Outcome (List Nat) :=
  .ok (fmtMethod fl w 16 upperTab (w / 4) [48, 120] x)
/-- `<BUint as Display>::fmt`: `f.pad_integral(true, "", &self.to_str_radix(10))` -/
def fmtDisplay (fl : Flags) (w : Nat) (x : List Nat) : Outcome (List Nat) :=
  (toStrRadix w x 10).map (padIntegral fl true [])
/-- `<BUint as Debug>::fmt`: `Display::fmt(&self, f)` -/
def fmtDebug (fl : Flags) (w : Nat) (x : List Nat) : Outcome (List Nat) := fmtDisplay fl w x
/-- `<BUint as Octal>::fmt`: `f.pad_integral(true, "0o", &self.to_str_radix(8))` -/
def fmtOctal (fl : Flags) (w : Nat) (x : List Nat) : Outcome (List Nat) :=
  (toStrRadix w x 8).map (padIntegral fl true [48, 111])
/-- `exp_fmt!($e)` -/
def fmtExp (e : List Nat) (fl : Flags) (w : Nat) (x : List Nat) : Outcome (List Nat) :=
  ((toStrRadix w x 10).bind (expBuf e)).map (padIntegral fl true [])
/-- `<BUint as LowerExp>::fmt` -/
def fmtLowerExp (fl : Flags) (w : Nat) (x : List Nat) : Outcome (List Nat) := fmtExp [101] fl w x
/-- `<BUint as UpperExp>::fmt` -/
def fmtUpperExp (fl : Flags) (w : Nat) (x : List Nat) : Outcome (List Nat) := fmtExp [69] fl w x
end UI

/-! ### `BInt` (`src/bint/fmt.rs`) -/
namespace II
open Fmt

/-- `fmt_trait!($BInt, Binary)`: `Binary::fmt(&self.bits, f)` -/
def fmtBinary (fl : Flags) (w : Nat) (x : List Nat) : Outcome (List Nat) := UI.fmtBinary fl w x
def fmtLowerHex (fl : Flags) (w : Nat) (x : List Nat) : Outcome (List Nat) := UI.fmtLowerHex fl w x
def fmtUpperHex (fl : Flags) (w : Nat) (x : List Nat) : Outcome (List Nat) := UI.fmtUpperHex fl w x
def fmtOctal (fl : Flags) (w : Nat) (x : List Nat) : Outcome (List Nat) := UI.fmtOctal fl w x
/-- `<BInt as Display>::fmt`:
    `f.pad_integral(!self.is_negative(), "", &format!("{}", self.unsigned_abs()))` -/
def fmtDisplay (fl : Flags) (w : Nat) (x : List Nat) : Outcome (List Nat) :=
  (UI.fmtDisplay {} w (unsignedAbs w x)).map (padIntegral fl (!isNegative w x) [])
/-- `<BInt as Debug>::fmt`: `Display::fmt(&self, f)` -/
def fmtDebug (fl : Flags) (w : Nat) (x : List Nat) : Outcome (List Nat) := fmtDisplay fl w x
/-- `<BInt as LowerExp>::fmt`:
    `f.pad_integral(!self.is_negative(), "", &format!("{:e}", self.unsigned_abs()))` -/
def fmtLowerExp (fl : Flags) (w : Nat) (x : List Nat) : Outcome (List Nat) :=
  (UI.fmtLowerExp {} w (unsignedAbs w x)).map (padIntegral fl (!isNegative w x) [])
/-- `<BInt as UpperExp>::fmt` -/
def fmtUpperExp (fl : Flags) (w : Nat) (x : List Nat) : Outcome (List Nat) :=
  (UI.fmtUpperExp {} w (unsignedAbs w x)).map (padIntegral fl (!isNegative w x) [])
end II
end Bnum
