/-
  Bnum.Model.Misc — `midpoint` and `abs_diff` of `src/buint/mod.rs` and `src/bint/mod.rs`.
  They are built from the unsuffixed `add` / `shr` of `int/ops.rs trait_fillers!` (strict under
  `debug_assertions`, wrapping otherwise: hence the `dbg` parameter and the `Outcome`), the digit-wise
  `bitand` / `bitxor`, `lt` of `int/cmp.rs` and `wrapping_sub`.
  Import-free apart from other Model files.
-/
import Bnum.Model.Shift
import Bnum.Model.Bits
import Bnum.Model.BitOps
import Bnum.Model.Cmp
namespace Bnum

namespace UI
/-- `BUint::midpoint`: `self.bitand(rhs).add(self.bitxor(rhs).shr(1))`
    (the argument `self.bitxor(rhs).shr(1)` is evaluated before `add` is entered) -/
def midpoint (dbg : Bool) (w : Nat) (a b : List Nat) : Outcome (List Nat) :=
  match shr dbg w (bitxor a b) 1 with
  | .ok h => add dbg w (bitand a b) h
  | .panic => .panic

/-- `BUint::abs_diff` -/
def absDiff (w : Nat) (a b : List Nat) : List Nat :=
  if CmpImpl.lt cmp a b then wrappingSub w b a else wrappingSub w a b
end UI

namespace II
/-- `BInt::midpoint`:
    ```
    let x = self.bitxor(rhs);
    let t = self.bitand(rhs).add(x.shr(1));
    if t.is_negative() && x.bits.digits[0] & 1 == 1 { t.add(BInt::ONE) } else { t }
    ```
    (`digits[0]` would be an index panic for `N = 0`, which is not modelled: `N ≥ 1`) -/
def midpoint (dbg : Bool) (w : Nat) (a b : List Nat) : Outcome (List Nat) :=
  let x := bitxor a b
  match shr dbg w x 1 with
  | .ok h =>
    match add dbg w (bitand a b) h with
    | .ok t =>
      if isNegative w t && (x.headD 0 &&& 1 == 1) then add dbg w t (one a.length)
      else .ok t
    | .panic => .panic
  | .panic => .panic

/-- `BInt::abs_diff` (result is the `BUint` bit pattern: `.to_bits()`) -/
def absDiff (w : Nat) (a b : List Nat) : List Nat :=
  if CmpImpl.lt (cmp w) a b then wrappingSub w b a else wrappingSub w a b
end II
end Bnum
