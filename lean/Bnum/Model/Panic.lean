/-
  Bnum.Model.Panic — the functions named by property C04 (panic behaviour) that no other Model file
  defines.  Import-free apart from other Model files.

  A comparison of `grep 'pub const fn (checked|strict|wrapping|overflowing|saturating|unchecked)_'`
  over /repo/src with the Lean models shows that every `checked_*`, `wrapping_*`, `overflowing_*`
  and `saturating_*` method of `BUint` and `BInt` is already modelled
  (Model/{AddSub,Mul,Div,Shift,Pow,BitOps}.lean).  Missing were only

    `src/int/strict.rs  impls!`   strict_div, strict_div_euclid, strict_rem, strict_rem_euclid
                                  (one macro text, instantiated for `BUint` and `BInt`; the bodies are
                                  `self.div(rhs)`, `self.div_euclid(rhs)`, `self.rem(rhs)`,
                                  `self.rem_euclid(rhs)` — the inherent methods)
    `src/int/unchecked.rs`        unchecked_add, unchecked_sub, unchecked_mul
                                  (`self.checked_*(rhs).unwrap_unchecked()`: undefined behaviour, not a
                                  panic, on `None`; modelled like `unchecked_shl` of Model/Shift.lean
                                  by keeping the `Option` visible.  Not named by C04.)

  The unsuffixed `BInt::abs` (`src/bint/mod.rs`: `strict_abs` under `debug_assertions`, otherwise
  `match self.checked_abs() { Some(int) => int, None => Self::MIN }`) is already modelled as
  `NumT.Inh.abs` in Model/NumTraits.lean (the `Signed::abs` trait method forwards to it); `II.abs`
  below is an abbreviation of that one definition, not a second model.
-/
import Bnum.Model.Div
import Bnum.Model.Mul
import Bnum.Model.NumTraits
namespace Bnum

namespace UI
/-- `strict_div` (`int/strict.rs`): `self.div(rhs)` -/
def strictDiv (w : Nat) (a b : List Nat) : Outcome (List Nat) := div w a b
/-- `strict_div_euclid`: `self.div_euclid(rhs)` -/
def strictDivEuclid (w : Nat) (a b : List Nat) : Outcome (List Nat) := divEuclid w a b
/-- `strict_rem`: `self.rem(rhs)` -/
def strictRem (w : Nat) (a b : List Nat) : Outcome (List Nat) := rem w a b
/-- `strict_rem_euclid`: `self.rem_euclid(rhs)` -/
def strictRemEuclid (w : Nat) (a b : List Nat) : Outcome (List Nat) := remEuclid w a b

/-- `unchecked_add` (`int/unchecked.rs`): `self.checked_add(rhs).unwrap_unchecked()`; `none` = UB -/
def uncheckedAdd (w : Nat) (a b : List Nat) : Option (List Nat) := checkedAdd w a b
/-- `unchecked_sub` -/
def uncheckedSub (w : Nat) (a b : List Nat) : Option (List Nat) := checkedSub w a b
/-- `unchecked_mul` -/
def uncheckedMul (w : Nat) (a b : List Nat) : Option (List Nat) := checkedMul w a b
end UI

namespace II
/-- `strict_div` (`int/strict.rs`): `self.div(rhs)` (the signed `div` reaches the `cfg`-dependent
    unsuffixed `neg`, hence `dbg`) -/
def strictDiv (dbg : Bool) (w : Nat) (a b : List Nat) : Outcome (List Nat) := div dbg w a b
/-- `strict_div_euclid`: `self.div_euclid(rhs)` -/
def strictDivEuclid (dbg : Bool) (w : Nat) (a b : List Nat) : Outcome (List Nat) := divEuclid dbg w a b
/-- `strict_rem`: `self.rem(rhs)` -/
def strictRem (dbg : Bool) (w : Nat) (a b : List Nat) : Outcome (List Nat) := rem dbg w a b
/-- `strict_rem_euclid`: `self.rem_euclid(rhs)` -/
def strictRemEuclid (dbg : Bool) (w : Nat) (a b : List Nat) : Outcome (List Nat) := remEuclid dbg w a b

/-- `unchecked_add`: `none` = UB -/
def uncheckedAdd (w : Nat) (a b : List Nat) : Option (List Nat) := checkedAdd w a b
/-- `unchecked_sub` -/
def uncheckedSub (w : Nat) (a b : List Nat) : Option (List Nat) := checkedSub w a b
/-- `unchecked_mul` -/
def uncheckedMul (w : Nat) (a b : List Nat) : Option (List Nat) := checkedMul w a b

/-- the unsuffixed `BInt::abs` — the ONE model of it is `NumT.Inh.abs` (Model/NumTraits.lean) -/
abbrev abs (dbg : Bool) (w : Nat) (a : List Nat) : Outcome (List Nat) := NumT.Inh.abs dbg w a
end II

end Bnum
