/-
  Bnum.Model.Pow — powers and integer logarithms.
    `src/buint/overflowing.rs`  overflowing_pow          `src/bint/overflowing.rs`  overflowing_pow
    `src/buint/checked.rs`      checked_pow, checked_ilog2, iilog, checked_ilog10, checked_ilog
    `src/bint/checked.rs`       checked_pow, checked_ilog, checked_ilog2, checked_ilog10 (macro)
    `src/buint/wrapping.rs`     wrapping_pow             `src/bint/wrapping.rs`     wrapping_pow
    `src/buint/saturating.rs`   saturating_pow           `src/bint/saturating.rs`   saturating_pow
    `src/int/strict.rs`         strict_pow
    `src/buint/mod.rs`          pow, ilog2, ilog10, ilog `src/bint/mod.rs`          pow, `ilog!` macro

  Import-free.  `UI.*` = `BUint<N>`, `II.*` = `BInt<N>`.

  Modelling notes
  * The three unsigned square-and-multiply loops (`overflowing_pow`, `checked_pow`, `wrapping_pow`)
    are three separately written Rust loops and are modelled separately, each as written (operand
    order of every multiplication included: `y.overflowing_mul(self)` but `self.checked_mul(y)` and
    `self.wrapping_mul(y)`).
  * `while pow > 1 { …; pow >>= 1 }`: structural recursion on a fuel counter that is initialised with
    `pow` itself (`pow >> 1 < pow`, so the fuel never runs out before `pow ≤ 1`; the fuel-exhausted
    equation returns the current state and is dead code: `Pow.loopO_fuel_irrel` in Lemmas/Pow.lean
    shows that any larger fuel gives the same result, and `Pow.loopW_eq` / `Pow.loopC_eq` relate the
    other two loops to this one for every fuel).  The exponent is a `Nat`; the
    theorems hold for every exponent, in particular for all of `0..=u32::MAX`.
  * `ExpType = u32` arithmetic inside `iilog` is modelled with its real width: `m << 1` is the
    wrapping shift (a shift by the constant 1 can never panic), `new + m` panics on overflow when
    `debug_assertions` is on and wraps otherwise (`Prim.u32Add`).  `bits()` is the `Nat` of
    Model/BitOps.lean (≤ `w*N`, which the crate itself casts to `u32`).
  * `iilog(m, b, k)` is recursive in Rust with no syntactic bound.  The model recurses on a fuel
    counter; running out of fuel (= unbounded recursion = stack overflow in Rust) is `panic`.  The
    callers pass `U k + 1` (every level divides `k` by `b ≥ 2`), and `Ilog.iilog_spec` proves that the
    fuel is never exhausted and that no inner `mul` / `add` / `div` panics in either build mode.
  * `Self::TWO`, `Self::TEN` = `from_digit(2)`, `from_digit(10)` (`consts.rs`).
-/
import Bnum.Model.Mul
import Bnum.Model.Div
import Bnum.Model.BitOps
namespace Bnum

namespace Prim
/-- `u32 << 1` (wrapping; the shift amount 1 is in range, so no panic in either build mode) -/
@[inline] def u32Shl1 (m : Nat) : Nat := (m <<< 1) % 2 ^ 32
/-- `u32 + u32`: overflow panics under `debug_assertions`, wraps otherwise -/
@[inline] def u32Add (dbg : Bool) (a b : Nat) : Outcome Nat :=
  if a + b < 2 ^ 32 then .ok (a + b) else if dbg then .panic else .ok ((a + b) % 2 ^ 32)
/-- `u32::checked_sub` -/
@[inline] def u32CheckedSub (a b : Nat) : Option Nat := if b ≤ a then some (a - b) else none
end Prim

/-- `Self::TWO` -/
def two (n : Nat) : List Nat := fromDigit n 2
/-- `Self::TEN` -/
def ten (n : Nat) : List Nat := fromDigit n 10

namespace UI

/-! ### `overflowing_pow` -/

/-- `while pow > 1` loop of `BUint::overflowing_pow`; state `(self, y, overflow, pow)` -/
def powLoopO (w : Nat) : Nat → List Nat → List Nat → Bool → Nat → List Nat × List Nat × Bool
  | 0, x, y, ov, _ => (x, y, ov)
  | f + 1, x, y, ov, pow =>
    if pow > 1 then
      let yo : List Nat × Bool :=
        if pow &&& 1 == 1 then
          let r := overflowingMul w y x
          (r.1, ov || r.2)
        else (y, ov)
      let r := overflowingMul w x x
      powLoopO w f r.1 yo.1 (yo.2 || r.2) (pow >>> 1)
    else (x, y, ov)

/-- `BUint::overflowing_pow` -/
def overflowingPow (w : Nat) (a : List Nat) (pow : Nat) : List Nat × Bool :=
  if pow == 0 then (one a.length, false)
  else
    let s := powLoopO w pow a (one a.length) false pow
    let r := overflowingMul w s.1 s.2.1
    (r.1, r.2 || s.2.2)

/-! ### `checked_pow` -/

/-- `while pow > 1` loop of `BUint::checked_pow`; state `(self, y, pow)`, `none` = `return None` -/
def powLoopC (w : Nat) : Nat → List Nat → List Nat → Nat → Option (List Nat × List Nat)
  | 0, x, y, _ => some (x, y)
  | f + 1, x, y, pow =>
    if pow > 1 then
      let y? : Option (List Nat) := if pow &&& 1 == 1 then checkedMul w x y else some y
      match y? with
      | none => none
      | some y' =>
        match checkedMul w x x with
        | none => none
        | some x' => powLoopC w f x' y' (pow >>> 1)
    else some (x, y)

/-- `BUint::checked_pow` -/
def checkedPow (w : Nat) (a : List Nat) (pow : Nat) : Option (List Nat) :=
  if pow == 0 then some (one a.length)
  else
    match powLoopC w pow a (one a.length) pow with
    | none => none
    | some s => checkedMul w s.1 s.2

/-! ### `wrapping_pow` -/

/-- `while pow > 1` loop of `BUint::wrapping_pow`; state `(self, y, pow)` -/
def powLoopW (w : Nat) : Nat → List Nat → List Nat → Nat → List Nat × List Nat
  | 0, x, y, _ => (x, y)
  | f + 1, x, y, pow =>
    if pow > 1 then
      let y' := if pow &&& 1 == 1 then wrappingMul w x y else y
      powLoopW w f (wrappingMul w x x) y' (pow >>> 1)
    else (x, y)

/-- `BUint::wrapping_pow` -/
def wrappingPow (w : Nat) (a : List Nat) (pow : Nat) : List Nat :=
  if pow == 0 then one a.length
  else
    let s := powLoopW w pow a (one a.length) pow
    wrappingMul w s.1 s.2

/-- `BUint::saturating_pow`: `Self::saturate_up(self.overflowing_pow(exp))` -/
def saturatingPow (w : Nat) (a : List Nat) (pow : Nat) : List Nat :=
  saturateUp w a.length (overflowingPow w a pow)

/-- `strict_pow`: `option_expect!(self.checked_pow(exp), ..)` -/
def strictPow (w : Nat) (a : List Nat) (pow : Nat) : Outcome (List Nat) :=
  Outcome.expect (checkedPow w a pow)

/-- `BUint::pow`: `strict_pow` under `cfg(debug_assertions)`, else `wrapping_pow` -/
def pow (w : Nat) (dbg : Bool) (a : List Nat) (e : Nat) : Outcome (List Nat) :=
  if dbg then strictPow w a e else .ok (wrappingPow w a e)

/-! ### integer logarithms -/

/-- `BUint::checked_ilog2`: `self.bits().checked_sub(1)` -/
def checkedIlog2 (w : Nat) (a : List Nat) : Option Nat := Prim.u32CheckedSub (bits w a) 1

/-- `BUint::iilog(m, b, k)` (Jaffer).  First argument: recursion fuel (see the header). -/
def iilog (dbg : Bool) (w : Nat) : Nat → Nat → List Nat → List Nat → Outcome (Nat × List Nat)
  | 0, _, _, _ => .panic
  | f + 1, m, b, k =>
    if CmpImpl.gt UI.cmp b k then .ok (m, k)
    else
      -- arguments of the recursive call, in evaluation order
      let m2 := Prim.u32Shl1 m
      match mul w dbg b b with
      | .panic => .panic
      | .ok bb =>
        match divRemUnchecked w k b with
        | .panic => .panic
        | .ok p =>
          match iilog dbg w f m2 bb p.1 with
          | .panic => .panic
          | .ok nq =>
            if CmpImpl.gt UI.cmp b nq.2 then .ok (nq.1, nq.2)
            else
              match Prim.u32Add dbg nq.1 m with
              | .panic => .panic
              | .ok s =>
                match div w nq.2 b with
                | .panic => .panic
                | .ok d => .ok (s, d)

/-- `BUint::checked_ilog10` -/
def checkedIlog10 (dbg : Bool) (w : Nat) (a : List Nat) : Outcome (Option Nat) :=
  if isZero a then .ok none
  else if CmpImpl.gt UI.cmp (ten a.length) a then .ok (some 0)
  else
    match divRemDigit w a 10 with
    | .panic => .panic
    | .ok p =>
      match iilog dbg w (U w p.1 + 1) 1 (ten a.length) p.1 with
      | .panic => .panic
      | .ok r => .ok (some r.1)

/-- `BUint::checked_ilog` -/
def checkedIlog (dbg : Bool) (w : Nat) (a base : List Nat) : Outcome (Option Nat) :=
  match UI.cmp base (two a.length) with
  | .lt => .ok none
  | .eq => .ok (checkedIlog2 w a)
  | .gt =>
    if isZero a then .ok none
    else if CmpImpl.gt UI.cmp base a then .ok (some 0)
    else
      match div w a base with
      | .panic => .panic
      | .ok k =>
        match iilog dbg w (U w k + 1) 1 base k with
        | .panic => .panic
        | .ok r => .ok (some r.1)

/-- `BUint::ilog2`: `option_expect!(self.checked_ilog2(), ..)` -/
def ilog2 (w : Nat) (a : List Nat) : Outcome Nat := Outcome.expect (checkedIlog2 w a)

/-- `BUint::ilog10` -/
def ilog10 (dbg : Bool) (w : Nat) (a : List Nat) : Outcome Nat :=
  (checkedIlog10 dbg w a).bind Outcome.expect

/-- `BUint::ilog`: `if base.le(&Self::ONE) { panic!(..) }` then `option_expect!(checked_ilog)` -/
def ilog (dbg : Bool) (w : Nat) (a base : List Nat) : Outcome Nat :=
  if CmpImpl.le UI.cmp base (one a.length) then .panic
  else (checkedIlog dbg w a base).bind Outcome.expect

end UI

namespace II

/-- `BInt::overflowing_pow` -/
def overflowingPow (w : Nat) (a : List Nat) (pow : Nat) : List Nat × Bool :=
  let r := UI.overflowingPow w (unsignedAbs w a) pow
  let outNeg := isNegative w a && (pow &&& 1 == 1)
  if outNeg then
    let out := wrappingNeg w r.1
    (out, r.2 || !(isNegative w out))
  else (r.1, r.2 || isNegative w r.1)

/-- `BInt::checked_pow` -/
def checkedPow (w : Nat) (a : List Nat) (pow : Nat) : Option (List Nat) :=
  match UI.checkedPow w (unsignedAbs w a) pow with
  | some u =>
    let neg := isNegative w a
    if !neg || (pow &&& 1 == 0) then
      if isNegative w u then none else some u
    else
      let out := wrappingNeg w u
      if !(isNegative w out) then none else some out
  | none => none

/-- `BInt::wrapping_pow`: `from_bits(self.bits.wrapping_pow(pow))` -/
def wrappingPow (w : Nat) (a : List Nat) (pow : Nat) : List Nat := UI.wrappingPow w a pow

/-- `BInt::saturating_pow` -/
def saturatingPow (w : Nat) (a : List Nat) (pow : Nat) : List Nat :=
  match checkedPow w a pow with
  | some r => r
  | none => if isNegative w a && (pow &&& 1 != 0) then iMin w a.length else iMax w a.length

/-- `strict_pow` -/
def strictPow (w : Nat) (a : List Nat) (pow : Nat) : Outcome (List Nat) :=
  Outcome.expect (checkedPow w a pow)

/-- `BInt::pow` -/
def pow (w : Nat) (dbg : Bool) (a : List Nat) (e : Nat) : Outcome (List Nat) :=
  if dbg then strictPow w a e else .ok (wrappingPow w a e)

/-- `BInt::checked_ilog`: negative operand or base → `None`, else the unsigned method on the bits -/
def checkedIlog (dbg : Bool) (w : Nat) (a base : List Nat) : Outcome (Option Nat) :=
  if isNegative w base || isNegative w a then .ok none else UI.checkedIlog dbg w a base

/-- `BInt::checked_ilog2` (`checked_ilog!` macro) -/
def checkedIlog2 (w : Nat) (a : List Nat) : Option Nat :=
  if isNegative w a then none else UI.checkedIlog2 w a

/-- `BInt::checked_ilog10` (`checked_ilog!` macro) -/
def checkedIlog10 (dbg : Bool) (w : Nat) (a : List Nat) : Outcome (Option Nat) :=
  if isNegative w a then .ok none else UI.checkedIlog10 dbg w a

/-- `BInt::ilog` (`ilog!` macro): base check (signed `le`), sign check, unsigned `ilog` on the bits -/
def ilog (dbg : Bool) (w : Nat) (a base : List Nat) : Outcome Nat :=
  if CmpImpl.le (II.cmp w) base (one a.length) then .panic
  else if isNegative w a then .panic
  else UI.ilog dbg w a base

/-- `BInt::ilog2` -/
def ilog2 (w : Nat) (a : List Nat) : Outcome Nat :=
  if isNegative w a then .panic else UI.ilog2 w a

/-- `BInt::ilog10` -/
def ilog10 (dbg : Bool) (w : Nat) (a : List Nat) : Outcome Nat :=
  if isNegative w a then .panic else UI.ilog10 dbg w a

end II
end Bnum
