/-
  Bnum.Model.C20Extra — one stored `UniformInt` sampled several times
  (`let u = Uniform::new(_inclusive)(low, high); for _ in 0..k { u.sample(rng) }`): the sampler is
  built ONCE (`range`, `z` stored as `$ty` values, read back through `to_bits` at every draw) and
  `UniformSampler::sample` runs `k` times on the advancing stream.  Value level (`Rand.*`) and digit
  level (`RandD.*`), mirroring `Model/Random.lean` / `Model/RandomD.lean`.
  A draw that exhausts the stream ends the whole request (`.ok none`), exactly as the scripted
  RNG's panic / `Err` ends the Rust call.
-/
import Bnum.Model.Random
import Bnum.Model.RandomD
namespace Bnum

namespace Rand
/-- result of several draws: `none` = the stream ran out -/
abbrev Draws := Option (List Nat × Stream)

/-- `k` successive `u.sample(rng)` -/
def sampleMany (dbg : Bool) (w n : Nat) (u : UniformInt) : Nat → Stream → Outcome Draws
  | 0, s => .ok (some ([], s))
  | k + 1, s =>
    (sample dbg w n u s).bind fun d =>
      match d with
      | none => .ok none
      | some (x, rest) =>
        (sampleMany dbg w n u k rest).bind fun r =>
          match r with
          | none => .ok none
          | some (xs, rest') => .ok (some (x :: xs, rest'))

/-- `let u = Uniform::new_inclusive(low, high)` (`incl`) resp. `Uniform::new(low, high)`, then `k` draws -/
def uniformMany (signed dbg incl : Bool) (w n : Nat) (low high : Nat) (k : Nat) (s : Stream) :
    Outcome Draws :=
  (if incl then newInclusive signed dbg w n low high else new signed dbg w n low high).bind fun u =>
    sampleMany dbg w n u k s
end Rand

namespace RandD
open Rand (Stream)
/-- result of several draws: `none` = the stream ran out -/
abbrev Draws := Option (List (List Nat) × Stream)

/-- `k` successive `u.sample(rng)` -/
def sampleMany (signed dbg : Bool) (w n : Nat) (u : UniformInt) : Nat → Stream → Outcome Draws
  | 0, s => .ok (some ([], s))
  | k + 1, s =>
    (sample signed dbg w n u s).bind fun d =>
      match d with
      | none => .ok none
      | some (x, rest) =>
        (sampleMany signed dbg w n u k rest).bind fun r =>
          match r with
          | none => .ok none
          | some (xs, rest') => .ok (some (x :: xs, rest'))

/-- `let u = Uniform::new_inclusive(low, high)` (`incl`) resp. `Uniform::new(low, high)`, then `k` draws -/
def uniformMany (signed dbg incl : Bool) (w n : Nat) (low high : List Nat) (k : Nat) (s : Stream) :
    Outcome Draws :=
  (if incl then newInclusive signed dbg w n low high else new signed dbg w n low high).bind fun u =>
    sampleMany signed dbg w n u k s
end RandD

end Bnum
