/-
  Bnum.Model.C17Extra — additions to Bnum.Model.Ops for property C17 (import-free).

  1. `impl Ord for $BUint<N>` / `$BInt<N>` (`src/{buint,bint}/cmp.rs`) OVERRIDES the provided methods
     `max`, `min`, `clamp` to forward to the inherent `const fn`s of `src/int/cmp.rs`.  The generic
     definitions are `Traits.ordMax/ordMin/ordClamp` and `CmpImpl.max/min/clamp`
     (Model/BitOps.lean, Model/Cmp.lean); here they are instantiated per type record `Ops.Ty`, like the
     other `core::cmp` impls at the end of Model/Ops.lean.

  2. `usize` / `isize` shift amounts on a target whose pointers are `pw` bits wide.  Model/Ops.lean
     fixes `usize`/`isize` at 64 bits (the harness target).  `shiftPrimAt pw` is the same macro text
     (`shift_impl!`, `try_shift_impl!`) read on a `pw`-bit target: only the width of the two
     pointer-sized types changes.  `shiftPrimAt 64 = shiftPrim` is `rfl`
     (`C17.shift_prim_at_64`).
-/
import Bnum.Model.Ops
namespace Bnum
namespace Ops

/-! ## the inherent `max` / `min` / `clamp` (`src/int/cmp.rs`) of the type a macro is instantiated at -/

/-- `pub const fn max(self, other: Self) -> Self`: `match self.cmp(&other) { Less | Equal => other, _ => self }` -/
def Ty.max (T : Ty) (a b : List Nat) : List Nat := CmpImpl.max T.cmp a b
/-- `pub const fn min(self, other: Self) -> Self` -/
def Ty.min (T : Ty) (a b : List Nat) : List Nat := CmpImpl.min T.cmp a b
/-- `pub const fn clamp(self, min: Self, max: Self) -> Self` (`assert!(min.le(&max))`) -/
def Ty.clamp (T : Ty) (a mn mx : List Nat) : Outcome (List Nat) := CmpImpl.clamp T.cmp a mn mx

/-! ## `impl Ord`: the overridden provided methods -/

/-- `fn max(self, other: Self) -> Self { Self::max(self, other) }` -/
def ordMax (T : Ty) (a b : List Nat) : List Nat := Traits.ordMax T.cmp a b
/-- `fn min(self, other: Self) -> Self { Self::min(self, other) }` -/
def ordMin (T : Ty) (a b : List Nat) : List Nat := Traits.ordMin T.cmp a b
/-- `fn clamp(self, min: Self, max: Self) -> Self { Self::clamp(self, min, max) }` -/
def ordClamp (T : Ty) (a mn mx : List Nat) : Outcome (List Nat) := Traits.ordClamp T.cmp a mn mx

/-! ## primitive shift amounts on a `pw`-bit target -/

/-- width of the primitive type on a target with `pw`-bit pointers -/
def PrimTy.bitsAt (pw : Nat) : PrimTy → Nat
  | .usize | .isize => pw
  | t => t.bits

/-- the integer denoted by the pattern `p` of a value of type `t` on a `pw`-bit target -/
def PrimTy.valAt (pw : Nat) (t : PrimTy) (p : Nat) : Int :=
  if t.signed then toInt (B (t.bitsAt pw)) p else (p : Int)

/-- `rhs as ExpType` -/
def asExpAt (pw : Nat) (t : PrimTy) (p : Nat) : Nat := PInt.cast (t.bitsAt pw) t.signed 32 p
/-- `u32::try_from(rhs)` -/
def tryFromPrimAt (pw : Nat) (t : PrimTy) (p : Nat) : Option Nat :=
  if PInt.isNeg ⟨t.bitsAt pw, t.signed⟩ p then none else if p < B 32 then some p else none

/-- `shiftPrim` with `usize`/`isize` of `pw` bits -/
def shiftPrimAt (pw : Nat) (dbg : Bool) (t : PrimTy) (method : Nat → Outcome (List Nat)) (p : Nat) :
    Outcome (List Nat) :=
  match t.impl with
  | .direct => method p
  | .cast => method (asExpAt pw t p)
  | .tryFrom =>
    if dbg then
      match tryFromPrimAt pw t p with
      | some r => method r
      | none => .panic
    else method (asExpAt pw t p)

end Ops
end Bnum
