/-
  Bnum.Model.Random — `src/random.rs` (feature `rand`, rand 0.8): `Standard` for `BUint`/`BInt`,
  `Fill for Slice<T>` / `try_fill_slice`, and `UniformSampler for UniformInt<T>`
  (`new`, `new_inclusive`, `sample`, `sample_single`, `sample_single_inclusive`), rand's forwarders
  `Rng::gen_range(a..b)` → `sample_single`, `gen_range(a..=b)` → `sample_single_inclusive`
  (`genRange`, `genRangeInclusive`), and `Uniform::new(..).sample` = `new` + `sample`.

  The RNG.  A scripted `RngCore` is the list of bytes it will hand out: `fill_bytes` /
  `try_fill_bytes(dest)` remove `dest.len()` bytes from the front, in order; if fewer are left the
  call fails (`none` = "stream exhausted"; `Rng::fill` turns the `Err` into a panic, which the
  harness reports as `exhausted`).  Every sampler is a function
  `Stream → Option (value × rest of the stream)`.

  Digit level / value level.  Byte consumption, the cutting of the byte view into digits and the
  `to_le` pass are modelled on digit lists (`fillDigits`, `fillSlice`).  The arithmetic *inside*
  the uniform sampler (`wrapping_sub`, `wrapping_add`, `Sub`, `Add<Digit>`, `%`, `<<`,
  `leading_zeros`, `widening_mul`, `Ord`) is modelled at VALUE level on `W = w*n`-bit patterns
  (`Nat < M w n`): the digit-level implementations of those functions are modelled and proved
  equal to exactly these value-level functions in the modules AddSub (C01), Mul (C02:
  `widening_mul`), Div (C03: `%`), Shift (C05), BitOps/Bits (C06/C07: `leading_zeros`, `bits`) and
  Cmp (C09).  Signed integers are their two's-complement patterns; `to_bits`/`from_bits` are the
  identity on patterns, exactly as in the Rust (a `BInt` is a wrapped `BUint`).
  `Model/RandomD.lean` is the DIGIT-LEVEL model of the same functions (calling those digit-level
  implementations); `Lemmas/RandomD.lean` proves it returns exactly what this file's functions
  return on the values, so everything proved about this file holds for the digit-level code.

  Target endianness: the model is for a little-endian target (`to_le` is the identity and the
  in-memory byte view of `[Digit; N]` is the little-endian byte string of the value).

  Operators whose body depends on `cfg(debug_assertions)` (`high - ONE`, `MAX - range`,
  `MAX - z`, `range << lz`) take `dbg`; they can panic in the model exactly where the Rust could.
  `Lemmas/Random.lean` proves that none of them ever does.
-/
import Bnum.Model.Basic
namespace Bnum
namespace Rand

/-- the scripted RNG: bytes still to be handed out -/
abbrev Stream := List Nat

/-- `size_of::<Digit>()` -/
@[inline] def digitBytes (w : Nat) : Nat := w / 8

/-- `RngCore::try_fill_bytes(dest)` with `dest.len() = k` -/
def tryFillBytes (k : Nat) (s : Stream) : Option (List Nat × Stream) :=
  if k ≤ s.length then some (s.take k, s.drop k) else none

/-- value of a little-endian byte string (`uN::from_le_bytes`; on a little-endian target the
    native read of the byte view, after which `to_le` is the identity) -/
def leValue : List Nat → Nat
  | [] => 0
  | b :: bs => b + 256 * leValue bs

/-- reading the byte view of `[Digit; n]` back as digits: `k` bytes per digit, then
    `for x in self { *x = x.to_le() }` -/
def digitsOfBytes (k : Nat) : Nat → List Nat → List Nat
  | 0, _ => []
  | n + 1, bs => leValue (bs.take k) :: digitsOfBytes k n (bs.drop k)

/-- `rand::Fill for [Digit]` (`[u8]`: `try_fill_bytes(self)`; `[u16|u32|u64]`: `try_fill_bytes`
    on the byte view, then `to_le` on every element), as called by `Rng::fill(&mut digits)` -/
def fillDigits (w n : Nat) (s : Stream) : Option (List Nat × Stream) :=
  match tryFillBytes (n * digitBytes w) s with
  | none => none
  | some (bs, rest) => some (digitsOfBytes (digitBytes w) n bs, rest)

namespace UI
/-- `Distribution<BUint<N>> for Standard`: `digits = [0; N]; rng.fill(&mut digits);
    from_digits(digits)` -/
def gen (w n : Nat) (s : Stream) : Option (List Nat × Stream) := fillDigits w n s
end UI
namespace II
/-- `Distribution<BInt<N>> for Standard`: `BInt::from_bits(rng.gen())` -/
def gen (w n : Nat) (s : Stream) : Option (List Nat × Stream) := UI.gen w n s
end II

/-- reading the byte view of `[T]` (`T = BUint<n>` or `BInt<n>`, `len` elements) back as elements:
    `n * k` bytes per element, digits in memory order, then `*x = x.to_le()` (identity) -/
def elemsOfBytes (k n : Nat) : Nat → List Nat → List (List Nat)
  | 0, _ => []
  | len + 1, bs => digitsOfBytes k n (bs.take (n * k)) :: elemsOfBytes k n len (bs.drop (n * k))

/-- `Fill for Slice<BUint<N>>` / `Slice<BInt<N>>` / `try_fill_slice` on a slice of `len` elements:
    `if len > 0 { try_fill_bytes(byte view of len * size_of::<T>() bytes)?; to_le each }; Ok(())` -/
def fillSlice (w n len : Nat) (s : Stream) : Option (List (List Nat) × Stream) :=
  if len > 0 then
    match tryFillBytes (len * (n * digitBytes w)) s with
    | none => none
    | some (bs, rest) => some (elemsOfBytes (digitBytes w) n len bs, rest)
  else some ([], s)

/-! ### value-level integer primitives on `m = 2^W` patterns -/

/-- `wrapping_sub` (both signednesses: same pattern) -/
@[inline] def wrappingSub (m a b : Nat) : Nat := (a + m - b) % m
/-- `wrapping_add` (both signednesses: same pattern) -/
@[inline] def wrappingAdd (m a b : Nat) : Nat := (a + b) % m
/-- `Ord::lt` : unsigned on values, signed on two's-complement values -/
@[inline] def lt (signed : Bool) (m a b : Nat) : Bool :=
  if signed then decide (toInt m a < toInt m b) else decide (a < b)
/-- `Ord::le` -/
@[inline] def le (signed : Bool) (m a b : Nat) : Bool :=
  if signed then decide (toInt m a ≤ toInt m b) else decide (a ≤ b)
/-- the `Sub` operator (`int/ops.rs trait_fillers`): `strict_sub` under debug assertions,
    `wrapping_sub` otherwise -/
def opSub (signed dbg : Bool) (m a b : Nat) : Outcome Nat :=
  let overflow :=
    if signed then decide (¬ repS m (toInt m a - toInt m b)) else decide (a < b)
  if dbg && overflow then .panic else .ok (wrappingSub m a b)
/-- `Add<Digit> for BUint` (`buint/ops.rs`): carry chain that stops at the top digit — wraps in
    both build modes -/
@[inline] def addDigit (m a d : Nat) : Nat := (a + d) % m
/-- the `Rem` operator on `BUint`: panics on a zero divisor -/
def opRem (a b : Nat) : Outcome Nat := if b = 0 then .panic else .ok (a % b)
/-- number of significant bits (`bits()`), by halving; `fuel ≥ bits` -/
def bitLen : Nat → Nat → Nat
  | 0, _ => 0
  | fuel + 1, x => if x = 0 then 0 else bitLen fuel (x / 2) + 1
/-- `leading_zeros` of a `W`-bit pattern -/
@[inline] def leadingZeros (W x : Nat) : Nat := W - bitLen W x
/-- the `Shl<ExpType>` operator on `BUint`: `strict_shl` (panic when `k ≥ BITS`) under debug
    assertions, `wrapping_shl` otherwise.  Only amounts `k < BITS` occur in this file (proved in
    `Lemmas/Random.lean`); there both modes give `x * 2^k mod 2^W`.  (For `k ≥ BITS` the release
    value written here, a shift by `k mod BITS`, is a placeholder: see Model/Shift for the real one.) -/
def opShl (dbg : Bool) (W x k : Nat) : Outcome Nat :=
  if dbg && decide (W ≤ k) then .panic else .ok ((x * 2 ^ (k % W)) % 2 ^ W)
/-- `BUint::widening_mul`: `(low, high)` -/
@[inline] def wideningMul (m a b : Nat) : Nat × Nat := ((a * b) % m, (a * b) / m)

/-- `UniformInt<T>`: three `T` patterns -/
structure UniformInt where
  low : Nat
  range : Nat
  z : Nat
  deriving Repr, DecidableEq

/-- result of one sampling: `none` = the stream ran out -/
abbrev Draw := Option (Nat × Stream)

/-- `rng.gen::<BUint<N>>()` as a pattern -/
def genVal (w n : Nat) (s : Stream) : Draw :=
  match UI.gen w n s with
  | none => none
  | some (d, rest) => some (U w d, rest)

/-- the rejection loop shared by `sample` and `sample_single_inclusive`:
    `loop { v = rng.gen(); (lo, hi) = v.widening_mul(range); if lo <= zone { return
    low.wrapping_add(from_bits(hi)) } }`.  `fuel` bounds the number of attempts; every attempt
    consumes `n * (w/8) ≥ 1` bytes, so `fuel = stream length + 1` is never the reason for `none`. -/
def rejectLoop (w n : Nat) (low range zone : Nat) : Nat → Stream → Draw
  | 0, _ => none
  | fuel + 1, s =>
    match genVal w n s with
    | none => none
    | some (v, rest) =>
      let (lo, hi) := wideningMul (M w n) v range
      if lo ≤ zone then some (wrappingAdd (M w n) low hi, rest)
      else rejectLoop w n low range zone fuel rest

/-! Named sub-expressions of the Rust bodies (they occur twice each in `random.rs`). -/
/-- `high.wrapping_sub(low).wrapping_add(ONE)` (`.to_bits()` for `BInt`) -/
@[inline] def rangeOf (m low high : Nat) : Nat := wrappingAdd m (wrappingSub m high low) 1
/-- `(<$u_large>::MAX - range + 1) % range` -/
def intsToReject (dbg : Bool) (m range : Nat) : Outcome Nat := do
  let t ← opSub false dbg m (m - 1) range
  opRem (addDigit m t 1) range
/-- the `zone` of `sample_single_inclusive`:
    `if MAX.bits() <= 16 { MAX - ints_to_reject } else { (range << range.leading_zeros()).wrapping_sub(ONE) }` -/
def singleZone (dbg : Bool) (W m range : Nat) : Outcome Nat :=
  if bitLen W (m - 1) ≤ 16 then do
    let r ← intsToReject dbg m range
    opSub false dbg m (m - 1) r
  else do
    let sh ← opShl dbg W range (leadingZeros W range)
    pure (wrappingSub m sh 1)

/-- `UniformSampler::new_inclusive` -/
def newInclusive (signed dbg : Bool) (w n : Nat) (low high : Nat) : Outcome UniformInt :=
  let m := M w n
  if !(le signed m low high) then .panic else
  let range := rangeOf m low high
  let z : Outcome Nat := if range ≠ 0 then intsToReject dbg m range else .ok 0
  z.bind fun z => .ok { low := low, range := range, z := z }

/-- `UniformSampler::new` -/
def new (signed dbg : Bool) (w n : Nat) (low high : Nat) : Outcome UniformInt :=
  let m := M w n
  if !(lt signed m low high) then .panic else
  (opSub signed dbg m high 1).bind fun h => newInclusive signed dbg w n low h

/-- `UniformSampler::sample` -/
def sample (dbg : Bool) (w n : Nat) (u : UniformInt) (s : Stream) : Outcome Draw :=
  let m := M w n
  if u.range ≠ 0 then
    (opSub false dbg m (m - 1) u.z).bind fun zone =>
      .ok (rejectLoop w n u.low u.range zone (s.length + 1) s)
  else .ok (genVal w n s)

/-- `UniformSampler::sample_single_inclusive` -/
def sampleSingleInclusive (signed dbg : Bool) (w n : Nat) (low high : Nat) (s : Stream) :
    Outcome Draw :=
  let m := M w n
  if !(le signed m low high) then .panic else
  let range := rangeOf m low high
  if range = 0 then .ok (genVal w n s) else
  (singleZone dbg (w * n) m range).bind fun zone =>
    .ok (rejectLoop w n low range zone (s.length + 1) s)

/-- `UniformSampler::sample_single` -/
def sampleSingle (signed dbg : Bool) (w n : Nat) (low high : Nat) (s : Stream) : Outcome Draw :=
  let m := M w n
  if !(lt signed m low high) then .panic else
  (opSub signed dbg m high 1).bind fun h => sampleSingleInclusive signed dbg w n low h s

/-- `Rng::gen_range(low..high)` (rand 0.8 `rng.rs`, `SampleRange<T> for Range<T>`):
    `assert!(!range.is_empty())` with `is_empty() = !(start < end)`, then
    `T::Sampler::sample_single(start, end, rng)` -/
def genRange (signed dbg : Bool) (w n : Nat) (low high : Nat) (s : Stream) : Outcome Draw :=
  if !(lt signed (M w n) low high) then .panic else sampleSingle signed dbg w n low high s

/-- `Rng::gen_range(low..=high)` (`SampleRange<T> for RangeInclusive<T>`): `is_empty() =
    !(start <= end)`, then `T::Sampler::sample_single_inclusive(start, end, rng)` -/
def genRangeInclusive (signed dbg : Bool) (w n : Nat) (low high : Nat) (s : Stream) : Outcome Draw :=
  if !(le signed (M w n) low high) then .panic else sampleSingleInclusive signed dbg w n low high s

/-- `len` successive `rng.gen::<T>()` calls (what a slice fill is compared with) -/
def genMany (w n : Nat) : Nat → Stream → Option (List (List Nat) × Stream)
  | 0, s => some ([], s)
  | len + 1, s =>
    match UI.gen w n s with
    | none => none
    | some (d, r) =>
      match genMany w n len r with
      | none => none
      | some (ds, r') => some (d :: ds, r')

/-- `Uniform::new(low, high).sample(rng)` -/
def uniformNewSample (signed dbg : Bool) (w n : Nat) (low high : Nat) (s : Stream) : Outcome Draw :=
  (new signed dbg w n low high).bind fun u => sample dbg w n u s

/-- `Uniform::new_inclusive(low, high).sample(rng)` -/
def uniformNewInclusiveSample (signed dbg : Bool) (w n : Nat) (low high : Nat) (s : Stream) :
    Outcome Draw :=
  (newInclusive signed dbg w n low high).bind fun u => sample dbg w n u s

end Rand
end Bnum
