/-
  Bnum.Model.NumConvD — the float conversions of `num_traits::{FromPrimitive, ToPrimitive,
  AsPrimitive}` (C19) with EVERY bnum-integer operation on digit lists.  Import-free.

  Audit of Model/NumConv.lean (what was at value level, what was not):

  * `from_float!` (`src/buint/numtraits.rs:71-99`, `src/bint/numtraits.rs:59-82`) was ALREADY at
    digit level there; every bnum-integer operation it performs is a digit-list function:
      `Self::cast_from(mant)`      `Bnum.UI.castFromPrim`  (`as_buint!` loop, Model/Cast.lean)
      `… << exp` (`Shl<i16>`)      `NumC.shlI16` → `Bnum.UI.shl` → `strict_shl` / `wrapping_shl`
                                    → `unchecked_shl_internal` (Model/Shift.lean)
      `Self::ZERO`, `Self::MIN`    `zero n`, `iMin w n`   (Model/AddSub.lean)
      `i == Self::MIN`             `II.eq` (digit scan, Model/Cmp.lean)
      `i.is_negative()`            `isNegative` (top digit, Model/AddSub.lean)
      `-i` (`Neg for BInt`)        `NumC.negI` → `II.strictNeg` / `II.wrappingNeg` →
                                    `II.overflowingNeg` (`negLoop`, Model/AddSub.lean)
      `from_bits`                  identity on digit lists
    What remains primitive there is NOT bnum code: the float predicates (`is_finite`, `== 0.0`,
    `is_sign_negative`, unary minus, `to_bits`), `decode_f32/f64` (u32/u64 masks and shifts, i16
    arithmetic), `u32::checked_shr`, `u32_bits`/`u64_bits` (`leading_zeros` of a u32/u64) and
    the comparison with the constant `Self::BITS`.  `NumCD.fromFloat` is therefore the same
    function (`NumCD.fromFloat_eq : … = NumC.fromFloat …` is `rfl`), and the C19 theorems about
    it (`fromFloat_matches_spec`, …) are already statements about digit lists.

  * `to_f32` / `to_f64` / `AsPrimitive<f32/f64>::as_` (`Some(self.as_())`, `as_ = cast_from`)
    went through `Flt.floatFromBUint / floatFromBInt` of Model/Float.lean, whose integer side is a
    VALUE (`U w x`).  Here they call the digit-level `CastFrom<BUint<N>/BInt<N>> for f32/f64` of
    Model/FloatD.lean (`FltD.floatFromBUint`, `FltD.floatFromBInt`: `cast_float_from_uint::<BUint<N>,
    F>` with
      `value.bits()`               `Bnum.UI.bits`            (`BITS - leading_zeros`, BitOps)
      `value.bit(i)`               `Bnum.UI.bit`             (array index, may panic, BitOps)
      `value >> shift`             `Bnum.UI.shr dbg`         (`Shr<ExpType>`: strict / wrapping)
      `value.trailing_zeros()`     `Bnum.UI.trailingZeros`   (BitOps)
      `Mantissa::cast_from(value)` `Bnum.UI.castToPrim`      (`buint_as_int!`, Model/Cast.lean)
      `from.unsigned_abs()`        `Bnum.II.unsignedAbs`     (Model/AddSub.lean)
      `from.is_negative()`         `isNegative`).
    The float side (`from_signed_parts`, mantissa `+ 1`, `>> 1`, `<<`, `bit`) is the primitive
    layer of Model/Float.lean, shared with the value-level model.
-/
import Bnum.Model.NumConv
import Bnum.Model.FloatD
namespace Bnum
namespace NumCD

/-! ### C19 entry points -/

/-- `AsPrimitive<f32/f64>::as_` = `<$float>::cast_from(self)` -/
def asFloat (dbg : Bool) (F : FloatFmt) (w : Nat) (s : Bool) (x : List Nat) : Outcome Nat :=
  if s then FltD.floatFromBInt F dbg w x else FltD.floatFromBUint F dbg w x

/-- `ToPrimitive::to_f32 / to_f64`: `Some(self.as_())` -/
def toFloat (dbg : Bool) (F : FloatFmt) (w : Nat) (s : Bool) (x : List Nat) :
    Outcome (Option Nat) :=
  (asFloat dbg F w s x).map some

/-- `FromPrimitive::from_f32 / from_f64`: the model of Model/NumConv.lean, which is digit-level
    throughout (see the header) -/
def fromFloat (dbg : Bool) (F : FloatFmt) (w n : Nat) (s : Bool) (f : Nat) :
    Outcome (Option (List Nat)) :=
  NumC.fromFloat dbg F w n s f

end NumCD
end Bnum
