/-
  Bnum.Model.C19Extra — the remaining `num_traits::AsPrimitive` impl families of
  `src/int/numtraits.rs` (property C19, "AsPrimitive::as_ equals the As cast").  Import-free.

  `src/int/numtraits.rs` has four families of `AsPrimitive` impls; Model/NumConv.lean has (a):
    (a) l.1-12,162   `impl AsPrimitive<$prim> for $Int<N>`      `<$prim>::cast_from(self)`
                      ($prim = twelve integers, f32, f64)          → `NumC.asPrim`, `NumC(D).asFloat`
    (b) l.28-42,164  `impl AsPrimitive<$Big<N>> for $ty` (`as_bigint_impl!`)
                      `$Big::cast_from(self)` for $ty = u8 … u128, usize, i8 … i128, isize,
                      char, bool, f32, f64                         → `asFromPrim`, `asFromChar`,
                                                                     `asFromBool`, `asFromFloat`
    (c) l.166-171    `impl AsPrimitive<$BUint<M>> for $Int<N>`  `$BUint::<M>::cast_from(self)`
    (d) l.173-178    `impl AsPrimitive<$BInt<M>> for $Int<N>`   `$BInt::<M>::cast_from(self)`
                      (`$Int` ∈ {$BUint, $BInt} of the SAME macro invocation, i.e. the same digit
                      type on both sides)                          → `asBig`
  Every body is one delegation to a `CastFrom` impl; the model delegates to the model of that
  impl: Model/Cast.lean (`castFromPrim`, `castFromChar`, `castFromBool`, `castBnum` — C09) and
  Model/FloatD.lean (`FltD.buintFromFloat`, `FltD.bintFromFloat` — the digit-level C14 casts).
-/
import Bnum.Model.NumConvD
namespace Bnum
namespace NumC

/-- (b) `<$int as AsPrimitive<$Big<N>>>::as_` = `$Big::cast_from(self)` (`as_buint!` / `as_bint!`) -/
def asFromPrim (w n : Nat) (s : Bool) (t : PTy) (p : Nat) : Outcome (List Nat) :=
  castFromPrim w n s t p

/-- (b) `<char as AsPrimitive<$Big<N>>>::as_` = `$Big::cast_from(self)` (`c` = the code point) -/
def asFromChar (w n : Nat) (s : Bool) (c : Nat) : Outcome (List Nat) :=
  if s then II.castFromChar w n c else UI.castFromChar w n c

/-- (b) `<bool as AsPrimitive<$Big<N>>>::as_` = `$Big::cast_from(self)` -/
def asFromBool (n : Nat) (s : Bool) (b : Bool) : List Nat :=
  if s then II.castFromBool n b else UI.castFromBool n b

/-- (b) `<f32/f64 as AsPrimitive<$Big<N>>>::as_` = `$Big::cast_from(self)`: the float → integer
    `CastFrom` impls of C14 (`cast_uint_from_float`, `bint_cast_from_float!`), on digit lists -/
def asFromFloat (dbg : Bool) (F : FloatFmt) (w n : Nat) (s : Bool) (x : Nat) : Outcome (List Nat) :=
  if s then FltD.bintFromFloat F dbg w n x else FltD.buintFromFloat F dbg w n x

/-- (c), (d) `<$Int<N> as AsPrimitive<$BUint<M> / $BInt<M>>>::as_` = `…::<M>::cast_from(self)`:
    source `(w, s₁, x)`, target `m` digits of the same width, signedness `s₂`.  `castBnum` with
    equal digit widths selects the same-digit `cast!` impls (`cast_up` / `cast_down`). -/
def asBig (w : Nat) (s₁ : Bool) (x : List Nat) (m : Nat) (s₂ : Bool) : Outcome (List Nat) :=
  castBnum w s₁ x w m s₂

end NumC
end Bnum
