/-
  Bnum.Model.RandomD — DIGIT-LEVEL model of `UniformSampler for UniformInt<T>` (`src/random.rs`,
  macro `uniform_int_impl!`, instantiated at `(BUint<N>, BUint<N>)` and at
  `(BInt<N>, BUint<N>, to_bits, from_bits)`): `new`, `new_inclusive`, `sample`, `sample_single`,
  `sample_single_inclusive`, plus rand's forwarders `gen_range(a..b)` / `gen_range(a..=b)` and
  `Uniform::new(_inclusive)(..).sample(..)`.

  Everything operates on digit lists and calls the digit-level model of each bnum function the
  Rust text calls:
      `a < b`, `a <= b`         `Traits.opLt/opLe` over `UI.cmp` / `II.cmp w`   (Model/Cmp, BitOps)
      `high - ONE`, `MAX - x`   the `Sub` operator = unsuffixed `UI.sub dbg` / `II.sub dbg`
                                (`strict_sub` under debug assertions, else `wrapping_sub`)
      `x + 1`                   `Add<Digit> for BUint` = `Ops.addDigit`           (Model/Ops)
      `x % range`               the `Rem` operator = `UI.rem` (panics on zero; Knuth D inside)
      `range << lz`             the `Shl<ExpType>` operator = unsuffixed `UI.shl dbg`
      `wrapping_sub/_add`       `UI.wrappingSub/Add`, `II.wrappingSub/Add`
      `is_zero`, `bits`, `leading_zeros`, `widening_mul`, `MAX`, `ONE`, `ZERO`
      `to_bits` / `from_bits`   identity on the digit list (a `BInt` is a wrapped `BUint`)
  The RNG is the byte stream of `Model/Random.lean`; `rng.gen::<BUint<N>>()` is `Rand.UI.gen`.
  `Lemmas/RandomD.lean` proves that every function here returns, on well-formed operands, exactly
  what the value-level function of `Model/Random.lean` returns on the values.
-/
import Bnum.Model.Random
import Bnum.Model.Ops
namespace Bnum
namespace RandD
open Rand (Stream)

/-- `Self::cmp` of the sampled type `$ty` -/
@[inline] def cmpT (signed : Bool) (w : Nat) : List Nat → List Nat → Ordering :=
  if signed then II.cmp w else UI.cmp
/-- `<$ty as Sub>::sub` -/
@[inline] def subT (signed dbg : Bool) (w : Nat) (a b : List Nat) : Outcome (List Nat) :=
  if signed then II.sub dbg w a b else UI.sub dbg w a b
/-- `<$ty>::wrapping_sub` -/
@[inline] def wrappingSubT (signed : Bool) (w : Nat) (a b : List Nat) : List Nat :=
  if signed then II.wrappingSub w a b else UI.wrappingSub w a b
/-- `<$ty>::wrapping_add` -/
@[inline] def wrappingAddT (signed : Bool) (w : Nat) (a b : List Nat) : List Nat :=
  if signed then II.wrappingAdd w a b else UI.wrappingAdd w a b

/-- `UniformInt<$ty>`: three `$ty` values (`range`, `z` are `from_bits` of `$u_large` values) -/
structure UniformInt where
  low : List Nat
  range : List Nat
  z : List Nat
  deriving Repr, DecidableEq

/-- result of one sampling: `none` = the stream ran out -/
abbrev Draw := Option (List Nat × Stream)

/-- `high.wrapping_sub(low).wrapping_add(<$ty>::ONE)` `.to_bits()` -/
def rangeOf (signed : Bool) (w n : Nat) (low high : List Nat) : List Nat :=
  wrappingAddT signed w (wrappingSubT signed w high low) (one n)

/-- `(<$u_large>::MAX - range + 1) % range` -/
def intsToReject (dbg : Bool) (w n : Nat) (range : List Nat) : Outcome (List Nat) :=
  (UI.sub dbg w (allOnes w n) range).bind fun t =>
  (Ops.addDigit w t 1).bind fun t1 =>
  UI.rem w t1 range

/-- the rejection loop of `sample` and `sample_single_inclusive`:
    `loop { let v: $u_large = rng.gen(); let (lo, hi) = v.widening_mul(range);
            if lo <= zone { return low.wrapping_add(from_bits(hi)); } }` -/
def rejectLoop (signed : Bool) (w n : Nat) (low range zone : List Nat) : Nat → Stream → Draw
  | 0, _ => none
  | fuel + 1, s =>
    match Rand.UI.gen w n s with
    | none => none
    | some (v, rest) =>
      let (lo, hi) := UI.wideningMul w v range
      if Traits.opLe UI.cmp lo zone then some (wrappingAddT signed w low hi, rest)
      else rejectLoop signed w n low range zone fuel rest

/-- `UniformSampler::new_inclusive` -/
def newInclusive (signed dbg : Bool) (w n : Nat) (low high : List Nat) : Outcome UniformInt :=
  if !(Traits.opLe (cmpT signed w) low high) then .panic else
  let range := rangeOf signed w n low high
  let z : Outcome (List Nat) :=
    if !(isZero range) then intsToReject dbg w n range else .ok (zero n)
  z.bind fun z => .ok { low := low, range := range, z := z }

/-- `UniformSampler::new` -/
def new (signed dbg : Bool) (w n : Nat) (low high : List Nat) : Outcome UniformInt :=
  if !(Traits.opLt (cmpT signed w) low high) then .panic else
  (subT signed dbg w high (one n)).bind fun h => newInclusive signed dbg w n low h

/-- `UniformSampler::sample` -/
def sample (signed dbg : Bool) (w n : Nat) (u : UniformInt) (s : Stream) : Outcome Draw :=
  if !(isZero u.range) then
    (UI.sub dbg w (allOnes w n) u.z).bind fun zone =>
      .ok (rejectLoop signed w n u.low u.range zone (s.length + 1) s)
  else .ok (if signed then Rand.II.gen w n s else Rand.UI.gen w n s)

/-- the `zone` of `sample_single_inclusive` -/
def singleZone (dbg : Bool) (w n : Nat) (range : List Nat) : Outcome (List Nat) :=
  if UI.bits w (allOnes w n) ≤ 16 then
    (intsToReject dbg w n range).bind fun r => UI.sub dbg w (allOnes w n) r
  else
    (UI.shl dbg w range (UI.leadingZeros w range)).bind fun sh =>
      .ok (UI.wrappingSub w sh (one n))

/-- `UniformSampler::sample_single_inclusive` -/
def sampleSingleInclusive (signed dbg : Bool) (w n : Nat) (low high : List Nat) (s : Stream) :
    Outcome Draw :=
  if !(Traits.opLe (cmpT signed w) low high) then .panic else
  let range := rangeOf signed w n low high
  if isZero range then .ok (if signed then Rand.II.gen w n s else Rand.UI.gen w n s) else
  (singleZone dbg w n range).bind fun zone =>
    .ok (rejectLoop signed w n low range zone (s.length + 1) s)

/-- `UniformSampler::sample_single` -/
def sampleSingle (signed dbg : Bool) (w n : Nat) (low high : List Nat) (s : Stream) : Outcome Draw :=
  if !(Traits.opLt (cmpT signed w) low high) then .panic else
  (subT signed dbg w high (one n)).bind fun h => sampleSingleInclusive signed dbg w n low h s

/-- `Rng::gen_range(low..high)` -/
def genRange (signed dbg : Bool) (w n : Nat) (low high : List Nat) (s : Stream) : Outcome Draw :=
  if !(Traits.opLt (cmpT signed w) low high) then .panic else sampleSingle signed dbg w n low high s

/-- `Rng::gen_range(low..=high)` -/
def genRangeInclusive (signed dbg : Bool) (w n : Nat) (low high : List Nat) (s : Stream) :
    Outcome Draw :=
  if !(Traits.opLe (cmpT signed w) low high) then .panic
  else sampleSingleInclusive signed dbg w n low high s

/-- `Uniform::new(low, high).sample(rng)` -/
def uniformNewSample (signed dbg : Bool) (w n : Nat) (low high : List Nat) (s : Stream) :
    Outcome Draw :=
  (new signed dbg w n low high).bind fun u => sample signed dbg w n u s

/-- `Uniform::new_inclusive(low, high).sample(rng)` -/
def uniformNewInclusiveSample (signed dbg : Bool) (w n : Nat) (low high : List Nat) (s : Stream) :
    Outcome Draw :=
  (newInclusive signed dbg w n low high).bind fun u => sample signed dbg w n u s

end RandD
end Bnum
