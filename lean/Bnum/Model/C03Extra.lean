/-
  Bnum.Model.C03Extra — Algorithm D (`src/buint/div.rs`) with the three `q_hat -= 1` statements
  modelled the way they are compiled: an overflow-checked subtraction on the digit type under
  `debug_assertions` (panic at `q_hat = 0`), a wrapping one otherwise (`0 - 1 = Digit::MAX`).
  Model/Div.lean writes them as truncated subtraction and argues in a comment that `q_hat = 0` never
  reaches a decrement; `KD.basecaseDivRemC_eq` (Lemmas/C03Extra.lean) proves that the two models
  are equal on all inputs and in both build modes, so nothing is lost by the simplification.
-/
import Bnum.Model.Div
namespace Bnum
namespace KD

/-- `q_hat -= 1` on a digit -/
def decDigit (dbg : Bool) (w q : Nat) : Outcome Nat :=
  if q = 0 then (if dbg then .panic else .ok (B w - 1)) else .ok (q - 1)

/-- step D3 with checked decrements (cf. `KD.qHat`) -/
def qHatC (dbg : Bool) (w n vn1 vn2 : Nat) (u : List Nat) (j : Nat) : Outcome Nat :=
  let ujn := remDigit u (j + n)
  if ujn < vn1 then
    let qr := Digit.divRemWide w (remDigit u (j + n - 1)) ujn vn1
    let qh := qr.1
    let rh := qr.2
    if tupleGt (Digit.wideningMul w qh vn2) (remDigit u (j + n - 2), rh) then
      match decDigit dbg w qh with
      | .panic => .panic
      | .ok qh =>
        match uCheckedAdd w rh vn1 with
        | some rh' =>
          if tupleGt (Digit.wideningMul w qh vn2) (remDigit u (j + n - 2), rh') then decDigit dbg w qh
          else .ok qh
        | none => .ok qh
    else .ok qh
  else .ok (B w - 1)

/-- steps D3–D6 with checked decrements (cf. `KD.step`) -/
def stepC (dbg : Bool) (w n : Nat) (v : List Nat) (vn1 vn2 : Nat) (u : List Nat) (j : Nat) :
    Outcome (List Nat × Nat) :=
  match qHatC dbg w n vn1 vn2 u j with
  | .panic => .panic
  | .ok qh =>
    let r := remSub w u (mulNew w v qh) j n
    if r.2 then
      match decDigit dbg w qh with
      | .panic => .panic
      | .ok q' => .ok (remAdd w r.1 v j n, q')
    else .ok (r.1, qh)

/-- the main loop (cf. `KD.loop`) -/
def loopC (dbg : Bool) (w n : Nat) (v : List Nat) (vn1 vn2 : Nat) :
    Nat → List Nat → List Nat → Outcome (List Nat × List Nat)
  | 0, u, q => .ok (u, q)
  | j + 1, u, q =>
    match stepC dbg w n v vn1 vn2 u j with
    | .panic => .panic
    | .ok r => loopC dbg w n v vn1 vn2 j r.1 (q.set j r.2)

/-- `BUint::basecase_div_rem` with checked decrements (cf. `KD.basecaseDivRem`) -/
def basecaseDivRemC (dbg : Bool) (w : Nat) (a v : List Nat) (n : Nat) : Outcome (List Nat × List Nat) :=
  let len := a.length
  let ldi := lastDigitIndex a
  if n < 2 ∨ len < n ∨ ldi + 1 < n then .panic else
  let m := ldi + 1 - n
  let shift := leadingZeros w (v.getD (n - 1) 0)
  let v := uncheckedShlInternal w v shift
  let vn1 := v.getD (n - 1) 0
  let vn2 := v.getD (n - 2) 0
  let u := remNew w a shift
  match loopC dbg w n v vn1 vn2 (m + 1) u (zero len) with
  | .panic => .panic
  | .ok r => .ok (r.2, remShr w r.1 shift)

end KD
end Bnum
