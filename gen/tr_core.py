"""tr_core.py — Rust-subset AST  ->  Lean term over the hand model (used by gen/translate.py).

The translation is driven by the parsed Rust text only.  The only tables are
  * gen/translate_sigs.json     (dumped from Lean: which Bnum.* constants exist, their binders, result type, module)
  * gen/translate_symbols.json  (hand-maintained: Rust item -> Lean constant, Rust associated constant -> Lean term)
Generic conventions of the hand model are encoded ONCE here (see docs/translator.md):
  - a function whose Lean constant returns `Outcome α` is a computation; pure code around it is sequenced with
    `Outcome.bind`, pure branches next to panicking ones are lifted with `Outcome.ok`, `panic!` is `Outcome.panic`;
  - `#[cfg(debug_assertions)]` / `#[cfg(not(debug_assertions))]` statement pairs become `if dbg then … else …`;
  - `BInt<N>` is modelled by its bit pattern: `Self::from_bits`, `.to_bits()`, `.bits` are the identity on digit lists;
  - `N` is `n` when the modelled function has an `n` parameter, otherwise `self.length`; `Self::BITS` is `w * N`;
  - `&`, `*` (references) vanish; `&mut self` methods return the new value of `self`;
  - `ExpType` / `u32` / `usize` values are `Nat`.
"""
import re
from tr_lex import is_p, is_id, is_grp, text, split_commas, skip_angle, type_kind, expand_macro, MacroError, Tok
import tr_parse
from tr_parse import ParseError

class Unsupported(Exception):
    """body (or signature) outside the translatable subset"""

class Unresolved(Exception):
    """a callee / constant has no entry in the symbol map"""

# ------------------------------------------------------------------------------------------------ Rust types
def T_big(k): return ('big', k)
BOOL = ('bool',); U32 = ('u32',); USIZE = ('usize',); INT = ('int',); UNIT = ('unit',); NEVER = ('never',); ORD = ('ordering',)

def is_big(t): return t[0] == 'big'
def strip_ref(t):
    while t[0] == 'ref': t = t[1]
    return t
def is_num(t): return t[0] in ('u32', 'usize', 'int')

def parse_type(toks, selfty):
    """selfty: the impl's Self type (('big',K) / ('ref',…) / None)"""
    toks = list(toks)
    if not toks: return UNIT
    if is_p(toks[0], '&'):
        toks = toks[1:]
        if toks and toks[0].k == 'life': toks = toks[1:]
        if toks and is_id(toks[0], 'mut'): toks = toks[1:]
        return ('ref', parse_type(toks, selfty))
    if len(toks) == 1 and is_grp(toks[0], '('):
        parts = split_commas(toks[0].ch)
        if not parts: return UNIT
        return ('tup', [parse_type(p, selfty) for p in parts])
    if len(toks) == 1 and is_grp(toks[0], '['):
        return ('unk', text(toks))
    # path with optional generics on the last segment
    names = []; gen = None; i = 0
    while i < len(toks):
        t = toks[i]
        if t.k == 'id': names.append(t.s); i += 1
        elif is_p(t, '<'):
            e = skip_angle(toks, i); gen = toks[i + 1:e - 1]; i = e
        elif is_p(t, ':'): i += 1
        else: return ('unk', text(toks))
    names = [x for x in names if x not in ('crate', 'self', 'super', 'core', 'std')]
    if not names: return ('unk', text(toks))
    last = names[-1]
    if last == 'Self':
        return selfty if selfty is not None else ('unk', 'Self')
    if last == 'BUint': return T_big('UI')
    if last == 'BInt': return T_big('II')
    m = re.match(r'^B(Ui|I)ntD(32|16|8)$', last)
    if m: return ('bigd', 'UI' if m.group(1) == 'Ui' else 'II', int(m.group(2)))
    if last == 'bool': return BOOL
    if last in ('ExpType', 'u32'): return U32
    if last == 'usize': return ('prim', 'usize')
    if last == 'Ordering': return ORD
    if last == 'Option' and gen is not None:
        return ('opt', parse_type(gen, selfty))
    if last == 'Result' and gen is not None:
        ps = split_commas(gen)
        return ('res', parse_type(ps[0], selfty), text(ps[1]) if len(ps) > 1 else '')
    if last in ('u8', 'u16', 'u64', 'u128', 'i8', 'i16', 'i32', 'i64', 'i128', 'isize', 'f32', 'f64', 'char', 'str'):
        return ('prim', last)
    return ('unk', text(toks))

def norm_ty_key(t):
    """type -> the normalised text used in trait-argument keys (UI, II, rUI, …)"""
    if t[0] == 'ref': return 'r' + norm_ty_key(t[1])
    if t[0] == 'big': return t[1]
    if t[0] == 'u32': return 'u32'
    if t[0] == 'prim': return t[1]
    if t[0] == 'usize': return 'usize'
    if t[0] == 'bool': return 'bool'
    if t[0] == 'bigd': return 'B%sntD%d' % ('Ui' if t[1] == 'UI' else 'I', t[2])
    return '?'

# ------------------------------------------------------------------------------------------------ helpers
def camel(s):
    parts = s.split('_')
    return parts[0] + ''.join(p[:1].upper() + p[1:] for p in parts[1:])

ATOM = re.compile(r"^[A-Za-z_][A-Za-z0-9_.'!?]*$|^\d+$")

def par(t):
    t = t.strip()
    if ATOM.match(t): return t
    if t.startswith('(') and _balanced_outer(t): return t
    return '(' + t + ')'

def _balanced_outer(t):
    d = 0
    for i, c in enumerate(t):
        if c == '(': d += 1
        elif c == ')':
            d -= 1
            if d == 0 and i != len(t) - 1: return False
    return d == 0

LEAN_RESERVED = {'at', 'from', 'end', 'then', 'else', 'fun', 'open', 'in', 'do', 'if', 'let', 'have', 'show', 'with', 'match',
                 'def', 'theorem', 'by', 'where', 'deriving', 'instance', 'class', 'structure', 'namespace', 'section',
                 'import', 'mut', 'for', 'return', 'Type', 'Prop', 'Sort', 'local', 'private', 'set_option', 'using', 'calc', 'nomatch', 'macro', 'syntax'}

def lean_ident(s):
    if s in LEAN_RESERVED: return s + '_'
    return s

# Lean terms of `Outcome` computations are kept as small trees until the end so that the monad laws can be applied
# (bind (ok a) k = k a, bind panic k = panic, bind distributes over if/match: they are re-proved in the generated file):
#   str | ('ok', str) | ('panic',) | ('ite', cond, A, B) | ('match', scrut, [(pat, bound names, body)]) | ('bind', m, var, body)
def render(t):
    if isinstance(t, str): return t
    k = t[0]
    if k == 'ok': return 'Bnum.Outcome.ok %s' % par(t[1])
    if k == 'panic': return 'Bnum.Outcome.panic'
    if k == 'ite': return 'if %s then %s else %s' % (t[1], render(t[2]), render(t[3]))
    if k == 'match':
        return '(match %s with%s)' % (t[1], ''.join(' | %s => %s' % (p, render(b)) for p, _, b in t[2]))
    if k == 'bind': return 'Bnum.Outcome.bind %s (fun %s => %s)' % (par(render(t[1])), t[2], render(t[3]))
    raise ValueError(k)

def subst(t, x, s):
    rx = re.compile(r'(?<![A-Za-z0-9_.\'])%s(?![A-Za-z0-9_\'])' % re.escape(x))
    def go(t):
        if isinstance(t, str): return rx.sub(lambda m: s, t)
        k = t[0]
        if k == 'ok': return ('ok', go(t[1]))
        if k == 'panic': return t
        if k == 'ite': return ('ite', go(t[1]), go(t[2]), go(t[3]))
        if k == 'match': return ('match', go(t[1]), [(p, bn, go(b)) for p, bn, b in t[2]])
        if k == 'bind': return ('bind', go(t[1]), t[2], go(t[3]))
        raise ValueError(k)
    return go(t)

def mentions(t, name):
    return re.search(r'(?<![A-Za-z0-9_.\'])%s(?![A-Za-z0-9_\'])' % re.escape(name), render(t)) is not None

def bind_tree(m, x, inner):
    """Outcome.bind m (fun x => inner) with the monad laws applied"""
    if isinstance(m, tuple):
        k = m[0]
        if k == 'ok': return subst(inner, x, par(m[1]))
        if k == 'panic': return m
        if k == 'ite': return ('ite', m[1], bind_tree(m[2], x, inner), bind_tree(m[3], x, inner))
        if k == 'bind': return ('bind', m[1], m[2], bind_tree(m[3], x, inner))
        if k == 'match':
            if not any(mentions(inner, bn) for _, bns, _ in m[2] for bn in bns):
                return ('match', m[1], [(p, bns, bind_tree(b, x, inner)) for p, bns, b in m[2]])
    return ('bind', m, x, inner)

class V:
    __slots__ = ('term', 'ty', 'out')
    def __init__(self, term, ty, out=False):
        self.term = term; self.ty = ty; self.out = out

PRIM_BITS = {'u8': 8, 'u16': 16, 'u64': 64, 'u128': 128, 'i8': 8, 'i16': 16, 'i32': 32, 'i64': 64, 'i128': 128,
             'usize': 64, 'isize': 64}   # usize/isize: 64-bit target (the harness target), as in Model/Ops.lean
PRIM_BITS_ALL = dict(PRIM_BITS, u32=32)
CTX_NAMES = ('dbg', 'w', '_w', 'n', 'e', 'bw', 'T')
PRELUDE_TRAITS = {'PartialEq', 'Eq', 'PartialOrd', 'Ord', 'Clone', 'Copy', 'Default', 'Into', 'From', 'TryFrom', 'TryInto',
                  'AsRef', 'AsMut', 'Iterator', 'ToString', 'ToOwned', 'Drop', 'Fn', 'FnMut', 'FnOnce', 'Sized', 'Send', 'Sync'}

# ------------------------------------------------------------------------------------------------ symbol tables
class Symbols:
    def __init__(self, sigs, symbols):
        self.sigs = sigs                       # lean const -> {module, params: [[bi,name,type]], ret}
        self.fn_map = symbols.get('fns', {})   # rust key -> lean const (or {"lean":…})
        self.consts = symbols.get('consts', {})
        self.trait_rules = symbols.get('trait_rules', [])
        self.identity = set(symbols.get('identity', []))
        self.ops = symbols.get('ops', {})
        self.prim_methods = symbols.get('prim_methods', {})
        self.aliases = symbols.get('aliases', {})
        self.free_fns_special = symbols.get('free_fns_special', {})
        self.prim_fns = symbols.get('prim_fns', {})

    PRIMS = ('u8', 'u16', 'u32', 'u64', 'u128', 'usize', 'i8', 'i16', 'i32', 'i64', 'i128', 'isize')
    PRIM_SELF = PRIMS + ('bool', 'char', 'f32', 'f64')
    KEY_RE = re.compile(r'^(r?)(UI|II|%s)::(?:([A-Za-z_0-9]+)(?:<(.*)>)?::)?([A-Za-z_0-9]+)$' % '|'.join(PRIM_SELF))
    BIGD_RE = re.compile(r'^B(Ui|I)ntD(32|16|8)<[A-Z]>$')

    @classmethod
    def type_classes(cls, t):
        """classes of a (normalised) type name, used by `arg` / `self` filters of trait rules"""
        c = set()
        if t in ('UI', 'II'): c.update(('big', 'bigany'))
        if cls.BIGD_RE.match(t): c.update(('bigd', 'bigany'))
        if t in cls.PRIMS:
            c.add('prim'); c.add('iprim' if t[0] == 'i' else 'uprim')
        if t in ('f32', 'f64'): c.add('float')
        if t in ('bool', 'char'): c.add(t)
        return c

    @classmethod
    def prim_subst(cls, prim):
        """the generic scheme for models that take the primitive type as a VALUE: {pty} = its `PTy` (width, signedness),
        {pbits}, {psigned}, {primT} = the `NumC.PrimT` constructor, {F} = the `FloatFmt` of f32 / f64"""
        if prim in cls.PRIMS:
            bits = PRIM_BITS[prim] if prim != 'u32' else 32
            sg = 'true' if prim[0] == 'i' else 'false'
            return {'prim': prim, 'pbits': str(bits), 'psigned': sg, 'pty': '\u27e8%d, %s\u27e9' % (bits, sg),
                    'primT': 'Bnum.NumC.PrimT.%s' % prim}
        if prim in ('f32', 'f64'):
            return {'prim': prim, 'F': 'Bnum.fmtF%s' % prim[1:], 'pbits': prim[1:]}
        return {'prim': prim}

    def lookup(self, key):
        """-> {'lean': const, 'pre': [terms], 'post': [terms], 'named': {binder: term}} or None"""
        ent = self.fn_map.get(key)
        if ent is not None:
            if ent == '': return None
            if isinstance(ent, str): ent = {'lean': ent}
            return {'lean': ent['lean'], 'pre': list(ent.get('pre', [])), 'post': list(ent.get('post', [])), 'named': dict(ent.get('named', {}))}
        m = self.KEY_RE.match(key)
        if not m: return None
        sref, kind, trait, targs, method = m.groups()
        sprim = kind not in ('UI', 'II')
        if trait is None:
            if sref or sprim: return None
            c = 'Bnum.%s.%s' % (kind, camel(method))
            return {'lean': c, 'pre': [], 'post': [], 'named': {}} if c in self.sigs else None
        targs = targs or ''
        aref = targs.startswith('r') and targs[1:] in self.PRIMS + ('UI', 'II')
        base = targs[1:] if aref else targs
        classes = set()
        if targs == '': classes.update(('none', 'same'))
        if base == kind: classes.add('same')
        classes |= self.type_classes(base)
        classes.add('any')
        sclasses = self.type_classes(kind) | {'anyself'}
        for rule in self.trait_rules:
            if trait not in rule['traits']: continue
            if rule.get('arg', 'any') not in classes: continue
            if rule.get('selfty', 'big') not in sclasses: continue
            if rule.get('self') == 'val' and sref: continue
            if 'methods' in rule and not re.match(rule['methods'], method): continue
            bigk = kind if not sprim else (base if base in ('UI', 'II') else '')
            sub = {'m': camel(method), 'op': camel(method[:-7]) if method.endswith('_assign') else camel(method),
                   's': 'r' if sref else 'v', 'a': 'r' if aref else 'v', 'Ref': 'Ref' if aref else '',
                   'prim': base, 'ks': 'true' if base == 'II' else 'false', 'K': bigk[:1], 'kind': bigk, 'trait': trait,
                   'S': 'true' if kind == 'II' else 'false', 'BK': 'BUint' if bigk == 'UI' else 'BInt',
                   'lk': 'buint' if bigk == 'UI' else 'bint'}
            md = self.BIGD_RE.match(base)
            if md: sub.update(dw=md.group(2), ks='true' if md.group(1) == 'I' else 'false', dkind='UI' if md.group(1) == 'Ui' else 'II')
            # where the primitive type comes from: the trait argument (default), the impl's Self type, or the method name
            pf = rule.get('prim_from', 'arg')
            pname = base if pf == 'arg' else kind if pf == 'self' else method[len(pf.split(':', 1)[1]):] if method.startswith(pf.split(':', 1)[1]) else ''
            if pname in self.PRIM_SELF: sub.update(self.prim_subst(pname))
            def fill(t):
                for k2, v2 in sub.items(): t = t.replace('{%s}' % k2, v2)
                return t
            c = fill(rule['lean'])
            named = {k2: fill(v2) for k2, v2 in rule.get('named', {}).items()}
            if c in self.sigs and not any(re.search(r'\{(?!w\}|N\}|M\})[A-Za-z]+\}', x) for x in named.values()):
                return {'lean': c, 'pre': [fill(x) for x in rule.get('pre', [])], 'post': [fill(x) for x in rule.get('post', [])], 'named': named}
        return None

    def lean_for_key(self, key):
        r = self.lookup(key)
        return r['lean'] if r else None

    def model_id(self, key):
        """the model constant TOGETHER with the fixed arguments that select a member of a family"""
        r = self.lookup(key)
        return (r['lean'], tuple(r['pre']), tuple(r['post']), tuple(sorted(r['named'].items()))) if r else None

# ------------------------------------------------------------------------------------------------ crate-level tables
class FnTable:
    def __init__(self, crate):
        self.crate = crate
        self.inherent = {}     # (kind, name) -> FnItem
        self.traitfns = {}     # name -> [FnItem]
        self.free = {}         # name -> FnItem
        self.bykey = {}
        self.dups = {}
        for f in crate.fns:
            if f.self_kind is None:
                # impls of the crate's traits for PRIMITIVE types whose trait argument is a big integer
                # (`impl CastFrom<BUint<N>> for u8`, `impl AsPrimitive<BInt<N>> for char`, `impl TryFrom<BInt<N>> for u16`)
                if not (f.self_text in Symbols.PRIM_SELF and f.trait and f.trait_args in ('UI', 'II') and not f.self_ref): continue
            k = f.key
            if k in self.bykey:
                # const_fn! emits a `nightly` and a non-`nightly` copy with the same body; keep the first, remember both
                self.dups.setdefault(k, []).append(f)
                continue
            self.bykey[k] = f
            if f.trait is None and not f.self_ref:
                self.inherent[(f.self_kind, f.name)] = f
            elif f.trait is not None:
                self.traitfns.setdefault(f.name, []).append(f)
        for f in crate.free_fns:
            self.free.setdefault(f.name, f)
        self.trait_names = set(f.trait for f in crate.fns if f.trait)

    def self_type(self, f):
        if f.self_kind is None:
            if f.self_text in Symbols.PRIM_SELF: return parse_type([Tok('id', f.self_text)], None)
            return None
        t = T_big(f.self_kind)
        return ('ref', t) if f.self_ref else t

    def recv_type(self, f):
        s = self.self_type(f)
        if f.recv in ('ref', 'refmut'): return ('ref', s)
        return s

    def param_types(self, f):
        s = self.self_type(f)
        return [parse_type(ty, s) for _, ty in f.params]

    def ret_type(self, f):
        return parse_type(f.ret, self.self_type(f))

# ------------------------------------------------------------------------------------------------ the translator
class Seq:
    def __init__(self):
        self.binds = []

class Translator:
    def __init__(self, table, syms, f, lhs_const, lhs_pre=(), lhs_post=(), lhs_named=None):
        self.tb = table; self.sy = syms; self.f = f
        self.lhs = lhs_const; self.lhs_pre = list(lhs_pre); self.lhs_post = list(lhs_post); self.lhs_named = dict(lhs_named or {})
        self.prim_self = f.self_kind is None
        self.sig = syms.sigs[lhs_const]
        self.counter = 0
        self.ctx_used = []          # ordered ctx variable names used
        self.consts_used = set()    # lean constants referenced (for imports)
        self.selfty = table.self_type(f)
        self.n_term = None
        self.callees = []           # rust keys the body delegates to (documentation)
        self.macro_depth = 0

    # ---------------------------------------------------------------- naming / context
    def fresh(self):
        self.counter += 1
        return 'v_%d' % self.counter

    def use_ctx(self, name):
        if name == '_w': name = 'w'
        if name not in self.ctx_used: self.ctx_used.append(name)
        return name

    def ctx_term(self, name, kind=None):
        if name in ('w', '_w'): return self.use_ctx('w')
        if name == 'n': return self.N()
        if name == 'T':
            k = kind or (strip_ref(self.selfty)[1] if self.selfty else None)
            self.use_ctx('w')
            c = 'Bnum.Ops.buint' if k == 'UI' else 'Bnum.Ops.bint'
            self.consts_used.add(c)
            return '(%s w %s)' % (c, par(self.N()))
        return self.use_ctx(name)

    def N(self):
        if self.n_term == 'n': self.use_ctx('n')
        return self.n_term

    # ---------------------------------------------------------------- Outcome plumbing
    def pure(self, v, seq):
        if not v.out: return v
        if v.ty == NEVER:
            raise Unsupported('value of a diverging expression used')
        x = self.fresh()
        seq.binds.append((x, v.term))
        return V(x, v.ty, False)

    def ok(self, term):
        return ('ok', term)

    def finalize(self, seq, v, force=False):
        if not v.out and seq.binds and v.term == seq.binds[-1][0]:
            x, tm = seq.binds.pop()
            v = V(tm, v.ty, True)
        if v.out: inner = v.term
        elif seq.binds or force: inner = self.ok(v.term)
        else: return v
        for x, tm in reversed(seq.binds):
            inner = bind_tree(tm, x, inner)
        return V(inner, v.ty, True)

    def join(self, vs):
        out = any(v.out for v in vs)
        terms = [v.term if (v.out or not out) else self.ok(v.term) for v in vs]
        ty = NEVER
        for v in vs:
            if v.ty != NEVER: ty = v.ty; break
        for v in vs:
            if v.ty != NEVER and 'unk' not in repr(v.ty): ty = v.ty; break
        return terms, out, ty

    def ite(self, cond, terms, ty, out):
        if out: return V(('ite', cond, terms[0], terms[1]), ty, True)
        return V('if %s then %s else %s' % (cond, terms[0], terms[1]), ty, False)

    # ---------------------------------------------------------------- entry point
    def translate_fn(self):
        f = self.f
        body = tr_parse.parse_body(f.body)
        env = {}
        binders = []     # (lean name, rust type)
        # value parameters of the Lean constant = trailing parameters of its signature
        rust_vals = []
        if f.recv:
            rust_vals.append(('self', self.tb.recv_type(f)))
        ptys = self.tb.param_types(f)
        pats = []
        for (pat_toks, _), ty in zip(f.params, ptys):
            p = tr_parse.P(list(pat_toks)).pattern()
            pats.append(p)
            if p[0] == 'pbind':
                rust_vals.append((lean_ident(p[1]), ty))
            else:
                rust_vals.append(('p_%d' % len(rust_vals), ty))
        # const generics become leading value parameters
        cgen = []
        for g in split_commas(f.generics):
            if g and is_id(g[0], 'const') and len(g) >= 4:
                cgen.append((lean_ident(g[1].s), parse_type(g[3:], self.selfty)))
        # N: the digit count of Self.  A parameter of type `Self` / `BUint<N>` / `BInt<N>` gives it as `<param>.length`; a parameter
        # whose const generic is another one (`from: BUint<M>`) does not.
        def same_n(i):
            if f.recv and i == 0: return not self.prim_self
            toks = f.params[i - (1 if f.recv else 0)][1]
            tx = text(toks).replace(' ', '')
            return 'Self' in tx or '<N>' in tx
        cand = None
        for i, (nm, ty) in enumerate(rust_vals):
            if is_big(strip_ref(ty)) and same_n(i): cand = nm; break
        vals_in = [(nm, ty) for nm, ty in cgen + rust_vals]
        order, ctx_names = self.layout(self.lhs, self.sig, self.lhs_named, self.lhs_pre, vals_in, self.lhs_post)
        self.n_term = 'n' if ('n' in ctx_names or cand is None) else '%s.length' % cand
        lhs_args = []; names = []
        for how, p, x in order:
            if how == 'ctx': lhs_args.append(self.ctx_term(p[1]))
            elif how == 'fixed':
                x = self.fill_ctx(x); lhs_args.append(x); self.note_consts(x)
            else:
                names.append((x[0], p[2], x[1])); lhs_args.append(x[0])
        for nm, ty in cgen: env[nm] = V(nm, ty)
        if f.recv: env['self'] = V('self', self.tb.recv_type(f))
        idx = 1 if f.recv else 0
        for p, ty in zip(pats, ptys):
            nm = rust_vals[idx][0]; idx += 1
            self.bind_pattern(p, V(nm, ty), env)
        # &mut self functions: the model returns the new value of `self`
        self.mut_self = (f.recv == 'refmut')
        ret_ty = self.tb.ret_type(f)
        self.ret_ty = ret_ty
        v = self.block(body, env, True)
        lean_out = self.sig['ret'].startswith('Bnum.Outcome')
        if v.out and not lean_out:
            raise Unsupported('translated body can panic (Outcome) but the model constant %s is total' % self.lhs)
        if lean_out and not v.out:
            v = V(self.ok(v.term), v.ty, True)
        v = V(render(v.term), v.ty, v.out)
        self.consts_used.add(self.lhs)
        return {'lhs': '%s %s' % (self.lhs, ' '.join(par(a) for a in lhs_args)) if lhs_args else self.lhs,
                'rhs': v.term, 'binders': names, 'ctx': list(self.ctx_used), 'consts': set(self.consts_used),
                'callees': list(self.callees)}

    # ---------------------------------------------------------------- patterns
    def bind_pattern(self, p, v, env):
        k = p[0]
        if k == 'pbind':
            env[p[1]] = v
        elif k == 'pwild':
            pass
        elif k == 'pref':
            self.bind_pattern(p[1], V(v.term, strip_ref(v.ty)), env)
        elif k == 'ptuple':
            ty = strip_ref(v.ty)
            if ty[0] != 'tup' or len(ty[1]) != len(p[1]):
                raise Unsupported('tuple pattern against non-tuple type')
            for i, (sp, st) in enumerate(zip(p[1], ty[1])):
                self.bind_pattern(sp, V(self.proj(v.term, i, len(ty[1])), st), env)
        else:
            raise Unsupported('parameter/let pattern %s' % k)

    def proj(self, term, i, n):
        t = par(term)
        if n == 2: return '%s.%d' % (t, i + 1)
        # right-nested pairs
        s = t
        for _ in range(i): s = '%s.2' % s
        if i < n - 1: s = '%s.1' % s
        return s

    # ---------------------------------------------------------------- blocks and statements
    def block(self, blk, env, tailpos):
        _, stmts, tail, _unsafe = blk
        env = dict(env)
        seq = Seq()
        v = self.stmts(list(stmts), tail, env, seq, tailpos)
        return self.finalize(seq, v)

    CFGS = {'cfg(debug_assertions)': ('dbg', True), 'cfg(not(debug_assertions))': ('dbg', False),
            # the model's `e` is "the target is little-endian" (Model/Endian.lean)
            'cfg(target_endian="little")': ('e', True), 'cfg(not(target_endian="little"))': ('e', False),
            'cfg(target_endian="big")': ('e', False), 'cfg(not(target_endian="big"))': ('e', True)}

    def cfg_of(self, attrs):
        """-> (context variable, value under which the statement is compiled) or None; raises on other cfgs"""
        r = None
        for a in attrs:
            if a.startswith('cfg('):
                if a in self.CFGS: r = self.CFGS[a]
                else: raise Unsupported('statement attribute #[%s]' % a)
        return r

    def stmts(self, stmts, tail, env, seq, tailpos):
        i = 0
        while i < len(stmts):
            st = stmts[i]
            attrs = st[-1]
            c = self.cfg_of(attrs)
            if c is not None:
                # the remaining statements under both settings of debug_assertions
                def filt(flag):
                    out = []
                    for s in stmts[i:]:
                        cc = self.cfg_of(s[-1])
                        if cc is None or cc[0] != c[0]: out.append(s)
                        elif cc[1] == flag: out.append(s[:-1] + ([],))
                    return out
                dbg = self.use_ctx(c[0])
                a = self.sub_stmts(filt(True), tail, env, tailpos)
                b = self.sub_stmts(filt(False), tail, env, tailpos)
                terms, out, ty = self.join([a, b])
                return self.ite(dbg, terms, ty, out)
            kind = st[0]
            if kind == 'item':
                if st[1] == 'use': i += 1; continue
                raise Unsupported('nested item `%s`' % st[1])
            if kind == 'const':
                v = self.pure(self.expr(st[3], env, seq), seq)
                env[st[1]] = v; i += 1; continue
            if kind == 'let':
                _, pat, ty, init, _ = st
                if init is None: raise Unsupported('let without initialiser')
                if tr_parse.contains(pat, ('pbind',)) and self.pat_has_mut(pat) and self.assigned_later(pat, stmts[i + 1:], tail):
                    raise Unsupported('mutable local variable (algorithm)')
                v = self.pure(self.expr(init, env, seq), seq)
                if ty is not None:
                    dty = parse_type(ty, self.selfty)
                    if dty[0] != 'unk' and v.ty in (INT,): v = V(v.term, dty)
                self.bind_pattern(pat, v, env)
                i += 1; continue
            # expression statement
            e = st[1]
            rest = stmts[i + 1:]
            if e[0] == 'return':
                if not tailpos: raise Unsupported('`return` outside tail position')
                if e[1] is None: return V('()', UNIT)
                return self.expr(e[1], env, seq)
            if e[0] == 'macro' and self.is_panic_macro(e):
                return V(('panic',), NEVER, True)
            if e[0] == 'macro' and e[1][-1] == 'assert':
                first = []
                for tk in e[2].ch:
                    if is_p(tk, ','): break
                    first.append(tk)
                cast = tr_parse.P(first).whole_expr()
                # assert!(c, …)  ==  if !c { panic!(…) }
                ife = ('if', ('unary', '!', ('paren', cast)), ('block', [('expr', ('macro', ['panic'], e[2]), True, [])], None, False), None)
                stmts = stmts[:i] + [('expr', ife, False, [])] + rest
                continue
            if e[0] == 'macro':
                ex = self.expand_expr_macro(e)
                if ex is not None:
                    stmts = stmts[:i] + [('expr', ex, st[2], [])] + rest
                    continue
            if e[0] == 'if':
                if not tailpos: raise Unsupported('statement-level `if` outside tail position')
                cond = self.cond(e[1], env, seq)
                thn = self.sub_stmts(self.as_stmts(e[2]) + rest, tail, env, tailpos)
                if e[3] is None:
                    els = self.sub_stmts(rest, tail, env, tailpos)
                else:
                    eb = e[3] if e[3][0] == 'block' else ('block', [('expr', e[3], False, [])], None, False)
                    els = self.sub_stmts(self.as_stmts(eb) + rest, tail, env, tailpos)
                terms, out, ty = self.join([thn, els])
                return self.ite(cond, terms, ty, out)
            if e[0] == 'block':
                stmts = stmts[:i] + self.as_stmts(e) + rest
                continue
            if e[0] == 'assign' and self.mut_self and e[1] == '=' and e[2] == ('unary', '*', ('path', [['self', None]], None)) \
                    and not rest and tail is None:
                return self.expr(e[3], env, seq)
            if e[0] == 'mcall' and self.mut_self and not rest and tail is None and self.is_self_place(e[1]):
                # `self.op_assign(x);` as the last statement of a `&mut self` function: the callee's model returns the new value
                return self.expr(e, env, seq)
            if e[0] in ('while', 'loop', 'for'): raise Unsupported('loop (algorithm)')
            if e[0] == 'assign': raise Unsupported('assignment (algorithm)')
            raise Unsupported('expression statement `%s`' % e[0])
        if tail is None:
            return V('()', UNIT)
        if tail[0] == 'macro' and self.is_panic_macro(tail):
            return V(('panic',), NEVER, True)
        return self.expr(tail, env, seq, tailpos)

    def is_self_place(self, e):
        if e == ('path', [['self', None]], None): return True
        if e[0] == 'paren': return self.is_self_place(e[1])
        if e[0] == 'unary' and e[1] == '*': return self.is_self_place(e[2])
        return False

    def pat_has_mut(self, pat):
        if pat[0] == 'pbind': return pat[2]
        if pat[0] in ('ptuple',): return any(self.pat_has_mut(p) for p in pat[1])
        if pat[0] == 'pts': return any(self.pat_has_mut(p) for p in pat[2])
        return False

    def assigned_later(self, pat, stmts, tail):
        return tr_parse.contains(stmts, ('assign', 'while', 'loop', 'for')) or tr_parse.contains(tail, ('assign', 'while', 'loop', 'for'))

    def as_stmts(self, blk):
        _, stmts, tail, _ = blk
        out = list(stmts)
        if tail is not None: out.append(('expr', tail, False, []))
        return out

    def sub_stmts(self, stmts, tail, env, tailpos):
        # the last expression statement without semicolon of a spliced block acts as the tail
        stmts = list(stmts)
        if tail is None and stmts and stmts[-1][0] == 'expr' and not stmts[-1][2] and not stmts[-1][-1] \
                and stmts[-1][1][0] not in ('if', 'return', 'block') :
            tail = stmts[-1][1]; stmts = stmts[:-1]
        seq = Seq()
        v = self.stmts(stmts, tail, dict(env), seq, tailpos)
        return self.finalize(seq, v)

    # ---------------------------------------------------------------- macros in expression position
    def is_panic_macro(self, e):
        name = e[1][-1]
        if name in ('panic', 'unreachable', 'unimplemented', 'todo'): return True
        mac = self.tb.crate.resolve_macro(e[1], (), {})
        if mac is not None and len(mac.rules) == 1:
            body = mac.rules[0][1]
            if len(body) >= 3 and is_id(body[0], 'panic') and is_p(body[1], '!') and len(body) == 3:
                return True
        return False

    def expand_expr_macro(self, e):
        mac = self.tb.crate.resolve_macro(e[1], (), {})
        if mac is None: return None
        if self.macro_depth > 8: raise Unsupported('macro recursion')
        try:
            toks = expand_macro(mac, e[2].ch)
        except MacroError as ex:
            raise Unsupported('macro %s: %s' % (e[1][-1], ex))
        p = tr_parse.P(toks)
        try:
            stmts, tail = p.block_body()
        except ParseError as ex:
            raise Unsupported('macro %s expansion: %s' % (e[1][-1], ex))
        if not stmts and tail is not None: return tail
        return ('block', stmts, tail, False)

    # ---------------------------------------------------------------- conditions
    CMP = {'==': '=', '!=': '≠', '<': '<', '>': '>', '<=': '≤', '>=': '≥'}

    def cond(self, e, env, seq):
        """Lean term usable after `if`: a Prop for numeric comparisons, else a Bool"""
        while e[0] == 'paren': e = e[1]
        if e[0] == 'binary' and e[1] in self.CMP:
            l = self.pure(self.expr(e[2], env, seq), seq); r = self.pure(self.expr(e[3], env, seq), seq)
            lt, rt = strip_ref(l.ty), strip_ref(r.ty)
            if is_num(lt) and is_num(rt):
                return '%s %s %s' % (par(l.term), self.CMP[e[1]], par(r.term))
            return self.pure(self.cmp_values(e[1], l, r, seq), seq).term
        v = self.pure(self.expr(e, env, seq), seq)
        if strip_ref(v.ty) != BOOL: raise Unsupported('condition of non-bool type')
        return v.term

    def cmp_values(self, op, l, r, seq):
        lt, rt = strip_ref(l.ty), strip_ref(r.ty)
        if is_num(lt) and is_num(rt):
            if op in ('==', '!='): return V('(%s %s %s)' % (par(l.term), op, par(r.term)), BOOL)
            return V('decide (%s %s %s)' % (par(l.term), self.CMP[op], par(r.term)), BOOL)
        if lt == BOOL and rt == BOOL and op in ('==', '!='):
            return V('(%s %s %s)' % (par(l.term), op, par(r.term)), BOOL)
        if is_big(lt) and is_big(rt) and lt == rt:
            key = '%s::cmpop::%s' % (lt[1], op)
            tmpl = self.sy.ops.get(key)
            if tmpl is None: raise Unresolved('operator `%s` on %s' % (op, lt[1]))
            return self.template(tmpl, [l, r], BOOL)
        raise Unsupported('comparison `%s` between %s and %s' % (op, lt[0], rt[0]))

    def template(self, tmpl, args, ty, kind=None):
        """tmpl: {"lean": const, "out": bool}; ctx from signature"""
        c = tmpl['lean']
        return self.apply_const(c, args, ty, kind=kind, pre=tmpl.get('pre', []), post=tmpl.get('post', []), named=tmpl.get('named'))

    def fill_ctx(self, t):
        if '{w}' in t: t = t.replace('{w}', self.use_ctx('w'))
        if '{N}' in t: t = t.replace('{N}', par(self.N()))
        if '{M}' in t: t = t.replace('{M}', self.use_ctx('m'))     # a second const generic of the impl (`impl<const N, const M>`)
        return t

    def layout(self, c, sig, named, pre, vals, post):
        """how the explicit binders of the Lean constant `c` are filled: -> ([(how, binder, x)], names of the context binders)
        how = 'ctx' (a context parameter dbg / w / n / …), 'fixed' (x = a term of the symbol map: positional `pre`/`post`
        or `named` by binder name), 'val' (x = the Rust value that goes there, in order).
        One more convention: the Rust parameter of type `Formatter` is the model's binder `fl : Fmt.Flags` wherever it stands."""
        explicit = [p for p in sig['params'] if p[0] == '(']
        named = dict(named); vals = list(vals); byname = {}
        for i, x in enumerate(vals):
            ty = x[1] if isinstance(x, tuple) else x.ty
            if strip_ref(ty)[0] == 'unk' and strip_ref(ty)[1].replace(' ', '').endswith('Formatter') and any(p[1] == 'fl' for p in explicit):
                byname['fl'] = vals.pop(i); break
        for k in named:
            if not any(p[1] == k for p in explicit):
                raise Unsupported('Lean constant %s has no explicit binder `%s`' % (c, k))
        remaining = [i for i, p in enumerate(explicit) if p[1] not in named and p[1] not in byname]
        npos = len(pre) + len(vals) + len(post)
        if len(remaining) < npos:
            raise Unsupported('Lean constant %s has %d free explicit parameters, the Rust side passes %d' % (c, len(remaining), npos))
        nctx = len(remaining) - npos
        how = {}
        for i, ix in enumerate(remaining):
            p = explicit[ix]
            if i < nctx:
                if p[1] not in CTX_NAMES:
                    raise Unsupported('Lean constant %s: leading parameter `%s` is not a known context parameter' % (c, p[1]))
                how[ix] = ('ctx', p, None)
            elif i < nctx + len(pre): how[ix] = ('fixed', p, pre[i - nctx])
            elif i < nctx + len(pre) + len(vals): how[ix] = ('val', p, vals[i - nctx - len(pre)])
            else: how[ix] = ('fixed', p, post[i - nctx - len(pre) - len(vals)])
        for ix, p in enumerate(explicit):
            if p[1] in named: how[ix] = ('fixed', p, named[p[1]])
            elif p[1] in byname: how[ix] = ('val', p, byname[p[1]])
        return [how[ix] for ix in range(len(explicit))], [explicit[ix][1] for ix in remaining[:nctx]]

    def apply_const(self, c, args, ty, kind=None, pre=(), cargs=(), post=(), named=None, n_override=None):
        sig = self.sy.sigs.get(c)
        if sig is None: raise Unresolved('Lean constant %s not in the signature table' % c)
        order, _ = self.layout(c, sig, named or {}, list(pre), list(cargs) + list(args), list(post))
        parts = [c]
        saved = self.n_term
        if n_override is not None: self.n_term = n_override
        try:
            for how, p, x in order:
                if how == 'ctx': parts.append(par(self.ctx_term(p[1], kind)))
                elif how == 'fixed':
                    x = self.fill_ctx(x); parts.append(par(x)); self.note_consts(x)
                else: parts.append(par(x.term))
        finally:
            self.n_term = saved
        self.consts_used.add(c)
        return V(' '.join(parts), ty, sig['ret'].startswith('Bnum.Outcome'))

    def note_consts(self, term):
        for m in re.finditer(r'Bnum(?:\.[A-Za-z_][A-Za-z0-9_]*)+', term):
            self.consts_used.add(m.group(0))

    # ---------------------------------------------------------------- expressions
    def expr(self, e, env, seq, tailpos=False):
        k = e[0]
        if k == 'paren': return self.expr(e[1], env, seq, tailpos)
        if k == 'lit':
            if e[1] == 'bool': return V(e[2], BOOL)
            if e[1] == 'num':
                m = re.match(r'^(0x[0-9a-fA-F_]+|0b[01_]+|0o[0-7_]+|[0-9][0-9_]*)([iu](8|16|32|64|128|size))?$', e[2])
                if not m: raise Unsupported('literal %s' % e[2])
                digits = m.group(1).replace('_', '')
                val = int(digits, 0) if digits[:2] in ('0x', '0b', '0o') else int(digits)
                return V(str(val), INT)
            raise Unsupported('%s literal' % e[1])
        if k == 'path': return self.path_value(e, env)
        if k == 'block': return self.block(e, env, tailpos)
        if k == 'tuple':
            vs = [self.pure(self.expr(x, env, seq), seq) for x in e[1]]
            if not vs: return V('()', UNIT)
            return V('(' + ', '.join(v.term for v in vs) + ')', ('tup', [v.ty for v in vs]))
        if k == 'unary': return self.unary(e, env, seq)
        if k == 'binary': return self.binary(e, env, seq)
        if k == 'cast':
            v = self.pure(self.expr(e[1], env, seq), seq)
            tgt = parse_type(e[2], self.selfty)
            src = strip_ref(v.ty)
            if src in (U32, INT) and tgt in (U32, USIZE): return V(v.term, tgt)
            if src == USIZE and tgt in (USIZE, U32): return V(v.term, tgt)   # only compile-time sizes (N, BITS) have type usize
            if src == USIZE and False: pass
            if src[0] == 'prim' and src[1] == 'char' and tgt == U32:
                return V(v.term, U32)      # a `char` is modelled by its code point: `c as u32` is the identity
            sname = 'u32' if src == U32 else src[1] if src[0] == 'prim' else None
            tname = 'u32' if tgt == U32 else tgt[1] if tgt[0] == 'prim' else None
            if sname in PRIM_BITS_ALL and tname in PRIM_BITS_ALL and not (src == U32 and v.term.isdigit()):
                # `x as T` between primitive integers: the leaf `PInt.cast bits signed bits'` (Model/Cast.lean)
                self.consts_used.add('Bnum.PInt.cast')
                return V('Bnum.PInt.cast %d %s %d %s' % (PRIM_BITS_ALL[sname], 'true' if sname[0] == 'i' else 'false', PRIM_BITS_ALL[tname], par(v.term)), tgt)
            if src[0] == 'prim' and src[1] in PRIM_BITS and tgt == U32:
                # `x as ExpType` of a primitive integer: the (trusted) leaf `PInt.cast bits signed 32`
                self.consts_used.add('Bnum.PInt.cast')
                return V('Bnum.PInt.cast %d %s 32 %s' % (PRIM_BITS[src[1]], 'true' if src[1][0] == 'i' else 'false', par(v.term)), U32)
            raise Unsupported('cast from %s to %s' % (src[0] if src[0] != 'prim' else src[1], text(e[2])))
        if k == 'field':
            v = self.pure(self.expr(e[1], env, seq), seq)
            ty = strip_ref(v.ty)
            if e[2].isdigit():
                if ty[0] != 'tup': raise Unsupported('tuple projection of non-tuple')
                i = int(e[2])
                return V(self.proj(v.term, i, len(ty[1])), ty[1][i])
            if e[2] == 'bits' and ty == T_big('II'):
                return V(v.term, T_big('UI'))
            raise Unsupported('field `.%s` (digit-level code)' % e[2])
        if k == 'if':
            cond = self.cond(e[1], env, seq)
            a = self.block(e[2], env, tailpos)
            if e[3] is None: raise Unsupported('`if` without `else` used as a value')
            b = self.block(e[3], env, tailpos) if e[3][0] == 'block' else self.finalize_expr(e[3], env, tailpos)
            terms, out, ty = self.join([a, b])
            return self.ite(cond, terms, ty, out)
        if k == 'iflet':
            if e[4] is None: raise Unsupported('`if let` without `else` used as a value')
            els = e[4] if e[4][0] == 'block' else ('block', [], e[4], False)
            return self.match(('match', e[2], [(e[1], None, e[3]), (('pwild',), None, els)]), env, seq, tailpos)
        if k == 'match': return self.match(e, env, seq, tailpos)
        if k == 'call': return self.call(e, env, seq, self.ret_ty if tailpos else None)
        if k == 'mcall': return self.mcall(e, env, seq, self.ret_ty if tailpos else None)
        if k == 'macro':
            if self.is_panic_macro(e): return V(('panic',), NEVER, True)
            ex = self.expand_expr_macro(e)
            if ex is None: raise Unsupported('macro `%s!`' % '::'.join(e[1]))
            self.macro_depth += 1
            try:
                return self.expr(ex, env, seq, tailpos)
            finally:
                self.macro_depth -= 1
        if k == 'return':
            if not tailpos: raise Unsupported('`return` outside tail position')
            if e[1] is None: return V('()', UNIT)
            return self.expr(e[1], env, seq, True)
        if k in ('while', 'loop', 'for'): raise Unsupported('loop (algorithm)')
        if k == 'index': raise Unsupported('indexing (algorithm)')
        if k == 'assign': raise Unsupported('assignment (algorithm)')
        raise Unsupported('expression kind `%s`' % k)

    def finalize_expr(self, e, env, tailpos):
        seq = Seq()
        v = self.expr(e, env, seq, tailpos)
        return self.finalize(seq, v)

    # ---------------------------------------------------------------- paths
    def kind_of_type_name(self, name):
        if name == 'Self':
            st = strip_ref(self.selfty) if self.selfty else None
            return st[1] if st and is_big(st) else None
        if name == 'BUint': return 'UI'
        if name == 'BInt': return 'II'
        return None

    def path_value(self, e, env):
        segs = e[1]
        if e[2] is not None: raise Unsupported('qualified path')
        names = [s[0] for s in segs if s[0] not in ('crate',)]
        if len(names) == 1:
            nm = names[0]
            if nm in env: return env[nm]
            if nm == 'None': return V('none', ('opt', ('unk', '?')))
            if nm == 'N':
                return V(self.N(), USIZE)
            raise Unsupported('free identifier `%s`' % nm)
        if len(names) == 2:
            k = self.kind_of_type_name(names[0])
            if k is not None:
                if names[1] in self.f.impl_consts and names[0] == 'Self':
                    ty, ex = self.f.impl_consts[names[1]]
                    if not ex: raise Unsupported('associated const without value')
                    ast = tr_parse.P(list(ex)).whole_expr()
                    s2 = Seq()
                    v = self.expr(ast, {}, s2)
                    if s2.binds or v.out: raise Unsupported('associated const with effects')
                    dty = parse_type(ty, self.selfty)
                    return V(v.term, dty if dty[0] != 'unk' else v.ty)
                ent = self.sy.consts.get('%s::%s' % (k, names[1]))
                if ent is None: raise Unresolved('constant %s::%s' % (k, names[1]))
                self.use_ctx('w') if '{w}' in ent['lean'] else None
                term = ent['lean'].replace('{w}', 'w').replace('{N}', par(self.N()) if '{N}' in ent['lean'] else '')
                self.note_consts(term)
                ty = {'Self': T_big(k), 'u32': U32, 'usize': USIZE, 'UI': T_big('UI'), 'II': T_big('II')}[ent['ty']]
                return V(term, ty)
            if names[0] == 'Ordering':
                m = {'Less': 'Ordering.lt', 'Equal': 'Ordering.eq', 'Greater': 'Ordering.gt'}.get(names[1])
                if m: return V(m, ORD)
        raise Unsupported('path `%s`' % '::'.join(names))

    # ---------------------------------------------------------------- operators
    def unary(self, e, env, seq):
        op = e[1]
        v = self.pure(self.expr(e[2], env, seq), seq)
        if op in ('&', '&mut'): return V(v.term, ('ref', v.ty))
        if op == '*':
            if v.ty[0] == 'ref': return V(v.term, v.ty[1])
            raise Unsupported('deref of non-reference')
        ty = strip_ref(v.ty)
        if op == '!':
            if ty == BOOL: return V('!%s' % par(v.term), BOOL)
            if is_big(ty): return self.op_trait('Not', 'not', [v])
            raise Unsupported('`!` on %s' % ty[0])
        if op == '-':
            if is_big(ty): return self.op_trait('Neg', 'neg', [v])
            if ty[0] == 'prim' and ty[1] in ('f32', 'f64') and 'float::neg' in self.sy.prim_methods:
                ent = self.sy.prim_methods['float::neg']
                return self.apply_const(ent['lean'], [v], ty, named={k2: v2.replace('{F}', Symbols.prim_subst(ty[1])['F']) for k2, v2 in ent.get('named', {}).items()})
            raise Unsupported('unary minus on %s' % ty[0])
        raise Unsupported('unary `%s`' % op)

    OPTRAIT = {'+': ('Add', 'add'), '-': ('Sub', 'sub'), '*': ('Mul', 'mul'), '/': ('Div', 'div'), '%': ('Rem', 'rem'),
               '&': ('BitAnd', 'bitand'), '|': ('BitOr', 'bitor'), '^': ('BitXor', 'bitxor'), '<<': ('Shl', 'shl'), '>>': ('Shr', 'shr')}
    NATOP = {'&': '&&&', '|': '|||', '^': '^^^', '%': '%'}

    def binary(self, e, env, seq):
        op = e[1]
        if op in ('&&', '||'):
            l = self.pure(self.expr(e[2], env, seq), seq)
            # the right operand is evaluated lazily; it must be effect-free to be written as a Bool operator
            s2 = Seq()
            r = self.expr(e[3], env, s2)
            if s2.binds or r.out: raise Unsupported('short-circuit operator with a panicking right operand')
            if strip_ref(l.ty) != BOOL or strip_ref(r.ty) != BOOL: raise Unsupported('`%s` on non-bool' % op)
            return V('(%s %s %s)' % (par(l.term), op, par(r.term)), BOOL)
        l = self.pure(self.expr(e[2], env, seq), seq)
        r = self.pure(self.expr(e[3], env, seq), seq)
        if op in self.CMP:
            return self.cmp_values(op, l, r, seq)
        lt, rt = strip_ref(l.ty), strip_ref(r.ty)
        if lt == BOOL and rt == BOOL and op in ('^', '&', '|'):
            return V('(%s %s %s)' % (par(l.term), {'^': '^^', '&': '&&', '|': '||'}[op], par(r.term)), BOOL)
        if is_big(lt):
            tr, m = self.OPTRAIT[op]
            return self.op_trait(tr, m, [l, r])
        if is_num(lt) and is_num(rt):
            if op in self.NATOP:
                ty = lt if lt != INT else rt
                return V('(%s %s %s)' % (par(l.term), self.NATOP[op], par(r.term)), ty)
            raise Unsupported('`%s` on machine integers (overflow semantics)' % op)
        raise Unsupported('`%s` on %s' % (op, lt[0]))

    def op_trait(self, trait, method, args):
        """operator on big integers = the core::ops trait impl of the crate"""
        a0 = args[0].ty
        cands = []
        for f in self.tb.traitfns.get(method, []):
            if f.trait != trait: continue
            st = self.tb.self_type(f)
            if st != a0: continue
            if len(args) == 2:
                want = norm_ty_key(args[1].ty)
                if args[1].ty == INT: want = None
                ta = f.trait_args or norm_ty_key(st)
                if want is not None and ta != want: continue
                if want is None and ta not in ('i32',): continue
            cands.append(f)
        if len(cands) != 1:
            raise Unresolved('operator impl %s::%s for %s%s' % (trait, method, norm_ty_key(a0),
                             ('<' + norm_ty_key(args[1].ty) + '>') if len(args) == 2 else ''))
        return self.call_fn(cands[0], args, [])

    # ---------------------------------------------------------------- calls
    def call(self, e, env, seq, expect=None):
        fn = e[1]
        if fn[0] != 'path': raise Unsupported('call of a non-path expression')
        segs = [s for s in fn[1] if s[0] != 'crate']
        if fn[2] is not None:
            # `<u8>::cast_from(x)`: a primitive type written as a qualified path
            q = [t for t in fn[2]]
            if len(q) == 1 and q[0].k == 'id' and (q[0].s in Symbols.PRIM_SELF or q[0].s == 'ExpType'):
                segs = [[q[0].s, None]] + segs
            else:
                raise Unsupported('qualified-path call `<%s>::…`' % text(fn[2]))
        names = [s[0] for s in segs]
        args_ast = e[2]
        if len(names) == 1:
            nm = names[0]
            if nm == 'Some':
                inner = expect[1] if expect is not None and expect[0] == 'opt' else None
                a0 = args_ast[0]
                while a0[0] == 'paren': a0 = a0[1]
                if a0[0] == 'mcall' and inner is not None:
                    v = self.pure(self.mcall(a0, env, seq, inner), seq)
                else:
                    v = self.pure(self.expr(a0, env, seq), seq)
                return V('some %s' % par(v.term), ('opt', v.ty))
            if nm in ('Ok', 'Err'):
                # `Result` whose error value is discarded is modelled as `Option` (Model/Convert.lean): Ok(x) = some x, Err(_) = none
                if self.ret_ty[0] != 'res': raise Unsupported('Result constructor')
                if nm == 'Err': return V('none', ('res', ('unk', '?'), ''))
                v = self.pure(self.expr(args_ast[0], env, seq), seq)
                return V('some %s' % par(v.term), ('res', v.ty, ''))
            if nm in self.sy.free_fns_special: pass
            f = self.tb.free.get(nm)
            if f is None: raise Unresolved('free function `%s`' % nm)
            args = [self.pure(self.expr(a, env, seq), seq) for a in args_ast]
            return self.call_free(f, args)
        # const generic arguments (turbofish on the last segment)
        cargs = []
        if segs[-1][1]:
            for g in segs[-1][1]:
                try:
                    ast = tr_parse.P(list(g)).whole_expr()
                except ParseError:
                    raise Unsupported('generic argument `%s`' % text(g))
                if ast[0] == 'lit' or (ast[0] == 'path' and len(ast[1]) == 1 and ast[1][0][0] in env):
                    cargs.append(self.pure(self.expr(ast, env, seq), seq))
                else:
                    raise Unsupported('generic argument `%s`' % text(g))
        args = [self.pure(self.expr(a, env, seq), seq) for a in args_ast]
        tyname = names[-2]; mname = names[-1]
        # `BUint::<M>::f(..)`: the callee's digit count is another const generic of the impl
        n_override = None
        if segs[-2][1] and self.kind_of_type_name(tyname) is not None:
            g = segs[-2][1]
            if len(g) == 1 and len(g[0]) == 1 and g[0][0].k == 'id':
                if g[0][0].s == 'M': n_override = self.use_ctx('m')
                elif g[0][0].s != 'N': raise Unsupported('generic argument `%s`' % text(g[0]))
            else:
                raise Unsupported('generic arguments of `%s`' % tyname)
        if len(names) == 2 and tyname in ('ExpType', 'u32') and len(args) == 1:
            at = strip_ref(args[0].ty)
            cls = 'prim' if at[0] == 'prim' else ('big' if is_big(at) else None)
            ent = self.sy.prim_fns.get('u32::%s<%s>' % (mname, cls)) if cls else None
            if ent is not None:
                sub = {'{prim}': at[1] if cls == 'prim' else '', '{ks}': 'true' if at == T_big('II') else 'false'}
                def fill(t):
                    for a, b in sub.items(): t = t.replace(a, b)
                    return t
                rty = {'res_u32': ('res', U32, ''), 'opt_u32': ('opt', U32), 'u32': U32}[ent['ty']]
                self.callees.append('u32::%s<%s>' % (mname, norm_ty_key(at)))
                return self.apply_const(ent['lean'], args, rty, pre=[fill(x) for x in ent.get('pre', [])], post=[fill(x) for x in ent.get('post', [])])
        if len(names) == 2 and (tyname in Symbols.PRIM_SELF or tyname == 'ExpType'):
            # associated function of a primitive type: one of the crate's trait impls FOR that type, chosen by the argument types
            pn = 'u32' if tyname == 'ExpType' else tyname
            cands = [g for g in self.tb.traitfns.get(mname, []) if g.self_kind is None and g.self_text == pn and self.trait_in_scope(g.trait)]
            cands = self.uniq_by_lean(self.strict_args(cands, args))
            if len(cands) != 1: raise Unresolved('function `%s::%s` on %s' % (tyname, mname, ', '.join(norm_ty_key(strip_ref(a.ty)) for a in args)))
            return self.call_fn(cands[0], args, cargs)
        k = self.kind_of_type_name(tyname)
        if k is not None and len(names) == 2:
            if '%s::%s' % (k, mname) in self.sy.identity:
                if len(args) != 1: raise Unsupported('identity function arity')
                return V(args[0].term, T_big(k) if mname == 'from_bits' else T_big('UI' if k == 'II' else 'II'))
            f = self.tb.inherent.get((k, mname))
            if f is None:
                cands = [g for g in self.tb.traitfns.get(mname, []) if g.self_kind == k and not g.self_ref and self.trait_in_scope(g.trait)]
                if len(self.uniq_by_lean(cands)) > 1: cands = self.strict_args(cands, args)
                cands = self.uniq_by_lean(cands)
                if len(cands) != 1: raise Unresolved('associated function %s::%s' % (k, mname))
                f = cands[0]
            return self.call_fn(f, args, cargs, n_override)
        if tyname in self.tb.trait_names:
            targs = segs[-2][1]
            cands = []
            for g in self.tb.traitfns.get(mname, []):
                if g.trait != tyname: continue
                rt = self.tb.recv_type(g) if g.recv else None
                if rt is None or not args: continue
                if not self.ty_compat(rt, args[0].ty): continue
                if targs is not None:
                    want = ','.join(norm_ty_key(parse_type(t, self.selfty)) for t in targs)
                    if (g.trait_args or norm_ty_key(self.tb.self_type(g))) != want: continue
                cands.append(g)
            cands = self.by_arg_types(cands, args)
            cands = self.uniq_by_lean(cands)
            if len(cands) != 1: raise Unresolved('trait call %s::%s' % (tyname, mname))
            return self.call_fn(cands[0], args, cargs)
        raise Unresolved('function `%s`' % '::'.join(names))

    def ty_compat(self, want, got):
        """argument of type `got` passed where `want` is expected (auto-deref of `&&T` to `&T` allowed)"""
        if want == got: return True
        if got == INT and is_num(want): return True
        if want[0] == 'ref' and got[0] == 'ref':
            if self.ty_compat(want[1], got[1]): return True
            if got[1][0] == 'ref': return self.ty_compat(want, got[1])
        return False

    def by_arg_types(self, cands, args):
        """keep the candidates whose parameter types accept the argument types (receiver = args[0])"""
        if len(cands) <= 1: return cands
        out = []
        for g in cands:
            ptys = self.tb.param_types(g)
            rest = args[1:] if g.recv else args
            if len(ptys) != len(rest): continue
            if all(self.ty_compat(pt, a.ty) for pt, a in zip(ptys, rest)):
                out.append(g)
        return out or cands

    def strict_args(self, cands, args):
        """the candidates whose parameter types are exactly (up to auto-deref) the argument types"""
        out = []
        for g in cands:
            ptys = self.tb.param_types(g)
            rest = args[1:] if g.recv else args
            if len(ptys) == len(rest) and all(self.ty_compat(pt, a.ty) for pt, a in zip(ptys, rest)):
                out.append(g)
        return out

    def uniq_by_lean(self, cands):
        seen = {}
        for c in cands:
            seen.setdefault(self.sy.model_id(c.key) or c.key, c)
        return list(seen.values())

    def trait_in_scope(self, trait):
        return trait in PRELUDE_TRAITS or trait in self.f.uses or trait == self.f.trait

    def mcall(self, e, env, seq, expect=None):
        _, recv_ast, name, gen, args_ast = e
        recv = self.pure(self.expr(recv_ast, env, seq), seq)
        base = strip_ref(recv.ty)
        if is_big(base):
            k = base[1]
            if '%s::%s' % (k, name) in self.sy.identity and not args_ast:
                return V(recv.term, T_big('UI' if k == 'II' else 'II') if name != 'from_bits' else T_big(k))
            args = [self.pure(self.expr(a, env, seq), seq) for a in args_ast]
            cargs = []
            if gen:
                for g in split_commas(gen):
                    ast = tr_parse.P(list(g)).whole_expr()
                    if ast[0] != 'lit': raise Unsupported('generic argument `%s`' % text(g))
                    cargs.append(self.expr(ast, env, seq))
            f = self.resolve_method(recv.ty, name, [recv] + args, expect)
            if f is None: raise Unresolved('method `%s` on %s' % (name, norm_ty_key(recv.ty)))
            return self.call_fn(f, [recv] + args, cargs)
        if base[0] == 'opt' and name == 'unwrap_unchecked' and not args_ast:
            # `unwrap_unchecked()`: undefined behaviour on `None`; the model keeps the `Option` visible (identity)
            return V(recv.term, base)
        # methods of primitive values
        args = [self.pure(self.expr(a, env, seq), seq) for a in args_ast]
        pname = base[0] if base[0] != 'prim' else base[1]
        key = '%s::%s' % (pname, name)
        ent = self.sy.prim_methods.get(key)
        if ent is None:
            # a method of a whole CLASS of primitive types; the type itself is passed to the model as a value ({pty} / {F})
            for cls in sorted(Symbols.type_classes(pname)):
                ent = self.sy.prim_methods.get('%s::%s' % (cls, name))
                if ent is not None: break
        if ent is None: raise Unresolved('method `%s` on %s' % (name, key.split('::')[0]))
        rty = {'u32': U32, 'bool': BOOL, 'opt_u32': ('opt', U32), 'self': base}[ent['ty']]
        sub = Symbols.prim_subst(pname)
        named = {k2: re.sub(r'\{(\w+)\}', lambda m: sub.get(m.group(1), m.group(0)), v2) for k2, v2 in ent.get('named', {}).items()}
        return self.apply_const(ent['lean'], [recv] + args, rty, named=named)

    def resolve_method(self, recv_ty, name, args=None, expect=None):
        """Rust method probing restricted to the crate's own impls for BUint / BInt"""
        chain = [recv_ty]
        while chain[-1][0] == 'ref': chain.append(chain[-1][1])
        for T in chain:
            for cand in (T, ('ref', T)):
                base = strip_ref(cand)
                if not is_big(base): continue
                k = base[1]
                f = self.tb.inherent.get((k, name))
                if f is not None and f.recv and self.tb.recv_type(f) == cand:
                    return f
                found = [g for g in self.tb.traitfns.get(name, [])
                         if g.recv and self.tb.recv_type(g) == cand and self.trait_in_scope(g.trait)]
                if args is not None: found = self.by_arg_types(found, args)
                if expect is not None and len(self.uniq_by_lean(found)) > 1:
                    # the expected type of the call selects the impl (`Some(self.as_())` in a function returning Option<f32>)
                    found = [g for g in found if self.tb.ret_type(g) == expect]
                found = self.uniq_by_lean(found)
                if len(found) == 1: return found[0]
                if len(found) > 1:
                    raise Unresolved('ambiguous trait method `%s` (%s)' % (name, ', '.join(g.trait for g in found)))
        return None

    def call_fn(self, f, args, cargs, n_override=None):
        """call of a crate function `f` (FnItem of a BUint/BInt impl)"""
        key = f.key
        ent = self.sy.lookup(key)
        if ent is None: raise Unresolved('no model constant for `%s`' % key)
        c = ent['lean']
        self.callees.append(key)
        n_expected = len(f.params) + (1 if f.recv else 0)
        if len(args) != n_expected:
            raise Unsupported('call of %s with %d arguments (expects %d)' % (key, len(args), n_expected))
        ret = self.tb.ret_type(f)
        if f.recv == 'refmut' and ret == UNIT:
            ret = strip_ref(self.tb.self_type(f))
        return self.apply_const(c, args, ret, kind=f.self_kind, cargs=cargs, pre=ent['pre'], post=ent['post'], named=ent['named'], n_override=n_override)

    def call_free(self, f, args):
        key = 'fn::' + f.name
        ent = self.sy.fn_map.get(key)
        if ent is None: raise Unresolved('no model constant for free function `%s`' % f.name)
        c = ent if isinstance(ent, str) else ent['lean']
        self.callees.append(key)
        # return type: instantiate a single type parameter from the argument
        ret_toks = f.ret
        ty = parse_type(ret_toks, None)
        if f.name == 'tuple_to_option' and args and strip_ref(args[0].ty)[0] == 'tup':
            ty = ('opt', strip_ref(args[0].ty)[1][0])
        return self.apply_const(c, args, ty)

    # ---------------------------------------------------------------- match
    def match(self, e, env, seq, tailpos):
        _, scrut_ast, arms = e
        # `match (a, b) { (false, true) => … }` : Lean multi-discriminant match
        if scrut_ast[0] == 'tuple':
            ss = [self.pure(self.expr(x, env, seq), seq) for x in scrut_ast[1]]
            scrut_terms = [s.term for s in ss]; stys = [strip_ref(s.ty) for s in ss]
            multi = True
        else:
            s = self.pure(self.expr(scrut_ast, env, seq), seq)
            scrut_terms = [s.term]; stys = [strip_ref(s.ty)]
            multi = False
        pats = []; bodies = []; bounds = []
        for pat, guard, body in arms:
            if guard is not None: raise Unsupported('match guard')
            env2 = dict(env)
            before = dict(env2)
            if multi:
                if pat[0] == 'pwild': ptxt = ', '.join('_' for _ in stys)
                elif pat[0] == 'ptuple' and len(pat[1]) == len(stys):
                    ptxt = ', '.join(self.pat(p, t, env2) for p, t in zip(pat[1], stys))
                else: raise Unsupported('pattern shape in tuple match')
            else:
                ptxt = self.pat(pat, stys[0], env2)
            pats.append(ptxt)
            bounds.append([v.term for k2, v in env2.items() if before.get(k2) is not v])
            if body[0] == 'block': bodies.append(self.block(body, env2, tailpos))
            else: bodies.append(self.finalize_expr(body, env2, tailpos))
        terms, out, ty = self.join(bodies)
        scr = ', '.join(scrut_terms)
        if out:
            return V(('match', scr, list(zip(pats, bounds, terms))), ty, True)
        txt = 'match %s with' % scr
        for p, t in zip(pats, terms):
            txt += ' | %s => %s' % (p, t)
        return V('(' + txt + ')', ty, out)

    def pat(self, p, ty, env):
        k = p[0]
        if k == 'pwild': return '_'
        if k == 'pref': return self.pat(p[1], strip_ref(ty), env)
        if k == 'pbind':
            nm = lean_ident(p[1]); env[p[1]] = V(nm, ty); return nm
        if k == 'plit':
            if p[1] in ('true', 'false'):
                if ty != BOOL: raise Unsupported('bool pattern against %s' % ty[0])
                return p[1]
            if is_num(ty) and re.match(r'^\d+$', p[1]): return p[1]
            raise Unsupported('literal pattern %s' % p[1])
        if k == 'pts':
            if p[1] == 'Some' and ty[0] == 'opt' and len(p[2]) == 1:
                return 'some %s' % self.patp(p[2][0], ty[1], env)
            if p[1] == 'Ok' and ty[0] == 'res' and len(p[2]) == 1:
                return 'some %s' % self.patp(p[2][0], ty[1], env)
            if p[1] == 'Err' and ty[0] == 'res' and len(p[2]) == 1 and p[2][0][0] == 'pwild':
                return 'none'
            raise Unsupported('pattern %s(..)' % p[1])
        if k == 'ppath':
            if p[1] == 'None' and ty[0] == 'opt': return 'none'
            if ty == ORD and p[1].startswith('Ordering::'):
                return {'Less': '.lt', 'Equal': '.eq', 'Greater': '.gt'}[p[1].split('::')[1]]
            raise Unsupported('pattern %s' % p[1])
        if k == 'ptuple':
            if ty[0] != 'tup' or len(ty[1]) != len(p[1]): raise Unsupported('tuple pattern')
            return '(' + ', '.join(self.pat(sp, st, env) for sp, st in zip(p[1], ty[1])) + ')'
        if k == 'por':
            return ' | '.join(self.pat(sp, ty, dict(env)) for sp in p[1])
        raise Unsupported('pattern kind %s' % k)

    def patp(self, p, ty, env):
        s = self.pat(p, ty, env)
        return s if ATOM.match(s) or s.startswith('(') else '(' + s + ')'
