"""C08 cases: powers and integer logarithms."""
from .common import *
from . import widthsweep as _ws

HARNESS_BINS_THOROUGH = ["widths"]


def iroot(x, k):
    lo, hi = 0, 1 << (x.bit_length() // k + 1)
    while lo < hi:
        mid = (lo + hi + 1) // 2
        if mid ** k <= x:
            lo = mid
        else:
            hi = mid - 1
    return lo


def pow_case(rng, w, n, signed):
    """(tag, base pattern, exponent): a^e just below / at / above the limit; +-1, 0, 2 with huge exponents"""
    W = w * n
    M = 1 << W
    H = M >> 1
    c = rng.randrange(12)
    if c == 0:
        return "tiny-base-huge-exp", rng.choice([0, 1, M - 1, 2, M - 2]), rng.choice([0, 1, 2, 3, W - 1, W, W + 1, (1 << 32) - 1, (1 << 32) - 2, (1 << 31), rng.randrange(1 << 32)])
    if c == 1:
        # +-2^k bases with exponents such that k*e wraps around 2^32 (u32 exponent arithmetic)
        k = rng.choice([1, 2, 3, 4, 8, 16, 31, 32, rng.randrange(1, W)])
        b = (1 << k) % M
        if signed and rng.random() < 0.5:
            b = pat(-(1 << k), W)
        e = rng.choice([(1 << 32) // k, (1 << 32) // k + 1, (1 << 31), (1 << 30), (1 << 28) + 1, (1 << 29) + 2, 0xAAAAAAAB, (1 << 32) - 1, W // k, W // k + 1, max(0, W // k - 1)])
        return "pow2base-huge-exp", b, min(e, (1 << 32) - 1)
    if c == 2:
        # base = +-(2^t * m), m odd: a^e wraps to exactly 0 / MIN when t*e reaches BITS / BITS-1
        t = rng.choice([1, 1, 2, 3, 4, 5, 8, rng.randrange(1, max(2, W // 2))])
        m_ = rng.choice([3, 5, 7, 3, 9, 15, 255, rng.randrange(1, 1 << 10) | 1])
        b = (m_ << t)
        e = max(0, rng.choice([(W - 1) // t, W // t, (W - 1) // t + 1, (W - 1) // t - 1, -(-(W - 1) // t)]))
        if signed and rng.random() < 0.6:
            b = -b
        return "2adic-base", pat(b, W), e
    if c <= 5:
        e = rng.choice([2, 3, 4, 5, 7, 8, 15, 16, 31, rng.randrange(2, max(3, W))])
        lim = H if signed else M
        r = iroot(lim - 1, e)
        b = max(0, r + rng.choice([-1, 0, 0, 1, 1, 2]))
        if signed and rng.random() < 0.5:
            # negative base hitting exactly MIN (e odd) or overflowing
            r2 = iroot(H, e)
            b = -(r2 + rng.choice([-1, 0, 0, 1]))
        return "straddle", pat(b, W), e
    if c == 6:
        k = rng.randrange(0, W)
        return "pow2base", (1 << k) % M, rng.choice([0, 1, 2, 3, W // max(1, k) if k else 5, W // max(1, k) + 1 if k else 6])
    if c == 7:
        t, a = value(rng, w, n)
        return t, a, rng.choice([0, 1, 2, 3])
    t, a = value(rng, w, n)
    return t, a, rng.randrange(0, 40)


def log_case(rng, w, n, signed):
    W = w * n
    M = 1 << W
    lim = (M >> 1) if signed else M
    c = rng.randrange(10)
    if c <= 4:
        b = rng.choice([2, 3, 7, 10, 16, 255, 256, 1 << (w - 1), (1 << w) - 1, 1 << w, (1 << w) + 1, rng.randrange(2, 1 << min(W - 1, 40))]) % lim
        if b < 2:
            b = 2
        k = rng.randrange(0, 70)
        x = (b ** k + rng.choice([-1, 0, 1])) % lim
        return "b^k", pat(x, W), pat(b, W)
    if c == 7 and n >= 2:
        # exact powers (+-1) of a MULTI-digit base with extreme digits: ilog divides by the base repeatedly, so the
        # quotient-digit estimates of the long division see exact multiples (added after seeded change C08-r5m2)
        B = 1 << w
        dl = rng.randrange(2, max(3, n // 2 + 1))
        b = sum(rng.choice([0, 1, B - 1, B // 2, B // 2 - 1, rng.randrange(B), rng.randrange(B)]) << (w * i) for i in range(dl - 1))
        b |= rng.choice([1, 2, B // 2, B // 2 + 1, B - 1, rng.randrange(1, B)]) << (w * (dl - 1))
        kmax = max(1, (W - 1 if signed else W) // max(1, b.bit_length()))
        k = rng.choice([1, 2, 2, 3, kmax, max(1, kmax - 1), rng.randrange(1, kmax + 1)])
        x = b ** k + rng.choice([-1, 0, 0, 0, 1])
        if 0 < x < lim and 2 <= b < lim:
            return "multi-digit-base^k", pat(x, W), pat(b, W)
    if c == 5:
        t, a = value(rng, w, n)
        return "badbase", a, rng.choice([0, 1, M - 1, M - 2])
    if c == 6:
        return "nonpositive", rng.choice([0, M - 1, M >> 1]), rng.choice([2, 10])
    t, a, b = pair(rng, w, n)
    return t, a, b


def _gen_main(rng, tier):
    reps = 100 if tier == "thorough" else 14
    for cfg in cfgs(tier):
        w, n = wn(cfg)
        if n > 40:
            continue
        for _ in range(reps):
            for s in "ui":
                for op in ("overflowing_pow", "checked_pow", "wrapping_pow", "saturating_pow", "strict_pow"):
                    t, a, e = pow_case(rng, w, n, s == "i")
                    yield f"{op} {s}{cfg} {hx(a)} {e}", t
                t, a, e = pow_case(rng, w, n, s == "i")
                for mode in ("dbg", "rel"):
                    yield f"pow {s}{cfg} {mode} {hx(a)} {e}", t
                t, a, b = log_case(rng, w, n, s == "i")
                yield f"checked_ilog {s}{cfg} {hx(a)} {hx(b)}", t
                for mode in ("dbg", "rel"):
                    yield f"ilog {s}{cfg} {mode} {hx(a)} {hx(b)}", t
                t, a, b = log_case(rng, w, n, s == "i")
                yield f"checked_ilog2 {s}{cfg} {hx(a)}", t
                yield f"checked_ilog10 {s}{cfg} {hx(a)}", t
                for mode in ("dbg", "rel"):
                    yield f"ilog2 {s}{cfg} {mode} {hx(a)}", t
                    yield f"ilog10 {s}{cfg} {mode} {hx(a)}", t
    # many exact powers of multi-digit u8-digit bases (rare quotient-digit events of the long division inside ilog
    # have probability ~2^-8 per digit only with 8-bit digits)
    for cfg in ["8x5", "8x7", "8x12"]:
        w, n = wn(cfg)
        W = w * n
        for i in range(4000 if tier == "thorough" else 1200):
            dl = rng.choice([2, 2, 2, 3, max(2, n // 2)])
            b = rng.randrange(1 << (w * (dl - 1)), 1 << (w * dl))
            if i % 3 == 0:
                b |= 0xff                                   # low digit saturated: more add-back / clamp events
            kmax = max(1, W // b.bit_length())
            k = rng.choice([2, 2, kmax, rng.randrange(1, kmax + 1)])
            x = b ** k + rng.choice([0, 0, 0, -1, 1])
            if 0 < x < (1 << W):
                yield f"checked_ilog u{cfg} {hx(x)} {hx(b)}", "multi-digit-base^k"
    # root-straddle sweep: for every exponent e of a fixed set, the bases floor(root_e(limit)) + {-1, 0, 1, 2} of both
    # limits 2^(BITS-1) and 2^BITS, both signs: a^e just below / at / just above MAX, |MIN| and 2^BITS in every
    # configuration (deterministic; the random `straddle` class hit these only a few times per run, and seeded
    # change C08-r5m1 needs a negative base whose odd power exceeds |MIN| by less than one top-digit unit)
    for cfg in cfgs(tier):
        w, n = wn(cfg)
        if n > 40:
            continue
        W = w * n
        M = 1 << W
        for e in (2, 3, 4, 5, 6, 7, 9, 11, 15, 16, 17, 31, 33, 63, 65, W - 1, W):
            if e < 2:
                continue
            for lim in (M >> 1, M):
                r = iroot(lim, e)
                for d in (-1, 0, 1, 2):
                    b = r + d
                    if b < 2:
                        continue
                    yield f"overflowing_pow u{cfg} {hx(b % M)} {e}", "root-straddle"
                    yield f"overflowing_pow i{cfg} {hx(pat(-b, W))} {e}", "root-straddle"
                    if d == 1:
                        yield f"overflowing_pow i{cfg} {hx(b % M)} {e}", "root-straddle"
                        yield f"checked_pow i{cfg} {hx(pat(-b, W))} {e}", "root-straddle"
                        yield f"saturating_pow i{cfg} {hx(pat(-b, W))} {e}", "root-straddle"
    # every bit length: 2^b - 1 and 2^(b-1) (logarithm estimates from the bit length go wrong only at a few lengths)
    for cfg in (["64x16", "8x40"] if tier != "thorough" else ["64x16", "64x128", "8x40", "32x10"]):
        w, n = wn(cfg)
        W = w * n
        for b in range(1, W + 1, 5 if W > 2048 else 1):
            for x in ((1 << b) - 1, 1 << (b - 1)):
                yield f"checked_ilog10 u{cfg} {hx(x)}", "all-bit-lengths"
                if b < W:
                    yield f"checked_ilog10 i{cfg} {hx(x)}", "all-bit-lengths"
            if b % 7 == 0:
                yield f"checked_ilog u{cfg} {hx((1 << b) - 1)} {hx(rng.choice([3, 7, 10, 100, 1000]))}", "all-bit-lengths"
                yield f"checked_ilog2 u{cfg} {hx((1 << b) - 1)}", "all-bit-lengths"
    if tier == "thorough":
        for s in "ui":
            for a in range(256):
                for e in list(range(0, 12)) + [255, 256, (1 << 32) - 1]:
                    yield f"overflowing_pow {s}8x1 {hx(a)} {e}", "exhaustive8"
                for b in range(256):
                    yield f"checked_ilog {s}8x1 {hx(a)} {hx(b)}", "exhaustive8"


def ROUTE(line):
    return _ws.route(line, "c08")


def gen(rng, tier):
    yield from _gen_main(rng, tier)
    if tier == "thorough":
        yield from _ws.ilog(rng)
