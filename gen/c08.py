"""C08 cases: powers and integer logarithms.

Blocks: random main loop over every configuration of the tier (all forms, both signs, both build modes; the
many-digit instantiations get fewer rounds, never none) / exact powers of multi-digit u8-digit bases / deterministic
root-straddle sweep (every form at the last representable and first unrepresentable power) / every bit length for the
logarithm estimates / `_gen_huge`: the 8192-bit instantiation of every digit type (graded by cost) / thorough:
complete 8-bit enumeration and the all-widths sweep."""
import math
from .common import *

# other public routes to this property's operations (check.py step 2d): the neighbour generator's requests whose
# operation matches are part of this run, answered by the neighbour's harness bin
NEIGHBOURS = {"C18": r"nt_(primint_)?pow\b"}
from . import widthsweep as _ws

HARNESS_BINS_THOROUGH = ["widths"]


def iroot(x, k):
    """floor of the k-th root (exact integer Newton iteration from above; bisection costs seconds at 8192 bits)"""
    if x < 2 or k == 1:
        return x
    if k == 2:
        return math.isqrt(x)
    r = 1 << -(-x.bit_length() // k)              # >= the root
    while True:
        t = ((k - 1) * r + x // r ** (k - 1)) // k
        if t >= r:
            break
        r = t
    assert r ** k <= x < (r + 1) ** k
    return r


def pow_case(rng, w, n, signed):
    """(tag, base pattern, exponent): a^e just below / at / above the limit; +-1, 0, 2 with huge exponents"""
    W = w * n
    M = 1 << W
    H = M >> 1
    c = rng.randrange(14)
    if c >= 12:
        # a GENERAL base (odd / multi-digit / any 2-adic valuation) with an exponent far above BITS: the wrapped
        # value a^e mod 2^BITS is a dense pattern (not 0 / +-1 / one bit as with the tiny and 2^k bases), the loop
        # runs all 32 rounds, and the overflow flag must stay set through ~60 further wrapping multiplications
        a = rng.choice([3, M - 3, 5, M - 5, rng.randrange(M) | 1, rng.randrange(M) | 1, value(rng, w, n)[1] | 1,
                        value(rng, w, n)[1], rng.randrange(1, 1 << w) | 1, (M >> 1) + 1, (M >> 1) - 1,
                        pat(rng.randrange(1, M) << rng.randrange(1, 4), W)])
        e = rng.choice([1 << 31, (1 << 32) - 1, (1 << 32) - 2, (1 << 31) + 1, (1 << 31) - 1, 0x80000001, 0xAAAAAAAA,
                        0x55555555, 1 << 16, (1 << 16) + 1, (1 << 24) - 1, rng.randrange(1 << 32), rng.randrange(1 << 32),
                        rng.randrange(W + 1, max(W + 2, 1 << 20))])
        return "general-base-huge-exp", a, e
    if c == 0:
        return "tiny-base-huge-exp", rng.choice([0, 1, M - 1, 2, M - 2]), rng.choice([0, 1, 2, 3, W - 1, W, W + 1, (1 << 32) - 1, (1 << 32) - 2, (1 << 31), rng.randrange(1 << 32)])
    if c == 1:
        # +-2^k bases with exponents such that k*e wraps around 2^32 (u32 exponent arithmetic)
        k = rng.choice([1, 2, 3, 4, 8, 16, 31, 32, rng.randrange(1, W)])
        b = (1 << k) % M
        if signed and rng.random() < 0.5:
            b = pat(-(1 << k), W)
        e = rng.choice([(1 << 32) // k, (1 << 32) // k + 1, (1 << 31), (1 << 30), (1 << 28) + 1, (1 << 29) + 2, 0xAAAAAAAB, (1 << 32) - 1, W // k, W // k + 1, max(0, W // k - 1)])
        return "pow2base-huge-exp", b, min(e, (1 << 32) - 1)
    if c == 2:
        # base = +-(2^t * m), m odd: a^e wraps to exactly 0 / MIN when t*e reaches BITS / BITS-1
        t = rng.choice([1, 1, 2, 3, 4, 5, 8, rng.randrange(1, max(2, W // 2))])
        m_ = rng.choice([3, 5, 7, 3, 9, 15, 255, rng.randrange(1, 1 << 10) | 1])
        b = (m_ << t)
        e = max(0, rng.choice([(W - 1) // t, W // t, (W - 1) // t + 1, (W - 1) // t - 1, -(-(W - 1) // t)]))
        if signed and rng.random() < 0.6:
            b = -b
        return "2adic-base", pat(b, W), e
    if c <= 5:
        e = rng.choice([2, 3, 4, 5, 7, 8, 15, 16, 31, rng.randrange(2, max(3, W))])
        lim = H if signed else M
        r = iroot(lim - 1, e)
        b = max(0, r + rng.choice([-1, 0, 0, 1, 1, 2]))
        if signed and rng.random() < 0.5:
            # negative base hitting exactly MIN (e odd) or overflowing
            r2 = iroot(H, e)
            b = -(r2 + rng.choice([-1, 0, 0, 1]))
        return "straddle", pat(b, W), e
    if c == 6:
        k = rng.randrange(0, W)
        return "pow2base", (1 << k) % M, rng.choice([0, 1, 2, 3, W // max(1, k) if k else 5, W // max(1, k) + 1 if k else 6])
    if c == 7:
        t, a = value(rng, w, n)
        return t, a, rng.choice([0, 1, 2, 3])
    t, a = value(rng, w, n)
    return t, a, rng.randrange(0, 40)


def log_case(rng, w, n, signed):
    W = w * n
    M = 1 << W
    lim = (M >> 1) if signed else M
    c = rng.randrange(10)
    if c <= 4:
        b = rng.choice([2, 3, 7, 10, 16, 255, 256, 1 << (w - 1), (1 << w) - 1, 1 << w, (1 << w) + 1, rng.randrange(2, 1 << min(W - 1, 40))]) % lim
        if b < 2:
            b = 2
        k = rng.randrange(0, 70)
        x = (b ** k + rng.choice([-1, 0, 1])) % lim
        return "b^k", pat(x, W), pat(b, W)
    if c == 7 and n >= 2:
        # exact powers (+-1) of a MULTI-digit base with extreme digits: ilog divides by the base repeatedly, so the
        # quotient-digit estimates of the long division see exact multiples (added after seeded change C08-r5m2)
        B = 1 << w
        dl = rng.randrange(2, max(3, n // 2 + 1))
        b = sum(rng.choice([0, 1, B - 1, B // 2, B // 2 - 1, rng.randrange(B), rng.randrange(B)]) << (w * i) for i in range(dl - 1))
        b |= rng.choice([1, 2, B // 2, B // 2 + 1, B - 1, rng.randrange(1, B)]) << (w * (dl - 1))
        kmax = max(1, (W - 1 if signed else W) // max(1, b.bit_length()))
        k = rng.choice([1, 2, 2, 3, kmax, max(1, kmax - 1), rng.randrange(1, kmax + 1)])
        x = b ** k + rng.choice([-1, 0, 0, 0, 1])
        if 0 < x < lim and 2 <= b < lim:
            return "multi-digit-base^k", pat(x, W), pat(b, W)
    if c == 5:
        t, a = value(rng, w, n)
        return "badbase", a, rng.choice([0, 1, M - 1, M - 2])
    if c == 6:
        return "nonpositive", rng.choice([0, M - 1, M >> 1]), rng.choice([2, 10])
    t, a, b = pair(rng, w, n)
    return t, a, b


POW_FORMS = ("overflowing_pow", "checked_pow", "wrapping_pow", "saturating_pow", "strict_pow", "pow")


def pow_lines(form, s, cfg, a, e):
    """request line(s) of one power form (`pow` depends on the build mode: one line per mode)"""
    if form == "pow":
        return [f"pow {s}{cfg} dbg {hx(a)} {e}", f"pow {s}{cfg} rel {hx(a)} {e}"]
    return [f"{form} {s}{cfg} {hx(a)} {e}"]


def _reps(tier, w, n):
    """repetitions of the random main loop: the Lean model multiplies digit lists in O(n^2), so the
    instantiations with many digits get fewer (but never zero) rounds"""
    reps = 100 if tier == "thorough" else 14
    if n > 100:
        return 2
    if n > 40:
        return max(3, reps // (6 if w * n > 2048 else 2))
    return reps


def _gen_main(rng, tier):
    for cfg in cfgs(tier):
        w, n = wn(cfg)
        for _ in range(_reps(tier, w, n)):
            for s in "ui":
                for op in ("overflowing_pow", "checked_pow", "wrapping_pow", "saturating_pow", "strict_pow"):
                    t, a, e = pow_case(rng, w, n, s == "i")
                    yield f"{op} {s}{cfg} {hx(a)} {e}", t
                t, a, e = pow_case(rng, w, n, s == "i")
                for mode in ("dbg", "rel"):
                    yield f"pow {s}{cfg} {mode} {hx(a)} {e}", t
                t, a, b = log_case(rng, w, n, s == "i")
                yield f"checked_ilog {s}{cfg} {hx(a)} {hx(b)}", t
                for mode in ("dbg", "rel"):
                    yield f"ilog {s}{cfg} {mode} {hx(a)} {hx(b)}", t
                t, a, b = log_case(rng, w, n, s == "i")
                yield f"checked_ilog2 {s}{cfg} {hx(a)}", t
                yield f"checked_ilog10 {s}{cfg} {hx(a)}", t
                for mode in ("dbg", "rel"):
                    yield f"ilog2 {s}{cfg} {mode} {hx(a)}", t
                    yield f"ilog10 {s}{cfg} {mode} {hx(a)}", t
    # many exact powers of multi-digit u8-digit bases (rare quotient-digit events of the long division inside ilog
    # have probability ~2^-8 per digit only with 8-bit digits)
    for cfg in ["8x5", "8x7", "8x12"]:
        w, n = wn(cfg)
        W = w * n
        for i in range(4000 if tier == "thorough" else 1200):
            dl = rng.choice([2, 2, 2, 3, max(2, n // 2)])
            b = rng.randrange(1 << (w * (dl - 1)), 1 << (w * dl))
            if i % 3 == 0:
                b |= 0xff                                   # low digit saturated: more add-back / clamp events
            kmax = max(1, W // b.bit_length())
            k = rng.choice([2, 2, kmax, rng.randrange(1, kmax + 1)])
            x = b ** k + rng.choice([0, 0, 0, -1, 1])
            if 0 < x < (1 << W):
                yield f"checked_ilog u{cfg} {hx(x)} {hx(b)}", "multi-digit-base^k"
    # root-straddle sweep: for every exponent e of a fixed set, the bases floor(root_e(limit)) + {-1, 0, 1, 2} of both
    # limits 2^(BITS-1) and 2^BITS, both signs: a^e just below / at / just above MAX, |MIN| and 2^BITS in every
    # configuration (deterministic; the random `straddle` class hit these only a few times per run, and seeded
    # change C08-r5m1 needs a negative base whose odd power exceeds |MIN| by less than one top-digit unit)
    rot = 0
    for cfg in cfgs(tier):
        w, n = wn(cfg)
        W = w * n
        M = 1 << W
        exps = (2, 3, 4, 5, 6, 7, 9, 11, 15, 16, 17, 31, 33, 63, 65, W - 1, W)
        if n > 100:
            exps = (2, 3, 7, 16)                    # few multiplications per case (the model is O(n^2) per product)
        elif n > 40:
            exps = (2, 3, 5, 7, 16, 17, 33, W - 1, W)
        for e in exps:
            if e < 2:
                continue
            for lim in (M >> 1, M):
                r = iroot(lim, e)
                for d in (-1, 0, 1, 2):
                    b = r + d
                    if b < 2:
                        continue
                    yield f"overflowing_pow u{cfg} {hx(b % M)} {e}", "root-straddle"
                    yield f"overflowing_pow i{cfg} {hx(pat(-b, W))} {e}", "root-straddle"
                    if d == 1:
                        yield f"overflowing_pow i{cfg} {hx(b % M)} {e}", "root-straddle"
                        yield f"checked_pow i{cfg} {hx(pat(-b, W))} {e}", "root-straddle"
                        yield f"saturating_pow i{cfg} {hx(pat(-b, W))} {e}", "root-straddle"
                    if d in (0, 1):
                        # the other forms (they are separately written loops / separately written sign logic) at the
                        # same boundaries: r^e is the last representable power (d = 0: r^e <= lim, so for lim = 2^BITS
                        # and 2^(BITS-1) the equality cases a^e = 2^BITS, a^e = |MIN| occur), (r+1)^e the first
                        # unrepresentable one.  Two forms per base and sign variant, rotating, so that every form
                        # meets every (exponent, limit, side) combination across the configurations.
                        for s, a in (("u", b % M), ("i", pat(-b, W)), ("i", b % M)):
                            for _ in range(2):
                                form = POW_FORMS[1 + rot % 5]
                                rot += 1
                                for l in pow_lines(form, s, cfg, a, e):
                                    yield l, "root-straddle-forms"
                        rot += 1
    # every bit length: 2^b - 1 and 2^(b-1) (logarithm estimates from the bit length go wrong only at a few lengths)
    for cfg in (["64x16", "8x40"] if tier != "thorough" else ["64x16", "64x128", "8x40", "32x10"]):
        w, n = wn(cfg)
        W = w * n
        for b in range(1, W + 1, 5 if W > 2048 else 1):
            for x in ((1 << b) - 1, 1 << (b - 1)):
                yield f"checked_ilog10 u{cfg} {hx(x)}", "all-bit-lengths"
                if b < W:
                    yield f"checked_ilog10 i{cfg} {hx(x)}", "all-bit-lengths"
            if b % 7 == 0:
                yield f"checked_ilog u{cfg} {hx((1 << b) - 1)} {hx(rng.choice([3, 7, 10, 100, 1000]))}", "all-bit-lengths"
                yield f"checked_ilog2 u{cfg} {hx((1 << b) - 1)}", "all-bit-lengths"
    if tier == "thorough":
        for s in "ui":
            for a in range(256):
                for e in list(range(0, 12)) + [255, 256, (1 << 32) - 1]:
                    yield f"overflowing_pow {s}8x1 {hx(a)} {e}", "exhaustive8"
                for b in range(256):
                    yield f"checked_ilog {s}8x1 {hx(a)} {hx(b)}", "exhaustive8"


# ---------------------------------------------------------------------------------------------------------------
# the widest in-scope instantiations (4096 and 8192 bits, every digit type): every power form and every logarithm
# form, signed and unsigned, both build modes.  The Lean model multiplies digit lists in O(n^2) (0.1 s per product and
# 3.5 s per full-size small-base logarithm at 8x1024; 25 - 60 times less at 64x128), so the case list is graded:
#   0  core: every power form x {last representable, first unrepresentable} power with exponents 2 / 3, both signs
#      (negative base: odd exponent -> MIN side, even exponent -> MAX side; the kind rotates over the forms), the
#      trivial exits, the ilog2 family, the None / panic guards, logarithms with multi-digit bases (few levels)
#   1  + exponents 5 and 16, extreme bases (MIN, MAX, -1, M-1, dense), one full-size small-base logarithm per sign
#   2  + all three sign kinds for every form, exponents 7, 31, (+-2)^(BITS-1), (+-2)^BITS, general bases with exponents
#      up to 2^32-1, full-size logarithms at exact powers of 10 / 3 and of MAX to base B+1
#   3  (thorough only) + exponents 17, BITS-1, BITS for root-straddling bases, more full-size logarithms
HUGE_LEVEL = {"quick": {"8x1024": 0, "16x512": 0, "32x256": 1, "64x128": 2},
              "thorough": {"8x1024": 1, "16x512": 2, "32x256": 3, "64x128": 3, "64x64": 3}}


def _huge_pow(rng, cfg, level):
    w, n = wn(cfg)
    W = w * n
    M = 1 << W
    H = M >> 1
    rot = {"u": 0, "i": 0}

    def emit(s, a, e, tag, form=None):
        if form is None:
            form = POW_FORMS[rot[s] % 6]
            rot[s] += 1
        return [(l, tag) for l in pow_lines(form, s, cfg, pat(a, W), e)]

    # core: every form, both sides of the limit
    for fi, form in enumerate(POW_FORMS):
        e = 2 + (fi % 2 if level >= 1 else 0)
        r = iroot(M - 1, e)
        for d in (0, 1):
            yield from emit("u", r + d, e, "huge-straddle", form)
        # signed: kind 0 = negative base, odd exponent (limit |MIN| = 2^(BITS-1), reached exactly or exceeded),
        #         kind 1 = positive base (limit MAX), kind 2 = negative base, even exponent (limit MAX)
        for kind in ((0, 1, 2) if level >= 2 else (fi % 3, )):
            e = (3, 2 + fi % 2, 2)[kind]
            r = iroot(H if kind == 0 else H - 1, e)
            for d in ((0, 1) if level >= 1 else (fi % 2, )):
                yield from emit("i", (r + d) if kind == 1 else -(r + d), e, "huge-straddle", form)
    # the loops' trivial exits and the extreme bases
    for s in "ui":
        for a, e in ((0, 0), (M - 1, 0), (H, 1)) + (((M - 1, 1), (0, 1), (1, 2), (0, 3)) if level >= 1 else ()):
            yield from emit(s, a, e, "huge-trivial")
    if level >= 1:
        dense = huge_values(rng, cfg)
        for s in "ui":
            for a, e in ((M - 1, 2), (M - 1, 3), (H, 2), (H + 1, 3), (dense[1], 2), (M - (1 << (W // 2 - 1)), 2)) + \
                    (((H - 1, 2), (dense[4], 2), (1 << (W // 2 - 1), 2), ((1 << (W // 2 - 1)) + 1, 2)) if level >= 2 else ()):
                yield from emit(s, a, e, "huge-extreme")
        for e in ((5, 16), (5, 7, 16, 31), (5, 7, 16, 17, 31, W - 1, W))[level - 1]:
            for lim, s, sg in ((M, "u", 1), (H, "i", -1), (H, "i", 1)):
                r = iroot(lim, e)
                for d in (0, 1):
                    if r + d >= 2:
                        yield from emit(s, sg * (r + d), e, "huge-straddle")
    if level >= 2:
        # exactly MIN / exactly 2^(BITS-1) / exactly 2^BITS from +-2
        for s in "ui":
            for a, e in ((-2, W - 1), (2, W - 1), (2, W), (-4, W // 2)):
                yield from emit(s, a, e, "huge-pow2base")
        # general bases, exponents far above BITS (64 products per case)
        for s in "ui":
            for _ in range(2):
                a = rng.choice([3, M - 3, rng.randrange(M) | 1, rng.randrange(M) | 1, rng.randrange(M) << 1])
                e = rng.choice([(1 << 32) - 1, 1 << 31, (1 << 31) + 1, rng.randrange(1 << 32), rng.randrange(W, 1 << 20)])
                yield from emit(s, a, e, "huge-general-base-huge-exp")


def ilog_exact(x, b):
    """greatest k with b^k <= x"""
    k, p = 0, b
    while p <= x:
        k += 1
        p *= b
    return k


def _huge_log(rng, cfg, level):
    w, n = wn(cfg)
    W = w * n
    M = 1 << W
    H = M >> 1
    B = 1 << w
    rot = 0
    for s in "ui":
        lim = H if s == "i" else M
        # ilog2 family: no division involved (but `bits()` alone costs the model ~20 ms at 1024 digits): per value three
        # of the six forms, alternating between (checked_ilog2, ilog2 dbg, ilog(.., 2) dbg) and the other three
        for x in (0, 1, lim - 1, lim >> 1, (lim >> 1) - 1, 1 << (W - w), (1 << (W - w)) - 1, M - 1, H) + \
                ((2, 3, (lim >> 1) + 1, H + 1, B - 1, B) if level >= 1 else ()):
            forms = (f"checked_ilog2 {s}{cfg} {hx(x)}", f"checked_ilog {s}{cfg} {hx(x)} 2", f"ilog2 {s}{cfg} dbg {hx(x)}",
                     f"ilog2 {s}{cfg} rel {hx(x)}", f"ilog {s}{cfg} dbg {hx(x)} 2", f"ilog {s}{cfg} rel {hx(x)} 2")
            for i in (0, 2, 4):
                yield forms[(rot + i) % 6], "huge-ilog2"
            rot += 1
        # None / panic exactly when self <= 0 or base < 2, and the shortcuts base > self (no recursion: cheap).
        # M-1, H are -1, MIN for the signed types and huge positive numbers for the unsigned ones
        neg = ((M - 1, 10), (H, 10), (H + 1, 3), (lim - 1, M - 1), (lim - 1, H), (5, M - 2)) if s == "i" else ((M - 2, M - 1), (H, M - 1))
        for x, b in neg + ((0, 10), (lim - 1, 0), (lim - 1, 1), (2, 3), (3, 3), (lim - 1, lim - 1), (lim - 2, lim - 1)) + \
                (((0, 0), (1, 3), (9, 10), (10, 10), (B - 1, B), (B, B)) if level >= 1 else ()):
            yield f"checked_ilog {s}{cfg} {hx(x)} {hx(b)}", "huge-log-guards"
            yield f"ilog {s}{cfg} {('dbg', 'rel')[rot % 2]} {hx(x)} {hx(b)}", "huge-log-guards"
            rot += 1
        for x in (0, 9, 10) + ((M - 1, H) if s == "i" else ()) + ((1, 99, 100) if level >= 1 else ()):
            yield f"checked_ilog10 {s}{cfg} {hx(x)}", "huge-log-guards"
            yield f"ilog10 {s}{cfg} {('dbg', 'rel')[rot % 2]} {hx(x)}", "huge-log-guards"
            rot += 1
    # real logarithms: (x, base) with x = base^k + {-1, 0} (the answer changes between the two) or x = MAX
    rot = 0
    for s in "ui":
        lim = H if s == "i" else M
        cases = []
        # multi-digit bases with extreme digits of about BITS/3 and BITS/8 bits: 2 - 4 levels of squaring / division
        for frac in (3, 8):
            dl = max(1, n // frac)
            b = sum(rng.choice([0, B - 1, B // 2, rng.randrange(B)]) << (w * i) for i in range(dl - 1))
            b = max(2, b | (rng.choice([1, B // 2, B - 1]) << (w * (dl - 1))))
            k = ilog_exact(lim - 1, b)
            if level == 0 and frac == 8:
                cases += [(b ** k - (s == "u"), b)]
            else:
                cases += [(b ** k - 1, b), (b ** k, b)]
        k10 = len(str(lim - 1)) - 1
        k3 = ilog_exact(lim - 1, 3)
        if level == 1:
            # one full-size logarithm with a one-digit base (about log2(BITS) levels of squaring / division)
            cases += [(10 ** k10, 10)] if s == "u" else [(3 ** k3 - 1, 3)]
        if level >= 2:
            cases += [(10 ** k10, 10), (10 ** k10 - 1, 10), (3 ** k3 - 1, 3), (3 ** k3, 3), (lim - 1, B + 1)]
        if level >= 3:
            cases += [(lim - 1, 10), (lim - 1, B - 1), ((B + 1) ** ilog_exact(lim - 1, B + 1), B + 1), (lim - 1, 1 << (w - 1)),
                      (lim - 1, 3), (lim - 1, 7), (10 ** (k10 // 2) - 1, 10)]
        for x, b in cases:
            if level == 1 and b == 10:
                pick = [("checked_ilog10", "ilog10 dbg", "ilog rel", "checked_ilog", "ilog10 rel", "ilog dbg")[rot % 6]]
            elif b == 10:
                # the ilog10 family and the generic family with base ten: one checked + one panicking form, alternating
                pick = [("checked_ilog10", "ilog dbg", "checked_ilog", "ilog10 rel", "checked_ilog10", "ilog rel", "checked_ilog", "ilog10 dbg")[(2 * rot) % 8 + i] for i in (0, 1)]
            elif level == 0 or (level == 1 and b < B):
                pick = [("checked_ilog", "ilog dbg", "ilog rel")[rot % 3]]
            else:
                pick = ["checked_ilog", ("ilog dbg", "ilog rel")[rot % 2]]
            rot += 1
            for f in pick:
                op, *mode = f.split(" ")
                args = " ".join(mode + [hx(x)] + ([hx(b)] if not op.endswith("10") else []))
                yield f"{op} {s}{cfg} {args}", "huge-log"


def _gen_huge(rng, tier):
    for cfg in HUGE_CFGS + (["64x64"] if tier == "thorough" else []):
        level = HUGE_LEVEL[tier][cfg]
        yield from _huge_pow(rng, cfg, level)
        yield from _huge_log(rng, cfg, level)


def ROUTE(line):
    return _ws.route(line, "c08")


def gen(rng, tier):
    yield from _gen_main(rng, tier)
    yield from _gen_huge(rng, tier)
    if tier == "thorough":
        yield from _ws.ilog(rng)
