"""tr_parse.py — recursive-descent (Pratt) parser for the Rust expression / statement subset met in function bodies.

AST nodes are tuples:
  ('path', segs, qself)            segs = [(name, generic-arg token lists)], qself = token list of `<T as Tr>` or None
  ('lit', kind, text)              kind in num/str/chr/bool
  ('call', f, args)    ('mcall', recv, name, generics, args)    ('field', e, name)    ('index', e, i)
  ('unary', op, e)     ('binary', op, l, r)     ('cast', e, type tokens)      ('assign', op, l, r)
  ('if', cond, blk, else|None)     ('iflet', pat, e, blk, else|None)
  ('match', e, [(pat, guard|None, body)])
  ('block', stmts, tail|None, unsafe)     ('tuple', [..])     ('array', …)    ('struct', …)   ('closure', …)
  ('macro', path idents, group token)
  ('return', e|None)  ('break',) ('continue',) ('while', …) ('loop', …) ('for', …)   ('range', …)  ('try', e)
statements:
  ('let', pat, type tokens|None, init|None, attrs)   ('expr', e, has_semi, attrs)   ('item', kind, attrs)   ('const', name, ty, e, attrs)
patterns:
  ('pwild',) ('pbind', name, mut) ('ptuple', [..]) ('pts', path-string, [..]) ('ppath', path-string) ('plit', text) ('pref', p) ('por', [..])
"""
from tr_lex import Tok, is_p, is_id, is_grp, text, skip_angle, split_commas

class ParseError(Exception):
    pass

BINOPS = [
    # (precedence, ops)  higher binds tighter
    (10, ['*', '/', '%']),
    (9, ['+', '-']),
    (8, ['<<', '>>']),
    (7, ['&']),
    (6, ['^']),
    (5, ['|']),
    (4, ['==', '!=', '<', '>', '<=', '>=']),
    (3, ['&&']),
    (2, ['||']),
]
PREC = {op: p for p, ops in BINOPS for op in ops}
ASSIGN_OPS = ['=', '+=', '-=', '*=', '/=', '%=', '&=', '|=', '^=', '<<=', '>>=']
KEYWORDS_BLOCKLIKE = ('if', 'match', 'while', 'loop', 'for', 'unsafe')

class P:
    def __init__(self, toks):
        self.t = toks; self.i = 0

    def peek(self, k=0):
        j = self.i + k
        return self.t[j] if j < len(self.t) else None

    def eof(self):
        return self.i >= len(self.t)

    def eat_p(self, s):
        if is_p(self.peek(), s):
            self.i += 1; return True
        return False

    def eat_id(self, s):
        if is_id(self.peek(), s):
            self.i += 1; return True
        return False

    def expect_p(self, s):
        if not self.eat_p(s):
            raise ParseError('expected `%s` near `%s`' % (s, text(self.t[self.i:self.i + 4])))

    def op(self):
        """longest operator made of joint punctuation at the cursor -> (text, ntokens) or None"""
        t = self.peek()
        if t is None or t.k != 'p': return None
        s = t.s; k = 1; cur = t
        cands = [(s, 1)]
        while cur.joint and k < 3:
            nx = self.peek(k)
            if nx is None or nx.k != 'p': break
            s += nx.s; k += 1; cur = nx
            cands.append((s, k))
        for s, k in reversed(cands):
            if s in PREC or s in ASSIGN_OPS or s in ('..', '..=', '=>', '->', '::'):
                return s, k
        return cands[0]

    # -------------------------------------------------------------------------------------------- attributes
    def attrs(self):
        out = []
        while is_p(self.peek(), '#') and is_grp(self.peek(1), '['):
            out.append(text(self.peek(1).ch).replace(' ', ''))
            self.i += 2
        return out

    # -------------------------------------------------------------------------------------------- blocks
    def block_body(self):
        """parse the whole token list as the inside of a block -> (stmts, tail)"""
        stmts = []; tail = None
        while not self.eof():
            if self.eat_p(';'): continue
            at = self.attrs()
            t = self.peek()
            if t is None: break
            if is_id(t, 'let'):
                self.i += 1
                pat = self.pattern()
                ty = None
                if is_p(self.peek(), ':') and not self._is_path_sep():
                    self.i += 1
                    ty = self.type_until(('=', ';'))
                init = None
                if self.eat_p('='):
                    init = self.expr()
                if is_id(self.peek(), 'else'):
                    raise ParseError('let-else')
                self.expect_p(';')
                stmts.append(('let', pat, ty, init, at))
                continue
            if is_id(t, 'use') or is_id(t, 'macro_rules') or is_id(t, 'fn') or is_id(t, 'struct') or is_id(t, 'enum') or is_id(t, 'impl') or is_id(t, 'type') or is_id(t, 'pub'):
                kind = t.s
                while not self.eof():
                    x = self.peek(); self.i += 1
                    if is_p(x, ';'): break
                    if is_grp(x, '{') and kind != 'use':
                        break
                stmts.append(('item', kind, at))
                continue
            if is_id(t, 'const') and self.peek(1) is not None and self.peek(1).k == 'id' and self.peek(1).s not in ('fn', 'unsafe'):
                self.i += 1
                name = self.peek().s; self.i += 1
                ty = None
                if self.eat_p(':'):
                    ty = self.type_until(('=', ';'))
                self.expect_p('=')
                e = self.expr()
                self.expect_p(';')
                stmts.append(('const', name, ty, e, at))
                continue
            blocklike = (is_id(t) and t.s in KEYWORDS_BLOCKLIKE) or is_grp(t, '{')
            e = self.expr(stmt=True)
            if self.eat_p(';'):
                stmts.append(('expr', e, True, at))
            elif self.eof():
                if at:
                    stmts.append(('expr', e, False, at))   # attributed tail expression (cfg pairs)
                else:
                    tail = e
            elif blocklike or e[0] in ('if', 'iflet', 'match', 'while', 'loop', 'for', 'block'):
                stmts.append(('expr', e, False, at))
            elif at:
                # `#[cfg(..)] expr` without semicolon followed by another attributed expression
                stmts.append(('expr', e, False, at))
            else:
                raise ParseError('expected `;` near `%s`' % text(self.t[self.i:self.i + 4]))
        return stmts, tail

    def _is_path_sep(self):
        return is_p(self.peek(), ':') and self.peek().joint and is_p(self.peek(1), ':')

    def type_until(self, stops):
        out = []; depth = 0
        while not self.eof():
            t = self.peek()
            if t.k == 'p':
                if t.s == '<': depth += 1
                elif t.s == '>' and not (out and is_p(out[-1], '-')): depth -= 1
                elif depth == 0 and t.s in stops: break
            out.append(t); self.i += 1
        return out

    # -------------------------------------------------------------------------------------------- patterns
    def pattern(self):
        alts = [self.pattern1()]
        while is_p(self.peek(), '|') and not self.peek().joint:
            self.i += 1
            alts.append(self.pattern1())
        return alts[0] if len(alts) == 1 else ('por', alts)

    def pattern1(self):
        t = self.peek()
        if t is None: raise ParseError('pattern expected')
        if is_p(t, '&'):
            self.i += 1
            self.eat_id('mut')
            return ('pref', self.pattern1())
        if is_id(t, '_'):
            self.i += 1; return ('pwild',)
        if is_grp(t, '('):
            self.i += 1
            sub = P(t.ch)
            items = []
            while not sub.eof():
                items.append(sub.pattern())
                if not sub.eat_p(','): break
            if not sub.eof(): raise ParseError('tuple pattern')
            return ('ptuple', items)
        if t.k in ('num', 'str', 'chr') or (is_p(t, '-') and self.peek(1) is not None and self.peek(1).k == 'num'):
            s = t.s; self.i += 1
            if t.k == 'p':
                s += self.peek().s; self.i += 1
            if is_p(self.peek(), '.'):
                raise ParseError('range pattern')
            return ('plit', s)
        if t.k == 'id':
            if t.s in ('true', 'false'):
                self.i += 1; return ('plit', t.s)
            mut = False; ref = False
            if t.s == 'ref':
                self.i += 1; ref = True; t = self.peek()
            if is_id(t, 'mut'):
                self.i += 1; mut = True; t = self.peek()
            segs = [t.s]; self.i += 1
            while self._is_path_sep():
                self.i += 2
                if is_p(self.peek(), '<'):
                    self.i = skip_angle(self.t, self.i); continue
                segs.append(self.peek().s); self.i += 1
            path = '::'.join(segs)
            if is_grp(self.peek(), '('):
                g = self.peek(); self.i += 1
                sub = P(g.ch); items = []
                while not sub.eof():
                    items.append(sub.pattern())
                    if not sub.eat_p(','): break
                return ('pts', path, items)
            if is_grp(self.peek(), '{'):
                raise ParseError('struct pattern')
            if is_p(self.peek(), '@'):
                raise ParseError('@ pattern')
            if len(segs) == 1 and (segs[0][0].islower() or segs[0][0] == '_') :
                return ('pbind', segs[0], mut)
            return ('ppath', path)
        raise ParseError('pattern near `%s`' % text(self.t[self.i:self.i + 3]))

    # -------------------------------------------------------------------------------------------- expressions
    def expr(self, stmt=False, nostruct=False):
        return self.assign(stmt, nostruct)

    def assign(self, stmt, nostruct):
        lhs = self.range_(stmt, nostruct)
        o = self.op()
        if o and o[0] in ASSIGN_OPS:
            self.i += o[1]
            rhs = self.assign(False, nostruct)
            return ('assign', o[0], lhs, rhs)
        return lhs

    def range_(self, stmt, nostruct):
        o = self.op()
        if o and o[0] in ('..', '..='):
            self.i += o[1]
            if self.eof() or is_p(self.peek(), ';') or is_p(self.peek(), ',') or is_grp(self.peek(), '{'):
                return ('range', None, None, o[0])
            return ('range', None, self.binary(0, False, nostruct), o[0])
        lhs = self.binary(0, stmt, nostruct)
        o = self.op()
        if o and o[0] in ('..', '..='):
            self.i += o[1]
            if self.eof() or is_p(self.peek(), ';') or is_p(self.peek(), ',') or is_grp(self.peek(), '{') or (is_grp(self.peek()) is False and self.peek() is None):
                return ('range', lhs, None, o[0])
            return ('range', lhs, self.binary(0, False, nostruct), o[0])
        return lhs

    def binary(self, minp, stmt, nostruct):
        lhs = self.cast(stmt, nostruct)
        # a block-like expression in statement position ends the statement
        if stmt and lhs[0] in ('if', 'iflet', 'match', 'while', 'loop', 'for', 'block') and not is_p(self.peek(), '.') and not is_p(self.peek(), '?'):
            return lhs
        while True:
            o = self.op()
            if not o or o[0] not in PREC: break
            p = PREC[o[0]]
            if p < minp: break
            self.i += o[1]
            rhs = self.binary(p + 1, False, nostruct)
            lhs = ('binary', o[0], lhs, rhs)
        return lhs

    def cast(self, stmt, nostruct):
        e = self.unary(stmt, nostruct)
        while is_id(self.peek(), 'as'):
            self.i += 1
            ty = self.cast_type()
            e = ('cast', e, ty)
        return e

    def cast_type(self):
        out = []
        t = self.peek()
        while is_p(t, '&') or is_p(t, '*') or is_id(t, 'mut') or is_id(t, 'const'):
            out.append(t); self.i += 1; t = self.peek()
        if is_grp(t, '(') or is_grp(t, '['):
            out.append(t); self.i += 1
            return out
        if is_p(t, '<'):
            e = skip_angle(self.t, self.i); out.extend(self.t[self.i:e]); self.i = e
            t = self.peek()
        while True:
            if self._is_path_sep():
                out.extend(self.t[self.i:self.i + 2]); self.i += 2
                t = self.peek(); continue
            if t is not None and t.k == 'id':
                out.append(t); self.i += 1; t = self.peek()
                if is_p(t, '<') and False:
                    pass
                if self._is_path_sep(): continue
                break
            break
        return out

    def unary(self, stmt, nostruct):
        t = self.peek()
        if t is None: raise ParseError('expression expected')
        if t.k == 'p' and t.s in ('-', '!', '*'):
            self.i += 1
            return ('unary', t.s, self.unary(False, nostruct))
        if is_p(t, '&'):
            self.i += 1
            if t.joint and is_p(self.peek(), '&'):
                self.i += 1
                self.eat_id('mut')
                return ('unary', '&', ('unary', '&', self.unary(False, nostruct)))
            m = self.eat_id('mut')
            return ('unary', '&mut' if m else '&', self.unary(False, nostruct))
        return self.postfix(self.primary(stmt, nostruct), stmt)

    def postfix(self, e, stmt=False):
        while True:
            t = self.peek()
            if stmt and e[0] in ('if', 'iflet', 'match', 'while', 'loop', 'for', 'block') and not is_p(t, '.') and not is_p(t, '?'):
                return e
            if is_p(t, '?'):
                self.i += 1; e = ('try', e); continue
            if is_p(t, '.') and not (t.joint and is_p(self.peek(1), '.')):
                self.i += 1
                n = self.peek()
                if n is None: raise ParseError('after `.`')
                if n.k == 'num':
                    self.i += 1; e = ('field', e, n.s); continue
                if n.k == 'id':
                    self.i += 1
                    gen = None
                    if self._is_path_sep() and is_p(self.peek(2), '<'):
                        self.i += 2
                        end = skip_angle(self.t, self.i)
                        gen = self.t[self.i + 1:end - 1]; self.i = end
                    if is_grp(self.peek(), '('):
                        g = self.peek(); self.i += 1
                        e = ('mcall', e, n.s, gen, self.args(g))
                    else:
                        e = ('field', e, n.s)
                    continue
                raise ParseError('after `.`')
            if is_grp(t, '('):
                self.i += 1
                e = ('call', e, self.args(t)); continue
            if is_grp(t, '['):
                self.i += 1
                e = ('index', e, P(t.ch).whole_expr()); continue
            return e

    def whole_expr(self):
        e = self.expr()
        if not self.eof(): raise ParseError('trailing tokens `%s`' % text(self.t[self.i:self.i + 4]))
        return e

    def args(self, g):
        sub = P(g.ch); out = []
        while not sub.eof():
            out.append(sub.expr())
            if not sub.eat_p(','): break
        if not sub.eof(): raise ParseError('argument list `%s`' % text(g.ch)[:60])
        return out

    def primary(self, stmt, nostruct):
        t = self.peek()
        if t.k in ('num', 'str', 'chr'):
            self.i += 1; return ('lit', t.k, t.s)
        if is_grp(t, '('):
            self.i += 1
            sub = P(t.ch)
            if sub.eof(): return ('tuple', [])
            items = []; trailing = False
            while not sub.eof():
                items.append(sub.expr()); trailing = False
                if sub.eat_p(','): trailing = True
                else: break
            if not sub.eof(): raise ParseError('paren expression `%s`' % text(t.ch)[:60])
            if len(items) == 1 and not trailing: return ('paren', items[0])
            return ('tuple', items)
        if is_grp(t, '['):
            self.i += 1; return ('array', t)
        if is_grp(t, '{'):
            self.i += 1
            s, tl = P(t.ch).block_body()
            return ('block', s, tl, False)
        if is_p(t, '|'):
            raise ParseError('closure')
        if is_p(t, '<'):
            end = skip_angle(self.t, self.i)
            q = self.t[self.i + 1:end - 1]; self.i = end
            return self.path_rest([], q, nostruct)
        if t.k == 'id':
            s = t.s
            if s in ('true', 'false'):
                self.i += 1; return ('lit', 'bool', s)
            if s == 'if':
                self.i += 1; return self.if_()
            if s == 'match':
                self.i += 1
                scrut = self.expr(nostruct=True)
                g = self.peek()
                if not is_grp(g, '{'): raise ParseError('match body')
                self.i += 1
                return ('match', scrut, self.arms(g))
            if s == 'unsafe' and is_grp(self.peek(1), '{'):
                g = self.peek(1); self.i += 2
                st, tl = P(g.ch).block_body()
                return ('block', st, tl, True)
            if s == 'return':
                self.i += 1
                n = self.peek()
                if n is None or is_p(n, ';') or is_p(n, ','): return ('return', None)
                return ('return', self.expr())
            if s == 'break':
                self.i += 1
                n = self.peek()
                if n is not None and n.k == 'life': self.i += 1
                n = self.peek()
                if n is None or is_p(n, ';') or is_p(n, ','): return ('break',)
                self.expr(); return ('break',)
            if s == 'continue':
                self.i += 1
                if self.peek() is not None and self.peek().k == 'life': self.i += 1
                return ('continue',)
            if s in ('while', 'loop', 'for'):
                # loops are never translated; consume up to and including the body block
                self.i += 1
                while not self.eof() and not is_grp(self.peek(), '{'): self.i += 1
                if self.eof(): raise ParseError('loop body')
                self.i += 1
                return (s,)
            if s == 'move' or s == 'async' or s == 'const' and is_grp(self.peek(1), '{'):
                raise ParseError(s)
            return self.path_rest(None, None, nostruct)
        if t.k == 'life':
            raise ParseError('labelled block')
        if t.k == 'mv':
            raise ParseError('unexpanded metavariable $%s' % t.s)
        raise ParseError('expression near `%s`' % text(self.t[self.i:self.i + 3]))

    def path_rest(self, segs, qself, nostruct):
        segs = [] if segs is None else segs
        if qself is not None:
            if not self._is_path_sep(): raise ParseError('qualified path')
            self.i += 2
        while True:
            t = self.peek()
            if t is None or t.k != 'id': raise ParseError('path segment near `%s`' % text(self.t[self.i:self.i + 3]))
            self.i += 1
            gen = None
            if self._is_path_sep() and is_p(self.peek(2), '<'):
                self.i += 2
                end = skip_angle(self.t, self.i)
                gen = split_commas(self.t[self.i + 1:end - 1]); self.i = end
            segs.append([t.s, gen])
            if self._is_path_sep():
                self.i += 2; continue
            break
        # macro invocation
        if is_p(self.peek(), '!') and is_grp(self.peek(1)) and not (self.peek().joint and is_p(self.peek(1), '=')):
            g = self.peek(1); self.i += 2
            return ('macro', [s for s, _ in segs], g)
        if is_grp(self.peek(), '{') and not nostruct and segs[-1][0][0].isupper():
            g = self.peek(); self.i += 1
            return ('struct', segs, g)
        return ('path', segs, qself)

    def if_(self):
        if self.eat_id('let'):
            pat = self.pattern()
            self.expect_p('=')
            e = self.expr(nostruct=True)
            blk = self.blockexpr()
            els = self.else_()
            return ('iflet', pat, e, blk, els)
        c = self.expr(nostruct=True)
        blk = self.blockexpr()
        els = self.else_()
        return ('if', c, blk, els)

    def else_(self):
        if self.eat_id('else'):
            if self.eat_id('if'):
                return self.if_()
            return self.blockexpr()
        return None

    def blockexpr(self):
        g = self.peek()
        if not is_grp(g, '{'): raise ParseError('block expected near `%s`' % text(self.t[self.i:self.i + 3]))
        self.i += 1
        s, tl = P(g.ch).block_body()
        return ('block', s, tl, False)

    def arms(self, g):
        sub = P(g.ch); out = []
        while not sub.eof():
            sub.attrs()
            pat = sub.pattern()
            guard = None
            if sub.eat_id('if'):
                guard = sub.expr(nostruct=True)
            o = sub.op()
            if not o or o[0] != '=>': raise ParseError('`=>` expected in match arm')
            sub.i += o[1]
            body = sub.expr(stmt=True)
            out.append((pat, guard, body))
            if not sub.eat_p(','):
                if sub.eof(): break
                if body[0] in ('block', 'if', 'iflet', 'match'): continue
                raise ParseError('`,` expected after match arm')
        return out

def parse_body(grp):
    """'{' group of a function body -> ('block', stmts, tail, False)"""
    s, tl = P(grp.ch).block_body()
    return ('block', s, tl, False)

def contains(node, kinds):
    """does the AST contain a node of one of the given kinds?"""
    if isinstance(node, tuple):
        if node and isinstance(node[0], str) and node[0] in kinds: return node[0]
        for x in node:
            r = contains(x, kinds)
            if r: return r
    elif isinstance(node, list):
        for x in node:
            r = contains(x, kinds)
            if r: return r
    return None
