"""C06 cases: bitwise logic, counts, bit manipulation."""
from .common import *
from . import widthsweep as _ws

HARNESS_BINS_THOROUGH = ["widths"]
from . import prim as _prim

# the trusted leaf layer (Lean Prim.*) is validated against rustc's primitives in the same run
HARNESS_BINS = ["c06", "prim"]


def _route_inner(line):
    return _prim.route(line, "c06")

BIN = ["bitand", "bitor", "bitxor"]
UN = ["not", "swap_bytes", "reverse_bits", "is_power_of_two", "is_zero", "is_one",
      "count_ones", "count_zeros", "leading_zeros", "trailing_zeros", "leading_ones", "trailing_ones", "bits"]
U_ONLY = ["checked_next_power_of_two", "wrapping_next_power_of_two"]


def runs_value(rng, w, n):
    """k extreme whole digits then a partial one (the early-exit boundary of the counting loops)"""
    W = w * n
    B = 1 << w
    k = rng.randrange(0, n + 1)
    fill = rng.choice([0, B - 1])
    v = 0
    for i in range(n):
        if i < k:
            d = fill
        elif i == k:
            t = rng.randrange(w + 1)
            d = ((1 << t) - 1) if fill else (B - 1) ^ ((1 << t) - 1)
            if rng.random() < 0.3:
                d = rng.randrange(B)
        else:
            d = rng.randrange(B)
        v |= d << (w * i)
    if rng.random() < 0.5:
        # same thing from the top
        v = int(format(v, "0%db" % W)[::-1], 2)
    return "runs", v


def _gen_main(rng, tier):
    reps = 150 if tier == "thorough" else 20
    for cfg in cfgs(tier):
        w, n = wn(cfg)
        W = w * n
        for _ in range(reps if n <= 40 else 10):
            for s in "ui":
                for op in BIN:
                    t, a, b = pair(rng, w, n)
                    yield f"{op} {s}{cfg} {hx(a)} {hx(b)}", t
                for op in UN + (U_ONLY if s == "u" else []):
                    t, a = value(rng, w, n) if rng.random() < 0.5 else runs_value(rng, w, n)
                    yield f"{op} {s}{cfg} {hx(a)}", t
                t, a = value(rng, w, n)
                i = rng.choice([0, w - 1, w, W - 1, W, W + 1, rng.randrange(W), rng.randrange(W), (1 << 32) - 1, W + w - 1, W + w])
                yield f"bit {s}{cfg} {hx(a)} {i}", t
                if s == "u":
                    yield f"set_bit u{cfg} {hx(a)} {i} {rng.randrange(2)}", t
                    yield f"power_of_two u{cfg} {i}", "idx"
                    t, a = value(rng, w, n)
                    for mode in ("dbg", "rel"):
                        yield f"next_power_of_two u{cfg} {mode} {hx(a)}", t
    if tier == "thorough":
        for s in "ui":
            for op in UN:
                for a in range(1 << 16):
                    yield f"{op} {s}8x2 {hx(a)}", "exhaustive16"


def gen(rng, tier):
    yield from _gen_main(rng, tier)
    if tier == "thorough":
        yield from _ws.count(rng)
    yield from _grid(rng, tier)
    yield from _huge(rng, tier)
    yield from _prim.bits(rng, tier)


def _grid(rng, tier):
    for cfg in GRID_CFGS:
        w, n = wn(cfg)
        for s in "ui":
            for op in UN:
                for a in edge_grid(w, n):
                    yield f"{op} {s}{cfg} {hx(a)}", "edge-grid"


def _huge(rng, tier):
    for cfg in HUGE_CFGS:
        for a in huge_values(rng, cfg):
            for s in "ui":
                for op in UN:
                    yield f"{op} {s}{cfg} {hx(a)}", "huge"


def ROUTE(line):
    return _ws.route(line, None, _route_inner)
