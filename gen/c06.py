"""C06 cases: bitwise logic, counts, bit manipulation.

Input classes (all general, none keyed to a known defect):
  * structured values (`common.value`), related pairs (`common.pair`) and `runs_value` (k whole extreme
    digits followed by a partial one, from either end: the early-exit boundary of the counting loops) for
    every operation, every quick configuration, both signednesses;
  * `pow2_edges`: 2^k, 2^k +- 1 for k at digit boundaries and at BITS-1 / BITS-w (the rounding boundary
    of `*_next_power_of_two`, `None` / `0` / panic when the result does not fit);
  * bit indices drawn per operation from `indices` (digit boundaries k*w-1, k*w, k*w+1, BITS-w, BITS-1,
    counter-truncation boundaries 255/256/65535/65536, random; a few out-of-range ones), several per value;
  * whole-index-range requests (`bit_scan`, `set_bit_scan`, `power_of_two_scan`: every index of one value in
    one request) on every configuration including the four 8192-bit ones;
  * the complete edge grid (digits from {0, 1, B/2-1, B/2, B-1}) for every operation incl. the unsigned-only
    ones, both `next_power_of_two` build modes, the scans, and the binary operators on grid pairs;
  * the 8192-bit instantiation of every digit type (`_huge`): every operation, with the zero / all-ones /
    run / power-of-two-edge operands where the BITS-dependent totals reach their maxima.
Thorough: complete 16-bit enumeration (8x2) of every unary operation incl. the unsigned-only ones and the
scans, complete 8-bit enumeration of the binary operators, all-widths sweep.
"""
from .common import *

# other public routes to this property's operations (check.py step 2d): the neighbour generator's requests whose
# operation matches are part of this run, answered by the neighbour's harness bin
NEIGHBOURS = {"C17": r"(bitand|bitor|bitxor|not)_", "C18": r"nt_(count_|leading_|trailing_|reverse_bits|swap_bytes|is_zero|is_one)"}
from . import widthsweep as _ws

# `widths` (shared, count_ones only) and `c06w` (this property's own all-widths bin: harness/src/bin/c06w.rs)
HARNESS_BINS_THOROUGH = ["widths", "c06w"]
from . import prim as _prim

# the trusted leaf layer (Lean Prim.*) is validated against rustc's primitives in the same run
HARNESS_BINS = ["c06", "prim"]


def _route_inner(line):
    return _prim.route(line, "c06")

BIN = ["bitand", "bitor", "bitxor"]
UN = ["not", "swap_bytes", "reverse_bits", "is_power_of_two", "is_zero", "is_one",
      "count_ones", "count_zeros", "leading_zeros", "trailing_zeros", "leading_ones", "trailing_ones", "bits"]
U_ONLY = ["checked_next_power_of_two", "wrapping_next_power_of_two"]
# the operations whose answer is a BITS-dependent total / depends on an early-exit scan
COUNTS = ["count_ones", "count_zeros", "leading_zeros", "trailing_zeros", "leading_ones", "trailing_ones", "bits",
          "is_power_of_two", "is_zero", "is_one"]
POW2 = ["is_power_of_two", "bits", "leading_zeros", "trailing_zeros", "count_ones"]


def runs_value(rng, w, n, k=None, fill=None, top=None):
    """k extreme whole digits (all `fill`: 0 or B-1) then a partial one, counted from the bottom or from the
    `top`: the early-exit boundary of the counting loops"""
    W = w * n
    B = 1 << w
    if k is None:
        k = rng.randrange(0, n + 1)
    if fill is None:
        fill = rng.choice([0, B - 1])
    if top is None:
        top = rng.random() < 0.5
    v = 0
    for i in range(n):
        if i < k:
            d = fill
        elif i == k:
            t = rng.randrange(w + 1)
            d = ((1 << t) - 1) if fill else (B - 1) ^ ((1 << t) - 1)
            if rng.random() < 0.3:
                d = rng.randrange(B)
        else:
            d = rng.randrange(B)
        v |= d << (w * i)
    if top:
        # same thing from the top
        v = int(format(v, "0%db" % W)[::-1], 2)
    return "runs", v


# the operation whose loop walks through the run, per (run of ones?, run at the top?)
_RUN_OPS = {(0, 0): ["trailing_zeros"], (1, 0): ["trailing_ones"],
            (0, 1): ["leading_zeros", "bits"], (1, 1): ["leading_ones"]}


def _runs_cases(rng, cfg, ks, tag, both_signs=True):
    """for every run length k in `ks` and every orientation: the operation that walks the run, plus one
    other counting operation"""
    w, n = wn(cfg)
    B = 1 << w
    for k in ks:
        for ones in (0, 1):
            for top in (0, 1):
                t, a = runs_value(rng, w, n, k, (B - 1) if ones else 0, bool(top))
                for op in _RUN_OPS[(ones, top)] + [rng.choice(COUNTS)]:
                    for s in ("ui" if both_signs else rng.choice("ui")):
                        yield f"{op} {s}{cfg} {hx(a)}", tag


def any_value(rng, w, n):
    return value(rng, w, n) if rng.random() < 0.5 else runs_value(rng, w, n)


def pow2_edges(rng, w, n):
    """2^k and its neighbours at the exponents where the power-of-two functions change behaviour"""
    W = w * n
    M = 1 << W
    ks = {0, 1, w - 1, w, W - 1, W - 2, W - w, max(0, W - w - 1), rng.randrange(W), w * rng.randrange(n)}
    out = []
    for k in sorted(k for k in ks if 0 <= k < W):
        for d in (-1, 0, 1):
            out.append(pat((1 << k) + d, W))
    out += [M - 1, M - 2, (M >> 1) + (M >> 2), 3 << max(0, W - w - 1) if W > w else 3]
    return sorted(set(v & (M - 1) for v in out))


def indices(rng, w, n, k_in=6, k_out=1):
    """bit indices: `k_in` in range (digit boundaries first), `k_out` out of range"""
    W = w * n
    cand = [0, 1, w - 1, W - 1, W - w, W - 2]
    cand += [i for i in (w, w + 1, W - w - 1, W - w + 1, 255, 256, 257, 65535, 65536) if i < W]
    if n > 1:
        j = rng.randrange(1, n)
        cand += [j * w - 1, j * w, j * w + 1 if j * w + 1 < W else j * w]
    cand += [rng.randrange(W) for _ in range(3)]
    cand = [i for i in cand if 0 <= i < W]
    ins = rng.sample(cand, min(k_in, len(cand)))
    outs = rng.sample([W, W + 1, W + w - 1, W + w, 2 * W, (1 << 31), (1 << 32) - 1, W + 8 * rng.randrange(1, 64)], k_out)
    return ins + outs


def _index_ops(rng, cfg, k_in, k_out, signs="ui"):
    """bit / set_bit / power_of_two with indices drawn independently per operation"""
    w, n = wn(cfg)
    t, a = any_value(rng, w, n)
    for s in signs:
        for i in indices(rng, w, n, k_in, k_out):
            yield f"bit {s}{cfg} {hx(a)} {i}", t
    t, a = any_value(rng, w, n)
    for i in indices(rng, w, n, k_in, k_out):
        yield f"set_bit u{cfg} {hx(a)} {i} {rng.randrange(2)}", t
    for i in indices(rng, w, n, k_in, k_out):
        yield f"power_of_two u{cfg} {i}", "idx"


def _scans(rng, cfg, vals):
    """every index of the configuration in one request"""
    for a in vals:
        for s in "ui":
            yield f"bit_scan {s}{cfg} {hx(a)}", "scan"
        for v in (0, 1):
            yield f"set_bit_scan u{cfg} {hx(a)} {v}", "scan"
    yield f"power_of_two_scan u{cfg}", "scan"


def _npo2(cfg, a, t):
    for op in U_ONLY:
        yield f"{op} u{cfg} {hx(a)}", t
    for mode in ("dbg", "rel"):
        yield f"next_power_of_two u{cfg} {mode} {hx(a)}", t


def _gen_main(rng, tier):
    reps = 150 if tier == "thorough" else 20
    for cfg in cfgs(tier):
        w, n = wn(cfg)
        W = w * n
        M = 1 << W
        r = reps if n <= 40 else 10
        for _ in range(r):
            for s in "ui":
                for op in BIN:
                    t, a, b = pair(rng, w, n)
                    yield f"{op} {s}{cfg} {hx(a)} {hx(b)}", t
                for op in UN + (U_ONLY if s == "u" else []):
                    t, a = any_value(rng, w, n)
                    yield f"{op} {s}{cfg} {hx(a)}", t
            yield from _index_ops(rng, cfg, 3, 1)
            t, a = any_value(rng, w, n)
            for mode in ("dbg", "rel"):
                yield f"next_power_of_two u{cfg} {mode} {hx(a)}", t
        # power-of-two boundary operands of this configuration
        for a in pow2_edges(rng, w, n):
            yield from _npo2(cfg, a, "pow2-edge")
            for s in "ui":
                for op in POW2:
                    yield f"{op} {s}{cfg} {hx(a)}", "pow2-edge"
        # runs of every length k = 0..n (n <= 17), else the ends and a few in between
        ks = range(n + 1) if n <= 17 else sorted({0, 1, n // 2, n - 1, n, rng.randrange(n)})
        yield from _runs_cases(rng, cfg, ks, "runs")
        # all indices of a few values
        vals = [0, M - 1, rng.randrange(M), runs_value(rng, w, n)[1]]
        yield from _scans(rng, cfg, vals if n <= 40 else vals[2:])
    if tier == "thorough":
        for a in range(1 << 16):
            for s in "ui":
                for op in UN:
                    yield f"{op} {s}8x2 {hx(a)}", "exhaustive16"
                yield f"bit_scan {s}8x2 {hx(a)}", "exhaustive16"
            yield from _npo2("8x2", a, "exhaustive16")
            if a % 16 in (0, 5, 15):
                yield f"set_bit_scan u8x2 {hx(a)} {a >> 4 & 1}", "exhaustive16"
        for a in range(256):
            for b in range(256):
                for s in "ui":
                    for op in BIN:
                        yield f"{op} {s}8x1 {hx(a)} {hx(b)}", "exhaustive8x8"


def _widths(rng):
    """Thorough tier: the BITS-dependent totals for EVERY digit count N = 1..1024 of the u8-digit type
    (answered by harness bin `c06w`): zero / all-ones / one-bit patterns where the counts are BITS, BITS-1, 0;
    reversal of non-palindromic patterns; the power-of-two rounding boundary; the top bit index."""
    for n in range(1, 1025):
        W = 8 * n
        M = 1 << W
        cfg = f"8x{n}"
        r = rng.randrange(M)
        k = rng.randrange(W)
        t = "width-sweep"
        for op, a in (("count_zeros", 0), ("count_zeros", r), ("leading_zeros", 0), ("leading_zeros", 1),
                      ("trailing_zeros", 0), ("trailing_zeros", M >> 1), ("leading_ones", M - 1),
                      ("leading_ones", M - 1 - (1 << k)), ("trailing_ones", M - 1), ("trailing_ones", (1 << k) - 1),
                      ("bits", M - 1), ("bits", 1 << k), ("reverse_bits", 1), ("reverse_bits", r),
                      ("swap_bytes", r), ("not", r), ("is_power_of_two", M >> 1), ("is_one", 1), ("is_zero", 0),
                      ("checked_next_power_of_two", (M >> 1) + 1), ("checked_next_power_of_two", M >> 1),
                      ("checked_next_power_of_two", (M >> 1) - 1), ("checked_next_power_of_two", (1 << k) + 1),
                      ("wrapping_next_power_of_two", (M >> 1) + 1), ("wrapping_next_power_of_two", r)):
            yield f"{op} u{cfg} {hx(a)}", t
        for mode in ("dbg", "rel"):
            yield f"next_power_of_two u{cfg} {mode} {hx(M - 1)}", t
        for i in (W - 1, k, W):
            yield f"power_of_two u{cfg} {i}", t
            yield f"bit u{cfg} {hx((M >> 1) | (1 << k))} {i}", t
        yield f"set_bit u{cfg} {hx(r)} {W - 1} {rng.randrange(2)}", t
        yield f"set_bit u{cfg} {hx(r)} {k} {rng.randrange(2)}", t
        if n <= 160 or n % 32 == 0:
            yield f"bit_scan u{cfg} {hx(r)}", t
            yield f"power_of_two_scan u{cfg}", t


def gen(rng, tier):
    yield from _gen_main(rng, tier)
    if tier == "thorough":
        yield from _widths(rng)
    yield from _grid(rng, tier)
    yield from _huge(rng, tier)
    yield from _prim.bits(rng, tier)


def _grid(rng, tier):
    for cfg in GRID_CFGS:
        w, n = wn(cfg)
        g = edge_grid(w, n)
        for a in g:
            for s in "ui":
                for op in UN:
                    yield f"{op} {s}{cfg} {hx(a)}", "edge-grid"
                yield f"bit_scan {s}{cfg} {hx(a)}", "edge-grid"
            yield from _npo2(cfg, a, "edge-grid")
        # set_bit over all indices: both values on a sample of the grid
        for a in (g if len(g) <= 25 else rng.sample(g, 25)):
            for v in (0, 1):
                yield f"set_bit_scan u{cfg} {hx(a)} {v}", "edge-grid"
        for a, b in grid_pairs(rng, cfg, 700 if tier == "thorough" else 150):
            for s in "ui":
                for op in BIN:
                    yield f"{op} {s}{cfg} {hx(a)} {hx(b)}", "edge-grid"


def _huge(rng, tier):
    """8192 bits, every digit type: every operation; the BITS-dependent totals reach their maxima
    (count 8192 > u8/u12 counters, digit index up to 1023, ...)"""
    for cfg in HUGE_CFGS:
        w, n = wn(cfg)
        W = w * n
        M = 1 << W
        base = huge_values(rng, cfg) + [0, 2, M - 2]
        for a in base:
            # (the signed methods forward to the unsigned ones: one signedness per request, at random,
            # keeps the 2 KB requests few; both are always used on the all-ones and zero patterns)
            for op in UN:
                for s in ("ui" if a in (0, M - 1) else rng.choice("ui")):
                    yield f"{op} {s}{cfg} {hx(a)}", "huge"
            yield from _npo2(cfg, a, "huge")
        # runs: k whole extreme digits (k at the ends, in the middle, around 256 digits) then a partial digit
        ks = sorted({1, n // 2, n - 2, n - 1, rng.randrange(n)} | {k for k in (255, 256, 257) if k < n - 1})
        yield from _runs_cases(rng, cfg, ks, "huge-runs", both_signs=False)
        # power-of-two boundaries
        for a in rng.sample(pow2_edges(rng, w, n), 8) + [(M >> 1) + 1, M >> 1, (M >> 1) - 1]:
            yield from _npo2(cfg, a, "huge-pow2")
            for op in POW2:
                yield f"{op} {rng.choice('ui')}{cfg} {hx(a)}", "huge-pow2"
        for _ in range(3):
            for op in BIN:
                t, a, b = pair(rng, w, n)
                yield f"{op} {rng.choice('ui')}{cfg} {hx(a)} {hx(b)}", "huge"
        # index operations: sampled indices, and every index of two values
        for x in _index_ops(rng, cfg, 10, 2, signs=rng.choice(["ui", "iu"])[:1]):
            yield x[0], "huge-idx"
        yield from _scans(rng, cfg, [runs_value(rng, w, n)[1]])


def ROUTE(line):
    # configurations u8xN outside the standard list: `count_ones` goes to the shared `widths` bin (the only C06
    # operation it knows), everything else to `c06w`
    if _ws.is_sweep(line):
        return "widths" if line.startswith("count_ones ") else "c06w"
    return _route_inner(line)
