"""C13 cases: TryFrom / BTryFrom / From conversions, digit array access."""
from .common import *
from .c09 import GRID, PRIMS, bn_types, type_bits


def boundary_value(rng, sname, dname):
    """MAX_dst, MAX_dst+1, MIN_dst, MIN_dst-1 embedded in the source, plus structured values"""
    sb, ssigned, sw = type_bits(sname)
    db, dsigned, dw = type_bits(dname)
    dmax = (1 << (db - 1)) - 1 if dsigned else (1 << db) - 1
    dmin = -(1 << (db - 1)) if dsigned else 0
    smax = (1 << (sb - 1)) - 1 if ssigned else (1 << sb) - 1
    smin = -(1 << (sb - 1)) if ssigned else 0
    c = rng.randrange(10)
    if c < 5:
        z = rng.choice([dmax, dmax + 1, dmin, dmin - 1, dmax - 1, dmin + 1, 0, -1, 1])
        z = max(smin, min(smax, z))
        return "boundary", pat(z, sb)
    if c < 7 and sw and sb > sw:
        # low digit = a valid (sign-extended) target value, upper digits say otherwise
        low = pat(rng.choice([dmax, dmin, -1, 0, 1, rng.randrange(dmin, dmax + 1)]), sw)
        hi = rng.choice([0, (1 << (sb - sw)) - 1, 1, rng.randrange(1 << (sb - sw))])
        return "low-digit-decoy", (hi << sw) | low
    w = sw or 8
    t, v = value(rng, w, sb // w)
    return t, v


def gen(rng, tier):
    bn = [t[0] for t in bn_types()]
    prims = list(PRIMS)
    reps = 12 if tier == "thorough" else 10
    pairs = []
    # bnum -> prim (TryFrom), bnum -> bnum (BTryFrom), prim -> bnum at least as wide (From/TryFrom)
    for s in bn:
        for d in prims:
            pairs.append((s, d))
        for d in bn:
            pairs.append((s, d))
    for s in prims:
        for d in bn:
            if type_bits(d)[0] >= PRIMS[s]:
                pairs.append((s, d))
    for s, d in pairs:
        for _ in range(reps):
            t, v = boundary_value(rng, s, d)
            yield f"try {s} {d} {hx(v)}", t
        sb, ssigned, _ = type_bits(s)
        db, _, _ = type_bits(d)
        ks = sorted(set(k for k in (8, 16, 32, 64, 128, sb, db, sb - 1, db - 1) if 0 < k <= sb))
        for k in ks:
            for z in ((1 << k) - 1, 1 << (k - 1)):
                yield f"try {s} {d} {hx(pat(z, sb))}", "pair-boundary"
                if ssigned:
                    yield f"try {s} {d} {hx(pat(-z, sb))}", "pair-boundary"
    for d in bn:
        yield f"try bool {d} 0", "bool"
        yield f"try bool {d} 1", "bool"
        if d[0] == "u" and type_bits(d)[0] >= 32:
            for c in (0, 0x41, 0xff, 0xd7ff, 0xe000, 0x10ffff):
                yield f"try char {d} {hx(c)}", "char"
    for cfg in cfgs(tier):
        w, n = wn(cfg)
        if n > 40:
            continue
        for _ in range(reps):
            t, v = value(rng, w, n)
            ds = ",".join(hx((v >> (w * i)) & ((1 << w) - 1)) for i in range(n))
            yield f"from_digits u{cfg} {ds}", t
            yield f"from_array u{cfg} {ds}", t
            yield f"digits u{cfg} {hx(v)}", t
            yield f"into_array u{cfg} {hx(v)}", t
            yield f"from_digit u{cfg} {hx(digit_value(rng, w))}", "digit"
