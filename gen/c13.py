"""C13 cases: TryFrom / BTryFrom / From conversions, digit array access.

Request forms (see lean/Bnum/Drive/C13.lean):
  try <src> <dst> <hex>        plain form (TryFrom / BTryFrom / From)
  try <src> <dst> <hex> tf     the `TryFrom` form of a `From` conversion (core's blanket impl)
  from_digit / from_digits / from_array / digits / into_array <cfg> ...

Type vocabulary: the shared 40-type cast grid of C09 (<= 192 bits) for every ordered pair, plus the WIDE
vocabulary of harness/src/bin/c13.rs (every digit type at 8192 bits, odd digit counts, 1024 bits, two
single-digit types) with a few well-chosen cases per ordered pair (the Lean model needs 5-20 ms per
8192-bit case, so volume goes to the narrow grid and structure to the wide one).
"""
from .common import *
from .c09 import GRID, PRIMS, bn_types, type_bits

# must match `for_wtype!` in harness/src/bin/c13.rs
WIDE = ["8x1024", "16x512", "32x256", "64x128", "64x127", "16x33", "64x16", "8x1", "64x1", "64x1025", "8x8200"]
WIDE_NARROW = {"8x1", "64x1"}            # already in the grid: only paired with genuinely wide types here
# digit-array access on wide instantiations (present in `for_config!`)
WIDE_DIGIT_CFGS = ["64x128", "8x1024", "16x512", "32x256", "64x64", "8x64", "64x16"]


def limits(sname, dname):
    sb, ssigned, sw = type_bits(sname)
    db, dsigned, dw = type_bits(dname)
    dmax = (1 << (db - 1)) - 1 if dsigned else (1 << db) - 1
    dmin = -(1 << (db - 1)) if dsigned else 0
    smax = (1 << (sb - 1)) - 1 if ssigned else (1 << sb) - 1
    smin = -(1 << (sb - 1)) if ssigned else 0
    return sb, ssigned, sw, db, dsigned, dw, dmin, dmax, smin, smax


def target_value(rng, dmin, dmax):
    """a number representable in the target, biased to its edges"""
    return rng.choice([dmax, dmin, dmax - 1, dmin + 1, 0, 1, -1 if dmin < 0 else 2,
                       rng.randrange(dmin, dmax + 1), rng.randrange(dmin, dmax + 1)])


def upper_probe(rng, sname, dname):
    """The low part of the source is a valid target value, sign-extended through the whole source PATTERN
    (also for unsigned sources: the low digit then passes every `digit as T as Digit == digit` round trip);
    then nothing / one bit / one whole source digit above the target's width is disturbed.  Finds checks that
    stop looking before the last digit, look at the wrong digit, or trust the low digit."""
    sb, ssigned, sw, db, dsigned, dw, dmin, dmax, smin, smax = limits(sname, dname)
    w = sw or 8
    z = pat(target_value(rng, dmin, dmax), sb)
    lo = min(db, sb - 1)                 # first bit position that is "above" the target (or the source's top bit)
    c = rng.randrange(8)
    if c == 0:
        return "upper-probe", z
    if c < 5:
        nd = sb // w
        j0 = min(lo // w, nd - 1)
        j = rng.choice([j0, nd - 1, nd - 1, rng.randrange(j0, nd), min(j0 + 1, nd - 1)])
        p = rng.choice([max(lo, w * j), w * j + w - 1, rng.randrange(max(lo, w * j), max(lo, w * j + w - 1) + 1),
                        lo, sb - 1, sb - 2 if sb - 2 >= lo else sb - 1, max(lo - 1, 0)])
        p = min(p, sb - 1)
        return "upper-probe", z ^ (1 << p)
    # one whole digit of the source above the target width replaced
    nd = sb // w
    j0 = min((lo + w - 1) // w, nd - 1)
    j = rng.choice([j0, nd - 1, rng.randrange(j0, nd)])
    d = rng.choice([0, 1, (1 << w) - 1, 1 << (w - 1), (1 << (w - 1)) - 1, rng.randrange(1 << w)])
    z = (z & ~(((1 << w) - 1) << (w * j))) | (d << (w * j))
    return "upper-digit-probe", z & ((1 << sb) - 1)


def bitlen_probe(rng, sname, dname):
    """magnitude with a bit length exactly at / next to the target's capacity, arbitrary low bits (the
    leading_zeros / leading_ones comparisons of BTryFrom, the `out < 0` test of the primitive targets)"""
    sb, ssigned, sw, db, dsigned, dw, dmin, dmax, smin, smax = limits(sname, dname)
    cap = db - 1 if dsigned else db
    L = rng.choice([cap - 1, cap, cap, cap + 1, cap + 1, cap + 2, sb - 1, sb])
    if sb > 65536 and rng.random() < 0.6:
        # sources beyond 65535 bits: bit lengths where a 16-bit count of significant bits wraps to 0, 1, ..., cap
        # (added after seeded change C13-r7m2)
        L = 65536 + rng.choice([0, 1, 1, 2, cap - 1, cap, cap + 1, rng.randrange(0, sb - 65536 + 1)])
    L = max(1, min(L, sb))
    low = rng.choice([0, (1 << (L - 1)) - 1, rng.randrange(1 << (L - 1)), rng.randrange(1 << (L - 1)), 1 % (1 << (L - 1)) if L > 1 else 0])
    z = (1 << (L - 1)) + low
    if ssigned and rng.random() < 0.5:
        z = -z + rng.choice([0, 0, 1, -1])
    z = max(smin, min(smax, z))
    return "bitlen-probe", pat(z, sb)


def prim_digit_pattern(rng, sname, dname):
    """primitive source assembled from chunks of the TARGET's digit size drawn from the extreme digit values
    (zero digits inside negative numbers, all-ones digits inside positive ones: guarded / unguarded stores and
    the sign fill of the primitive -> bnum loops)"""
    sb, ssigned, sw, db, dsigned, dw, dmin, dmax, smin, smax = limits(sname, dname)
    cw = min(dw or 8, sb)
    v = 0
    for i in range(sb // cw):
        v |= digit_value(rng, cw) << (cw * i)
    if rng.random() < 0.5:
        v |= 1 << (sb - 1)              # force the sign bit / top bit
    return "prim-digit-pattern", v


def boundary_value(rng, sname, dname):
    """MAX_dst, MAX_dst+1, MIN_dst, MIN_dst-1 embedded in the source, plus structured values"""
    sb, ssigned, sw, db, dsigned, dw, dmin, dmax, smin, smax = limits(sname, dname)
    c = rng.randrange(20)
    if c < 7:
        z = rng.choice([dmax, dmax + 1, dmin, dmin - 1, dmax - 1, dmin + 1, 0, -1, 1])
        z = max(smin, min(smax, z))
        return "boundary", pat(z, sb)
    if c < 9 and sw and sb > sw:
        # low digit = a valid (sign-extended) target value, upper digits say otherwise
        low = pat(rng.choice([dmax, dmin, -1, 0, 1, rng.randrange(dmin, dmax + 1)]), sw)
        hi = rng.choice([0, (1 << (sb - sw)) - 1, 1, rng.randrange(1 << (sb - sw))])
        return "low-digit-decoy", (hi << sw) | low
    if c < 13:
        return upper_probe(rng, sname, dname)
    if c < 16:
        return bitlen_probe(rng, sname, dname)
    if c < 18 and sw is None:
        return prim_digit_pattern(rng, sname, dname)
    w = sw or 8
    t, v = value(rng, w, sb // w)
    return t, v


def limit_values(sname, dname):
    """the four representability limits of the target, as source patterns (those the source can hold)"""
    sb, ssigned, sw, db, dsigned, dw, dmin, dmax, smin, smax = limits(sname, dname)
    out = []
    for z in (dmax, dmax + 1, dmin, dmin - 1):
        if smin <= z <= smax:
            out.append(pat(z, sb))
    # the source's own limits (what the out-of-range ones clamp to)
    out += [pat(smax, sb), pat(smin, sb)]
    return out


def blanket(s, d):
    """is `D: From<S>` (so `TryFrom<S> for D` is core's blanket impl)?  S a primitive, D a bnum type"""
    return not (s[0] == "i" and d[0] == "u")


def char_values(rng):
    return [0, 0x41, 0x7f, 0x80, 0xff, 0x100, 0x7ff, 0x800, 0xd7ff, 0xe000, 0xffff, 0x10000, 0x10ffff,
            rng.randrange(0xd800), rng.randrange(0xe000, 0x110000), rng.randrange(0x10000, 0x110000)]


def gen(rng, tier):
    bn = [t[0] for t in bn_types()]
    prims = list(PRIMS)
    thorough = tier == "thorough"
    reps = 12 if thorough else 10
    pairs = []
    # bnum -> prim (TryFrom), bnum -> bnum (BTryFrom), prim -> bnum at least as wide (From/TryFrom)
    for s in bn:
        for d in prims:
            pairs.append((s, d))
        for d in bn:
            pairs.append((s, d))
    for s in prims:
        for d in bn:
            if type_bits(d)[0] >= PRIMS[s]:
                pairs.append((s, d))
    for s, d in pairs:
        seen = set()
        for _ in range(reps):
            t, v = boundary_value(rng, s, d)
            seen.add(v)
            yield f"try {s} {d} {hx(v)}", t
        sb, ssigned, _ = type_bits(s)
        db, _, _ = type_bits(d)
        ks = sorted(set(k for k in (8, 16, 32, 64, 128, sb, db, sb - 1, db - 1) if 0 < k <= sb))
        for k in ks:
            for z in ((1 << k) - 1, 1 << (k - 1)):
                seen.add(pat(z, sb))
                yield f"try {s} {d} {hx(pat(z, sb))}", "pair-boundary"
                if ssigned:
                    seen.add(pat(-z, sb))
                    yield f"try {s} {d} {hx(pat(-z, sb))}", "pair-boundary"
        # every representability limit of the target for EVERY ordered pair (not left to chance)
        for v in limit_values(s, d):
            if v not in seen:
                seen.add(v)
                yield f"try {s} {d} {hx(v)}", "limit"
        dsigned = d[0] == "i"
        if dsigned and not ssigned and sb > db:
            # unsigned source holding the sign-extended PATTERN of a negative target value (single-digit sources
            # included): passes every `digit as T as Digit == digit` round trip, must still be Err
            for z in (-(1 << (db - 1)), rng.randrange(-(1 << (db - 1)), 0)):
                if pat(z, sb) not in seen:
                    seen.add(pat(z, sb))
                    yield f"try {s} {d} {hx(pat(z, sb))}", "neg-decoy"
        if s in PRIMS and blanket(s, d):
            # the `TryFrom` form of the `From` conversions
            for _ in range(3 if thorough else 2):
                t, v = boundary_value(rng, s, d)
                yield f"try {s} {d} {hx(v)} tf", "tf-" + t
            yield f"try {s} {d} {hx(pat(-1, sb))} tf", "tf-allones"
    for d in bn:
        yield f"try bool {d} 0", "bool"
        yield f"try bool {d} 1", "bool"
        yield f"try bool {d} 0 tf", "tf-bool"
        yield f"try bool {d} 1 tf", "tf-bool"
        if d[0] == "u" and type_bits(d)[0] >= 32:
            for i, c in enumerate(char_values(rng)):
                yield f"try char {d} {hx(c)}", "char"
                if i % 3 == 0:
                    yield f"try char {d} {hx(c)} tf", "tf-char"

    # ---------------------------------------------------------------- wide vocabulary (up to 8192 bits)
    wide = [s + c for c in WIDE for s in "ui"]
    wreps = 5 if thorough else 1

    def wide_cases(s, d, n_lim, n_probe, n_val):
        lv = limit_values(s, d)
        for v in rng.sample(lv, min(n_lim, len(lv))):
            yield f"try {s} {d} {hx(v)}", "wide-limit"
        for _ in range(n_probe):
            t, v = (upper_probe if rng.random() < 0.6 else bitlen_probe)(rng, s, d)
            yield f"try {s} {d} {hx(v)}", "wide-" + t
        for _ in range(n_val):
            t, v = boundary_value(rng, s, d)
            yield f"try {s} {d} {hx(v)}", "wide-" + t

    for s in wide:
        for d in wide:
            if s[1:] in WIDE_NARROW and d[1:] in WIDE_NARROW:
                continue
            yield from wide_cases(s, d, 2 * wreps, 2 * wreps, 1 * wreps)
    for s in wide:
        if s[1:] in WIDE_NARROW:
            continue
        for p in prims:
            # wide -> primitive: assemble loop + "all remaining digits are padding" over up to 1023 digits
            yield from wide_cases(s, p, 2 * wreps, 3 * wreps, 1 * wreps)
            # primitive -> wide (always at least as wide)
            yield from wide_cases(p, s, 1 * wreps, 0, 2 * wreps)
            if blanket(p, s):
                t, v = boundary_value(rng, p, s)
                yield f"try {p} {s} {hx(v)} tf", "wide-tf-" + t
        yield f"try bool {s} 1", "wide-bool"
        yield f"try bool {s} {rng.randrange(2)} tf", "wide-tf-bool"
        if s[0] == "u":
            for c in rng.sample(char_values(rng), 3):
                yield f"try char {s} {hx(c)}", "wide-char"
            yield f"try char {s} {hx(rng.randrange(0xe000, 0x110000))} tf", "wide-tf-char"

    # ---------------------------------------------------------------- digit-array access
    def digit_cases(cfg, k):
        w, n = wn(cfg)
        for _ in range(k):
            t, v = value(rng, w, n)
            ds = ",".join(hx((v >> (w * i)) & ((1 << w) - 1)) for i in range(n))
            yield f"from_digits u{cfg} {ds}", t
            yield f"from_array u{cfg} {ds}", t
            yield f"digits u{cfg} {hx(v)}", t
            yield f"into_array u{cfg} {hx(v)}", t
            yield f"from_digit u{cfg} {hx(digit_value(rng, w))}", "digit"

    done = set()
    for cfg in cfgs(tier):
        w, n = wn(cfg)
        if n > 40:
            continue
        done.add(cfg)
        yield from digit_cases(cfg, reps)
    for cfg in WIDE_DIGIT_CFGS:
        if cfg not in done:
            yield from digit_cases(cfg, 4 if thorough else 2)
