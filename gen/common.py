"""Case-generation helpers shared by gen/cxx.py.  All randomness comes from one random.Random."""
import random

QUICK_CFGS = ["8x1", "8x2", "8x3", "8x5", "16x1", "16x3", "32x2", "32x3", "64x1", "64x2", "64x3",
              # wider instantiations (136, 80, 192, 320, 512 bits): changes that only show with many digits
              "8x17", "16x5", "32x6", "64x5", "64x8",
              # more digit counts (changes keyed to a particular N or to blocks of 8 / 64 digits)
              "8x12", "16x9", "64x12", "8x64",
              # 56 bits: the only width strictly between the f64 mantissa (53) and 64
              "8x7"]
THOROUGH_CFGS = QUICK_CFGS + ["8x4", "8x8", "8x16", "8x40", "16x2", "16x4", "16x20",
                              "32x1", "32x4", "32x10", "64x4", "64x16", "64x128",
                              "8x9", "8x24", "16x12", "32x12", "64x9", "64x64"]


def cfgs(tier):
    return THOROUGH_CFGS if tier == "thorough" else QUICK_CFGS


def wn(cfg):
    w, n = cfg.split("x")
    return int(w), int(n)


def hx(v):
    return format(v, "x")


def to_signed(v, W):
    return v - (1 << W) if v >> (W - 1) else v


def pat(z, W):
    return z & ((1 << W) - 1)


def digit_value(rng, w):
    B = 1 << w
    return rng.choice([0, 0, 1, B - 1, B - 1, B // 2, B // 2 - 1, B - 2, 2, rng.randrange(B), rng.randrange(B)])


def value(rng, w, n):
    """One W-bit pattern drawn from structured classes (tag, value)."""
    W = w * n
    M = 1 << W
    c = rng.randrange(23)
    if c == 0:
        return "zero", 0
    if c == 1:
        return "one", 1
    if c == 2:
        return "allones", M - 1
    if c == 3:
        return "smin", M >> 1
    if c == 4:
        return "smax", (M >> 1) - 1
    if c == 5:
        k = rng.randrange(W)
        return "pow2", 1 << k
    if c == 6:
        k = rng.randrange(W)
        return "pow2m1", (1 << k) - 1 if k else 0
    if c == 7:
        k = rng.randrange(W)
        return "pow2p1", pat((1 << k) + 1, W)
    if c == 8:
        return "small", rng.randrange(0, 11)
    if c == 9:
        return "negsmall", pat(-rng.randrange(1, 11), W)
    if c == 10:
        # near MIN / MAX
        return "nearlim", pat((M >> 1) + rng.randrange(-3, 4), W)
    if c == 11:
        return "random", rng.randrange(M)
    if c == 12:
        # low digits only (short value)
        k = rng.randrange(1, n + 1)
        return "short", rng.randrange(1 << (w * k))
    if c in (13, 14):
        # +-2^(w*j) +- small: the low digit(s) look like a sign-/zero-extended narrow value while the
        # whole number has the other sign or magnitude (digit-boundary confusions)
        j = rng.randrange(1, n + 1)
        z = rng.choice([1, -1]) * (1 << (w * j)) + rng.choice([-129, -128, -127, -2, -1, 0, 1, 2, 127, 128, 129])
        return "digit-boundary", pat(z, W)
    if c == 18:
        # the low k digits (or low j bits) are zero
        if rng.random() < 0.5:
            k = rng.randrange(1, n + 1)
            return "low-zero-digits", pat(rng.randrange(1, 1 << max(1, W - w * k + 1)) << (w * k), W)
        j = rng.randrange(1, W)
        return "low-zero-bits", pat(rng.randrange(1, 1 << (W - j)) << j, W)
    if c == 19:
        # a single non-zero digit somewhere / a window of non-zero digits with zeros around it
        i = rng.randrange(n)
        ln = rng.choice([1, 1, 2, rng.randrange(1, n - i + 1)])
        return "digit-window", pat(rng.choice([1, (1 << (w * ln)) - 1, rng.randrange(1, 1 << (w * ln))]) << (w * i), W)
    if c == 20:
        # the same digit repeated (0x0101.., 0x7f7f.., 0xabab..), optionally with one digit disturbed
        d = digit_value(rng, w) or 1
        v = sum(d << (w * i) for i in range(n))
        if rng.random() < 0.3:
            v ^= rng.randrange(1, 1 << w) << (w * rng.randrange(n))
        return "repeated-digit", v
    if c == 21:
        # one run of ones from bit i to bit j (and its complement)
        i = rng.randrange(W)
        j = rng.randrange(i, W)
        v = ((1 << (j - i + 1)) - 1) << i
        return "bit-run", v if rng.random() < 0.7 else pat(~v, W)
    if c == 22:
        # digit-palindromes
        h = [digit_value(rng, w) for _ in range((n + 1) // 2)]
        ds = h + h[:n // 2][::-1]
        return "palindrome", sum(d << (w * i) for i, d in enumerate(ds))
    # extreme digits
    v = 0
    for i in range(n):
        v |= digit_value(rng, w) << (w * i)
    return "digits", v


def pair(rng, w, n):
    """Two related patterns (tag, a, b)."""
    W = w * n
    M = 1 << W
    ta, a = value(rng, w, n)
    c = rng.randrange(14)
    if c == 0:
        return ta + "/same", a, a
    if c == 1:
        return ta + "/+1", a, pat(a + 1, W)
    if c == 2:
        return ta + "/-1", a, pat(a - 1, W)
    if c == 3:
        return ta + "/neg", a, pat(-a, W)
    if c == 4:
        return ta + "/not", a, pat(~a, W)
    if c == 5:
        # complement to the modulus +- small: carries through every digit
        return ta + "/compl", a, pat(M - a + rng.randrange(-2, 3), W)
    if c == 6:
        return ta + "/halfcompl", a, pat((M >> 1) - a + rng.randrange(-2, 3), W)
    if c == 8:
        k = rng.randrange(W)
        return ta + "/shifted", a, pat(a << k, W) if rng.random() < 0.5 else a >> k
    if c == 9:
        k = rng.randrange(W + 1)
        return ta + "/sum-pow2", a, pat((1 << k) - a, W)          # a + b = 2^k exactly
    if c == 10:
        return ta + "/multiple", a, pat(a * rng.choice([2, 3, 5, 7, 10, (1 << w) - 1, (1 << w) + 1]), W)
    if c == 7:
        # exactly one digit differs (by one bit or completely)
        i = rng.randrange(n)
        d = rng.choice([1, 1 << (w - 1), (1 << w) - 1, rng.randrange(1, 1 << w)])
        return ta + "/one-digit-diff", a, a ^ (d << (w * i))
    tb, b = value(rng, w, n)
    return ta + "/" + tb, a, b


def shift_amount(rng, w, n):
    W = w * n
    c = rng.choice([0, 1, w - 1, w, w + 1, W - 1, W, W + 1, 2 * W - 1, 2 * W, (1 << 32) - 1, (1 << 31),
                    rng.randrange(W), rng.randrange(W), rng.randrange(W), rng.randrange(2 * W + 2),
                    rng.randrange(1 << 32)])
    return max(0, c)


def edge_grid(w, n):
    """all values whose digits are drawn from {0, 1, B/2-1, B/2, B-1} (5^n values); n <= 3 only"""
    B = 1 << w
    ds = [0, 1, B // 2 - 1, B // 2, B - 1]
    vals = [0]
    for i in range(n):
        vals = [v | (d << (w * i)) for v in vals for d in ds]
    return vals


GRID_CFGS = ["8x1", "8x2", "16x2", "64x2", "8x3", "32x3"]


def grid_pairs(rng, cfg, limit):
    """(a, b) over the edge grid of `cfg`: complete when it has at most `limit` pairs, else a random sample"""
    w, n = wn(cfg)
    g = edge_grid(w, n)
    if len(g) * len(g) <= limit:
        return [(a, b) for a in g for b in g]
    return [(rng.choice(g), rng.choice(g)) for _ in range(limit)]


# the widest in-scope instantiation of every digit type (8192 bits)
HUGE_CFGS = ["8x1024", "16x512", "32x256", "64x128"]


def huge_values(rng, cfg):
    """dense / extreme 8192-bit operands: column sums, carries and counters reach their maxima here"""
    w, n = wn(cfg)
    W = w * n
    M = 1 << W
    B = 1 << w
    dense = sum(rng.randrange(B - B // 16, B) << (w * i) for i in range(n))
    alt = sum((B - 1 if i % 2 else 0) << (w * i) for i in range(n))
    return [M - 1, dense, (M >> 1) - 1, M >> 1, alt, rng.randrange(M), 1, (1 << (W // 2)) + 1]
