"""C01 cases: add / sub / neg / abs family."""
from .common import *
from . import prim as _prim

# the trusted leaf layer (Lean Prim.*) is validated against rustc's primitives in the same run
HARNESS_BINS = ["c01", "prim"]


def ROUTE(line):
    return _prim.route(line, "c01")

U_BIN = ["overflowing_add", "overflowing_sub", "checked_add", "checked_sub", "wrapping_add", "wrapping_sub",
         "saturating_add", "saturating_sub", "overflowing_add_signed", "checked_add_signed",
         "wrapping_add_signed", "saturating_add_signed", "strict_add", "strict_sub", "strict_add_signed", "abs_diff"]
U_UN = ["overflowing_neg", "checked_neg", "wrapping_neg", "strict_neg"]
I_BIN = ["overflowing_add", "overflowing_sub", "checked_add", "checked_sub", "wrapping_add", "wrapping_sub",
         "saturating_add", "saturating_sub", "overflowing_add_unsigned", "overflowing_sub_unsigned",
         "checked_add_unsigned", "checked_sub_unsigned", "wrapping_add_unsigned", "wrapping_sub_unsigned",
         "saturating_add_unsigned", "saturating_sub_unsigned", "strict_add", "strict_sub", "strict_add_unsigned",
         "strict_sub_unsigned", "abs_diff"]
I_UN = ["overflowing_neg", "overflowing_abs", "checked_neg", "checked_abs", "wrapping_neg", "wrapping_abs",
        "saturating_neg", "saturating_abs", "unsigned_abs", "strict_neg", "strict_abs"]
CARRY = ["carrying_add", "borrowing_sub"]


def _gen_main(rng, tier):
    reps = 200 if tier == "thorough" else 25
    for cfg in cfgs(tier):
        w, n = wn(cfg)
        for _ in range(reps):
            for s, bins, uns in (("u", U_BIN, U_UN), ("i", I_BIN, I_UN)):
                for op in bins:
                    t, a, b = pair(rng, w, n)
                    yield f"{op} {s}{cfg} {hx(a)} {hx(b)}", t
                for op in uns:
                    t, a = value(rng, w, n)
                    yield f"{op} {s}{cfg} {hx(a)}", t
                t, a, b = pair(rng, w, n)
                for mode in ("dbg", "rel"):
                    yield f"midpoint {s}{cfg} {mode} {hx(a)} {hx(b)}", t
                for op in CARRY:
                    t, a, b = pair(rng, w, n)
                    for c in (0, 1):
                        yield f"{op} {s}{cfg} {hx(a)} {hx(b)} {c}", t + "/c%d" % c
    if tier == "thorough":
        # complete enumeration at 8 bits for a representative subset
        for s, ops in (("u", ["overflowing_add", "overflowing_sub", "overflowing_add_signed", "saturating_add_signed", "abs_diff", "midpoint"]),
                       ("i", ["overflowing_add", "overflowing_sub", "overflowing_add_unsigned",
                              "overflowing_sub_unsigned", "saturating_add", "saturating_sub", "abs_diff", "midpoint"])):
            for op in ops:
                for a in range(256):
                    for b in range(256):
                        if op == "midpoint":
                            yield f"{op} {s}8x1 dbg {hx(a)} {hx(b)}", "exhaustive8"
                        else:
                            yield f"{op} {s}8x1 {hx(a)} {hx(b)}", "exhaustive8"


def gen(rng, tier):
    yield from _gen_main(rng, tier)
    yield from _grid(rng, tier)
    yield from _huge(rng, tier)
    yield from _prim.arith(rng, tier)


def _grid(rng, tier):
    """systematic edge-digit grid: every pair of values with digits in {0,1,B/2-1,B/2,B-1} on small multi-digit types"""
    lim = 20000 if tier == "thorough" else 700
    for cfg in GRID_CFGS:
        for s, ops in (("u", ["overflowing_add", "overflowing_sub", "overflowing_add_signed", "abs_diff", "saturating_add_signed"]),
                       ("i", ["overflowing_add", "overflowing_sub", "overflowing_add_unsigned", "overflowing_sub_unsigned", "abs_diff", "saturating_sub"])):
            for op in ops:
                for a, b in grid_pairs(rng, cfg, lim):
                    yield f"{op} {s}{cfg} {hx(a)} {hx(b)}", "edge-grid"
            for a, b in grid_pairs(rng, cfg, lim):
                yield f"carrying_add {s}{cfg} {hx(a)} {hx(b)} 1", "edge-grid"
                yield f"borrowing_sub {s}{cfg} {hx(a)} {hx(b)} 1", "edge-grid"
                yield f"midpoint {s}{cfg} dbg {hx(a)} {hx(b)}", "edge-grid"


def _huge(rng, tier):
    for cfg in HUGE_CFGS:
        vals = huge_values(rng, cfg)
        k = 0
        for a in vals:
            for b in vals[:4]:
                s = "ui"[k % 2]
                op = ["overflowing_add", "overflowing_sub", "saturating_add", "checked_sub", "abs_diff"][k % 5]
                k += 1
                yield f"{op} {s}{cfg} {hx(a)} {hx(b)}", "huge"
            yield f"overflowing_neg i{cfg} {hx(a)}", "huge"
