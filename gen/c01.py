"""C01 cases: add / sub / neg / abs family.

Input classes (all general; none is written for one known change):
  _gen_main   every op x every standard configuration on the shared structured value / pair classes
  _split      "split carry" pairs: the operands are cut at a bit k (0, a digit boundary, or anywhere); the low
              parts sum to 2^k-1 / 2^k / 2^k+1 (resp. differ by -1 / 0 / +1), so a carry (borrow) is just / just not
              handed to the high parts, and the high parts are placed on the representability boundaries of the
              (W-k)-bit type (sum = 0, -1, 1, MIN, MAX, MAX+1, MIN-1 ...), with high parts that are zero / sign
              extension / extreme / random (a quarter of the pairs: both operands short, i.e. zero- or
              sign-extended from bit k).  k = 0 gives the exact overflow boundaries of every op.
              Run for every op-form (incl. carry-in 0/1, midpoint in both build modes) on EVERY configuration
              the harness instantiates: the standard quick list, the thorough-only list, C01's own extra digit
              counts (harness/src/bin/c01.rs `extra_config`) and the four 8192-bit types.
  _unary      unary ops on values whose low j digits are zero (early exit of the negate loop at digit j) with an
              extreme / random remainder, on short values with zero / ones extension, plus the usual extremes, on
              every configuration (incl. 8192 bits); complete enumeration at 8 bits.
  _small8     every self value of the 8-bit types x 8 related rhs values x every op-form (quick);
              complete enumeration 256 x 256 of every op-form in the thorough tier.
  _grid       edge-digit grid {0,1,B/2-1,B/2,B-1}^n on small multi-digit types: the core ops completely (or a large
              sample), every other op-form on a sample; carry-in 0 and 1; midpoint in both build modes.
  _huge       every op-form on the four 8192-bit instantiations.
"""
from .common import *

# other public routes to this property's operations (check.py step 2d): the neighbour generator's requests whose
# operation matches are part of this run, answered by the neighbour's harness bin
NEIGHBOURS = {"C17": r"(add|sub|neg)_", "C18": r"nt_((checked_|wrapping_|saturating_|overflowing_)?(add|sub|neg|abs)|abs_sub|inc|dec)\b"}
from . import prim as _prim

# the trusted leaf layer (Lean Prim.*) is validated against rustc's primitives in the same run
HARNESS_BINS = ["c01", "prim"]


def ROUTE(line):
    return _prim.route(line, "c01")

U_BIN = ["overflowing_add", "overflowing_sub", "checked_add", "checked_sub", "wrapping_add", "wrapping_sub",
         "saturating_add", "saturating_sub", "overflowing_add_signed", "checked_add_signed",
         "wrapping_add_signed", "saturating_add_signed", "strict_add", "strict_sub", "strict_add_signed", "abs_diff"]
U_UN = ["overflowing_neg", "checked_neg", "wrapping_neg", "strict_neg"]
I_BIN = ["overflowing_add", "overflowing_sub", "checked_add", "checked_sub", "wrapping_add", "wrapping_sub",
         "saturating_add", "saturating_sub", "overflowing_add_unsigned", "overflowing_sub_unsigned",
         "checked_add_unsigned", "checked_sub_unsigned", "wrapping_add_unsigned", "wrapping_sub_unsigned",
         "saturating_add_unsigned", "saturating_sub_unsigned", "strict_add", "strict_sub", "strict_add_unsigned",
         "strict_sub_unsigned", "abs_diff"]
I_UN = ["overflowing_neg", "overflowing_abs", "checked_neg", "checked_abs", "wrapping_neg", "wrapping_abs",
        "saturating_neg", "saturating_abs", "unsigned_abs", "strict_neg", "strict_abs"]
CARRY = ["carrying_add", "borrowing_sub"]
MODES = ("dbg", "rel")

# digit counts instantiated by harness/src/bin/c01.rs only (see `extra_config` there)
EXTRA_CFGS = ["8x6", "8x10", "8x11", "8x13", "8x14", "8x15", "8x31", "8x32", "8x33", "8x63", "8x65", "8x127", "8x129",
              "16x6", "16x7", "16x8", "16x32", "32x5", "32x7", "32x8", "32x32", "64x6", "64x7", "64x32", "64x33"]


def _kind(op):
    """'sub' for the forms computing self - rhs, 'add' for self + rhs"""
    return "sub" if ("sub" in op or op == "abs_diff") else "add"


def _forms(s):
    """every binary op-form of signedness s as (op, text before the operands, text after them, kind)"""
    out = []
    for op in (U_BIN if s == "u" else I_BIN):
        out.append((op, "", "", _kind(op)))
    for op in CARRY:
        for c in (0, 1):
            out.append((op, "", " %d" % c, _kind(op)))
    for mode in MODES:
        out.append(("midpoint", mode + " ", "", "add"))
    return out


def _line(form, s, cfg, a, b):
    op, pre, suf, _ = form
    return f"{op} {s}{cfg} {pre}{hx(a)} {hx(b)}{suf}"


def _part(rng, w, n, bits):
    """a `bits`-bit pattern: zero / all ones / extremes / structured / random"""
    if bits <= 0:
        return 0
    m = 1 << bits
    c = rng.randrange(9)
    if c == 0:
        return 0
    if c == 1:
        return m - 1
    if c == 2:
        return 1
    if c == 3:
        return m >> 1
    if c == 4:
        return (m >> 1) - 1 if bits > 1 else 0
    if c == 5:
        return rng.randrange(m)
    if c == 6:
        return rng.randrange(1 << rng.randrange(1, bits + 1))
    return value(rng, w, n)[1] & (m - 1)


def split_pair(rng, w, n, kind):
    """(tag, a, b): carry / borrow handed over at bit k exactly (or just not), high parts on a boundary"""
    W = w * n
    c = rng.randrange(3)
    if c == 0 or (c == 1 and n == 1):
        k, tag = 0, "boundary"
    elif c == 1:
        k, tag = w * rng.randrange(1, n), "split-digit"
    else:
        k, tag = rng.randrange(W), "split-bit"
    Wh = W - k
    Mh, Ml = 1 << Wh, 1 << k
    half = Mh >> 1
    al = _part(rng, w, n, k)
    ah = _part(rng, w, n, Wh)
    d = rng.choice([-1, 0, 0, 1])
    e = rng.choice([0, 0, 1])
    TH = rng.choice([0, 0, half, half, 1, Mh - 1, half + 1, half - 1, Mh - 2, 2])
    if kind == "add":
        bl = (Ml + d - al) % Ml
        bh = (TH - ah - e) % Mh
    else:
        bl = (al - d) % Ml
        bh = (ah - TH - e) % Mh
    r = rng.randrange(8)
    if r == 0:
        bl = 0
    elif r == 1 and k:
        bl = rng.randrange(Ml)
    if k and rng.randrange(4) == 0:
        # both operands are short values (zero- or sign-extended from bit k): the carry / borrow out of the low
        # parts ripples into pure extension digits
        ah = rng.choice([0, Mh - 1])
        bh = rng.choice([0, Mh - 1])
        tag += "-short"
    return tag, (ah << k) | al, (bh << k) | bl


def _split(rng, tier):
    thorough = tier == "thorough"
    std = cfgs(tier)
    others = [c for c in THOROUGH_CFGS if c not in std] + EXTRA_CFGS
    for cfglist, reps in ((std, 60 if thorough else 12), (others, 24 if thorough else 6)):
        for cfg in cfglist:
            w, n = wn(cfg)
            for s in "ui":
                for form in _forms(s):
                    for _ in range(reps):
                        t, a, b = split_pair(rng, w, n, form[3] if rng.random() < 0.85 else ("sub" if form[3] == "add" else "add"))
                        yield _line(form, s, cfg, a, b), t


def unary_values(rng, w, n, small):
    """low j digits zero, remainder extreme / random; short values with zero / ones extension; the usual extremes"""
    W = w * n
    M = 1 << W
    B = 1 << w
    vals = [0, 1, 2, M - 1, M - 2, M >> 1, (M >> 1) - 1, pat((M >> 1) + 1, W), 1 << rng.randrange(W)]
    if n <= 8 and not small:
        js = list(range(n))
    else:
        js = sorted(set([0, 1, n // 2, n - 2, n - 1] + ([] if small else [2, 3, n - 3, rng.randrange(n), rng.randrange(n)])) & set(range(n)))
    for j in js:
        Wh = W - w * j
        Mh = 1 << Wh
        highs = [1, B - 1, Mh - 1, Mh >> 1, (Mh >> 1) - 1, pat((Mh >> 1) + 1, Wh), rng.randrange(1, Mh)]
        if small:
            highs = [Mh >> 1, Mh - 1, rng.choice(highs), rng.randrange(1, Mh)]
        for h in highs:
            vals.append((h % Mh) << (w * j))
        # short values: j+1 low digits kept, zero- or sign-extended above (the top bit of the kept part agrees or not)
        if j + 1 < n:
            kb = w * (j + 1)
            lows = [1 << (kb - 1), (1 << (kb - 1)) - 1, (1 << kb) - 1, rng.randrange(1 << kb)]
            if small:
                lows = [lows[0], rng.choice(lows[1:])]
            for lo in lows:
                vals.append(lo)
                vals.append(lo | (M - (1 << kb)))
    return vals


def _unary(rng, tier):
    thorough = tier == "thorough"
    std = cfgs(tier)
    others = [c for c in THOROUGH_CFGS if c not in std] + EXTRA_CFGS + HUGE_CFGS
    core_i = ["overflowing_neg", "overflowing_abs", "unsigned_abs"]
    rest_i = [o for o in I_UN if o not in core_i]
    k = 0
    for cfglist, small in ((std, False), (others, not thorough)):
        for cfg in cfglist:
            w, n = wn(cfg)
            huge = cfg in HUGE_CFGS
            for v in unary_values(rng, w, n, small or huge):
                if huge:
                    # one op per value (8192-bit answers are slow to print on the Lean side): rotate through all
                    ops = [("u", U_UN[k % len(U_UN)]), ("i", I_UN[k % len(I_UN)])]
                elif thorough:
                    ops = [("u", o) for o in U_UN] + [("i", o) for o in I_UN]
                else:
                    ops = [("u", o) for o in U_UN] + [("i", o) for o in core_i] + \
                          [("i", rest_i[(k + i) % len(rest_i)]) for i in range(2)]
                k += 1
                for s, op in ops:
                    yield f"{op} {s}{cfg} {hx(v)}", "unary-zero-run"
    # complete enumeration at 8 bits (and, thorough tier, of the negate / abs cores at 16 bits in two digits)
    for s, ops in (("u", U_UN), ("i", I_UN)):
        for op in ops:
            for a in range(256):
                yield f"{op} {s}8x1 {hx(a)}", "exhaustive8"
            if thorough and op in ("overflowing_neg", "overflowing_abs", "unsigned_abs", "saturating_neg", "checked_neg"):
                for a in range(1 << 16):
                    yield f"{op} {s}8x2 {hx(a)}", "exhaustive16"


def _small8(rng, tier):
    """8-bit types: every self value x related rhs values (quick) / every pair (thorough), every op-form"""
    for s in "ui":
        for form in _forms(s):
            for a in range(256):
                if tier == "thorough":
                    bs = range(256)
                elif form[3] == "add":
                    bs = sorted(set(pat(t - a, 8) for t in (-1, 0, 1, 0x7f, 0x80, 0x81)) | {a, rng.randrange(256)})
                else:
                    bs = sorted(set(pat(a - t, 8) for t in (-1, 0, 1, 0x7f, 0x80, 0x81)) | {pat(-a, 8), rng.randrange(256)})
                for b in bs:
                    yield _line(form, s, "8x1", a, b), "exhaustive8" if tier == "thorough" else "small8"


def _gen_main(rng, tier):
    reps = 200 if tier == "thorough" else 25
    for cfg in cfgs(tier):
        w, n = wn(cfg)
        for _ in range(reps):
            for s, bins, uns in (("u", U_BIN, U_UN), ("i", I_BIN, I_UN)):
                for op in bins:
                    t, a, b = pair(rng, w, n)
                    yield f"{op} {s}{cfg} {hx(a)} {hx(b)}", t
                for op in uns:
                    t, a = value(rng, w, n)
                    yield f"{op} {s}{cfg} {hx(a)}", t
                t, a, b = pair(rng, w, n)
                for mode in MODES:
                    yield f"midpoint {s}{cfg} {mode} {hx(a)} {hx(b)}", t
                for op in CARRY:
                    t, a, b = pair(rng, w, n)
                    for c in (0, 1):
                        yield f"{op} {s}{cfg} {hx(a)} {hx(b)} {c}", t + "/c%d" % c


def gen(rng, tier):
    yield from _gen_main(rng, tier)
    yield from _grid(rng, tier)
    yield from _split(rng, tier)
    yield from _unary(rng, tier)
    yield from _small8(rng, tier)
    yield from _huge(rng, tier)
    yield from _prim.arith(rng, tier)


_GRID_CORE = {"u": ["overflowing_add", "overflowing_sub", "overflowing_add_signed", "abs_diff", "saturating_add_signed"],
              "i": ["overflowing_add", "overflowing_sub", "overflowing_add_unsigned", "overflowing_sub_unsigned", "abs_diff", "saturating_sub"]}


def _grid(rng, tier):
    """systematic edge-digit grid: every pair of values with digits in {0,1,B/2-1,B/2,B-1} on small multi-digit types"""
    lim = 20000 if tier == "thorough" else 700
    lim2 = 2000 if tier == "thorough" else 120
    for cfg in GRID_CFGS:
        w, n = wn(cfg)
        for s in "ui":
            for form in _forms(s):
                core = form[0] in _GRID_CORE[s] or form[0] in CARRY or form[0] == "midpoint"
                for a, b in grid_pairs(rng, cfg, lim if core else lim2):
                    yield _line(form, s, cfg, a, b), "edge-grid"
            # unary ops over the whole grid
            for op in (U_UN if s == "u" else I_UN):
                for a in edge_grid(w, n):
                    yield f"{op} {s}{cfg} {hx(a)}", "edge-grid"


def _huge(rng, tier):
    """every op-form at 8192 bits (all four digit types): shared dense / extreme operands and split-carry pairs"""
    reps = 10 if tier == "thorough" else 2
    for cfg in HUGE_CFGS:
        w, n = wn(cfg)
        vals = huge_values(rng, cfg)
        k = 0
        for s in "ui":
            for form in _forms(s):
                a, b = vals[k % len(vals)], vals[(k // len(vals) + k) % 4]
                k += 1
                yield _line(form, s, cfg, a, b), "huge"
                for _ in range(reps):
                    t, a, b = split_pair(rng, w, n, form[3])
                    yield _line(form, s, cfg, a, b), "huge-" + t
