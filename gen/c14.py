"""C14 cases: float <-> integer casts (floats as bit patterns)."""
from .common import *
from . import widthsweep as _ws

HARNESS_BINS_THOROUGH = ["widths"]
import struct

FMT = {"f32": (24, 8, 32), "f64": (53, 11, 64)}


def int_case(rng, w, n, p):
    W = w * n
    M = 1 << W
    c = rng.randrange(10)
    if c == 0:
        k = rng.randrange(W)
        return "2^k", pat((1 << k) + rng.choice([-1, 0, 1]), W)
    if c <= 3 and W > p:
        # exact ties: kept mantissa q (p bits, even/odd), discarded part exactly half, +-1
        s = rng.randrange(1, W - p + 1)
        q = (1 << (p - 1)) | rng.randrange(1 << (p - 1))
        if rng.random() < 0.3:
            q = (1 << p) - 1  # tie that carries into the exponent
        if rng.random() < 0.5:
            q &= ~1
        else:
            q |= 1
        v = (q << s) | (1 << (s - 1))
        v += rng.choice([-1, 0, 0, 1]) if s > 1 else 0
        return "tie", v % M
    if c == 4:
        return "fits-mantissa", rng.randrange(1 << min(p, W))
    if c == 5:
        # near the float overflow threshold
        emax = 128 if p == 24 else 1024
        if W > emax:
            return "overflow-threshold", ((1 << emax) - (1 << (emax - p - 1)) + rng.choice([-1, 0, 1])) % M
        return "allones", M - 1
    return value(rng, w, n)


def float_case(rng, fmt, W):
    p, eb, bits = FMT[fmt]
    mb = p - 1
    bias = (1 << (eb - 1)) - 1
    c = rng.randrange(12)
    sign = rng.randrange(2)
    if c == 0:
        e = rng.randrange(1 << eb)
        m = rng.choice([0, 1, (1 << mb) - 1, rng.randrange(1 << mb)])
    elif c == 1:
        e, m = 0, rng.choice([0, 1, (1 << mb) - 1, rng.randrange(1 << mb)])       # zero / subnormal
    elif c == 2:
        e, m = (1 << eb) - 1, rng.choice([0, 0, 1, 1 << (mb - 1), rng.randrange(1 << mb)])  # inf / nan
    elif c <= 5:
        # around 2^W, 2^(W-1): exponent W, W-1, W-2 with extreme mantissas
        k = rng.choice([W, W - 1, W - 2, W + 1])
        e = min((1 << eb) - 2, max(1, k + bias))
        m = rng.choice([0, 1, (1 << mb) - 1, rng.randrange(1 << mb)])
    elif c == 6:
        # the binades just below one: (0.25, 1) must truncate to 0
        e = bias + rng.choice([-1, -1, -2])
        m = rng.choice([0, 1, 1 << (mb - 1), (1 << mb) - 1, rng.randrange(1 << mb)])
    elif c == 7:
        # exactly 2^k for k at digit boundaries (8, 16, 32, 64, ...) and its neighbours
        k = rng.choice([8, 16, 24, 32, 40, 48, 64, 96, 128, W - 8, W - 1, W])
        e = min((1 << eb) - 2, max(1, k + bias))
        m = rng.choice([0, 0, 1, (1 << mb) - 1])
        if m == (1 << mb) - 1:
            e = max(1, e - 1)
    elif c <= 8:
        # k + {0, 1/2, 1-ulp}: small magnitudes with fractional parts (binades -2 .. mb+1)
        e = bias + rng.randrange(-3, mb + 3)
        m = rng.choice([0, 1 << (mb - 1), (1 << mb) - 1, rng.randrange(1 << mb), 1])
    else:
        e = rng.randrange(1, (1 << eb) - 1)
        m = rng.randrange(1 << mb)
    return "f", (sign << (bits - 1)) | (e << mb) | m


def _fbits(fmt, x):
    """bit pattern of the float nearest to the exact rational x (None when it overflows the format)"""
    import struct
    try:
        f = float(x)
        if fmt == "f32":
            return struct.unpack(">I", struct.pack(">f", f))[0]
        return struct.unpack(">Q", struct.pack(">d", f))[0]
    except (OverflowError, struct.error):
        return None


def bound_fractions(fmt, W):
    """non-integral floats hugging the bounds of a W-bit target: +-(2^(W-1)), +-(2^W), +-(2^(W-1)-1), +-(2^W-1)
    plus/minus a small fraction — distinct from the bound only when W is below the mantissa precision
    (added after seeded change C19-r4m2: MIN - 0.5 must still truncate to MIN)"""
    from fractions import Fraction as Fr
    p = FMT[fmt][0]
    out = set()
    for base in (1 << (W - 1), 1 << W, (1 << (W - 1)) - 1, (1 << W) - 1, (1 << (W - 1)) + 1):
        for d in (Fr(0), Fr(1, 2), Fr(1, 4), Fr(3, 4), Fr(1, 8), Fr(1), Fr(1, 1 << max(1, p - W - 1)), 1 - Fr(1, 1 << max(1, p - W - 1))):
            for sg in (1, -1):
                for sd in (1, -1):
                    b = _fbits(fmt, sg * (base + sd * d))
                    if b is not None:
                        out.add(b)
    return sorted(out)


def exponent_sweep(rng, fmt, W):
    """one float per exponent value (both signs): every decoded exponent the conversion code can branch on"""
    p, eb, bits = FMT[fmt]
    mb = p - 1
    bias = (1 << (eb - 1)) - 1
    exps = range(0, 1 << eb) if eb <= 8 else sorted(set(list(range(bias - 80, bias + 80)) + list(range(max(0, bias + W - 70), min((1 << eb), bias + W + 70))) + [0, 1, (1 << eb) - 2, (1 << eb) - 1]))
    for e in exps:
        for sign in (0, 1):
            m = rng.choice([0, 1, (1 << mb) - 1, rng.randrange(1 << mb)])
            yield (sign << (bits - 1)) | (e << mb) | m


def _gen_main(rng, tier):
    for cfg in ["8x1", "16x1", "64x2", "8x17"] + (["32x3", "64x16"] if tier == "thorough" else []):
        w, n = wn(cfg)
        for s in "ui":
            for fmt in ("f32", "f64"):
                for f in exponent_sweep(rng, fmt, w * n):
                    yield f"from_{fmt} {s}{cfg} {hx(f)}", "exponent-sweep"
    reps = 600 if tier == "thorough" else 300
    for cfg in cfgs(tier):
        w, n = wn(cfg)
        W = w * n
        if W <= 64:
            for s in "ui":
                for fmt in ("f32", "f64"):
                    for f in bound_fractions(fmt, W):
                        yield f"from_{fmt} {s}{cfg} {hx(f)}", "bound-fraction"
        for _ in range(reps if n <= 40 else 15):
            for s in "ui":
                for fmt in ("f32", "f64"):
                    t, a = int_case(rng, w, n, FMT[fmt][0])
                    yield f"to_{fmt} {s}{cfg} {hx(a)}", t
                    t, f = float_case(rng, fmt, W)
                    yield f"from_{fmt} {s}{cfg} {hx(f)}", t


def ROUTE(line):
    return _ws.route(line, "c14")


def gen(rng, tier):
    yield from _gen_main(rng, tier)
    if tier == "thorough":
        yield from _ws.to_f64(rng)
