"""C14 cases: float <-> integer casts (floats as bit patterns).

Ops (harness/src/bin/c14.rs, lean/Bnum/Drive/C14.lean):
  to_f32 / to_f64 / from_f32 / from_f64                 CastFrom::cast_from
  as_to_f32 / as_to_f64 / as_from_f32 / as_from_f64     the same through As::as_ (about 40 % of the requests)
  prim_to_f32 / ... / prim_from_f64                     rustc's native `as` on the primitive of that width
  optional `dbg` / `rel` token after the configuration  answered by that build only

Integer operands are built from their MAGNITUDE (the rounding code sees `unsigned_abs`), so that for signed
configurations the designed classes (exact ties, sticky bits, the overflow threshold) hit negative values too.
"""
from .common import *
from . import widthsweep as _ws

HARNESS_BINS_THOROUGH = ["widths"]

FMT = {"f32": (24, 8, 32), "f64": (53, 11, 64)}
EMAX = {"f32": 128, "f64": 1024}

# wider than the standard lists: 1024 bits (= f64 MAX_EXP: all-ones rounds to +inf, 2^1023 saturates i1024),
# 4096 bits, and the widest in-scope instantiation of every digit type (8192 bits: the only quick-tier widths
# where an integer -> f64 cast can overflow)
WIDE_CFGS = ["64x16", "64x64"] + HUGE_CFGS


def _limits(W, signed):
    """(bit length available to positive values, largest magnitude)"""
    if signed:
        return W - 1, 1 << (W - 1)
    return W, (1 << W) - 1


def _threshold(p, emax):
    """the smallest integer that rounds (ties-to-even) to 2^emax, i.e. to infinity: MAX_FINITE + half an ulp"""
    return (1 << emax) - (1 << (emax - p - 1))


def _digit_edges(rng, w, n, lo, hi, k=4):
    """bit positions at / next to digit boundaries inside [lo, hi] (a sample of k boundaries)"""
    js = [j for j in range(1, n) if lo <= w * j <= hi]
    if len(js) > k:
        js = sorted(set([js[0], js[-1]] + rng.sample(js, k - 2)))
    out = set()
    for j in js:
        for d in (-1, 0, 1):
            if lo <= w * j + d <= hi:
                out.add(w * j + d)
    return sorted(out)


def mag_case(rng, w, n, p, emax, signed):
    """a magnitude from the classes the rounding code branches on (tag, magnitude); None = use a raw pattern"""
    W = w * n
    Wm, maxmag = _limits(W, signed)
    c = rng.randrange(16)
    if c == 0:
        k = rng.randrange(Wm)
        return "2^k", max(0, (1 << k) + rng.choice([-1, 0, 1]))
    if c == 4:
        return "fits-mantissa", rng.randrange(1 << min(p, Wm))
    if c == 5:
        T = _threshold(p, emax)
        if T + 1 <= maxmag:
            return "overflow-threshold", T + rng.choice([-1, 0, 1])
        return "max-magnitude", maxmag - rng.choice([0, 0, 1])
    if c in (1, 2, 3, 6, 7, 8, 9) and Wm > p:
        # v = q * 2^s + low, q a full p-bit mantissa: `low` against half = 2^(s-1) decides the rounding
        if c == 9:
            s = Wm - p                                   # top binade: rounding up can carry out of the type's range
        elif c == 8:
            # the half bit (index s-1) at / next to a digit boundary: `value.bit(shift - 1)` index arithmetic
            ed = _digit_edges(rng, w, n, 0, Wm - p - 1)
            s = (rng.choice(ed) + 1) if ed else rng.randrange(1, Wm - p + 1)
        else:
            s = rng.randrange(1, Wm - p + 1)
        q = (1 << (p - 1)) | rng.randrange(1 << (p - 1))
        if rng.random() < 0.3:
            q = (1 << p) - 1                             # rounding up carries into the exponent
        q = (q & ~1) if rng.random() < 0.5 else (q | 1)
        half = 1 << (s - 1)
        if c == 6 and s >= 2:
            # tie broken by ONE far-away low bit (trailing_zeros has to look across digits): rounds up
            t = rng.choice([0, rng.randrange(s - 1), (s - 2) // w * w, max(0, (s - 2) // w * w - 1)])
            return "tie+sticky-bit", (q << s) | half | (1 << min(t, s - 2))
        if c == 7:
            # just below half (all ones under the half bit) / a single low bit without the half bit: rounds down
            low = rng.choice([half - 1, 1 << rng.randrange(s - 1) if s >= 2 else 0, half - 1])
            return "below-half", (q << s) | low
        v = (q << s) | half
        if s > 1:
            v += rng.choice([-1, 0, 0, 1])
        return ("tie-top-binade" if c == 9 else "tie-digit-boundary" if c == 8 else "tie"), v
    return None


def int_case(rng, w, n, fmt, signed):
    """(tag, W-bit pattern)"""
    W = w * n
    p = FMT[fmt][0]
    r = mag_case(rng, w, n, p, EMAX[fmt], signed)
    if r is None:
        return value(rng, w, n)
    t, m = r
    Wm, maxmag = _limits(W, signed)
    m = min(m, maxmag)
    if not signed:
        return t, m
    if m > (1 << Wm) - 1 or rng.random() < 0.5:
        return "neg-" + t, pat(-m, W)
    return t, m


def boundary_mags(rng, w, n, fmt, signed, dense=True, brief=False):
    """deterministic magnitudes around every threshold of the integer -> float conversion
    (dense=False: the reduced list for configurations wider than 1024 bits, where one request costs the Lean
    model milliseconds; brief=True: the thresholds only)"""
    W = w * n
    p, emax = FMT[fmt][0], EMAX[fmt]
    Wm, maxmag = _limits(W, signed)
    T = _threshold(p, emax)
    out = set()
    if dense:
        for base in (T, 1 << emax, (1 << emax) - (1 << (emax - p)), 1 << p, 1 << (p + 1), 1 << (p - 1),
                     (1 << Wm) - 1, 1 << Wm, 1 << max(0, Wm - 1), 0):
            for d in (-2, -1, 0, 1, 2, 3):
                out.add(base + d)
    else:
        for base in (T, 1 << emax, (1 << emax) - (1 << (emax - p))):
            for d in (-1, 0, 1):
                out.add(base + d)
        out |= {0, 1, (1 << p) + 1, (1 << Wm) - 1, 1 << Wm}
    if Wm > p and not brief:
        if dense:
            ss = {1, 2, 3, Wm - p, Wm - p - 1, emax - p, emax - p - 1, emax - p + 1}
            ss |= set(x + 1 for x in _digit_edges(rng, w, n, 0, Wm - p - 1, 4))
            qs = [(1 << (p - 1)), (1 << (p - 1)) + 1, (1 << p) - 2, (1 << p) - 1,
                  (1 << (p - 1)) | rng.randrange(1 << (p - 1)) | 1, ((1 << (p - 1)) | rng.randrange(1 << (p - 1))) & ~1]
            lows = lambda half: (half, half - 1, half + 1, half | 1, 0, 1)
        else:
            # above 2^emax everything is infinite: keep the half bit inside the finite range (plus one far above)
            ed = _digit_edges(rng, w, n, 0, min(Wm, emax) - p - 1, 3)
            ss = {1, emax - p, emax - p + 1, Wm - p} | ({rng.choice(ed) + 1} if ed else set())
            qs = [(1 << (p - 1)) + 1, (1 << p) - 2, (1 << p) - 1]
            lows = lambda half: (half, half - 1, half | 1)
        for s in ss:
            if not 1 <= s <= Wm - p:
                continue
            half = 1 << (s - 1)
            for q in qs:
                for low in lows(half):
                    out.add((q << s) | (low if low < (1 << s) else half))
    return sorted(m for m in out if 0 <= m <= maxmag)


def boundary_ints(rng, w, n, fmt, signed, dense=True, brief=False):
    """patterns: every boundary magnitude with each sign that fits"""
    W = w * n
    Wm, _ = _limits(W, signed)
    for m in boundary_mags(rng, w, n, fmt, signed, dense, brief):
        if m <= (1 << Wm) - 1:
            yield m
        if signed and m:
            yield pat(-m, W)


def float_case(rng, fmt, W):
    p, eb, bits = FMT[fmt]
    mb = p - 1
    bias = (1 << (eb - 1)) - 1
    c = rng.randrange(12)
    sign = rng.randrange(2)
    if c == 0:
        e = rng.randrange(1 << eb)
        m = rng.choice([0, 1, (1 << mb) - 1, rng.randrange(1 << mb)])
    elif c == 1:
        e, m = 0, rng.choice([0, 1, (1 << mb) - 1, rng.randrange(1 << mb)])       # zero / subnormal
    elif c == 2:
        e, m = (1 << eb) - 1, rng.choice([0, 0, 1, 1 << (mb - 1), rng.randrange(1 << mb)])  # inf / nan
    elif c <= 5:
        # around 2^W, 2^(W-1): exponent W, W-1, W-2 with extreme mantissas
        k = rng.choice([W, W - 1, W - 2, W + 1])
        e = min((1 << eb) - 2, max(1, k + bias))
        m = rng.choice([0, 1, (1 << mb) - 1, rng.randrange(1 << mb)])
    elif c == 6:
        # the binades just below one: (0.25, 1) must truncate to 0
        e = bias + rng.choice([-1, -1, -2])
        m = rng.choice([0, 1, 1 << (mb - 1), (1 << mb) - 1, rng.randrange(1 << mb)])
    elif c == 7:
        # exactly 2^k for k at digit boundaries (8, 16, 32, 64, ...) and its neighbours
        k = rng.choice([8, 16, 24, 32, 40, 48, 64, 96, 128, W - 8, W - 1, W])
        e = min((1 << eb) - 2, max(1, k + bias))
        m = rng.choice([0, 0, 1, (1 << mb) - 1])
        if m == (1 << mb) - 1:
            e = max(1, e - 1)
    elif c <= 8:
        # k + {0, 1/2, 1-ulp}: small magnitudes with fractional parts (binades -2 .. mb+1)
        e = bias + rng.randrange(-3, mb + 3)
        m = rng.choice([0, 1 << (mb - 1), (1 << mb) - 1, rng.randrange(1 << mb), 1])
    else:
        e = rng.randrange(1, (1 << eb) - 1)
        m = rng.randrange(1 << mb)
    return "f", (sign << (bits - 1)) | (e << mb) | m


def boundary_floats(rng, fmt, w, n, dense=True, brief=False):
    """deterministic float patterns around every threshold of the float -> integer conversion of a w x n target:
    zeros, subnormals, one, the largest finite, infinities, NaNs (quiet / signalling / all-ones payload), and
    2^k * {1, 1+ulp, 1.5, 2-ulp} for k at the type's bounds (W-1, W), at the mantissa width (where the
    conversion switches from a right to a left shift) and at digit boundaries; both signs
    (dense=False / brief=True: reduced lists for configurations wider than 1024 bits)"""
    p, eb, bits = FMT[fmt]
    W = w * n
    mb = p - 1
    bias = (1 << (eb - 1)) - 1
    emaxf = (1 << eb) - 1
    mags = set()
    special = ((0, 0), (0, 1), (0, (1 << mb) - 1), (0, 1 << (mb - 1)), (1, 0), (1, 1),
               (bias - 1, (1 << mb) - 1), (bias, 0), (bias, 1), (bias - 1, 0), (bias - 1, 1 << (mb - 1)),
               (emaxf - 1, (1 << mb) - 1), (emaxf - 1, 0), (emaxf, 0),
               (emaxf, 1), (emaxf, 1 << (mb - 1)), (emaxf, (1 << mb) - 1), (emaxf, (1 << (mb - 1)) - 1))
    if not dense:
        special = ((0, 0), (0, (1 << mb) - 1), (bias - 1, (1 << mb) - 1), (bias, 0), (bias, 1),
                   (emaxf - 1, (1 << mb) - 1), (emaxf - 1, 0), (emaxf, 0), (emaxf, 1), (emaxf, 1 << (mb - 1)))
    for e, m in special:
        mags.add((e << mb) | m)
    if dense:
        ks = {W - 2, W - 1, W, W + 1, p - 3, p - 2, p - 1, p, p + 1, 0, 1, 2, w - 1, w, w + 1, emaxf - 1 - bias}
        ks |= set(_digit_edges(rng, w, n, 1, min(W, bias), 4))
        ms = lambda: (0, 1, 1 << (mb - 1), (1 << mb) - 1, rng.randrange(1 << mb))
    elif brief:
        ks = {p - 1, p, w, emaxf - 1 - bias}
        ms = lambda: (0, (1 << mb) - 1)
    else:
        ks = {W - 1, W, p - 1, p, w - 1, w, w + 1, emaxf - 1 - bias, emaxf - 2 - bias}
        ks |= set(_digit_edges(rng, w, n, 1, min(W, bias), 3))
        ms = lambda: (0, (1 << mb) - 1, rng.randrange(1 << mb))
    for k in ks:
        e = k + bias
        if 1 <= e <= emaxf - 1:
            for m in ms():
                mags.add((e << mb) | m)
    for x in sorted(mags):
        yield x
        yield x | (1 << (bits - 1))


def _fbits(fmt, x):
    """bit pattern of the float nearest to the exact rational x (None when it overflows the format)"""
    import struct
    try:
        f = float(x)
        if fmt == "f32":
            return struct.unpack(">I", struct.pack(">f", f))[0]
        return struct.unpack(">Q", struct.pack(">d", f))[0]
    except (OverflowError, struct.error):
        return None


def bound_fractions(fmt, W):
    """non-integral floats hugging the bounds of a W-bit target: +-(2^(W-1)), +-(2^W), +-(2^(W-1)-1), +-(2^W-1)
    plus/minus a small fraction — distinct from the bound only when W is below the mantissa precision
    (added after seeded change C19-r4m2: MIN - 0.5 must still truncate to MIN)"""
    from fractions import Fraction as Fr
    p = FMT[fmt][0]
    out = set()
    for base in (1 << (W - 1), 1 << W, (1 << (W - 1)) - 1, (1 << W) - 1, (1 << (W - 1)) + 1):
        for d in (Fr(0), Fr(1, 2), Fr(1, 4), Fr(3, 4), Fr(1, 8), Fr(1), Fr(1, 1 << max(1, p - W - 1)), 1 - Fr(1, 1 << max(1, p - W - 1))):
            for sg in (1, -1):
                for sd in (1, -1):
                    b = _fbits(fmt, sg * (base + sd * d))
                    if b is not None:
                        out.add(b)
    return sorted(out)


def exponent_sweep(rng, fmt, W):
    """one float per exponent value (both signs): every decoded exponent the conversion code can branch on"""
    p, eb, bits = FMT[fmt]
    mb = p - 1
    bias = (1 << (eb - 1)) - 1
    exps = range(0, 1 << eb) if eb <= 8 else sorted(set(list(range(bias - 80, bias + 80)) + list(range(max(0, bias + W - 70), min((1 << eb), bias + W + 70))) + [0, 1, (1 << eb) - 2, (1 << eb) - 1]))
    for e in exps:
        for sign in (0, 1):
            m = rng.choice([0, 1, (1 << mb) - 1, rng.randrange(1 << mb)])
            yield (sign << (bits - 1)) | (e << mb) | m


# configurations whose width has a primitive integer type: the digit type / count only matter on the Lean side
# (the harness answers `prim_*` with rustc's `as` on u8 ... i128)
PRIM_CFGS = {8: ["8x1"], 16: ["16x1", "8x2"], 32: ["32x1", "16x2", "8x4"], 64: ["64x1", "32x2", "16x4", "8x8"],
             128: ["64x2", "32x4", "16x8", "8x16"]}


def _gen_prim(rng, tier):
    """native `as` on primitives: the reference semantics, against the spec and the bnum model"""
    reps = 400 if tier == "thorough" else 120
    for W, names in PRIM_CFGS.items():
        for s in "ui":
            signed = s == "i"
            for fmt in ("f32", "f64"):
                def cfg():
                    return s + rng.choice(names)
                w0, n0 = wn(names[0])
                for a in boundary_ints(rng, w0, n0, fmt, signed):
                    yield f"prim_to_{fmt} {cfg()} {hx(a)}", "prim-float-boundary"
                for f in boundary_floats(rng, fmt, w0, n0):
                    yield f"prim_from_{fmt} {cfg()} {hx(f)}", "prim-float-boundary"
                for f in bound_fractions(fmt, W):
                    yield f"prim_from_{fmt} {cfg()} {hx(f)}", "prim-bound-fraction"
                for f in exponent_sweep(rng, fmt, W):
                    yield f"prim_from_{fmt} {cfg()} {hx(f)}", "prim-exponent-sweep"
                for _ in range(reps):
                    c = cfg()
                    w, n = wn(c[1:])
                    t, a = int_case(rng, w, n, fmt, signed)
                    yield f"prim_to_{fmt} {c} {hx(a)}", "prim-" + t
                    t, f = float_case(rng, fmt, W)
                    yield f"prim_from_{fmt} {c} {hx(f)}", "prim-" + t


def _gen_main(rng, tier):
    thorough = tier == "thorough"
    for cfg in ["8x1", "16x1", "64x2", "8x17", "32x6", "64x16"] + (["32x3", "64x128"] if thorough else []):
        w, n = wn(cfg)
        for s in "ui":
            for fmt in ("f32", "f64"):
                for f in exponent_sweep(rng, fmt, w * n):
                    yield f"from_{fmt} {s}{cfg} {hx(f)}", "exponent-sweep"
    reps = 600 if thorough else 300
    wide_reps = 80 if thorough else 20
    allcfgs = list(cfgs(tier)) + [c for c in WIDE_CFGS if c not in cfgs(tier)]
    for cfg in allcfgs:
        w, n = wn(cfg)
        W = w * n
        wide = W > 1024
        # deterministic boundaries of both directions, every configuration, both signs.  Wider than 1024 bits the
        # only finite/infinite boundary left is the one of f64, so f32 gets the thresholds only there.
        for s in "ui":
            for fmt in ("f32", "f64"):
                brief = wide and fmt == "f32"
                for a in boundary_ints(rng, w, n, fmt, s == "i", dense=not wide, brief=brief):
                    yield f"to_{fmt} {s}{cfg} {hx(a)}", "float-boundary"
                for f in boundary_floats(rng, fmt, w, n, dense=not wide, brief=brief):
                    yield f"from_{fmt} {s}{cfg} {hx(f)}", "float-boundary"
        if W <= 64:
            for s in "ui":
                for fmt in ("f32", "f64"):
                    for f in bound_fractions(fmt, W):
                        yield f"from_{fmt} {s}{cfg} {hx(f)}", "bound-fraction"
        for _ in range(wide_reps if wide else reps):
            for s in "ui":
                for fmt in ("f32", "f64"):
                    t, a = int_case(rng, w, n, fmt, s == "i")
                    yield f"to_{fmt} {s}{cfg} {hx(a)}", t
                    t, f = float_case(rng, fmt, W)
                    yield f"from_{fmt} {s}{cfg} {hx(f)}", t


def _entry_points(rng, cases):
    """about 40 % of the requests go through `As::as_` instead of `CastFrom::cast_from`; a few carry an explicit
    build-mode token (answered by that build only; without a token the Lean side runs both model variants and
    both builds answer).  Requests wider than 1024 bits always carry a token, alternating: one model variant per
    request halves the cost of the list-based Lean model there."""
    k = 0
    for line, tag in cases:
        if rng.random() < 0.4:
            line = "as_" + line
        op, cfg, rest = line.split(" ", 2)
        w, n = wn(cfg[1:])
        r = rng.random()
        if w * n > 1024:
            k += 1
            line = f"{op} {cfg} {'dbg' if k % 2 else 'rel'} {rest}"
        elif r < 0.06:
            line = f"{op} {cfg} {'dbg' if r < 0.03 else 'rel'} {rest}"
        yield line, tag


def _sweep_to_f64(rng):
    """thorough tier, every width 8 ... 8192 bits of the u8-digit type (harness bin `widths` knows unsigned
    `to_f64` only): the overflow threshold, a tie in the top binade that carries out, a tie whose half bit sits on
    a digit boundary, a tie broken by bit 0"""
    p, emax = 53, 1024
    T = _threshold(p, emax)
    for n in _ws.ns(rng):
        W = 8 * n
        vals = set()
        if T + 1 < (1 << W):
            vals |= {T - 1, T, T + 1}
        if W > p:
            s = W - p
            q = ((1 << p) - 1) if rng.random() < 0.5 else ((1 << (p - 1)) | rng.randrange(1 << (p - 1)))
            half = 1 << (s - 1)
            vals |= {(q << s) | half, ((q ^ 1) << s) | half, (q << s) | (half - 1), (q << s) | half | 1}
            j = rng.randrange(1, n)
            s2 = min(W - p, max(1, 8 * j + rng.choice([0, 1])))
            q2 = (1 << (p - 1)) | rng.randrange(1 << (p - 1))
            vals |= {(q2 << s2) | (1 << (s2 - 1)), ((q2 ^ 1) << s2) | (1 << (s2 - 1))}
        for v in sorted(vals):
            yield f"to_f64 u8x{n} {hx(v)}", "width-sweep"


def ROUTE(line):
    return _ws.route(line, "c14")


def gen(rng, tier):
    yield from _entry_points(rng, _gen_main(rng, tier))
    yield from _gen_prim(rng, tier)
    if tier == "thorough":
        yield from _sweep_to_f64(rng)
