#!/usr/bin/env python3
"""Source map of /repo/src: every `fn` item with a brace-matched body (macro bodies included), a hash of its
normalised text (comments, doc attributes and white space removed) and, per file, a hash of everything that is NOT a
function body (constants, macro plumbing, impl headers, attributes).

Used by check.py as a *drift detector*: the committed `srcmap/fingerprint.json` is the source text the hand-written
model was last reconciled with, `srcmap/deps.json` lists, per property, the functions its correspondence run executes
(measured with an instrumented build, tools/deps_from_coverage.py).  When a function a property depends on has changed,
the check does not raise an alarm (a rewrite can be harmless) - it *escalates the search*: the correspondence run of that
property is done with the thorough generators.  A pure function of the source text; no Rust toolchain needed.

  python3 gen/srcmap.py --write      rewrite srcmap/fingerprint.json from /repo/src   (after /repo legitimately moved)
  python3 gen/srcmap.py --diff       list functions / residues that differ from the committed fingerprint
"""
import hashlib, json, os, re, sys

ROOT = os.path.dirname(os.path.dirname(os.path.abspath(__file__)))
SRC = os.environ.get("BNUM_SRC", "/repo/src")
FP = os.path.join(ROOT, "srcmap", "fingerprint.json")
DEPS = os.path.join(ROOT, "srcmap", "deps.json")
SKIP_DIRS = ("test", "float")          # src/test: test helpers; src/float: not compiled (commented out in lib.rs)


def mask(text):
    """comments -> spaces; string/char literal contents kept but their braces/quotes neutralised in the *mask*.
    Returns (code, m) of equal length: `code` has comments blanked, `m` additionally has literals blanked."""
    n = len(text)
    code = list(text)
    m = list(text)
    i = 0
    while i < n:
        c = text[i]
        if c == "/" and i + 1 < n and text[i + 1] == "/":
            j = text.find("\n", i)
            j = n if j < 0 else j
            for k in range(i, j):
                code[k] = m[k] = " "
            i = j
        elif c == "/" and i + 1 < n and text[i + 1] == "*":
            depth, j = 1, i + 2
            while j < n and depth:
                if text.startswith("/*", j):
                    depth += 1; j += 2
                elif text.startswith("*/", j):
                    depth -= 1; j += 2
                else:
                    j += 1
            for k in range(i, j):
                if text[k] != "\n":
                    code[k] = m[k] = " "
            i = j
        elif c == '"' or (c == "r" and re.match(r'r#*"', text[i:i + 8]) and (i == 0 or not (text[i - 1].isalnum() or text[i - 1] == "_"))):
            if c == '"':
                j = i + 1
                while j < n and text[j] != '"':
                    j += 2 if text[j] == "\\" else 1
                j += 1
            else:
                h = re.match(r'r(#*)"', text[i:]).group(1)
                j = text.find('"' + h, i + 2 + len(h))
                j = n if j < 0 else j + 1 + len(h)
            for k in range(i, min(j, n)):
                if text[k] != "\n":
                    m[k] = " "
            i = j
        elif c == "'":
            # char literal or lifetime
            if i + 1 < n and text[i + 1] == "\\":
                j = text.find("'", i + 2)
                j = j + 1 if j >= 0 else n
                if j - i == 3 and text[i + 2] == "'":      # '\'' : escaped quote
                    j = text.find("'", j) + 1
                for k in range(i, j):
                    m[k] = " "
                i = j
            elif i + 2 < n and text[i + 2] == "'":
                for k in range(i, i + 3):
                    m[k] = " "
                i += 3
            else:
                i += 1
        else:
            i += 1
    return "".join(code), "".join(m)


def match_brace(m, i):
    """m[i] == '{' -> index just after the matching '}'"""
    depth = 0
    n = len(m)
    while i < n:
        if m[i] == "{":
            depth += 1
        elif m[i] == "}":
            depth -= 1
            if depth == 0:
                return i + 1
        i += 1
    return n


DOC = re.compile(r"#\s*\[\s*(doc|must_use|inline|allow|cfg_attr\s*\(\s*feature\s*=\s*\"nightly\")[^\]]*\]")


def norm(s):
    s = DOC.sub(" ", s)
    return re.sub(r"\s+", "", s)


def h(s):
    return hashlib.sha256(s.encode()).hexdigest()[:16]


def scan_file(path):
    text = open(path, encoding="utf-8", errors="replace").read()
    code, m = mask(text)
    # drop `#[cfg(test)] mod x { ... }` blocks
    dead = []
    for t in re.finditer(r"#\s*\[\s*cfg\s*\(\s*test\s*\)\s*\]\s*(pub\s+)?mod\s+\w+\s*\{", m):
        b = m.index("{", t.start())
        dead.append((t.start(), match_brace(m, b)))
    fns = []
    for t in re.finditer(r"\bfn\s+(\$?[A-Za-z_]\w*)", m):
        if any(a <= t.start() < b for a, b in dead):
            continue
        # first `{` or `;` at paren depth 0 after the name
        i, depth = t.end(), 0
        n = len(m)
        while i < n:
            ch = m[i]
            if ch in "([":
                depth += 1
            elif ch in ")]":
                depth -= 1
            elif depth == 0 and ch in "{;":
                break
            i += 1
        if i >= n or m[i] == ";":
            continue
        end = match_brace(m, i)
        # start of the item: include the attributes / qualifiers on the lines before `fn` back to the previous `}` `;` or `{`
        s = t.start()
        while s > 0 and m[s - 1] not in "};{":
            s -= 1
        fns.append({"name": t.group(1), "s": s, "sig": t.start(), "body": i, "e": end,
                    "line": text.count("\n", 0, t.start()) + 1, "end_line": text.count("\n", 0, end) + 1})
    # nested fns (closures are not `fn`): keep all; the outer hash covers inner text as well
    out, seen = [], {}
    for f in fns:
        k = seen.get(f["name"], 0)
        seen[f["name"]] = k + 1
        f["idx"] = k
        f["hash"] = h(norm(code[f["sig"]:f["e"]]))
        out.append(f)
    # residue: the text outside every top-most function body (and outside test modules)
    cut = sorted([(f["body"], f["e"]) for f in fns] + dead)
    res, pos = [], 0
    for a, b in cut:
        if a < pos:
            continue
        res.append(code[pos:a])
        pos = b
    res.append(code[pos:])
    return out, h(norm("".join(res)))


def scan(src=None):
    src = src or SRC
    fns, residue = {}, {}
    for d, dirs, files in os.walk(src):
        rel = os.path.relpath(d, src)
        if rel.split(os.sep)[0] in SKIP_DIRS:
            continue
        for f in sorted(files):
            if not f.endswith(".rs"):
                continue
            p = os.path.join(d, f)
            r = os.path.relpath(p, src)
            fl, rs = scan_file(p)
            residue[r] = rs
            for x in fl:
                fns[f"{r}::{x['name']}#{x['idx']}"] = {"hash": x["hash"], "line": x["line"], "end_line": x["end_line"]}
    return {"functions": fns, "residue": residue}


def diff(cur=None, base=None):
    """-> (changed function ids, files whose non-function text changed, new function ids, removed function ids)"""
    cur = cur or scan()
    base = base or json.load(open(FP))
    bf, cf = base["functions"], cur["functions"]
    changed = sorted(k for k in bf if k in cf and bf[k]["hash"] != cf[k]["hash"])
    removed = sorted(k for k in bf if k not in cf)
    new = sorted(k for k in cf if k not in bf)
    resid = sorted(f for f in set(base["residue"]) | set(cur["residue"]) if base["residue"].get(f) != cur["residue"].get(f))
    return changed, resid, new, removed


def drift_for(pid):
    """What changed in /repo/src, relative to the committed fingerprint, among the code property `pid` depends on.
    -> dict(changed=[...], reason=str) ; empty `changed` = no drift relevant to this property."""
    try:
        changed, resid, new, removed = diff()
        deps = json.load(open(DEPS)).get(pid)
    except Exception as e:        # a missing / unreadable fingerprint must never break a check: treat as drift everywhere
        return {"changed": ["<fingerprint unavailable: %r>" % (e,)], "files": [], "relevant": True}
    touched = set(changed) | set(removed)
    # a new function matters only through a changed caller, but the caller may be macro plumbing outside any `fn`:
    # count a new function as a change of its file
    files_hit = set(resid) | set(k.split("::")[0] for k in new)
    if deps is None:
        rel = sorted(touched) + sorted(files_hit)
    else:
        rel = sorted(k for k in touched if k in set(deps["functions"])) + sorted(f for f in files_hit if f in set(deps["files"]))
    return {"changed": rel, "all_changed": sorted(touched) + sorted(files_hit), "relevant": bool(rel)}


if __name__ == "__main__":
    if "--write" in sys.argv:
        os.makedirs(os.path.dirname(FP), exist_ok=True)
        json.dump(scan(), open(FP, "w"), indent=0, sort_keys=True)
        d = json.load(open(FP))
        print(f"{len(d['functions'])} functions in {len(d['residue'])} files -> {FP}")
    elif "--diff" in sys.argv:
        c, r, n, rm = diff()
        print(json.dumps({"changed": c, "residue_changed": r, "new": n, "removed": rm}, indent=1))
    else:
        s = scan()
        print(len(s["functions"]), "functions;", len(s["residue"]), "files")
