"""C20 cases: random generation with a scripted byte stream."""
from .common import *

FEATURES = None


def stream(rng, nbytes, k):
    """k words of nbytes each, biased to extreme words (accept/reject on both sides of the zone)"""
    out = b""
    for _ in range(k):
        c = rng.randrange(6)
        if c == 0:
            wv = b"\x00" * nbytes
        elif c == 1:
            wv = b"\xff" * nbytes
        elif c == 2:
            wv = bytes([rng.randrange(256)]) + b"\xff" * (nbytes - 1)
        elif c == 3:
            wv = b"\xff" * (nbytes - 1) + bytes([rng.randrange(256)])
        else:
            wv = bytes(rng.randrange(256) for _ in range(nbytes))
        out += wv
    return out


def bounds(rng, w, n, signed):
    W = w * n
    M = 1 << W
    c = rng.randrange(10)
    lo_lim, hi_lim = (-(M >> 1), (M >> 1) - 1) if signed else (0, M - 1)
    if c == 0:
        lo, hi = lo_lim, hi_lim                       # full range
    elif c == 1:
        lo = rng.randrange(lo_lim, hi_lim + 1)
        hi = lo                                       # size 1
    elif c == 2:
        k = rng.randrange(W)
        lo = rng.randrange(lo_lim, hi_lim + 1)
        hi = min(hi_lim, lo + (1 << k) + rng.choice([-2, -1, 0]))   # size 2^k, 2^k +- 1
        hi = max(lo, hi)
    elif c == 3 and signed:
        lo = -rng.randrange(1, 1 << rng.randrange(1, W - 1))
        hi = rng.randrange(0, 1 << rng.randrange(1, W - 1))        # spanning zero
    elif c == 4:
        lo, hi = lo_lim, hi_lim - rng.randrange(0, 3)
    elif c == 6:
        # range size M - 2^j (and M - 2^j +- 1): the rejection count 2^BITS mod range needs a carry across
        # digits; j at digit boundaries is likely (added after seeded change C20-r4m1)
        j = rng.choice([w * rng.randrange(1, n + 1) % W, rng.randrange(W)])
        size = max(1, M - (1 << j) + rng.choice([0, 0, 0, 1, -1]))
        lo = lo_lim + rng.choice([0, 0, rng.randrange(0, M - size + 1)])
        lo = min(lo, hi_lim - size + 1)
        hi = lo + size - 1
    elif c == 5:
        lo = rng.randrange(lo_lim, hi_lim + 1)
        hi = rng.randrange(lo_lim, hi_lim + 1)        # possibly empty / reversed -> panic
    else:
        a = rng.randrange(lo_lim, hi_lim + 1)
        b = rng.randrange(lo_lim, hi_lim + 1)
        lo, hi = min(a, b), max(a, b)
    return pat(lo, W), pat(hi, W)


def boundary_words(rng_, W, unsigned_range):
    """RNG words whose low product half lands exactly on / next to the acceptance zone boundary.
    range = 0 means the full range (no rejection). Both zone formulas of the sampling law are tried."""
    from math import gcd
    M = 1 << W
    r = unsigned_range
    if r == 0:
        return []
    zones = {M - 1 - ((M - r) % r)}
    lz = W - r.bit_length()
    zones.add(((r << lz) - 1) % M)
    out = []
    g = gcd(r, M)
    for zone in zones:
        for t in (zone, zone + 1, zone - 1, zone - g, zone + g):
            t %= M
            t -= t % g
            v = (t // g) * pow(r // g, -1, M // g) % (M // g)
            out.append(v)
            if g > 1:
                out.append((v + M // g) % M)
    return out


def gen(rng, tier):
    # streams that start with a zone-boundary word followed by filler: acceptance must flip exactly at the boundary
    for cfg in (cfgs(tier)):
        w, n = wn(cfg)
        if n > 20:
            continue
        W = w * n
        BY = W // 8
        for _ in range(6 if tier == "thorough" else 2):
            for s in "ui":
                lo, hi = bounds(rng, w, n, s == "i")
                r = (hi - lo + 1) % (1 << W)
                for v in boundary_words(rng, W, r)[:8]:
                    st = v.to_bytes(BY, "little") + stream(rng, BY, 3)
                    for op in ("sample_single_inclusive", "uniform_new_inclusive", "gen_range_inclusive"):
                        yield f"{op} {s}{cfg} {hx(lo)} {hx(hi)} {st.hex()}", "zone-boundary"
    # long rejection runs: the same (normally rejected) word k times, then filler.  "For every RNG output
    # stream" includes streams that are rejected 64, 65, 200 times in a row (added after seeded change C20-r4m2)
    for cfg in ["8x1", "8x3", "16x3", "64x2", "32x2"] + (["8x17", "64x3"] if tier == "thorough" else []):
        w, n = wn(cfg)
        W = w * n
        BY = W // 8
        M = 1 << W
        for s in "ui":
            lo_lim = -(M >> 1) if s == "i" else 0
            for k in (1, 7, 63, 64, 65, 66, 127, 128, 129, 200):
                j = rng.randrange(1, W)
                size = (1 << j) + rng.choice([1, 1, 2, 3])          # just above a power of two: ~half of all words rejected
                lo = lo_lim + rng.choice([0, rng.randrange(0, M - size)])
                hi = lo + size - 1
                bw = boundary_words(rng, W, size)
                for v in ([1] + bw[1:2] + bw[6:7]):
                    st = v.to_bytes(BY, "little") * k + stream(rng, BY, 2) + b"\x00" * BY
                    for op in ("sample_single_inclusive", "uniform_new_inclusive", "gen_range_inclusive", "gen_range"):
                        yield f"{op} {s}{cfg} {hx(pat(lo, W))} {hx(pat(hi, W))} {st.hex()}", "rejection-run-%d" % k
    reps = 100 if tier == "thorough" else 50
    for cfg in cfgs(tier):
        w, n = wn(cfg)
        if n > 20:
            continue
        BY = w * n // 8
        for _ in range(reps):
            for s in "ui":
                for op in ("sample_single", "sample_single_inclusive", "uniform_new", "uniform_new_inclusive", "gen_range", "gen_range_inclusive"):
                    lo, hi = bounds(rng, w, n, s == "i")
                    st = stream(rng, BY, rng.choice([1, 2, 4, 8]))
                    yield f"{op} {s}{cfg} {hx(lo)} {hx(hi)} {st.hex()}", "bounds"
                st = stream(rng, BY, 1) + bytes(rng.randrange(256) for _ in range(rng.randrange(3)))
                yield f"standard {s}{cfg} {st.hex()}", "standard"
                yield f"standard {s}{cfg} {st[:BY - 1].hex() or '-'}", "short-stream"
                k = rng.randrange(0, 5)
                st = stream(rng, BY, k) + bytes(rng.randrange(256) for _ in range(rng.randrange(3)))
                yield f"fill {s}{cfg} {k} {st.hex() or '-'}", "fill"
                yield f"fill_each {s}{cfg} {k} {st.hex() or '-'}", "fill"
    if tier == "thorough":
        # complete enumeration at 8 bits: all (low, high) x all 256 words
        for s in "ui":
            for lo in range(256):
                for hi in range(0, 256, 3):
                    for wd in range(0, 256, 5):
                        yield f"sample_single_inclusive {s}8x1 {hx(lo)} {hx(hi)} {format(wd, '02x')}{'00' * 0}", "enum8"
