"""C20 cases: random generation with a scripted byte stream."""
from .common import *

FEATURES = None

# instantiations above 160 digits/1024 bits that the shared quick list does not contain: the property
# quantifies over 8..8192 bits, and a change keyed to a digit count (e.g. N >= 33 for u8 digits) must be seen.
# Few, well-chosen requests each (one 8192-bit draw costs the Lean digit-level model ~50 ms).
WIDE_CFGS_QUICK = ["8x24", "8x40", "8x64", "16x20", "64x16", "64x64"] + HUGE_CFGS
WIDE_CFGS_THOROUGH = WIDE_CFGS_QUICK

INCL_OPS = ("sample_single_inclusive", "uniform_new_inclusive", "gen_range_inclusive")
EXCL_OPS = ("sample_single", "uniform_new", "gen_range")
# least-used entry points: `UniformSampler::new(_inclusive)` + `sample` called directly, `Uniform::from(range)`
RARE_INCL_OPS = ("sampler_new_inclusive", "uniform_from_inclusive")
RARE_EXCL_OPS = ("sampler_new", "uniform_from")
FILL_OPS = ("fill", "fill_each", "fill_trait", "rng_fill", "rng_try_fill")


def stream(rng, nbytes, k):
    """k words of nbytes each, biased to extreme words (accept/reject on both sides of the zone)"""
    out = b""
    for _ in range(k):
        c = rng.randrange(6)
        if c == 0:
            wv = b"\x00" * nbytes
        elif c == 1:
            wv = b"\xff" * nbytes
        elif c == 2:
            wv = bytes([rng.randrange(256)]) + b"\xff" * (nbytes - 1)
        elif c == 3:
            wv = b"\xff" * (nbytes - 1) + bytes([rng.randrange(256)])
        else:
            wv = rng.randbytes(nbytes)
        out += wv
    return out


def limits(W, signed):
    M = 1 << W
    return (-(M >> 1), (M >> 1) - 1) if signed else (0, M - 1)


def bounds(rng, w, n, signed, c=None):
    W = w * n
    M = 1 << W
    if c is None:
        c = rng.randrange(10)
    lo_lim, hi_lim = limits(W, signed)
    if c == 0:
        lo, hi = lo_lim, hi_lim                       # full range
    elif c == 1:
        lo = rng.randrange(lo_lim, hi_lim + 1)
        hi = lo                                       # size 1
    elif c == 2:
        k = rng.randrange(W)
        lo = rng.randrange(lo_lim, hi_lim + 1)
        hi = min(hi_lim, lo + (1 << k) + rng.choice([-2, -1, 0]))   # size 2^k, 2^k +- 1
        hi = max(lo, hi)
    elif c == 3 and signed:
        lo = -rng.randrange(1, 1 << rng.randrange(1, W - 1))
        hi = rng.randrange(0, 1 << rng.randrange(1, W - 1))        # spanning zero
    elif c == 4:
        lo, hi = lo_lim, hi_lim - rng.randrange(0, 3)
    elif c == 6:
        # range size M - 2^j (and M - 2^j +- 1): the rejection count 2^BITS mod range needs a carry across
        # digits; j at digit boundaries is likely (added after seeded change C20-r4m1)
        j = rng.choice([w * rng.randrange(1, n + 1) % W, rng.randrange(W)])
        size = max(1, M - (1 << j) + rng.choice([0, 0, 0, 1, -1]))
        lo = lo_lim + rng.choice([0, 0, rng.randrange(0, M - size + 1)])
        lo = min(lo, hi_lim - size + 1)
        hi = lo + size - 1
    elif c == 5:
        lo = rng.randrange(lo_lim, hi_lim + 1)
        hi = rng.randrange(lo_lim, hi_lim + 1)        # possibly empty / reversed -> panic
    else:
        a = rng.randrange(lo_lim, hi_lim + 1)
        b = rng.randrange(lo_lim, hi_lim + 1)
        lo, hi = min(a, b), max(a, b)
    return pat(lo, W), pat(hi, W)


def excl_high(hi, W, signed):
    """pattern of hi + 1 (the exclusive bound of the same range), None when hi is the type's MAX"""
    if hi == pat(limits(W, signed)[1], W):
        return None
    return (hi + 1) % (1 << W)


def boundary_words(rng_, W, unsigned_range):
    """RNG words whose low product half lands exactly on / next to the acceptance zone boundary.
    range = 0 means the full range (no rejection). Both zone formulas of the sampling law are tried."""
    from math import gcd
    M = 1 << W
    r = unsigned_range
    if r == 0:
        return []
    zones = {M - 1 - ((M - r) % r)}
    lz = W - r.bit_length()
    zones.add(((r << lz) - 1) % M)
    out = []
    g = gcd(r, M)
    for zone in zones:
        for t in (zone, zone + 1, zone - 1, zone - g, zone + g):
            t %= M
            t -= t % g
            v = (t // g) * pow(r // g, -1, M // g) % (M // g)
            out.append(v)
            if g > 1:
                out.append((v + M // g) % M)
    return out


def straddle(W, r, stored):
    """[a word rejected just above the acceptance zone (when one exists), a word accepted on the zone's last
    multiple] for the zone of `Uniform::sample` (stored) resp. of `sample_single_inclusive`"""
    from math import gcd
    if r == 0:
        return []
    M = 1 << W
    g = gcd(r, M)
    zone = M - 1 - (M % r) if (stored or W <= 16) else ((r << (W - r.bit_length())) - 1) % M
    inv = pow(r // g, -1, M // g)
    out = []
    t = zone + 1 + (-(zone + 1)) % g
    if t < M:
        out.append((t // g) * inv % (M // g))
    out.append(((zone - zone % g) // g) * inv % (M // g))
    return out


def py_sample(op, W, lo, hi, st):
    """Exact-integer reference of the sampling law for the six ordinary entry points (patterns in, answer string out;
    None when the request panics / runs out of stream).  Used only as the *pre-filter* of very long rejection runs (the
    list-based Lean model needs ~10 s for a 64 000-word stream): a request whose crate answer equals this value is
    accepted without evaluating the Lean model, every other one is judged by the Lean spec (check.py)."""
    M = 1 << W
    BY = W // 8
    stored = op.startswith("uniform_new")
    if not op.endswith("inclusive"):
        if hi == lo:
            return None
        hi = (hi - 1) % M
    r = (hi - lo + 1) % M
    pos = 0
    while pos + BY <= len(st):
        v = int.from_bytes(st[pos:pos + BY], "little")
        pos += BY
        if r == 0:
            return "S(%x)@%d" % (v, pos)
        zone = M - 1 - (M % r) if (stored or W <= 16) else ((r << (W - r.bit_length())) - 1) % M
        hp, lp = divmod(v * r, M)
        if lp <= zone:
            return "S(%x)@%d" % ((lo + hp) % M, pos)
    return None


def sampling_line(op, s, cfg, lo, hi, st):
    return f"{op} {s}{cfg} {hx(lo)} {hx(hi)} {st.hex() or '-'}"


def both_forms(rng, s, cfg, W, lo, hi, st, tag, incl_ops, excl_ops):
    """the same range through the inclusive entry points and, when high + 1 is representable, through the
    exclusive ones (`high - ONE` inside `sample_single` / `new`)"""
    for op in incl_ops:
        yield sampling_line(op, s, cfg, lo, hi, st), tag
    h1 = excl_high(hi, W, s == "i")
    if h1 is not None:
        for op in excl_ops:
            yield sampling_line(op, s, cfg, lo, h1, st), tag


def gen_wide(rng, tier):
    """every cheap op, and a few draws of every sampling entry point, on the widest instantiations"""
    for cfg in (WIDE_CFGS_THOROUGH if tier == "thorough" else WIDE_CFGS_QUICK):
        w, n = wn(cfg)
        W = w * n
        BY = W // 8
        for s in "ui":
            st = stream(rng, BY, 1) + rng.randbytes(rng.randrange(3))
            yield f"standard {s}{cfg} {st.hex()}", "wide-standard"
            yield f"standard_err {s}{cfg} {st[:BY - 1].hex() or '-'}", "wide-short-stream"
            k = rng.randrange(1, 4)
            st = stream(rng, BY, k) + rng.randbytes(rng.randrange(3))
            for op in rng.sample(FILL_OPS, 3) if tier != "thorough" else FILL_OPS:
                yield f"{op} {s}{cfg} {k} {st.hex()}", "wide-fill"
            yield f"{rng.choice(FILL_OPS)}{rng.choice(['', '_err'])} {s}{cfg} {k} {st[:-3 - rng.randrange(BY)].hex() or '-'}", "wide-short-stream"
            # per bounds class (full range, size 1, 2^k(+-1), spanning zero, MAX-ish, M - 2^j, random) one draw through
            # the one-shot family (its own zone formula) and one through the stored-sampler family, the stream
            # starting with a word rejected just above the zone and a word accepted on its last multiple
            huge = cfg in HUGE_CFGS
            classes = [0, 1, 2, 3, 4, 6, 7] if tier == "thorough" else \
                [0, rng.choice([2, 6]), rng.choice([1, 3, 4, 7])] if huge else [0, 2, rng.choice([1, 3, 4]), 6, 7]
            one_shot = ["sample_single_inclusive", "gen_range_inclusive", "sample_single", "gen_range"]
            stored = ["uniform_new_inclusive", "uniform_new", "sampler_new_inclusive", "sampler_new",
                      "uniform_from_inclusive", "uniform_from"]
            rng.shuffle(one_shot)
            rng.shuffle(stored)
            for i, c in enumerate(classes):
                lo, hi = bounds(rng, w, n, s == "i", c)
                r = (hi - lo + 1) % (1 << W)
                fams = (one_shot, stored) if (tier == "thorough" or not huge) else ((one_shot, stored)[(i + (s == "i")) % 2],)
                for fam in fams:
                    op = fam[i % len(fam)]
                    h = hi
                    if not op.endswith("_inclusive"):
                        h = excl_high(hi, W, s == "i")
                        if h is None:
                            op, h = op + "_inclusive", hi
                    st = b"".join(v.to_bytes(BY, "little") for v in straddle(W, r, fam is stored))
                    st += stream(rng, BY, 1) + b"\x00" * BY
                    yield sampling_line(op, s, cfg, lo, h, st), "wide-bounds"
            if huge and tier != "thorough" and (s == "i") != (w in (8, 32)):
                continue
            lo, hi = bounds(rng, w, n, s == "i", rng.choice([2, 6, 7]))
            k = rng.choice([2, 3])
            yield f"uniform_many {s}{cfg} 1 {hx(lo)} {hx(hi)} {k} {(stream(rng, BY, k + 1) + bytes(BY * k)).hex()}", "wide-uniform-many"


def gen_enum(rng, tier):
    """COMPLETE ENUMERATION of the RNG words at 8 and 16 bits (one request = all 2^BITS words of one range):
    exact unbiasedness (equal preimage counts) of both zone formulas, through every entry point."""
    single = ("ssi", "ss", "gri", "gr")
    stored = ("uni", "un")

    def req(s, cfg, W, kind, lo, hi):
        # kinds ss / gr / un take the exclusive bound; fall back to the inclusive twin at the type's MAX
        if kind in ("ss", "gr", "un"):
            h1 = excl_high(hi, W, s == "i")
            if h1 is None:
                kind = {"ss": "ssi", "gr": "gri", "un": "uni"}[kind]
            else:
                hi = h1
        return f"enum_words {s}{cfg} {kind} {hx(lo)} {hx(hi)}", "enum%d" % W

    if tier == "thorough":
        # 8 bits: all 2^8 words x ALL 32896 pairs low <= high, signed and unsigned, one-shot and stored sampler
        for s in "ui":
            lo_lim, hi_lim = limits(8, s == "i")
            for lo in range(lo_lim, hi_lim + 1):
                for hi in range(lo, hi_lim + 1):
                    i = lo * 7 + hi
                    yield req(s, "8x1", 8, ("ssi", "gri", "ss", "gr")[i % 4] if i % 3 else "ssi", pat(lo, 8), pat(hi, 8))
                    yield req(s, "8x1", 8, "un" if i % 3 == 1 else "uni", pat(lo, 8), pat(hi, 8))
    else:
        # 8 bits: every range size 1..256, at the type's MIN or MAX and at a random position
        for s in "ui":
            lo_lim, hi_lim = limits(8, s == "i")
            for size in range(1, 257):
                lows = {rng.choice([lo_lim, hi_lim - size + 1]), rng.randrange(lo_lim, hi_lim - size + 2)}
                for lo in sorted(lows):
                    hi = lo + size - 1
                    yield req(s, "8x1", 8, rng.choice(single), pat(lo, 8), pat(hi, 8))
                    yield req(s, "8x1", 8, rng.choice(stored), pat(lo, 8), pat(hi, 8))
            yield req(s, "8x1", 8, "ssi", pat(3, 8), pat(2, 8))           # empty range: panic
            yield req(s, "8x1", 8, "un", pat(3, 8), pat(3, 8))
    # 16 bits (both 16-bit instantiations): all 2^16 words for a few ranges per class
    for cfg in ("8x2", "16x1"):
        w, n = wn(cfg)
        if tier == "thorough":
            for j in range(20):
                for fam in (single, stored):
                    for s in "ui":
                        lo, hi = bounds(rng, w, n, s == "i", [2, 6, 7, 3, 0, 4, 1][(2 * j + (fam is stored)) % 7])
                        yield req(s, cfg, 16, fam[j % len(fam)], lo, hi)
        else:
            for j in range(2):
                for fam in (single, stored):
                    s = "ui"[(j + (fam is stored) + (cfg == "16x1")) % 2]
                    lo, hi = bounds(rng, w, n, s == "i", rng.choice([2, 6, 7, 3]))
                    yield req(s, cfg, 16, rng.choice(fam), lo, hi)


def gen(rng, tier):
    yield from gen_wide(rng, tier)
    yield from gen_enum(rng, tier)
    # streams that start with a zone-boundary word followed by filler: acceptance must flip exactly at the boundary
    for cfg in (cfgs(tier)):
        w, n = wn(cfg)
        if n > 20:
            continue                                  # these instantiations are served by gen_wide
        W = w * n
        BY = W // 8
        for _ in range(6 if tier == "thorough" else 2):
            for s in "ui":
                lo, hi = bounds(rng, w, n, s == "i")
                r = (hi - lo + 1) % (1 << W)
                for v in boundary_words(rng, W, r)[:8]:
                    st = v.to_bytes(BY, "little") + stream(rng, BY, 3)
                    yield from both_forms(rng, s, cfg, W, lo, hi, st, "zone-boundary", INCL_OPS, EXCL_OPS)
    # long rejection runs: the same (normally rejected) word k times, then filler.  "For every RNG output
    # stream" includes streams that are rejected 64, 65, 200 times in a row (added after seeded change C20-r4m2)
    for cfg in ["8x1", "8x3", "16x3", "64x2", "32x2"] + (["8x17", "64x3"] if tier == "thorough" else []):
        w, n = wn(cfg)
        W = w * n
        BY = W // 8
        M = 1 << W
        for s in "ui":
            lo_lim = -(M >> 1) if s == "i" else 0
            # ... and 256, 1000, 65536 times: any bound on the number of retries is a bound the property does not have
            # (added after seeded change C20-r7m1, a `MAX_REJECTIONS = 256` guard).  The very long runs only on the
            # narrow types (the request carries k * BYTES stream bytes).
            ks = (1, 7, 63, 64, 65, 66, 127, 128, 129, 200, 255, 256, 257, 300, 511, 512, 513, 1000, 1023, 1024, 1025)
            ks += tuple(rng.sample((2047, 2048, 2049, 4095, 4096, 4097), 2))
            if BY <= 3:
                # pre-filtered by py_sample (third component of the case): see its docstring
                ks += (65537,) + tuple(rng.sample((10000, 16384, 32767, 32768, 32769, 65535, 65536, 100000), 2))
            for k in ks:
                j = rng.randrange(1, W)
                size = (1 << j) + rng.choice([1, 1, 2, 3])          # just above a power of two: ~half of all words rejected
                lo = lo_lim + rng.choice([0, rng.randrange(0, M - size)])
                hi = lo + size - 1
                bw = boundary_words(rng, W, size)
                for v in ([1] + bw[1:2] + bw[6:7]):
                    st = v.to_bytes(BY, "little") * k + stream(rng, BY, 2) + b"\x00" * BY
                    if k * BY > 8000:
                        if (v != 1 and s == "i") or (k * BY > 70000 and k not in (65537,)):
                            continue                  # volume
                        for line, tag in both_forms(rng, s, cfg, W, pat(lo, W), pat(hi, W), st, "rejection-run-long", INCL_OPS, EXCL_OPS):
                            f = line.split(" ")
                            exp = py_sample(f[0], W, int(f[2], 16), int(f[3], 16), st)
                            yield (line, tag, exp) if exp is not None else (line, tag)
                        continue
                    yield from both_forms(rng, s, cfg, W, pat(lo, W), pat(hi, W), st, "rejection-run-%d" % k,
                                          INCL_OPS, EXCL_OPS)
    reps = 100 if tier == "thorough" else 50
    for cfg in cfgs(tier):
        w, n = wn(cfg)
        W = w * n
        BY = W // 8
        wide = n > 20
        for rep in range(reps):
            for s in "ui":
                if not wide:
                    for op in INCL_OPS + EXCL_OPS:
                        lo, hi = bounds(rng, w, n, s == "i")
                        st = stream(rng, BY, rng.choice([1, 2, 4, 8]))
                        yield sampling_line(op, s, cfg, lo, hi, st), "bounds"
                if not wide and rep % 5 == 0:
                    # least-used entry points; the scripted RNG answering `Err` instead of panicking; one stored
                    # sampler drawn from several times; the crate's own range test
                    op = rng.choice(RARE_INCL_OPS + RARE_EXCL_OPS)
                    lo, hi = bounds(rng, w, n, s == "i")
                    st = stream(rng, BY, rng.choice([1, 2, 4]))
                    yield sampling_line(op, s, cfg, lo, hi, st), "rare-entry"
                    op = rng.choice(INCL_OPS + EXCL_OPS + RARE_INCL_OPS + RARE_EXCL_OPS) + "_err"
                    lo, hi = bounds(rng, w, n, s == "i")
                    st = stream(rng, BY, rng.choice([1, 1, 2]))
                    yield sampling_line(op, s, cfg, lo, hi, st[:len(st) - rng.choice([0, 0, 1, BY])]), "err-mode"
                    lo, hi = bounds(rng, w, n, s == "i", rng.choice([0, 1, 2, 3, 4, 6, 7, 7, 5]))
                    k = rng.choice([0, 1, 2, 3, 5])
                    st = stream(rng, BY, k + rng.randrange(3))
                    yield f"uniform_many{rng.choice(['', '', '_err'])} {s}{cfg} {rng.randrange(2)} {hx(lo)} {hx(hi)} {k} {st.hex() or '-'}", "uniform-many"
                    lo, hi = bounds(rng, w, n, s == "i")
                    x = pat(rng.choice([lo, hi, lo - 1, hi + 1, lo + 1, hi - 1, rng.randrange(1 << W)]), W)
                    yield f"check_in_range {s}{cfg} {hx(lo)} {hx(hi)} {hx(x)} {rng.randrange(2)}", "check-in-range"
                if wide and rep % 10:
                    continue
                st = stream(rng, BY, 1) + rng.randbytes(rng.randrange(3))
                yield f"standard {s}{cfg} {st.hex()}", "standard"
                yield f"standard{rng.choice(['', '_err'])} {s}{cfg} {st[:BY - 1].hex() or '-'}", "short-stream"
                k = rng.randrange(0, 5)
                st = stream(rng, BY, k) + rng.randbytes(rng.randrange(3))
                yield f"fill {s}{cfg} {k} {st.hex() or '-'}", "fill"
                yield f"fill_each {s}{cfg} {k} {st.hex() or '-'}", "fill"
                op = rng.choice(FILL_OPS[2:]) if rep % 2 else rng.choice(FILL_OPS) + "_err"
                if rep % 4 >= 2 and k > 0:
                    st = st[:BY * k - 1 - rng.randrange(BY)]          # the slice fill runs out of bytes
                yield f"{op} {s}{cfg} {k} {st.hex() or '-'}", "fill-entry"
