"""Exact simulation of Knuth's Algorithm D (as in /repo/src/buint/div.rs) to classify dividend/divisor
pairs by the branches they take: q-hat corrections and the add-back step with its quotient position."""


def knuth_events(u, v, w):
    """u, v: non-negative ints, v has >= 2 digits of w bits, u >= v. Returns dict(addback=[j..], corr=k, qmax=bool)."""
    B = 1 << w
    n = max(1, (v.bit_length() + w - 1) // w)
    m = max(1, (u.bit_length() + w - 1) // w) - n
    if n < 2 or m < 0:
        return None
    s = w - (v >> (w * (n - 1))).bit_length()
    vn = v << s
    un = u << s
    vd = [(vn >> (w * i)) & (B - 1) for i in range(n)]
    ud = [(un >> (w * i)) & (B - 1) for i in range(m + n + 1)]
    addback, corr, qmax = [], 0, False
    for j in range(m, -1, -1):
        num = ud[j + n] * B + ud[j + n - 1]
        if ud[j + n] >= vd[n - 1]:
            qhat = B - 1
            qmax = True
            rhat = num - qhat * vd[n - 1]
        else:
            qhat, rhat = divmod(num, vd[n - 1])
        while rhat < B and qhat * vd[n - 2] > rhat * B + ud[j + n - 2]:
            qhat -= 1
            rhat += vd[n - 1]
            corr += 1
        # multiply-subtract
        cur = sum(ud[j + i] << (w * i) for i in range(n + 1))
        cur -= qhat * vn
        if cur < 0:
            cur += vn
            addback.append(j)
        for i in range(n + 1):
            ud[j + i] = (cur >> (w * i)) & (B - 1)
    return {"addback": addback, "corr": corr, "qmax": qmax}


def extreme_operand(rng, w, ln):
    B = 1 << w
    ds = [rng.choice([0, 0, 1, B - 1, B - 1, B // 2, B // 2 - 1, B // 2 + 1, B - 2, 2]) for _ in range(ln)]
    if ds[-1] == 0:
        ds[-1] = rng.choice([1, B - 1, B // 2])
    return sum(d << (w * i) for i, d in enumerate(ds))


def addback_pairs(rng, w, n, want, tries=4000):
    """pairs (u, v) of n-digit operands whose division takes the add-back step, preferring positions j >= 1"""
    out, late = [], []
    if n < 3:
        lens = [(n, 2)] if n >= 2 else []
    else:
        lens = [(n, k) for k in range(2, n)] + [(n, n)]
    if not lens:
        return []
    for _ in range(tries):
        lu, lv = rng.choice(lens)
        u = extreme_operand(rng, w, lu)
        v = extreme_operand(rng, w, lv)
        if u <= v:
            continue
        ev = knuth_events(u, v, w)
        if ev and ev["addback"]:
            (late if max(ev["addback"]) >= 1 else out).append((u, v))
            if len(late) >= want:
                break
    res = late[:want]
    res += out[:max(0, want - len(res))]
    return res
