"""Exact simulation of Knuth's Algorithm D (as in /repo/src/buint/div.rs) to classify dividend/divisor
pairs by the branches they take: q-hat corrections and the add-back step with its quotient position."""


def knuth_events(u, v, w):
    """u, v: non-negative ints, v has >= 2 digits of w bits, u >= v. Returns dict(addback=[j..], corr=k, qmax=bool)."""
    B = 1 << w
    n = max(1, (v.bit_length() + w - 1) // w)
    m = max(1, (u.bit_length() + w - 1) // w) - n
    if n < 2 or m < 0:
        return None
    s = w - (v >> (w * (n - 1))).bit_length()
    vn = v << s
    un = u << s
    vd = [(vn >> (w * i)) & (B - 1) for i in range(n)]
    ud = [(un >> (w * i)) & (B - 1) for i in range(m + n + 1)]
    addback, corr, qmax = [], 0, False
    d3min, clamp_d3min = None, None
    for j in range(m, -1, -1):
        num = ud[j + n] * B + ud[j + n - 1]
        if ud[j + n] >= vd[n - 1]:
            qhat = B - 1
            qmax = True
            rhat = num - qhat * vd[n - 1]
        else:
            qhat, rhat = divmod(num, vd[n - 1])
        if rhat < B:
            # distance of the first D3 comparison from a tie (also recorded for the clamped estimate, whose
            # D3 test the crate skips: a change that adds it must get the tie right)
            dd = abs(qhat * vd[n - 2] - (rhat * B + ud[j + n - 2]))
            d3min = dd if d3min is None else min(d3min, dd)
            if qhat == B - 1 and ud[j + n] >= vd[n - 1]:
                clamp_d3min = dd if clamp_d3min is None else min(clamp_d3min, dd)
        while rhat < B and qhat * vd[n - 2] > rhat * B + ud[j + n - 2]:
            qhat -= 1
            rhat += vd[n - 1]
            corr += 1
        # multiply-subtract
        cur = sum(ud[j + i] << (w * i) for i in range(n + 1))
        cur -= qhat * vn
        if cur < 0:
            cur += vn
            addback.append(j)
        for i in range(n + 1):
            ud[j + i] = (cur >> (w * i)) & (B - 1)
    return {"addback": addback, "corr": corr, "qmax": qmax, "d3min": d3min, "clamp_d3min": clamp_d3min}


def extreme_operand(rng, w, ln):
    B = 1 << w
    ds = [rng.choice([0, 0, 1, B - 1, B - 1, B // 2, B // 2 - 1, B // 2 + 1, B - 2, 2]) for _ in range(ln)]
    if ds[-1] == 0:
        ds[-1] = rng.choice([1, B - 1, B // 2])
    return sum(d << (w * i) for i, d in enumerate(ds))


def addback_pairs(rng, w, n, want, tries=4000):
    """pairs (u, v) of n-digit operands whose division takes the add-back step, preferring positions j >= 1"""
    out, late = [], []
    if n < 3:
        lens = [(n, 2)] if n >= 2 else []
    else:
        lens = [(n, k) for k in range(2, n)] + [(n, n)]
    if not lens:
        return []
    for _ in range(tries):
        lu, lv = rng.choice(lens)
        u = extreme_operand(rng, w, lu)
        v = extreme_operand(rng, w, lv)
        if u <= v:
            continue
        ev = knuth_events(u, v, w)
        if ev and ev["addback"]:
            (late if max(ev["addback"]) >= 1 else out).append((u, v))
            if len(late) >= want:
                break
    res = late[:want]
    res += out[:max(0, want - len(res))]
    return res


def _digits_val(ds, w):
    return sum(d << (w * i) for i, d in enumerate(ds))


def d3_boundary_pairs(rng, w, N, want, tries=3000):
    """(u, v) with u < 2^(w*N), v of >= 2 digits, constructed so that at some step of Algorithm D the
    refinement test `q_hat * v[n-2]  vs  r_hat * b + u[j+n-2]` is within 1 of an exact tie - in the ordinary
    branch (first or second iteration of the test) or for the clamped estimate q_hat = b-1 (u[j+n] == v[n-1]).
    Construction: choose the normalised divisor and the 3-digit window, then embed the window as the
    partial remainder R < v followed by the next dividend digits: u = R * b^(j+1) + low (shifted back by the
    normalisation amount).  Every pair is confirmed by the exact simulation before it is returned."""
    B = 1 << w
    out, seen = [], set()
    if N < 2:
        return out
    for _ in range(tries):
        if len(out) >= want:
            break
        n = rng.choice([2, 2, 3, max(2, N - 1), N, rng.randrange(2, N + 1)]) if N > 2 else 2
        if n > N:
            continue
        s = rng.choice([0, 0, 1, w - 1, rng.randrange(w)])
        full = (n == N)       # divisor as long as the type: single step, window = top of u << s (top digit < 2^s)
        if full and s == 0:
            s = rng.choice([1, 2, w - 1, rng.randrange(1, w)])
        v1 = rng.choice([B // 2, B // 2 + 1, B - 1, B // 2 + rng.randrange(1, 16), (B // 2) | rng.randrange(B // 2)])
        v0 = rng.choice([0, 1, B - 1, B // 2, min(B - 1, v1 + 1), v1 - 1, v1, rng.randrange(B), min(B - 1, v1 + rng.randrange(1, 6))])
        vd = [rng.choice([0, 1, B - 1, rng.randrange(B)]) for _ in range(n - 2)] + [v0, v1]
        vd[0] &= ~((1 << s) - 1) & (B - 1)
        v0 = vd[n - 2]
        if n == 2 and s and v0 != vd[0]:
            continue
        delta = rng.choice([-1, 0, 0, 1])
        mode = rng.choice(["clamp", "clamp", "first", "second"]) if not full else rng.choice(["first", "second"])
        if full and n == 2:
            delta = 0
        if mode == "clamp":
            T = (B - 1) * v0 - delta
            if T < 0:
                continue
            rhat, u0 = divmod(T, B)
            u2, u1 = v1, rhat - v1
            if not (0 <= u1 < B and rhat < B):
                continue
        else:
            qhat = rng.choice([B - 1, B - 2, B // 2, 1, 2, rng.randrange(1, B)]) if not full else rng.randrange(1, 1 << min(w, s + 1))
            qeff = qhat if mode == "first" else qhat - 1
            if qeff < 0:
                continue
            T = qeff * v0 - delta
            if T < 0:
                continue
            r_eff, u0 = divmod(T, B)
            rhat = r_eff if mode == "first" else r_eff - v1
            if not (0 <= rhat < v1):
                continue
            u2, u1 = divmod(qhat * v1 + rhat, B)
            if u2 >= v1:
                continue
        vn = _digits_val(vd, w)
        if full:
            if u2 >> s:
                continue
            ud = [rng.choice([0, B - 1, rng.randrange(B)]) for _ in range(n - 2)] + [u0, u1, u2]
            un = _digits_val(ud, w)
            if n >= 3:
                un &= ~((1 << s) - 1)
            elif un & ((1 << s) - 1):
                continue
            u, v = un >> s, vn >> s
            if v < B or u <= v or u >> (w * N):
                continue
            ev = knuth_events(u, v, w)
            if ev and ev["d3min"] is not None and ev["d3min"] <= 1 and (u, v) not in seen:
                seen.add((u, v))
                out.append((u, v))
            continue
        jmax = N - n - 1
        if jmax < 0:
            continue
        j = rng.choice([0, jmax, rng.randrange(jmax + 1)])
        if n >= 3:
            Rd = [rng.choice([0, B - 1, rng.randrange(B)]) for _ in range(n - 3)] + [u0, u1, u2]
            low = [rng.choice([0, 1, B - 1, rng.randrange(B)]) for _ in range(j + 1)]
        else:
            Rd = [u1, u2]
            low = [rng.choice([0, 1, B - 1, rng.randrange(B)]) for _ in range(j)] + [u0]
        Rn = _digits_val(Rd, w)
        if Rn >= vn:
            continue
        un = (Rn << (w * (j + 1))) + _digits_val(low, w)
        if un & ((1 << s) - 1):
            un &= ~((1 << s) - 1)
        u, v = un >> s, vn >> s
        if v < B or u <= v or u >> (w * N):
            continue
        ev = knuth_events(u, v, w)
        if not ev or ev["d3min"] is None or ev["d3min"] > 1:
            continue
        if mode == "clamp" and (ev["clamp_d3min"] is None or ev["clamp_d3min"] > 1):
            continue
        if (u, v) not in seen:
            seen.add((u, v))
            out.append((u, v))
    return out
