"""C16 cases: results depend only on width, signedness and value.
 (i)  the same request is sent to every digit-type configuration of equal width; the crate's answers must be
      identical (post hook: crate vs crate), and each is also compared with model and spec as usual.  The
      vocabulary is the union of the vocabularies of C01-C03, C05-C15, C17-C19 (every function of the table
      `op_digit_independent` plus formatting, byte order / slices, float casts, num_traits / num_integer entry
      points, operator forms); operands are shaped for the digits of a RANDOM member of the group;
 (ia) the `As` cast itself between the equal-width representations (and TryFrom) is the identity on the pattern;
 (ii) narrow vs wide configuration: an operation whose exact result is representable in the narrow type gives,
      on zero-/sign-extended operands in the wide type, the extension of the narrow result (every form of
      add, sub, mul, div, rem, pow, shl, comparison, decimal parse / print); the extension is also performed by
      the crate's own `As` cast where the cast grid has both types;
 (iii) constants and the alias table; the alias table is re-read from /repo/src/types.rs on every run and turned
      into lean/Bnum/Generated/Aliases.lean, whose theorem is re-checked by the kernel (pre hook)."""
import os
import re
from .common import *
from .c02 import mul_pair
from .c03 import div_pair
from .knuth import addback_pairs, d3_boundary_pairs
from .c10 import numeral, str_case, digits_case
from .c06 import runs_value
from .c07 import cmp_pair
from .c08 import pow_case, log_case
from .c11 import out_value
from .c12 import TRAITS as FMT_TRAITS, FLAGS as FMT_FLAGS, fmt_value
from .c14 import int_case, float_case, FMT as FLOAT_FMT
from .c15 import slice_case
from .c18 import gcd_pair, root_case
from .c19 import prim_value, big_value, PRIMS as PRIMS19

HARNESS_BINS = ["c01", "c02", "c03", "c05", "c06", "c07", "c08", "c09", "c10", "c12", "c13", "c14", "c15", "c16", "c17", "c18", "c19"]
# every width that `for_config!` (harness/src/lib.rs) can build from more than one digit type
GROUPS = {16: ["8x2", "16x1"], 32: ["8x4", "16x2", "32x1"], 64: ["8x8", "16x4", "32x2", "64x1"], 96: ["8x12", "32x3"],
          128: ["8x16", "32x4", "64x2"], 192: ["8x24", "16x12", "32x6", "64x3"], 320: ["8x40", "16x20", "32x10", "64x5"],
          512: ["8x64", "64x8"]}
HUGE_GROUP = list(HUGE_CFGS)        # 8192 bits from all four digit types
# the c17 bin (operator forms) instantiates a reduced list: equal-width sets inside it
GROUPS17 = {16: ["8x2", "16x1"], 64: ["16x4", "32x2", "64x1"]}
# equal-width sets of the cast grid (bins c09 / c13, `for_type!`)
CAST_GROUPS = {16: ["8x2", "16x1"], 32: ["16x2", "32x1"], 48: ["16x3"], 64: ["8x8", "16x4", "32x2", "64x1"], 96: ["32x3"],
               128: ["8x16", "32x4", "64x2"], 192: ["32x6", "64x3"], 24: ["8x3"], 136: ["8x17"]}
CAST_TYPES = set(f"{w}x{n}" for w, ns in {8: [1, 2, 3, 5, 8, 16, 17], 16: [1, 2, 3, 4, 5], 32: [1, 2, 3, 4, 6], 64: [1, 2, 3]}.items() for n in ns)
EXT = [("8x1", "8x3"), ("8x3", "64x1"), ("64x1", "64x3"), ("16x1", "32x3"), ("64x2", "64x16"), ("8x2", "16x5"),
       ("8x5", "16x4"), ("32x2", "8x17"), ("16x5", "32x3"), ("8x17", "64x3"), ("64x3", "8x40"),
       # into the widest instantiation of every digit type
       ("8x16", "8x1024"), ("64x5", "16x512"), ("16x9", "32x256"), ("32x6", "64x128")]
EXT_THOROUGH = EXT + [("64x2", "64x128"), ("8x5", "64x4"), ("32x1", "8x5"), ("16x3", "64x1"), ("64x8", "8x1024"), ("8x7", "64x1")]
CONSTS = ["MIN", "MAX", "ZERO", "ONE", "TWO", "THREE", "FOUR", "FIVE", "SIX", "SEVEN", "EIGHT", "NINE", "TEN"]
NEGS = ["NEG_ONE", "NEG_TWO", "NEG_THREE", "NEG_FOUR", "NEG_FIVE", "NEG_SIX", "NEG_SEVEN", "NEG_EIGHT", "NEG_NINE", "NEG_TEN"]
ALIASES = ["U128", "U256", "U512", "U1024", "U2048", "U4096", "U8192", "I128", "I256", "I512", "I1024", "I2048", "I4096", "I8192"]
# every instantiation the harness can build (for the constants)
ALL_CFGS = sorted(set(THOROUGH_CFGS + HUGE_CFGS + [c for g in GROUPS.values() for c in g]), key=lambda c: (wn(c)[0], wn(c)[1]))

# ---------------------------------------------------------------------------------------------- vocabulary
# (op, kind) — kind names the argument generator in `_args`.  `m_` kinds carry the build-profile word.
V01_BOTH = [(o, "ab") for o in ["overflowing_add", "overflowing_sub", "checked_add", "checked_sub", "wrapping_add", "wrapping_sub",
                               "saturating_add", "saturating_sub", "strict_add", "strict_sub", "abs_diff"]] + \
           [(o, "a") for o in ["overflowing_neg", "checked_neg", "wrapping_neg", "strict_neg"]] + \
           [("carrying_add", "abc"), ("borrowing_sub", "abc"), ("midpoint", "m_ab")]
V01_U = [(o, "ab") for o in ["overflowing_add_signed", "checked_add_signed", "wrapping_add_signed", "saturating_add_signed", "strict_add_signed"]]
V01_I = [(o, "ab") for o in ["overflowing_add_unsigned", "overflowing_sub_unsigned", "checked_add_unsigned", "checked_sub_unsigned",
                             "wrapping_add_unsigned", "wrapping_sub_unsigned", "saturating_add_unsigned", "saturating_sub_unsigned",
                             "strict_add_unsigned", "strict_sub_unsigned"]] + \
        [(o, "a") for o in ["overflowing_abs", "checked_abs", "wrapping_abs", "saturating_abs", "saturating_neg", "unsigned_abs", "strict_abs"]] + \
        [("abs", "m_a")]
V02_BOTH = [(o, "mul") for o in ["overflowing_mul", "checked_mul", "wrapping_mul", "saturating_mul", "strict_mul"]] + [("mul", "m_mul")]
V02_U = [("widening_mul", "mul"), ("carrying_mul", "mul3")]
V03_BOTH = [(o, "div") for o in ["checked_div", "checked_rem", "checked_div_euclid", "checked_rem_euclid",
                                 "overflowing_div", "overflowing_rem", "overflowing_div_euclid", "overflowing_rem_euclid",
                                 "wrapping_div", "wrapping_rem", "wrapping_div_euclid", "wrapping_rem_euclid", "saturating_div",
                                 "div", "rem", "div_euclid", "rem_euclid", "strict_div", "strict_rem", "strict_div_euclid",
                                 "strict_rem_euclid", "checked_next_multiple_of"]] + \
           [(o, "m_div") for o in ["div_floor", "div_ceil", "next_multiple_of"]]
V05_BOTH = [(o, "sh") for o in ["overflowing_shl", "overflowing_shr", "checked_shl", "checked_shr", "wrapping_shl", "wrapping_shr",
                                "unbounded_shl", "unbounded_shr", "rotate_left", "rotate_right", "strict_shl", "strict_shr"]] + \
           [("shl", "m_sh"), ("shr", "m_sh")]
V06_BOTH = [(o, "ab") for o in ["bitand", "bitor", "bitxor"]] + \
           [(o, "bits") for o in ["not", "swap_bytes", "reverse_bits", "is_power_of_two", "is_zero", "is_one", "count_ones", "count_zeros",
                                  "leading_zeros", "trailing_zeros", "leading_ones", "trailing_ones", "bits"]] + [("bit", "bit")]
V06_U = [("checked_next_power_of_two", "bits"), ("wrapping_next_power_of_two", "bits"), ("next_power_of_two", "m_a"),
         ("set_bit", "setbit"), ("power_of_two", "p2")]
V07_BOTH = [(o, "cmp") for o in ["eq", "ne", "cmp", "lt", "le", "gt", "ge", "max", "min", "op_eq", "op_ne", "op_lt", "op_le", "op_gt", "op_ge",
                                 "ord_cmp", "partial_cmp", "ord_max", "ord_min"]] + [("clamp", "clamp"), ("ord_clamp", "clamp")]
V07_I = [(o, "a") for o in ["signum", "is_positive", "is_negative"]]
V08_BOTH = [(o, "pow") for o in ["overflowing_pow", "checked_pow", "wrapping_pow", "saturating_pow", "strict_pow"]] + \
           [("pow", "m_pow"), ("checked_ilog", "log"), ("ilog", "m_log"), ("checked_ilog2", "log1"), ("checked_ilog10", "log1"),
            ("ilog2", "m_log1"), ("ilog10", "m_log1")]
V10_BOTH = [("from_str_radix", "str_r"), ("parse_str_radix", "str_r"), ("from_str", "str10"), ("parse_bytes", "bytes_r"),
            ("from_radix_be", "digs_be"), ("from_radix_le", "digs_le"), ("to_str_radix", "out_r"), ("to_radix_be", "out_R"),
            ("to_radix_le", "out_R"), ("roundtrip_str", "out_r")]
V12_BOTH = [("fmt", "fmt")]
V14_BOTH = [("to_f32", "tof32"), ("to_f64", "tof64"), ("from_f32", "fromf32"), ("from_f64", "fromf64")]
V15_BOTH = [("from_be_slice", "slice_be"), ("from_le_slice", "slice_le")] + [(o, "a") for o in ["to_be", "to_le", "from_be", "from_le"]]
V18_BOTH = [("nt_gcd", "m_gcd"), ("nt_lcm", "m_gcd"), ("nt_nth_root", "m_root"), ("nt_sqrt", "m_sqrt"), ("nt_cbrt", "m_cbrt"),
            ("nt_pow", "m_pow"), ("nt_mul_add", "m_abc")] + \
           [(o, "div") for o in ["nt_div_floor", "nt_mod_floor", "nt_div_rem", "nt_div_mod_floor", "nt_is_multiple_of", "nt_checked_div",
                                 "nt_checked_rem", "nt_checked_div_euclid", "nt_checked_rem_euclid", "nt_div_euclid", "nt_rem_euclid"]]
V18_I = [("nt_abs", "m_a"), ("nt_abs_sub", "m_ab")] + [(o, "a") for o in ["nt_signum", "nt_is_positive", "nt_is_negative"]]
# trait twins of inherent methods (a random few per repetition)
V18_TWINS = [(o, "ab") for o in ["nt_checked_add", "nt_checked_sub", "nt_wrapping_add", "nt_wrapping_sub", "nt_saturating_add",
                                 "nt_saturating_sub", "nt_overflowing_add", "nt_overflowing_sub"]] + \
            [(o, "mul") for o in ["nt_checked_mul", "nt_wrapping_mul"]] + \
            [(o, "a") for o in ["nt_is_even", "nt_is_odd", "nt_checked_neg", "nt_wrapping_neg", "nt_count_ones", "nt_count_zeros",
                                "nt_leading_zeros", "nt_trailing_zeros", "nt_swap_bytes", "nt_to_be", "nt_to_le", "nt_is_zero", "nt_is_one"]] + \
            [(o, "shW") for o in ["nt_rotate_left", "nt_rotate_right", "nt_unsigned_shl", "nt_unsigned_shr", "nt_signed_shl", "nt_signed_shr"]] + \
            [(o, "none") for o in ["nt_min_value", "nt_max_value", "nt_zero", "nt_one"]] + [("nt_from_str_radix", "str_r")]
V19_FLOAT = [("nt_from_f32", "fromf32"), ("nt_from_f64", "fromf64"), ("nt_to_f32", "tof32"), ("nt_to_f64", "tof64"),
             ("as_f32", "tof32"), ("as_f64", "tof64")]
# operator forms (bin c17; `GROUPS17` only)
FORMS17 = ["vv", "vr", "rv", "rr", "as", "asr", "inh"]
SFORMS17 = ["vv", "vr", "rv", "rr", "as", "asr"]
PRIM17 = {"u8": (8, False), "u16": (16, False), "u32": (32, False), "u64": (64, False), "u128": (128, False), "usize": (64, False),
          "i8": (8, True), "i16": (16, True), "i32": (32, True), "i64": (64, True), "i128": (128, True), "isize": (64, True)}

_BIN_OF = {}
for _tab, _bin in ((V01_BOTH + V01_U + V01_I, "c01"), (V02_BOTH + V02_U, "c02"), (V03_BOTH, "c03"), (V05_BOTH, "c05"),
                   (V06_BOTH + V06_U, "c06"), (V07_BOTH + V07_I, "c07"), (V08_BOTH, "c08"), (V10_BOTH, "c10"), (V12_BOTH, "c12"),
                   (V14_BOTH, "c14"), (V15_BOTH, "c15"), (V18_BOTH + V18_I + V18_TWINS, "c18"), (V19_FLOAT, "c19")):
    for _o, _k in _tab:
        # `pow` / `nt_pow` etc. are distinct names; the first table that names an op owns it
        _BIN_OF.setdefault(_o, _bin)
for _p in PRIMS19:
    for _o in ("from_", "to_", "as_"):
        _BIN_OF[_o + _p] = "c19"
for _o in ("const", "const_bits", "const_bytes", "alias"):
    _BIN_OF[_o] = "c16"
for _o in ("cast", "cast_signed", "cast_unsigned", "to_bits", "from_bits"):
    _BIN_OF[_o] = "c09"
_BIN_OF["try"] = "c13"
_RE17 = re.compile(r"^((add|sub|mul|div|rem|bitand|bitor|bitxor)_(vv|vr|rv|rr|as|asr|inh)|(neg|not)_(v|r|inh)|sh[lr]_[a-z0-9]+_(vv|vr|rv|rr|as|asr|inh)"
                   r"|sum|sum_ref|product|product_ref|default|cmp_[a-z_]+)$")


# type sets of `cast_set!` in harness/src/bin/c16.rs: the c16 bin casts between any two members of one set
C16_CAST_SETS = list(GROUPS.values()) + [HUGE_GROUP] + [list(p) for p in EXT_THOROUGH]


def _cast_bin(src, dst):
    """the bin that can perform `cast src dst`: c09 inside its grid, else c16 when one `cast_set!` has both types"""
    if src[1:] in CAST_TYPES and dst[1:] in CAST_TYPES:
        return "c09"
    if any(src[1:] in g and dst[1:] in g for g in C16_CAST_SETS):
        return "c16"
    return None


def ROUTE(line):
    op = line.split(" ", 1)[0]
    if op == "cast":
        t = line.split(" ")
        return _cast_bin(t[1], t[2]) or "c09"
    b = _BIN_OF.get(op)
    if b:
        return b
    if _RE17.match(op):
        return "c17"
    # (replayed lines of older runs)
    if "pow" in op or "ilog" in op:
        return "c08"
    if "mul" in op:
        return "c02"
    if "sh" in op or "rotate" in op:
        return "c05"
    if "div" in op or "rem" in op:
        return "c03"
    return "c01"


PAIRS = []          # (index_a, index_b, kind, info) relations checked by post()


def ext(v, Wn, Ww, signed):
    z = to_signed(v, Wn) if signed else v
    return pat(z, Ww)


def _hexb(b):
    return b.hex() if b else "-"


def _utf8(rng, f):
    """a str_case whose bytes are valid UTF-8 (from_str_radix takes a &str)"""
    for _ in range(20):
        t, b = f()
        try:
            b.decode()
            return t, b
        except UnicodeDecodeError:
            continue
    return "numeral", b"1"


def _radix(rng):
    return rng.choice([2, 3, 8, 10, 10, 16, 16, 32, 36, rng.randrange(2, 37)])


def _amount(rng, w, W):
    return rng.choice([0, 1, 7, 8, 9, 15, 16, 17, 31, 32, 33, 63, 64, 65, w - 1, w, w + 1, W - 1, W, W + 1, 2 * W, rng.randrange(W), rng.randrange(W),
                       rng.randrange(2 * W + 2), (1 << 32) - 1, 1 << 31, W + w, rng.randrange(1 << 32)])


def _args(rng, kind, w, n, sg):
    """[(rest-of-line, tag)] for one request of the given kind, operands shaped for digits of `w` bits (`n` of them)"""
    W = w * n
    M = 1 << W

    def modes(rest, t):
        return [(f"dbg {rest}", t), (f"rel {rest}", t)]
    m = kind.startswith("m_")
    k = kind[2:] if m else kind
    if k == "ab":
        t, a, b = pair(rng, w, n)
        r = f"{hx(a)} {hx(b)}"
    elif k == "a":
        t, a = value(rng, w, n)
        r = hx(a)
    elif k == "none":
        return [("", "const")]
    elif k == "bits":
        t, a = value(rng, w, n) if rng.random() < 0.5 else runs_value(rng, w, n)
        r = hx(a)
    elif k == "abc":
        t, a, b = pair(rng, w, n)
        r = f"{hx(a)} {hx(b)} {rng.randrange(2)}"
    elif k == "mul":
        t, a, b = mul_pair(rng, w, n, sg)
        r = f"{hx(a)} {hx(b)}"
    elif k == "mul3":
        t, a, b = mul_pair(rng, w, n, sg)
        r = f"{hx(a)} {hx(b)} {hx(value(rng, w, n)[1])}"
    elif k == "abc3":
        t, a, b = mul_pair(rng, w, n, sg) if rng.random() < 0.5 else pair(rng, w, n)
        r = f"{hx(a)} {hx(b)} {hx(value(rng, w, n)[1])}"
    elif k == "div":
        t, a, b = div_pair(rng, w, n, sg)
        r = f"{hx(a)} {hx(b)}"
    elif k == "sh":
        t, a = value(rng, w, n)
        r = f"{hx(a)} {_amount(rng, w, W)}"
    elif k == "shW":
        t, a = value(rng, w, n)
        # (amounts below BITS: beyond, the PrimInt shifts depend on the build profile)
        r = f"{hx(a)} {min(W - 1, rng.choice([0, 1, w - 1, w, w + 1, W - 1, rng.randrange(W), rng.randrange(W)]))}"
    elif k == "bit":
        t, a = value(rng, w, n)
        r = f"{hx(a)} {rng.choice([0, w - 1, w, W - 1, W, W + 1, rng.randrange(W), rng.randrange(W), (1 << 32) - 1, W + w - 1, W + w, 63, 64, 65])}"
    elif k == "setbit":
        t, a = value(rng, w, n)
        r = f"{hx(a)} {rng.choice([0, w - 1, w, W - 1, W, W + 1, rng.randrange(W), rng.randrange(W), W + w, 63, 64])} {rng.randrange(2)}"
    elif k == "p2":
        t, r = "idx", str(rng.choice([0, w - 1, w, W - 1, W, W + 1, rng.randrange(W), rng.randrange(W), (1 << 32) - 1, 63, 64]))
    elif k == "cmp":
        t, a, b = cmp_pair(rng, w, n)
        r = f"{hx(a)} {hx(b)}"
    elif k == "clamp":
        t, a, b = cmp_pair(rng, w, n)
        c = value(rng, w, n)[1]
        if rng.random() < 0.5:
            a, b = b, a
        r = f"{hx(c)} {hx(a)} {hx(b)}"
    elif k == "pow":
        t, a, e = pow_case(rng, w, n, sg)
        r = f"{hx(a)} {e}"
    elif k == "log":
        t, a, b = log_case(rng, w, n, sg)
        r = f"{hx(a)} {hx(b)}"
    elif k == "log1":
        t, a, b = log_case(rng, w, n, sg)
        r = hx(a)
    elif k == "str_r":
        rd = _radix(rng)
        t, b = _utf8(rng, lambda: str_case(rng, w, n, sg, rd))
        r = f"{rd} {_hexb(b)}"
    elif k == "str10":
        t, b = _utf8(rng, lambda: str_case(rng, w, n, sg, 10))
        r = _hexb(b)
    elif k == "bytes_r":
        rd = _radix(rng)
        t, b = str_case(rng, w, n, sg, rd)
        r = f"{rd} {_hexb(b)}"
    elif k in ("digs_be", "digs_le"):
        rd = rng.choice([2, 10, 16, 100, 255, 256, rng.randrange(2, 257)])
        t, ds = digits_case(rng, w, n, rd)
        r = f"{rd} {_hexb(bytes(reversed(ds)) if k == 'digs_be' else bytes(ds))}"
    elif k == "out_r":
        rd = _radix(rng)
        t, a = out_value(rng, w, n, rd)
        r = f"{rd} {hx(a)}"
    elif k == "out_R":
        rd = rng.choice([2, 10, 16, 100, 255, 256, rng.randrange(2, 257)])
        t, a = out_value(rng, w, n, rd)
        r = f"{rd} {hx(a)}"
    elif k == "fmt":
        t, a = fmt_value(rng, w, n)
        r = f"{rng.choice(FMT_TRAITS)} {rng.choice(FMT_FLAGS)} {rng.choice(['-', '-', 0, 1, 5, 12, 40, rng.randrange(0, 41), 255])} {hx(a)}"
    elif k in ("tof32", "tof64"):
        t, a = int_case(rng, w, n, "f" + k[3:], sg)
        r = hx(a)
    elif k in ("fromf32", "fromf64"):
        t, f = float_case(rng, "f" + k[5:], W)
        r = hx(f)
    elif k == "slice_be":
        t, b = slice_case(rng, w, n, sg)
        r = _hexb(b)
    elif k == "slice_le":
        t, b = slice_case(rng, w, n, sg)
        r = _hexb(b[::-1])
    elif k == "gcd":
        t, a, b = gcd_pair(rng, w, n, sg)
        r = f"{hx(a)} {hx(b)}"
    elif k == "root":
        t, x, deg = root_case(rng, w, n, sg)
        r = f"{hx(x)} {deg}"
    elif k == "sqrt":
        t, x, _ = root_case(rng, w, n, False)
        r = hx(x)
    elif k == "cbrt":
        t, x, _ = root_case(rng, w, n, sg)
        r = hx(x)
    else:
        raise ValueError(kind)
    return modes(r, t) if m else [(r, t)]


def _fix_kind(kind):
    # `m_abc` (nt_mul_add) takes three values, `abc` (carrying_add) two values and a carry bit
    return "m_abc3" if kind == "m_abc" else kind


def _group_requests(rng, group, W, s, wide):
    """one repetition: every function of the vocabulary once -> [(op, rest, tag, members)]"""
    sg = s == "i"
    reqs = []

    def put(tab, members=None):
        for op, kind in tab:
            wk, nk = wn(rng.choice(group))
            for rest, t in _args(rng, _fix_kind(kind), wk, nk, sg):
                reqs.append((op, rest, t, members))
    put(V01_BOTH + (V01_I if sg else V01_U))
    put(V02_BOTH + ([] if sg else V02_U))
    put(V03_BOTH)
    put(V05_BOTH)
    put(V06_BOTH + ([] if sg else V06_U))
    put(V07_BOTH + (V07_I if sg else []))
    put(V08_BOTH)
    if not wide:
        put(V10_BOTH)
        put(V12_BOTH * 3)
    else:
        put(rng.sample(V10_BOTH, 3))
        put(V12_BOTH)
    put(V14_BOTH)
    put(V15_BOTH)
    put(V18_BOTH + (V18_I if sg else []))
    put(rng.sample(V18_TWINS, 5))
    put(rng.sample(V19_FLOAT, 2))
    for p in rng.sample(sorted(PRIMS19), 3):
        wk, nk = wn(rng.choice(group))
        t, v = prim_value(rng, p, W, sg)
        reqs.append((f"from_{p}", hx(v), t, None))
        t, a = big_value(rng, wk, nk, p)
        reqs.append((f"to_{p}", hx(a), t, None))
        t, a = big_value(rng, wk, nk, p)
        reqs.append((f"as_{p}", hx(a), t, None))
    # more division shapes per group (exact multiples, extreme quotient digits, Knuth add-back operands),
    # each built for one member's digit size and run on all members (added after seeded change C16-r4m1)
    for cfgk in group:
        wk, nk = wn(cfgk)
        for _k in range(2):
            t, a, b = div_pair(rng, wk, nk, sg)
            reqs.append((rng.choice(["checked_div", "checked_rem", "checked_div_euclid", "checked_rem_euclid"]), f"{hx(a)} {hx(b)}", t, None))
        if nk >= 2:
            d = rng.randrange(1 << wk, 1 << (wk * rng.randrange(2, nk + 1))) if nk > 2 else rng.randrange(1 << wk, 1 << (2 * wk))
            q = rng.randrange(1, max(2, (1 << W) // d))
            a, b = q * d, d
            if sg:
                a, b = a % (1 << (W - 1)), b % (1 << (W - 1)) or 1
            reqs.append((rng.choice(["checked_div", "checked_rem"]), f"{hx(a)} {hx(b)}", "exact-multiple", None))
        if nk >= 3 and not sg and nk <= 24:
            for (u, v) in addback_pairs(rng, wk, nk, 1, tries=1500):
                reqs.append(("checked_div", f"{hx(u)} {hx(v)}", "knuth-addback", None))
                reqs.append(("checked_rem", f"{hx(u)} {hx(v)}", "knuth-addback", None))
        if nk >= 2 and not sg:
            # operands on which Algorithm D's refinement test is within one of an exact tie (ordinary and clamped
            # estimate), constructed for this member's digit size (seeded change C16-r5m1)
            for (u, v) in d3_boundary_pairs(rng, wk, min(nk, 24), 3, tries=400):
                reqs.append(("checked_div", f"{hx(u)} {hx(v)}", "knuth-d3-tie", None))
                reqs.append(("checked_rem", f"{hx(u)} {hx(v)}", "knuth-d3-tie", None))
    # operator forms (std::ops traits) where the c17 bin has more than one digit type of this width
    g17 = GROUPS17.get(W)
    if g17:
        for mode in ("dbg", "rel"):
            for op, kd in (("add", "ab"), ("sub", "ab"), ("bitand", "ab"), ("bitor", "ab"), ("bitxor", "ab"), ("mul", "mul"), ("div", "div"), ("rem", "div")):
                wk, nk = wn(rng.choice(g17))
                rest, t = _args(rng, kd, wk, nk, sg)[0]
                reqs.append((f"{op}_{rng.choice(FORMS17)}", f"{mode} {rest}", t, g17))
            wk, nk = wn(rng.choice(g17))
            t, a = value(rng, wk, nk)
            reqs.append((f"not_{rng.choice(['v', 'r', 'inh'])}", f"{mode} {hx(a)}", t, g17))
            if sg:
                reqs.append((f"neg_{rng.choice(['v', 'r', 'inh'])}", f"{mode} {hx(a)}", t, g17))
            for sh in ("shl", "shr"):
                ty = rng.choice(sorted(PRIM17))
                bits, tsg = PRIM17[ty]
                lo, hi = (-(1 << (bits - 1)), (1 << (bits - 1)) - 1) if tsg else (0, (1 << bits) - 1)
                k = max(lo, min(hi, rng.choice([0, 1, W - 1, W, W + 1, 2 * W, -1, -W, lo, hi, (1 << 32) - 1, 1 << 32, (1 << 32) + W, rng.randrange(W), rng.randrange(W)])))
                t, a = value(rng, wk, nk)
                reqs.append((f"{sh}_{ty}_{rng.choice(SFORMS17)}", f"{mode} {hx(a)} {k}", t, g17))
                reqs.append((f"{sh}_u32_inh", f"{mode} {hx(a)} {rng.choice([0, 1, W - 1, W, W + 1, rng.randrange(W), (1 << 32) - 1])}", t, g17))
                kk = rng.choice([0, 1, W - 1, W, W + 1, rng.randrange(W), (1 << W) - 1, 1 << (W - 1), (1 << 32) % (1 << W)])
                reqs.append((f"{sh}_{rng.choice(['bu', 'bi'])}_{rng.choice(SFORMS17)}", f"{mode} {hx(a)} {hx(kk)}", t, g17))
            cnt = rng.choice([0, 1, 2, 3, 4, 5, 8, 9, 17])
            small = rng.random() < 0.6
            xs = [(pat(rng.randrange(0, 12) - (5 if sg else 0), W) if small else value(rng, wk, nk)[1]) for _ in range(cnt)]
            lst = ",".join(hx(x) for x in xs) or "-"
            for op in ("sum", "sum_ref", "product", "product_ref"):
                reqs.append((op, f"{mode} {lst}", "fold", g17))
            reqs.append(("default", mode, "default", g17))
            t, a, b = cmp_pair(rng, wk, nk)
            for op in rng.sample(["cmp_partial_cmp", "cmp_ord_cmp", "cmp_cmp_inh", "cmp_eq", "cmp_eq_inh", "cmp_ne", "cmp_lt", "cmp_le", "cmp_gt", "cmp_ge"], 3):
                reqs.append((op, f"{mode} {hx(a)} {hx(b)}", t, g17))
    return reqs


def _huge_requests(rng, s):
    """8192 bits from all four digit types: a few dense requests per family"""
    sg = s == "i"
    reqs = []
    cfg = rng.choice(HUGE_GROUP)
    w, n = wn(cfg)
    W = w * n
    vals = huge_values(rng, cfg) + [value(rng, w, n)[1] for _ in range(3)]
    a, b = rng.choice(vals), rng.choice(vals)
    for op in ("overflowing_add", "overflowing_sub", "saturating_add", "checked_sub", "abs_diff", rng.choice(["overflowing_mul", "checked_mul", "saturating_mul"]),
               "bitxor", "bitand", "cmp", "lt", "max"):
        a, b = rng.choice(vals), rng.choice(vals)
        reqs.append((op, f"{hx(a)} {hx(b)}", "huge"))
    for op in rng.sample(["checked_div", "checked_rem", "checked_rem_euclid", "overflowing_div_euclid", "wrapping_div"], 3):
        t, a, b = div_pair(rng, w, n, sg)
        reqs.append((op, f"{hx(a)} {hx(b)}", "huge-" + t))
    for op in ("overflowing_neg", "not", "count_ones", "leading_zeros", "trailing_zeros", "leading_ones", "bits", "reverse_bits", "swap_bytes",
               "checked_ilog2", "is_power_of_two", "to_be", "to_f64", "to_f32", "as_u64", "to_i128"):
        reqs.append((op, hx(rng.choice(vals)), "huge"))
    for op in ("overflowing_shl", "overflowing_shr", "checked_shl", "wrapping_shr", "rotate_left", "rotate_right", "unbounded_shr"):
        reqs.append((op, f"{hx(rng.choice(vals))} {_amount(rng, w, W)}", "huge"))
    # (the model's square-and-multiply at 8192 bits is slow: small exponents only; the full exponent range runs at <= 512 bits)
    reqs.append((rng.choice(["overflowing_pow", "checked_pow", "saturating_pow"]), f"{hx(rng.choice(vals))} {rng.choice([0, 1, 2, 3, 5])}", "huge"))
    reqs.append(("bit", f"{hx(rng.choice(vals))} {rng.choice([0, W - 1, W, rng.randrange(W)])}", "huge"))
    z = rng.choice([0, (1 << W) - 1, 1 << (W - 1), (1 << (W - 1)) - 1, rng.randrange(1 << W)])
    if rng.random() < 0.25:
        reqs.append(("from_str_radix", f"10 {str(z).encode().hex()}", "huge-dec"))
    reqs.append(("from_str_radix", f"16 {format(z, 'x').encode().hex()}", "huge-hex"))
    reqs.append(("to_str_radix", f"16 {hx(rng.choice(vals))}", "huge"))
    if rng.random() < 0.25:
        reqs.append(("to_str_radix", f"10 {hx(rng.choice(vals))}", "huge"))
    reqs.append(("fmt", f"{rng.choice(['lower_hex', 'binary', 'octal', 'display'])} {rng.choice(FMT_FLAGS)} - {hx(rng.choice(vals))}", "huge"))
    t, bs = slice_case(rng, w, n, sg)
    reqs.append(("from_be_slice", _hexb(bs), "huge-" + t))
    return reqs


# ---------------------------------------------------------------------------------------------- (ii) extension
ADD_FORMS = ["checked_{}", "overflowing_{}", "wrapping_{}", "saturating_{}", "strict_{}"]
DIV_FORMS = {"div": ["checked_div", "overflowing_div", "wrapping_div", "saturating_div", "div", "strict_div"],
             "rem": ["checked_rem", "overflowing_rem", "wrapping_rem", "rem", "strict_rem"],
             "div_euclid": ["checked_div_euclid", "overflowing_div_euclid", "wrapping_div_euclid", "div_euclid", "strict_div_euclid"],
             "rem_euclid": ["checked_rem_euclid", "overflowing_rem_euclid", "wrapping_rem_euclid", "rem_euclid", "strict_rem_euclid"]}
POW_FORMS = ["checked_pow", "overflowing_pow", "wrapping_pow", "saturating_pow", "strict_pow"]
SHL_FORMS = ["checked_shl", "overflowing_shl", "wrapping_shl", "unbounded_shl", "strict_shl"]


def _sized(rng, bits, sg):
    """an integer of (at most) the given bit length, either sign when signed"""
    if bits <= 0:
        return 0
    z = rng.choice([(1 << bits) - 1, 1 << (bits - 1), (1 << (bits - 1)) + 1, rng.randrange(1 << (bits - 1), 1 << bits)])
    return -z if (sg and rng.random() < 0.5) else z


def _ext_cases(rng, wn_, nn, sg, small_exp=False):
    """value-level requests whose EXACT result is representable in the narrow type:
    yields (op, [exact operand ints], trailing-args, tag, kind) with kind 'ext' (answer is a value) or 'same'"""
    Wn = wn_ * nn
    lo, hi = (-(1 << (Wn - 1)), (1 << (Wn - 1)) - 1) if sg else (0, (1 << Wn) - 1)

    def val():
        t, a = value(rng, wn_, nn)
        return to_signed(a, Wn) if sg else a
    inr = lambda z: lo <= z <= hi
    # add / sub: sums exactly at / next to MIN and MAX, and random representable ones
    for opn, f in (("add", lambda a, t: t - a), ("sub", lambda a, t: a - t)):
        for _ in range(2):
            a = val()
            t = rng.choice([hi, hi - 1, lo, lo + 1, 0, -1 if sg else 1, rng.randint(lo, hi)])
            b = f(a, t)
            if inr(b):
                yield rng.choice(ADD_FORMS).format(opn), [a, b], "", "sum-at-limit", "ext"
    # mul: products just inside the limits, exactly MIN, short operands
    for _ in range(3):
        c = rng.randrange(4)
        if c == 0 and sg:
            k = rng.randrange(0, Wn)
            a, b = -(1 << k), 1 << (Wn - 1 - k)
            if rng.random() < 0.5:
                a, b = b, a
        elif c <= 2:
            a = _sized(rng, rng.randrange(1, Wn), sg) or 1
            t = rng.choice([hi, lo, hi - 1, rng.randint(lo, hi)])
            b = next((q for q in (t // a, -((-t) // a)) if inr(q) and inr(a * q)), 0)
        else:
            t_, pa, pb = mul_pair(rng, wn_, nn, sg)
            a, b = (to_signed(pa, Wn), to_signed(pb, Wn)) if sg else (pa, pb)
        if inr(a) and inr(b) and inr(a * b):
            yield rng.choice(ADD_FORMS).format("mul"), [a, b], "", "product-at-limit", "ext"
    # div / rem in all four flavours (the quotient of representable operands is representable except MIN / -1)
    for _ in range(3):
        t_, pa, pb = div_pair(rng, wn_, nn, sg)
        a, b = (to_signed(pa, Wn), to_signed(pb, Wn)) if sg else (pa, pb)
        if b == 0:
            continue
        for fam in rng.sample(sorted(DIV_FORMS), 2):
            if sg and a == lo and b == -1:
                # the exact remainder 0 IS representable: the wrapping forms agree (the checked ones report the overflow of the quotient)
                if fam.startswith("rem"):
                    yield "wrapping_" + fam, [a, b], "", "min/-1", "ext"
                continue
            yield rng.choice(DIV_FORMS[fam]), [a, b], "", "div-" + t_, "ext"
    if sg:
        yield "wrapping_rem", [lo, -1], "", "min/-1", "ext"
        yield "wrapping_rem_euclid", [lo, -1], "", "min/-1", "ext"
    # pow: exponents up to the width (and far beyond for 0, 1, -1), powers exactly at MIN / next to MAX
    for _ in range(3):
        c = rng.randrange(5)
        if c == 0:
            x, e = rng.choice([0, 1, -1 if sg else 1]), rng.choice([0, 1, 2, Wn - 1, Wn, Wn + 1, (1 << 32) - 1, (1 << 32) - 2, rng.randrange(1 << 32)])
        elif c == 1:
            x = -2 if (sg and rng.random() < 0.6) else 2
            e = rng.choice([Wn - 1, Wn - 2, Wn - 3, rng.randrange(Wn)])
        else:
            x = _sized(rng, rng.randrange(2, max(3, Wn // 2)), sg)
            if abs(x) < 2:
                x = 3
            emax = 0
            while inr(x ** (emax + 1)) and emax < Wn + 2:
                emax += 1
            e = rng.choice([emax, emax, max(0, emax - 1), rng.randrange(emax + 1)])
        if abs(x) <= 1:
            p = 1 if e == 0 else (x if x >= 0 else (1 if e % 2 == 0 else -1))
        else:
            p = x ** e if e <= Wn + 2 else None
        if small_exp and e > 3:
            # (the MODEL's square-and-multiply over >= 512 digits is slow; long exponent chains run on the other pairs)
            e = rng.randrange(4)
            p = x ** e
        if p is not None and e < (1 << 32) and inr(x) and inr(p):
            if rng.random() < 0.2:
                yield "pow", [x], f"{e}", "pow", "ext-mode"
            else:
                yield rng.choice(POW_FORMS), [x], f"{e}", "pow", "ext"
    # shl: both signs, the shifted value exactly at MIN / just inside MAX
    for _ in range(3):
        k = rng.randrange(0, Wn)
        room = Wn - k - (1 if sg else 0)
        c = rng.randrange(3)
        if c == 0 and sg:
            y = -(1 << room)                                    # y << k == MIN
        elif c == 1:
            y = (1 << room) - 1 if room > 0 else 0
            if sg and rng.random() < 0.5:
                y = -y
        else:
            y = _sized(rng, rng.randrange(0, room + 1), sg)
        if inr(y) and inr(y << k):
            if rng.random() < 0.2:
                yield "shl", [y], f"{k}", "shl", "ext-mode"
            else:
                yield rng.choice(SHL_FORMS), [y], f"{k}", "shl", "ext"
    # comparisons
    t_, pa, pb = cmp_pair(rng, wn_, nn)
    a, b = (to_signed(pa, Wn), to_signed(pb, Wn)) if sg else (pa, pb)
    for op in rng.sample(["cmp", "lt", "le", "gt", "ge", "eq", "ne", "op_lt", "op_eq", "ord_cmp", "partial_cmp"], 4):
        yield op, [a, b], "", "cmp", "same"
    yield rng.choice(["max", "min", "ord_max", "ord_min"]), [a, b], "", "cmp", "ext"
    c = val()
    yield "clamp", [c, min(a, b), max(a, b)], "", "cmp", "ext"


def _mk(op, cfg, s, W, zs, trail):
    vals = " ".join(hx(pat(z, W)) for z in zs)
    return f"{op} {s}{cfg} {vals}" + (f" {trail}" if trail != "" else "")


def gen(rng, tier):
    del PAIRS[:]
    lines = []

    def emit(l, tag):
        lines.append((l, tag))
        return len(lines) - 1

    def emit_same(op, s, rest, tag, members):
        ids = [emit(f"{op} {s}{cfg}" + (f" {rest}" if rest != "" else ""), tag) for cfg in members]
        for j in ids[1:]:
            PAIRS.append((ids[0], j, "same", None))

    thorough = tier == "thorough"
    # (i) equal width, different digit types
    for W, group in GROUPS.items():
        reps = (12 if W <= 192 else 6) if thorough else (3 if W <= 192 else 2)
        for _ in range(reps):
            for s in "ui":
                for op, rest, t, members in _group_requests(rng, group, W, s, W > 192):
                    emit_same(op, s, rest, t, members or group)
    for _ in range(6 if thorough else 2):
        for s in "ui":
            for op, rest, t in _huge_requests(rng, s):
                emit_same(op, s, rest, t, HUGE_GROUP)
    # (ia) the `As` cast between the representations of equal width: the identity on the pattern (also TryFrom,
    #      and the reinterpreting casts to the other signedness); bin c09 inside its grid (<= 192 bits), the
    #      `cast_set!`s of bin c16 for every other member of GROUPS and for 8192 bits
    sets = {W: list(g) for W, g in GROUPS.items()}
    for W, g in CAST_GROUPS.items():
        sets[W] = sorted(set(sets.get(W, []) + g), key=lambda c: wn(c)[0])
    sets[8192] = HUGE_GROUP
    for W, group in sets.items():
        for _ in range((12 if thorough else 4) if W <= 512 else (4 if thorough else 1)):
            for src in group:
                for dst in group:
                    ws, ns_ = wn(src)
                    t, a = value(rng, ws, ns_)
                    if W > 512 and rng.random() < 0.7:
                        # dense digits: every digit position carries information (index arithmetic over > 255 digits)
                        t, a = "huge", rng.choice(huge_values(rng, src)[:6])
                    for ss in "ui":
                        for ds in "ui":
                            if (src == dst and ss == ds) or not _cast_bin(ss + src, ds + dst):
                                continue
                            i = emit(f"cast {ss}{src} {ds}{dst} {hx(a)}", t)
                            PAIRS.append((i, i, "lit", hx(a)))
                            if ss == ds and src in CAST_TYPES and dst in CAST_TYPES:
                                i = emit(f"try {ss}{src} {ds}{dst} {hx(a)}", t)
                                PAIRS.append((i, i, "lit", f"Ok({hx(a)})"))
    # (ii) narrow vs wide
    for narrow, wide in (EXT_THOROUGH if thorough else EXT):
        wn_, nn = wn(narrow)
        ww, nw = wn(wide)
        Wn, Ww = wn_ * nn, ww * nw
        huge = Ww >= 4096
        for _ in range((10 if huge else 40) if thorough else (3 if huge else 8)):
            for s in "ui":
                sg = s == "i"
                lo, hi = (-(1 << (Wn - 1)), (1 << (Wn - 1)) - 1) if sg else (0, (1 << Wn) - 1)
                for op, zs, trail, tag, kind in _ext_cases(rng, wn_, nn, sg, small_exp=nw >= 256):
                    if kind == "ext-mode":
                        for mode in ("dbg", "rel"):
                            i = emit(f"{op} {s}{narrow} {mode} {hx(pat(zs[0], Wn))} {trail}", tag)
                            j = emit(f"{op} {s}{wide} {mode} {hx(pat(zs[0], Ww))} {trail}", tag)
                            PAIRS.append((i, j, "ext", (Wn, Ww, sg)))
                        continue
                    i = emit(_mk(op, narrow, s, Wn, zs, trail), tag)
                    j = emit(_mk(op, wide, s, Ww, zs, trail), tag)
                    PAIRS.append((i, j, kind, (Wn, Ww, sg) if kind == "ext" else None))
                # decimal printing (to_str_radix, Display) and parsing (from_str_radix, FromStr, parse_bytes)
                for z in (rng.randrange(lo, hi + 1), rng.choice([lo, hi, lo + 1, hi - 1, 0, -1 if sg else 1, 10 ** rng.randrange(0, len(str(hi))),
                                                                 -(10 ** rng.randrange(0, len(str(hi)))) if sg else 9])):
                    if not lo <= z <= hi:
                        continue
                    i = emit(f"to_str_radix {s}{narrow} 10 {hx(pat(z, Wn))}", "dec")
                    j = emit(f"to_str_radix {s}{wide} 10 {hx(pat(z, Ww))}", "dec")
                    PAIRS.append((i, j, "same", None))
                    fl, wd = rng.choice(FMT_FLAGS), rng.choice(["-", "-", 0, 5, 12, 40])
                    i = emit(f"fmt {s}{narrow} display {fl} {wd} {hx(pat(z, Wn))}", "dec")
                    j = emit(f"fmt {s}{wide} display {fl} {wd} {hx(pat(z, Ww))}", "dec")
                    PAIRS.append((i, j, "same", None))
                    txt = ("-" if z < 0 else rng.choice(["", "", "+"])) + "0" * rng.choice([0, 0, 1, 3, Wn]) + str(abs(z))
                    op, pre = rng.choice([("from_str_radix", "10 "), ("from_str", ""), ("parse_bytes", "10 ")])
                    i = emit(f"{op} {s}{narrow} {pre}{txt.encode().hex()}", "dec")
                    j = emit(f"{op} {s}{wide} {pre}{txt.encode().hex()}", "dec")
                    PAIRS.append((i, j, "ext", (Wn, Ww, sg)))
                # the extension itself, performed by the crate (`As` between bnum types): wide pattern = ext(narrow pattern);
                # and back: truncation returns the narrow pattern
                if _cast_bin(s + narrow, s + wide):
                    for _k in range(2):
                        t, a = value(rng, wn_, nn)
                        i = emit(f"cast {s}{narrow} {s}{wide} {hx(a)}", t)
                        PAIRS.append((i, i, "lit", hx(ext(a, Wn, Ww, sg))))
                        i = emit(f"cast {s}{wide} {s}{narrow} {hx(ext(a, Wn, Ww, sg))}", t)
                        PAIRS.append((i, i, "lit", hx(a)))
                        o = "iu"[sg]
                        i = emit(f"cast {s}{narrow} {o}{wide} {hx(a)}", t)       # the SOURCE's signedness decides the extension
                        PAIRS.append((i, i, "lit", hx(ext(a, Wn, Ww, sg))))
                    if narrow in CAST_TYPES and wide in CAST_TYPES:
                        i = emit(f"try {s}{narrow} {s}{wide} {hx(a)}", t)
                        PAIRS.append((i, i, "lit", f"Ok({hx(ext(a, Wn, Ww, sg))})"))
    # (iii) constants and aliases
    for cfg in ALL_CFGS:
        for s in "ui":
            for c in CONSTS + (NEGS if s == "i" else []):
                emit(f"const {s}{cfg} {c}", "const")
            emit(f"const_bits {s}{cfg}", "const")
            emit(f"const_bytes {s}{cfg}", "const")
    for al in ALIASES:
        emit(f"alias u64x0 {al}", "alias")
    return lines


def _ext_answer(r, info):
    """extend every hex pattern inside an answer like S(ff), (ff,false), Ok(ff) from the narrow to the wide width"""
    Wn, Ww, sg = info

    def rep(m):
        return format(ext(int(m.group(0), 16), Wn, Ww, sg), "x")
    if r in ("N", "P") or r.startswith("Err"):
        return r
    return re.sub(r"(?<![A-Za-z])[0-9a-f]+(?![A-Za-z])", rep, r)


def post(ctx, lines, R, mo_sp):
    bad = []
    off = ctx.get("line_offset", 0)
    n_same = n_ext = n_lit = 0
    for i, j, kind, info in PAIRS:
        i += off
        j += off
        for mode, outs in R.items():
            a, b = outs[i], outs[j]
            if "skip" in (a, b):
                continue
            if kind == "lit":
                n_lit += 1
                if a != info:
                    bad.append({"line": lines[i], "mode": mode, "crate": a,
                                "spec": info + "  (the As cast / TryFrom between representations of one value keeps the value)", "model": mo_sp[i]})
            elif kind == "same":
                n_same += 1
                if a != b:
                    sp = mo_sp[i].split("\t", 1)[-1]
                    if a.startswith("Err") and b.startswith("Err") and ("*" in sp or "|" in sp):
                        # the error KIND for over-long malformed strings is left open by C10 (and by `indep_*_parse`)
                        continue
                    bad.append({"line": lines[i] + "   vs   " + lines[j], "mode": mode, "crate": a + " vs " + b,
                                "spec": "identical answers (result depends only on width, signedness and value)", "model": mo_sp[i]})
            else:
                n_ext += 1
                if _ext_answer(a, info) != b:
                    bad.append({"line": lines[i] + "   vs   " + lines[j], "mode": mode, "crate": a + " vs " + b,
                                "spec": "wide answer = extension of the narrow answer: " + _ext_answer(a, info), "model": mo_sp[i]})
    ctx["c16_counts"] = {"same_result_pairs": n_same, "extension_pairs": n_ext, "cast_identity_checks": n_lit,
                         "functions_sent": len(set(l.split(" ", 1)[0] for l in lines))}
    return bad


def evidence_extra(ctx):
    d = dict(ctx.get("c16_counts", {}))
    d["alias_table_regenerated_from"] = "/repo/src/types.rs -> lean/Bnum/Generated/Aliases.lean (theorems aliases_ok, and aliases_generated: = the model's table, re-checked by the kernel)"
    return d


def pre(ctx):
    """Translator for the alias table: types.rs -> Lean table + kernel-checked theorem."""
    problems = []
    src = open("/repo/src/types.rs").read()
    m = re.search(r"macro_rules!\s*int_types\s*\{.*?pub type \$u = BUint::<\{\s*\$bits\s*/\s*64\s*\}>;.*?pub type \$i = BInt::<\{\s*\$bits\s*/\s*64\s*\}>;", src, re.S)
    if not m:
        problems.append("types.rs: the int_types! macro no longer has the shape `pub type $u = BUint::<{$bits / 64}>; pub type $i = BInt::<{$bits / 64}>` (alias translator cannot read it)")
    rows = re.findall(r"^\s*(\d+)\s+(U\d+)\s+(I\d+)\s*;", src, re.M)
    if not rows:
        problems.append("types.rs: no alias rows found")
    ents = []
    for bits, u, i in rows:
        if u != "U" + bits or i != "I" + bits:
            problems.append(f"alias names {u}/{i} do not advertise their width literal {bits}")
        ents.append(f'  ("{u}", false, {bits}),')
        ents.append(f'  ("{i}", true, {bits}),')
    body = "\n".join(ents).rstrip(",")
    lean = ("/- GENERATED on every run of check C16 from /repo/src/types.rs by gen/c16.py (pre hook); do not edit. -/\n"
            "namespace Bnum.Generated\n"
            "/-- (alias name, signed, width literal); the macro instantiates `BUint::<{bits / 64}>` / `BInt::<{bits / 64}>` -/\n"
            "def aliases : List (String × Bool × Nat) := [\n" + body + "\n]\n"
            "/-- every alias has exactly its advertised width: 64 · (bits / 64) = bits -/\n"
            "theorem aliases_ok : ∀ e ∈ aliases, 64 * (e.2.2 / 64) = e.2.2 := by decide\n"
            "theorem aliases_count : aliases.length = " + str(2 * len(rows)) + " := by decide\n"
            "end Bnum.Generated\n")
    path = os.path.join(ctx["lean"], "Bnum", "Generated", "Aliases.lean")
    old = open(path).read() if os.path.exists(path) else None
    if old != lean:
        open(path, "w").write(lean)
    rc, out, err = ctx["run"](["lake", "build", "Bnum.Generated.Aliases"], cwd=ctx["lean"], timeout=1800)
    if rc != 0:
        problems.append("generated alias table theorem failed: " + (out + err)[-800:])
    elif old != lean:
        # the table changed: theorem `aliases_generated` (Props/C16.lean) ties the MODEL's table (Model/Consts.lean, which the
        # `alias` requests and the theorems `aliases_*` are about) to the generated one — re-check it in this very run
        rc, out, err = ctx["run"](["lake", "build", "Bnum.Props.C16"], cwd=ctx["lean"], timeout=3600)
        if rc != 0:
            problems.append("the alias table of types.rs changed and no longer equals the model's table (theorem aliases_generated): " + (out + err)[-800:])
    if set(u for _, u, _ in rows) | set(i for _, _, i in rows) != set(ALIASES):
        problems.append("alias set in types.rs differs from the expected U128..U8192 / I128..I8192")
    problems += pre_consts(ctx)
    return problems


def _strip_rs(src):
    """Rust source without comments and `#[doc ...]` attributes, white space collapsed"""
    src = re.sub(r"//[^\n]*", "", src)
    src = re.sub(r"/\*.*?\*/", "", src, flags=re.S)
    src = re.sub(r"#\[doc[^\]]*\]", "", src)
    return re.sub(r"\s+", " ", src)


def pre_consts(ctx):
    """Translator for the named constants: the `pos_const!` / `neg_const!` invocations of src/buint/consts.rs and
    src/bint/consts.rs are re-read on every run, written to lean/Bnum/Generated/ConstNames.lean as name -> literal
    tables, and the kernel checks (by `rfl`) that they are the tables `Consts.posNames` / `Consts.negNames` the model's
    constants - and the theorems about them - are built from.  The macro *bodies* and the six hand-written items
    (MIN, MAX, BITS, BYTES, ZERO, signed ONE) are compared with the text the model's definitions transcribe."""
    problems = []
    try:
        u = _strip_rs(open("/repo/src/buint/consts.rs").read())
        i = _strip_rs(open("/repo/src/bint/consts.rs").read())
    except OSError as e:
        return ["consts.rs unreadable: %r" % (e,)]
    shapes = [
        (u, "macro_rules! pos_const { ($($name: ident $num: literal), *) => { $( pub const $name: Self = Self::from_digit($num); )* } }", "buint pos_const! body"),
        (u, "pub const MIN: Self = Self::from_digits([$Digit::MIN; N]);", "BUint::MIN"),
        (u, "pub const MAX: Self = Self::from_digits([$Digit::MAX; N]);", "BUint::MAX"),
        (u, "pub const BITS: ExpType = digit::$Digit::BITS * N as ExpType;", "BUint::BITS"),
        (u, "pub const BYTES: ExpType = Self::BITS / 8;", "BUint::BYTES"),
        (u, "pub const ZERO: Self = Self::MIN;", "BUint::ZERO"),
        (i, "macro_rules! pos_const { ($BUint: ident; $($name: ident $num: literal), *) => { $( pub const $name: Self = Self::from_bits($BUint::$name); )* } }", "bint pos_const! body"),
        (i, "macro_rules! neg_const { ($BUint: ident; $($name: ident $num: literal), *) => { $( pub const $name: Self = { let mut u = $BUint::MAX; u.digits[0] -= ($num - 1); Self::from_bits(u) }; )* } }", "bint neg_const! body"),
        (i, "pub const MIN: Self = { let mut digits = [0; N]; digits[N - 1] = 1 << ($Digit::BITS - 1); Self::from_bits($BUint::from_digits(digits)) };", "BInt::MIN"),
        (i, "pub const MAX: Self = { let mut digits = [$Digit::MAX; N]; digits[N - 1] >>= 1; Self::from_bits($BUint::from_digits(digits)) };", "BInt::MAX"),
        (i, "pub const BITS: ExpType = $BUint::<N>::BITS;", "BInt::BITS"),
        (i, "pub const BYTES: ExpType = $BUint::<N>::BYTES;", "BInt::BYTES"),
        (i, "pub const ZERO: Self = Self::from_bits($BUint::ZERO);", "BInt::ZERO"),
        (i, "pub const ONE: Self = Self::from_bits($BUint::ONE);", "BInt::ONE"),
    ]
    for text, shape, what in shapes:
        if shape not in text:
            problems.append(f"consts.rs: {what} no longer has the text the model (lean/Bnum/Model/Consts.lean) transcribes: `{shape}`")

    def invocation(text, macro):
        m = re.search(macro + r"!\(\s*(?:\$BUint;\s*)?([^)]*)\)\s*;", text)
        if not m:
            return None
        return [(a, int(b)) for a, b in re.findall(r"([A-Z_]+)\s+(\d+)", m.group(1))]
    pu, pi, ni = invocation(u, "pos_const"), invocation(i, "pos_const"), invocation(i, "neg_const")
    if pu is None or pi is None or ni is None:
        problems.append("consts.rs: a pos_const!/neg_const! invocation was not found")
        return problems
    pi = [("ONE", 1)] + pi        # the signed ONE is written out (`from_bits($BUint::ONE)`), shape checked above

    def tab(rows):
        return "[" + ", ".join('("%s", %d)' % r for r in rows) + "]"
    lean = ("/- GENERATED on every run of check C16 from /repo/src/{buint,bint}/consts.rs by gen/c16.py (pre_consts); do not edit. -/\n"
            "import Bnum.Model.Consts\n"
            "namespace Bnum.Generated\n"
            "/-- `pos_const!` invocation of src/buint/consts.rs -/\n"
            "def posU : List (String × Nat) := " + tab(pu) + "\n"
            "/-- `ONE` + `pos_const!` invocation of src/bint/consts.rs -/\n"
            "def posI : List (String × Nat) := " + tab(pi) + "\n"
            "/-- `neg_const!` invocation of src/bint/consts.rs -/\n"
            "def negI : List (String × Nat) := " + tab(ni) + "\n"
            "/-- the model's constants (and every theorem of Props/C16.lean about ONE..TEN, NEG_ONE..NEG_TEN) are built from exactly these tables -/\n"
            "theorem posU_is_model : posU = Bnum.Consts.posNames := rfl\n"
            "theorem posI_is_model : posI = Bnum.Consts.posNames := rfl\n"
            "theorem negI_is_model : negI = Bnum.Consts.negNames := rfl\n"
            "end Bnum.Generated\n")
    path = os.path.join(ctx["lean"], "Bnum", "Generated", "ConstNames.lean")
    old = open(path).read() if os.path.exists(path) else None
    if old != lean:
        open(path, "w").write(lean)
    rc, out, err = ctx["run"](["lake", "build", "Bnum.Generated.ConstNames"], cwd=ctx["lean"], timeout=1800)
    if rc != 0:
        problems.append("the constant tables of consts.rs no longer equal the model's tables (Generated/ConstNames.lean): " + (out + err)[-600:])
    return problems
