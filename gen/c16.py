"""C16 cases: results depend only on width, signedness and value.
 (i)  the same request is sent to every digit-type configuration of equal width; the crate's answers must be
      identical (post hook: crate vs crate), and each is also compared with model and spec as usual;
 (ii) narrow vs wide configuration: an operation whose exact result is representable in the narrow type gives,
      on zero-/sign-extended operands in the wide type, the extension of the narrow result;
 (iii) constants and the alias table; the alias table is re-read from /repo/src/types.rs on every run and turned
      into lean/Bnum/Generated/Aliases.lean, whose theorem is re-checked by the kernel (pre hook)."""
import os
import re
from .common import *
from .c02 import mul_pair
from .c03 import div_pair
from .knuth import addback_pairs
from .c10 import numeral

HARNESS_BINS = ["c01", "c02", "c03", "c05", "c06", "c07", "c08", "c10", "c16"]
GROUPS = {16: ["8x2", "16x1"], 32: ["8x4", "16x2", "32x1"], 64: ["8x8", "16x4", "32x2", "64x1"],
          128: ["8x16", "32x4", "64x2"], 192: ["32x6", "64x3"], 320: ["8x40", "16x20", "32x10", "64x5"]}
EXT = [("8x1", "8x3"), ("8x3", "64x1"), ("64x1", "64x3"), ("16x1", "32x3"), ("64x2", "64x16"), ("8x2", "16x5")]
EXT_THOROUGH = EXT + [("64x2", "64x128"), ("32x2", "8x17"), ("8x5", "64x4")]
CONSTS = ["MIN", "MAX", "ZERO", "ONE", "TWO", "THREE", "FOUR", "FIVE", "SIX", "SEVEN", "EIGHT", "NINE", "TEN"]
NEGS = ["NEG_ONE", "NEG_TWO", "NEG_THREE", "NEG_FOUR", "NEG_FIVE", "NEG_SIX", "NEG_SEVEN", "NEG_EIGHT", "NEG_NINE", "NEG_TEN"]
ALIASES = ["U128", "U256", "U512", "U1024", "U2048", "U4096", "U8192", "I128", "I256", "I512", "I1024", "I2048", "I4096", "I8192"]


def ROUTE(line):
    op = line.split(" ", 1)[0]
    if op in ("const", "const_bits", "const_bytes", "alias"):
        return "c16"
    if op in ("from_str_radix", "to_str_radix"):
        return "c10"
    if "pow" in op or "ilog" in op:
        return "c08"
    if op in ("cmp", "eq", "lt", "max", "min"):
        return "c07"
    if op in ("count_ones", "leading_zeros", "trailing_zeros", "bitand", "bitxor", "not", "reverse_bits", "swap_bytes", "bits"):
        return "c06"
    if "mul" in op:
        return "c02"
    if "sh" in op or "rotate" in op:
        return "c05"
    if "div" in op or "rem" in op:
        return "c03"
    return "c01"


BIN2 = ["overflowing_add", "overflowing_sub", "checked_add", "saturating_sub", "overflowing_mul", "checked_mul", "saturating_mul",
        "checked_div", "checked_rem", "checked_div_euclid", "checked_rem_euclid", "cmp", "eq", "lt", "max", "bitand", "bitxor"]
UN1 = ["overflowing_neg", "count_ones", "leading_zeros", "trailing_zeros", "not", "reverse_bits", "swap_bytes", "bits", "checked_ilog2", "checked_ilog10"]
SHIFT = ["overflowing_shl", "overflowing_shr", "checked_shl", "checked_shr", "rotate_left", "rotate_right", "unbounded_shr"]
PAIRS = []          # (index_a, index_b, kind, info) relations checked by post()


def ext(v, Wn, Ww, signed):
    z = to_signed(v, Wn) if signed else v
    return pat(z, Ww)


def gen(rng, tier):
    del PAIRS[:]
    lines = []

    def emit(l, tag):
        lines.append((l, tag))
        return len(lines) - 1

    reps = 40 if tier == "thorough" else 6
    # (i) equal width, different digit types
    for W, group in GROUPS.items():
        if W == 320 and tier != "thorough":
            group = ["16x20", "64x5"]
        w0, n0 = wn(group[0])
        for _ in range(reps):
            for s in "ui":
                reqs = []
                for op in BIN2:
                    if "mul" in op:
                        t, a, b = mul_pair(rng, w0, n0, s == "i")
                    elif "div" in op or "rem" in op:
                        # operands shaped for the digits of a RANDOM member of the group: a divisor that spans two
                        # digits of one digit type is a single digit (or four) of another
                        wk, nk = wn(rng.choice(group))
                        t, a, b = div_pair(rng, wk, nk, s == "i")
                    else:
                        t, a, b = pair(rng, w0, n0)
                    reqs.append((op, f"{hx(a)} {hx(b)}", t))
                for op in UN1:
                    t, a = value(rng, w0, n0)
                    reqs.append((op, hx(a), t))
                for op in SHIFT:
                    t, a = value(rng, w0, n0)
                    reqs.append((op, f"{hx(a)} {rng.choice([0, 1, 7, 8, 9, 15, 16, 17, 31, 32, 33, 63, 64, 65, W - 1, W, W + 1, rng.randrange(W)])}", t))
                t, a = value(rng, w0, n0)
                reqs.append(("overflowing_pow", f"{hx(a % 17 if rng.random() < 0.5 else a)} {rng.randrange(0, 40)}", t))
                t, a = value(rng, w0, n0)
                reqs.append(("to_str_radix", f"10 {hx(a)}", t))
                z = rng.choice([0, 1, (1 << W) - 1, 1 << (W - 1), (1 << (W - 1)) - 1, rng.randrange(1 << W)])
                sgn = "-" if (s == "i" and rng.random() < 0.5) else ""
                reqs.append(("from_str_radix", f"10 {(sgn + str(z)).encode().hex()}", "dec"))
                # more division shapes per group (exact multiples, extreme quotient digits, Knuth add-back operands),
                # each built for one member's digit size and run on all members (added after seeded change C16-r4m1)
                for cfgk in group:
                    wk, nk = wn(cfgk)
                    for _k in range(3):
                        t, a, b = div_pair(rng, wk, nk, s == "i")
                        reqs.append((rng.choice(["checked_div", "checked_rem", "checked_div_euclid", "checked_rem_euclid"]), f"{hx(a)} {hx(b)}", t))
                    if nk >= 2:
                        d = rng.randrange(1 << wk, 1 << (wk * rng.randrange(2, nk + 1))) if nk > 2 else rng.randrange(1 << wk, 1 << (2 * wk))
                        q = rng.randrange(1, max(2, (1 << W) // d))
                        a, b = q * d, d
                        if s == "i":
                            a, b = a % (1 << (W - 1)), b % (1 << (W - 1)) or 1
                        reqs.append((rng.choice(["checked_div", "checked_rem"]), f"{hx(a)} {hx(b)}", "exact-multiple"))
                    if nk >= 3 and s == "u":
                        for (u, v) in addback_pairs(rng, wk, nk, 1):
                            reqs.append(("checked_div", f"{hx(u)} {hx(v)}", "knuth-addback"))
                            reqs.append(("checked_rem", f"{hx(u)} {hx(v)}", "knuth-addback"))
                for op, rest, t in reqs:
                    ids = []
                    for cfg in group:
                        if op in ("to_str_radix", "from_str_radix"):
                            r, x = rest.split(" ", 1)
                            ids.append(emit(f"{op} {s}{cfg} {r} {x}", t))
                        else:
                            ids.append(emit(f"{op} {s}{cfg} {rest}", t))
                    for j in ids[1:]:
                        PAIRS.append((ids[0], j, "same", None))
    # (ii) narrow vs wide
    for narrow, wide in (EXT_THOROUGH if tier == "thorough" else EXT):
        wn_, nn = wn(narrow)
        ww, nw = wn(wide)
        Wn, Ww = wn_ * nn, ww * nw
        for _ in range(reps * 2):
            for s in "ui":
                sg = s == "i"
                lo, hi = (-(1 << (Wn - 1)), (1 << (Wn - 1)) - 1) if sg else (0, (1 << Wn) - 1)
                t, a, b = pair(rng, wn_, nn)
                za, zb = (to_signed(a, Wn), to_signed(b, Wn)) if sg else (a, b)
                cand = [("checked_add", za + zb), ("checked_sub", za - zb), ("checked_mul", za * zb)]
                if zb != 0 and not (sg and za == lo and zb == -1):
                    cand += [("checked_div", None), ("checked_rem", None)]
                for op, exact in cand:
                    if exact is not None and not (lo <= exact <= hi):
                        # make the product/sum representable by shrinking an operand
                        continue
                    i = emit(f"{op} {s}{narrow} {hx(a)} {hx(b)}", t)
                    j = emit(f"{op} {s}{wide} {hx(ext(a, Wn, Ww, sg))} {hx(ext(b, Wn, Ww, sg))}", t)
                    PAIRS.append((i, j, "ext", (Wn, Ww, sg)))
                for op in ("cmp", "lt", "eq"):
                    i = emit(f"{op} {s}{narrow} {hx(a)} {hx(b)}", t)
                    j = emit(f"{op} {s}{wide} {hx(ext(a, Wn, Ww, sg))} {hx(ext(b, Wn, Ww, sg))}", t)
                    PAIRS.append((i, j, "same", None))
                # small products / powers / shifts that stay representable
                x = rng.randrange(0, 1 << max(1, Wn // 3))
                e = rng.randrange(0, 3)
                if sg and rng.random() < 0.5:
                    x = -x
                if lo <= x ** e <= hi and lo <= x <= hi:
                    i = emit(f"checked_pow {s}{narrow} {hx(pat(x, Wn))} {e}", "pow")
                    j = emit(f"checked_pow {s}{wide} {hx(pat(x, Ww))} {e}", "pow")
                    PAIRS.append((i, j, "ext", (Wn, Ww, sg)))
                k = rng.randrange(0, Wn)
                y = rng.randrange(0, 1 << max(1, Wn - k - 1))
                if lo <= (y << k) <= hi:
                    i = emit(f"checked_shl {s}{narrow} {hx(y)} {k}", "shl")
                    j = emit(f"checked_shl {s}{wide} {hx(y)} {k}", "shl")
                    PAIRS.append((i, j, "ext", (Wn, Ww, sg)))
                z = rng.randrange(lo, hi + 1)
                i = emit(f"to_str_radix {s}{narrow} 10 {hx(pat(z, Wn))}", "dec")
                j = emit(f"to_str_radix {s}{wide} 10 {hx(pat(z, Ww))}", "dec")
                PAIRS.append((i, j, "same", None))
                i = emit(f"from_str_radix {s}{narrow} 10 {str(z).encode().hex()}", "dec")
                j = emit(f"from_str_radix {s}{wide} 10 {str(z).encode().hex()}", "dec")
                PAIRS.append((i, j, "ext", (Wn, Ww, sg)))
    # (iii) constants and aliases
    for cfg in cfgs(tier):
        for s in "ui":
            for c in CONSTS + (NEGS if s == "i" else []):
                emit(f"const {s}{cfg} {c}", "const")
            emit(f"const_bits {s}{cfg}", "const")
            emit(f"const_bytes {s}{cfg}", "const")
    for al in ALIASES:
        emit(f"alias u64x0 {al}", "alias")
    return lines


def _ext_answer(r, info):
    """extend every hex pattern inside an answer like S(ff), (ff,false), Ok(ff) from the narrow to the wide width"""
    Wn, Ww, sg = info

    def rep(m):
        return format(ext(int(m.group(0), 16), Wn, Ww, sg), "x")
    if r in ("N", "P") or r.startswith("Err"):
        return r
    return re.sub(r"(?<![A-Za-z])[0-9a-f]+(?![A-Za-z])", rep, r)


def post(ctx, lines, R, mo_sp):
    bad = []
    off = ctx.get("line_offset", 0)
    n_same = n_ext = 0
    for i, j, kind, info in PAIRS:
        i += off
        j += off
        for mode, outs in R.items():
            a, b = outs[i], outs[j]
            if "skip" in (a, b):
                continue
            if kind == "same":
                n_same += 1
                if a != b:
                    bad.append({"line": lines[i] + "   vs   " + lines[j], "mode": mode, "crate": a + " vs " + b,
                                "spec": "identical answers (result depends only on width, signedness and value)", "model": mo_sp[i]})
            else:
                n_ext += 1
                if _ext_answer(a, info) != b:
                    bad.append({"line": lines[i] + "   vs   " + lines[j], "mode": mode, "crate": a + " vs " + b,
                                "spec": "wide answer = extension of the narrow answer: " + _ext_answer(a, info), "model": mo_sp[i]})
    ctx["c16_counts"] = {"same_result_pairs": n_same, "extension_pairs": n_ext}
    return bad


def evidence_extra(ctx):
    d = dict(ctx.get("c16_counts", {}))
    d["alias_table_regenerated_from"] = "/repo/src/types.rs -> lean/Bnum/Generated/Aliases.lean (theorem aliases_ok re-checked by the kernel)"
    return d


def pre(ctx):
    """Translator for the alias table: types.rs -> Lean table + kernel-checked theorem."""
    problems = []
    src = open("/repo/src/types.rs").read()
    m = re.search(r"macro_rules!\s*int_types\s*\{.*?pub type \$u = BUint::<\{\s*\$bits\s*/\s*64\s*\}>;.*?pub type \$i = BInt::<\{\s*\$bits\s*/\s*64\s*\}>;", src, re.S)
    if not m:
        problems.append("types.rs: the int_types! macro no longer has the shape `pub type $u = BUint::<{$bits / 64}>; pub type $i = BInt::<{$bits / 64}>` (alias translator cannot read it)")
    rows = re.findall(r"^\s*(\d+)\s+(U\d+)\s+(I\d+)\s*;", src, re.M)
    if not rows:
        problems.append("types.rs: no alias rows found")
    ents = []
    for bits, u, i in rows:
        if u != "U" + bits or i != "I" + bits:
            problems.append(f"alias names {u}/{i} do not advertise their width literal {bits}")
        ents.append(f'  ("{u}", false, {bits}),')
        ents.append(f'  ("{i}", true, {bits}),')
    body = "\n".join(ents).rstrip(",")
    lean = ("/- GENERATED on every run of check C16 from /repo/src/types.rs by gen/c16.py (pre hook); do not edit. -/\n"
            "namespace Bnum.Generated\n"
            "/-- (alias name, signed, width literal); the macro instantiates `BUint::<{bits / 64}>` / `BInt::<{bits / 64}>` -/\n"
            "def aliases : List (String × Bool × Nat) := [\n" + body + "\n]\n"
            "/-- every alias has exactly its advertised width: 64 · (bits / 64) = bits -/\n"
            "theorem aliases_ok : ∀ e ∈ aliases, 64 * (e.2.2 / 64) = e.2.2 := by decide\n"
            "theorem aliases_count : aliases.length = " + str(2 * len(rows)) + " := by decide\n"
            "end Bnum.Generated\n")
    path = os.path.join(ctx["lean"], "Bnum", "Generated", "Aliases.lean")
    old = open(path).read() if os.path.exists(path) else None
    if old != lean:
        open(path, "w").write(lean)
    rc, out, err = ctx["run"](["lake", "build", "Bnum.Generated.Aliases"], cwd=ctx["lean"], timeout=1800)
    if rc != 0:
        problems.append("generated alias table theorem failed: " + (out + err)[-800:])
    if set(u for _, u, _ in rows) | set(i for _, _, i in rows) != set(ALIASES):
        problems.append("alias set in types.rs differs from the expected U128..U8192 / I128..I8192")
    return problems
