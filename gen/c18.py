"""C18 cases: num_traits / num_integer implementations (called through the traits)."""
from .common import *
from .c03 import div_pair
from .c08 import iroot, pow_case
from .c10 import str_case

# Note on `is_multiple_of(x, 0)` / `divides(x, 0)`: the crate panics (remainder by zero) whereas num-integer's impls for
# the primitive integers return `x == 0`.  The trait documentation does not fix the answer, so Drive/C18 accepts
# `P|x==0` there; the zero-divisor class is always generated (no generator class of this file is switched off).


def fib_pair(rng, W):
    a, b = 1, 1
    k = rng.randrange(2, 3 * W)
    for _ in range(k):
        a, b = b, a + b
        if b >> W:
            break
    return a % (1 << W), (b % (1 << W))


def gcd_pair(rng, w, n, signed):
    W = w * n
    M = 1 << W
    c = rng.randrange(8)
    if c == 0:
        a, b = fib_pair(rng, W - 1)
        return "fib", a, b
    if c <= 3:
        g = rng.randrange(1, 1 << rng.randrange(1, max(2, W // 2)))
        i, j = rng.randrange(W // 2), rng.randrange(W // 2)
        if rng.random() < 0.35:
            j = max(0, i + rng.choice([-1, 0, 0, 1]))      # a large COMMON power of two (b_tz of the binary gcd)
        a = (g * (2 * rng.randrange(1 << (W // 4)) + 1) << i) % (M >> 1)
        b = (g * (2 * rng.randrange(1 << (W // 4)) + 1) << j) % (M >> 1)
        if signed:
            if rng.random() < 0.5:
                a = pat(-a, W)
            if rng.random() < 0.5:
                b = pat(-b, W)
        return "2^i*odd", a, b
    if c == 4:
        return "min", M >> 1, rng.choice([0, M >> 1, M - 1, 2, 6])
    t, a, b = pair(rng, w, n)
    return t, a, b


def lcm_pair(rng, w, n, signed):
    """a = g*p, b = g*q with g*p*q next to the type limit: the lcm is the last representable / first unrepresentable one"""
    W = w * n
    M = 1 << W
    lim = (M >> 1) if signed else M
    if rng.random() < 0.3:
        return gcd_pair(rng, w, n, signed)
    gb = rng.randrange(1, max(2, W // 2))
    g = rng.randrange(1 << (gb - 1), 1 << gb)
    rest = max(2, lim // g)
    pb = rng.randrange(1, max(2, rest.bit_length()))
    p_ = rng.randrange(1 << (pb - 1), 1 << pb)
    q_ = max(1, rest // p_ + rng.choice([-2, -1, 0, 0, 0, 1, 2]))
    a, b = (g * p_) % lim, (g * q_) % lim
    if rng.random() < 0.5:
        a, b = b, a
    if signed:
        if rng.random() < 0.4:
            a = pat(-a, W)
        if rng.random() < 0.4:
            b = pat(-b, W)
    return "g*p,g*q@limit", a, b


def root_case(rng, w, n, signed, deg=None):
    """(tag, radicand pattern, degree).  `deg` fixed (2 / 3 for sqrt / cbrt) or drawn here.
    Radicands: r^deg - 1, r^deg, r^deg + 1 for roots r of EVERY size up to the largest one (the Newton iteration of the
    crate only runs from 2^128 on, so small roots alone would only ever test num-integer's u128 code), the largest
    root of the type, both sides of the 2^128 shortcut boundary, and the structured values of gen/common.py."""
    W = w * n
    M = 1 << W
    lim = (M >> 1) if signed else M
    fixed = deg is not None
    if not fixed:
        deg = rng.choice([1, 2, 3, 4, 5, 7, 8, 16, 17, 31, 32, 40, 64, 100, 255, W - 1, W, W + 1, W + 2, (1 << 32) - 1, rng.randrange(1, 2 * W + 3)])
        deg = max(1, deg)
    c = rng.randrange(10)
    if c <= 3 and deg <= 4096:
        kb = max(1, (W - (1 if signed else 0)) // deg)          # bit length of the largest root
        j = rng.randrange(1, kb + 1) if rng.random() < 0.6 else kb
        k = rng.choice([1 << j, (1 << j) - 1, (1 << j) + 1, rng.randrange(1 << (j - 1), 1 << j), rng.randrange(1 << (j - 1), 1 << j)])
        x = max(0, k ** deg + rng.choice([-1, 0, 0, 1])) % lim
        tag = "k^n"
    elif c == 4 and deg <= 4096:
        r = iroot(lim - 1, deg)                                   # the largest root of the type
        x = rng.choice([r ** deg, max(0, r ** deg - 1), lim - 1, (r ** deg + 1) % lim, max(0, (r - 1) ** deg + rng.choice([-1, 0, 1]))])
        tag = "max-root"
    elif c == 5 and W > 128 and deg <= 4096:
        # both sides of the `to_u128` shortcut: 2^128 +- 1 and the perfect powers next to it
        r = iroot(1 << 128, deg)
        x = rng.choice([(1 << 128) - 1, 1 << 128, (1 << 128) + 1, r ** deg, (r + 1) ** deg, (r + 1) ** deg - 1, (r + 1) ** deg + 1,
                        (1 << 128) + rng.randrange(1 << 64), (1 << 127) + rng.randrange(1 << 127)]) % lim
        tag = "u128-boundary"
    elif c == 6:
        x = lim - 1 - rng.choice([0, 0, 1, 2])
        tag = "max"
    else:
        tag, x = value(rng, w, n)
        x %= lim
    if not fixed and rng.random() < 0.3 and x > 1:
        # degrees right at the value's bit length (early-out guards compare `bits` with n)
        deg = max(1, x.bit_length() + rng.choice([-2, -1, -1, 0, 1]))
    if not fixed and rng.random() < 0.04:
        deg = 0                      # "attempt to calculate zeroth root" (both signednesses, any radicand)
        tag += ":deg0"
    if signed and rng.random() < 0.4 and (deg % 2 == 1 or rng.random() < 0.2):
        # odd degree: sign preserved; even degree (or 0) of a negative number: panic
        x = pat(-x, W)
        if rng.random() < 0.2:
            x = M >> 1
        if deg % 2 == 0:
            tag += ":neg-even"
    return tag, x, deg


BIN = ["nt_checked_add", "nt_checked_sub", "nt_checked_mul", "nt_wrapping_add", "nt_wrapping_sub", "nt_wrapping_mul",
       "nt_saturating_add", "nt_saturating_sub", "nt_overflowing_add", "nt_overflowing_sub",
       # by-reference SaturatingAdd / SaturatingSub / SaturatingMul (distinct impls from the by-value `Saturating`)
       "nt_saturating_add_ref", "nt_saturating_sub_ref", "nt_saturating_mul_ref"]
DIVS = ["nt_div_floor", "nt_mod_floor", "nt_div_rem", "nt_div_mod_floor", "nt_is_multiple_of", "nt_checked_div", "nt_checked_rem",
        "nt_checked_div_euclid", "nt_checked_rem_euclid", "nt_div_euclid", "nt_rem_euclid", "nt_divides"]
# num-integer's provided methods: they end in an unsuffixed `+` / `-`, so the answer depends on the build profile
DIVS_MODE = ["nt_div_ceil", "nt_next_multiple_of", "nt_prev_multiple_of"]
UN = ["nt_is_even", "nt_is_odd", "nt_checked_neg", "nt_wrapping_neg", "nt_count_ones", "nt_count_zeros", "nt_leading_zeros",
      "nt_trailing_zeros", "nt_swap_bytes", "nt_to_be", "nt_to_le", "nt_is_zero", "nt_is_one",
      "nt_leading_ones", "nt_trailing_ones", "nt_reverse_bits", "nt_from_be", "nt_from_le"]
# amounts over all of u32 (`shift_amount`): rotates reduce mod BITS, checked_* answer None from BITS on, wrapping_* mask
SH = ["nt_rotate_left", "nt_rotate_right", "nt_checked_shl", "nt_checked_shr", "nt_wrapping_shl", "nt_wrapping_shr"]
# `self << n` / `self >> n`: panic from BITS on with debug assertions, wrapping shift without
SH_MODE = ["nt_unsigned_shl", "nt_unsigned_shr", "nt_signed_shl", "nt_signed_shr"]
MODES = ("dbg", "rel")


def mult_pair(rng, w, n, signed):
    """(tag, x, y) for div_ceil / next_multiple_of / prev_multiple_of: x = k*y + r next to the type limits, so that
    the rounded multiple is the last representable one or the first one that is not"""
    W = w * n
    M = 1 << W
    lim = (M >> 1) if signed else M
    if rng.random() < 0.4:
        return div_pair(rng, w, n, signed)
    B = 1 << w
    y = rng.choice([1, 2, 3, 7, 10, B - 1, B, B + 1, lim - 1, lim // 2, lim // 2 + 1, lim // 3, rng.randrange(1, lim),
                    rng.randrange(1, 1 << rng.randrange(1, W))])
    y = max(1, min(y, lim - 1))
    k = max(0, (lim - 1) // y - rng.choice([0, 0, 0, 1, 2]))
    x = min(lim - 1, k * y + rng.choice([0, 0, 1, y - 1, y // 2, rng.randrange(y)]))
    tag = "k*y+r@limit"
    if signed:
        if rng.random() < 0.5:
            x = -x - rng.choice([0, 0, 1])           # down to MIN itself
            x = max(x, -lim)
        if rng.random() < 0.5:
            y = -y
    return tag, pat(x, W), pat(y, W)


def radix_line(rng, cfgs_, w, n, signed):
    """Num::from_str_radix through the trait: every radix 2..=36, digits with letters in both cases, signs, empty /
    lone-sign / over-long / one-invalid-character strings around the capacity, and radices outside 2..=36 (panic)."""
    for _ in range(8):
        if rng.random() < 0.12:
            r = rng.choice([0, 1, 37, 38, 64, 256, (1 << 32) - 1])
            t, b = str_case(rng, w, n, signed, rng.choice([2, 10, 36]))
            t = "bad-radix:" + t
        else:
            r = rng.choice([2, 3, 4, 8, 10, 16, 32, 36, rng.randrange(2, 37), rng.randrange(2, 37)])
            t, b = str_case(rng, w, n, signed, r)
        try:
            b.decode("utf-8")       # the trait takes a &str: only well-formed UTF-8 can be passed
        except UnicodeDecodeError:
            continue
        return f"nt_from_str_radix {cfgs_} {r} {b.hex() if b else '-'}", "str:" + t
    return f"nt_from_str_radix {cfgs_} 10 30", "str:zero"


def _degree_sweep(rng, tier):
    """root degrees around powers of two and digit-type limits (255/256/257 ...) on the extreme values of each type"""
    degs = [4, 5, 8, 16, 31, 32, 33, 63, 64, 65, 127, 128, 129, 255, 256, 257, 258, 259, 260, 300, 511, 512, 513, 1000, 1023, 1024, 65535, 65536]
    for cfg in cfgs(tier):
        w, n = wn(cfg)
        W = w * n
        if n > 64 or W <= 128:
            continue
        M = 1 << W
        for s in "ui":
            top = ((M >> 1) - 1) if s == "i" else (M - 1)
            for d in degs:
                if d > W + 1:
                    continue
                for x in (top, 1 << (W - 2), (1 << (W - 2)) + 1, 3 ** min(d, 200) % (top + 1)):
                    mode = rng.choice(["dbg", "rel"])
                    yield f"nt_nth_root {s}{cfg} {mode} {hx(x)} {d}", "degree-sweep"


# per configuration: how many lines of the widest instantiations (8192 bits) the quick tier can afford — the Lean model
# works on digit LISTS, so a 1024-digit Newton iteration or binary gcd costs seconds
# (lines, classes of the first lines; `None` = any class, the remaining lines are drawn from the cheap classes)
HUGE_QUICK = {"64x128": (18, [None] * 18), "32x256": (10, [None] * 6), "16x512": (8, [0, 4, 1]), "8x1024": (5, [0, 1])}


def _huge_case(rng, cfg, cheap, force=None):
    """one request at 8192 bits (`cheap`: only the classes whose model run stays around a second at 1024 digits;
    `force`: this class)"""
    w, n = wn(cfg)
    W = w * n
    M = 1 << W
    s = rng.choice("ui")
    sg = s == "i"
    lim = (M >> 1) if sg else M
    hv = huge_values(rng, cfg)
    mode = rng.choice(MODES)
    x = rng.choice(hv[:6]) % lim
    if x < 2:
        x = lim - 1 - rng.randrange(3)
    # 0 sqrt, 1 root of degree ~ bit length, 3 cbrt, 4 nth_root, 9 pow: Newton iterations / long multiplications (expensive
    # in the model); 2 division family, 5 gcd / lcm, 6 multiplications, 7 shifts, 8 unary: cheap
    c = rng.choice([2, 2, 2, 5, 5, 6, 6, 7, 8] if cheap else [0, 0, 1, 1, 2, 2, 3, 3, 4, 4, 4, 5, 5, 6, 9])
    if force is not None:
        c = force
    def straddle(d):
        """r^d - 1 / r^d / r^d + 1 for a root r of full size (Newton must settle on exactly r resp. r - 1)"""
        kb = (W - (1 if sg else 0)) // d
        r = rng.choice([rng.randrange(1 << (kb - 1), 1 << kb), (1 << kb) - 1, iroot(lim - 1, d)]) if kb >= 2 else 2
        return max(2, (r ** d + rng.choice([-1, 0, 1])) % lim)
    if c == 0:
        if rng.random() < 0.6:
            x = straddle(2)
        return f"nt_sqrt {s}{cfg} {mode} {hx(x)}", "huge:sqrt"
    if c == 1:
        # degree at / around the bit length (early-out `bits <= n`), tiny root
        d = max(1, x.bit_length() + rng.choice([-3, -2, -1, 0, 1]))
        if sg and d % 2 == 1 and rng.random() < 0.5:
            x = pat(-x, W)
        return f"nt_nth_root {s}{cfg} {mode} {hx(x)} {d}", "huge:root-deg~bits"
    if c == 2:
        # floor division family: dividend dense, divisor of every length, all sign combinations
        a = rng.choice(hv[:6])
        b = max(1, rng.choice(hv[:6]) >> (w * rng.randrange(0, n)))
        if rng.random() < 0.3:
            a = (a // b) * b % M        # exact multiple: the remainder-is-zero arm
        if sg:
            a, b = a % lim, max(1, b % lim)
            if rng.random() < 0.5:
                a = pat(-a, W)
            if rng.random() < 0.5:
                b = pat(-b, W)
        op = rng.choice(["nt_div_floor", "nt_mod_floor", "nt_div_rem", "nt_div_mod_floor", "nt_is_multiple_of", "nt_divides",
                         "nt_div_euclid", "nt_rem_euclid", "nt_checked_div_euclid"])
        if rng.random() < 0.3:
            return f"{rng.choice(DIVS_MODE)} {s}{cfg} {mode} {hx(a)} {hx(b)}", "huge:div"
        return f"{op} {s}{cfg} {hx(a)} {hx(b)}", "huge:div"
    if c == 3:
        if rng.random() < 0.6:
            x = straddle(3)
        if sg and rng.random() < 0.5:
            x = pat(-x, W)
        return f"nt_cbrt {s}{cfg} {mode} {hx(x)}", "huge:cbrt"
    if c == 4:
        # Newton from the guess 2^(bits/d+1) needs about d*ln(guess/root) steps, each with a `checked_pow(d-1)`: degrees
        # between ~64 and BITS/4 cost minutes in the list-based model at 8192 bits (they are swept at <= 4096 bits by
        # `_degree_sweep`); small degrees and degrees >= BITS/4 (root < 16) are affordable
        d = rng.choice([4, 5, 7, 8, 16, 17, 31, 32, 33, 64, W // 4, W // 4 + 1, W // 3, W // 2 - 1, W // 2, W // 2 + 1, 4095, 4096, 4097, W - 1]
                       + ([100, 127] if cfg == "64x128" else []))
        if rng.random() < 0.6:
            x = straddle(d)
        if sg and d % 2 == 1 and rng.random() < 0.5:
            x = pat(-x, W)
        return f"nt_nth_root {s}{cfg} {mode} {hx(x)} {d}", "huge:nth_root"
    if c == 5:
        # gcd / lcm: big common factor (few iterations of the binary gcd: the quotients are small)
        hb = W // 2 - 8
        g = rng.randrange(1 << (hb - 1), 1 << hb)
        p_, q_ = rng.choice([(1, 1), (3, 5), (2, 7), (255, 256), (rng.randrange(1, 200), rng.randrange(1, 200))])
        # common and individual powers of two of every size (the trailing-zero bookkeeping of the binary gcd)
        sh = rng.choice([0, rng.randrange(0, 3 * w), rng.randrange(0, W // 2 - 16)])
        a, b = ((g * p_) << sh) % lim, ((g * q_) << rng.choice([sh, sh, rng.randrange(0, W // 2 - 16)])) % lim
        if sg:
            if rng.random() < 0.5:
                a = pat(-a, W)
            if rng.random() < 0.5:
                b = pat(-b, W)
        return f"{rng.choice(['nt_gcd', 'nt_lcm', 'nt_gcd_lcm'])} {s}{cfg} {mode} {hx(a)} {hx(b)}", "huge:gcd-lcm"
    if c == 6:
        # the arithmetic forwarders on dense operands (carry / column sums at their maxima), product straddling the limit
        a, b, c3 = rng.choice(hv), rng.choice(hv), rng.choice(hv)
        if rng.random() < 0.6:
            hb = rng.randrange(1, W)
            a = rng.randrange(1 << (hb - 1), 1 << hb)
            b = (lim - 1) // a + rng.choice([-1, 0, 0, 1])
            c3 = (lim - 1) - a * ((lim - 1) // a) + rng.choice([0, 1])
        op = rng.choice(["nt_mul_add", "nt_mul_add_assign"])
        if rng.random() < 0.5:
            return f"{rng.choice(['nt_checked_mul', 'nt_saturating_mul_ref', 'nt_wrapping_mul'])} {s}{cfg} {hx(a % M)} {hx(b % M)}", "huge:mul"
        return f"{op} {s}{cfg} {mode} {hx(a % M)} {hx(b % M)} {hx(c3 % M)}", "huge:mul_add"
    if c == 7:
        a = rng.choice(hv)
        k = rng.choice([0, 1, w - 1, w, w + 1, W // 2, W - w, W - 1, W, W + 1, rng.randrange(W), rng.randrange(W)])
        op = rng.choice(SH + SH_MODE)
        if op in SH_MODE:
            return f"{op} {s}{cfg} {mode} {hx(a)} {k}", "huge:shift"
        return f"{op} {s}{cfg} {hx(a)} {k}", "huge:shift"
    if c == 8:
        a = rng.choice(hv)
        if rng.random() < 0.5:
            k = rng.randrange(W)
            a = rng.choice([(1 << k) - 1, M - (1 << k), 1 << k])
        return f"{rng.choice(UN)} {s}{cfg} {hx(a % M)}", "huge:unary"
    t, a, e = pow_case(rng, w, n, sg)
    return f"{rng.choice(['nt_pow', 'nt_primint_pow'])} {s}{cfg} {mode} {hx(a)} {e}", "huge:pow"


def _huge(rng, tier):
    """the widest in-scope instantiation of every digit type (8x1024, 16x512, 32x256, 64x128 = 8192 bits)"""
    mul = 4 if tier == "thorough" else 1
    for cfg in HUGE_CFGS:
        k, first = HUGE_QUICK[cfg]
        first = first * mul
        for i in range(k * mul):
            yield _huge_case(rng, cfg, i >= len(first), first[i] if i < len(first) else None)


def gen(rng, tier):
    yield from _degree_sweep(rng, tier)
    yield from _huge(rng, tier)
    reps = 60 if tier == "thorough" else 8
    for cfg in cfgs(tier):
        w, n = wn(cfg)
        W = w * n
        if n > 64:
            continue
        for _ in range(reps):
            for s in "ui":
                sg = s == "i"
                t, a, b = gcd_pair(rng, w, n, sg)
                for mode in ("dbg", "rel"):
                    yield f"nt_gcd {s}{cfg} {mode} {hx(a)} {hx(b)}", t
                t, a, b = lcm_pair(rng, w, n, sg)
                for mode in ("dbg", "rel"):
                    yield f"nt_lcm {s}{cfg} {mode} {hx(a)} {hx(b)}", t
                for op in DIVS:
                    t, a, b = div_pair(rng, w, n, sg)
                    yield f"{op} {s}{cfg} {hx(a)} {hx(b)}", t
                for op in DIVS_MODE:
                    t, a, b = mult_pair(rng, w, n, sg)
                    for mode in MODES:
                        yield f"{op} {s}{cfg} {mode} {hx(a)} {hx(b)}", t
                t, a, b = lcm_pair(rng, w, n, sg)
                mode = rng.choice(MODES)
                yield f"nt_gcd_lcm {s}{cfg} {mode} {hx(a)} {hx(b)}", t
                t, a = value(rng, w, n)
                op = rng.choice(["nt_inc", "nt_dec"])
                for mode in MODES:
                    yield f"{op} {s}{cfg} {mode} {hx(a)}", t
                for op in BIN:
                    t, a, b = pair(rng, w, n)
                    yield f"{op} {s}{cfg} {hx(a)} {hx(b)}", t
                for op in UN:
                    t, a = value(rng, w, n)
                    yield f"{op} {s}{cfg} {hx(a)}", t
                for op in SH:
                    t, a = value(rng, w, n)
                    k = shift_amount(rng, w, n)
                    yield f"{op} {s}{cfg} {hx(a)} {k}", t
                for op in SH_MODE:
                    t, a = value(rng, w, n)
                    k = shift_amount(rng, w, n)
                    for mode in MODES:
                        yield f"{op} {s}{cfg} {mode} {hx(a)} {k}", t
                t, x, deg = root_case(rng, w, n, sg)
                for mode in ("dbg", "rel"):
                    yield f"nt_nth_root {s}{cfg} {mode} {hx(x)} {deg}", t
                t, x, _ = root_case(rng, w, n, sg, 2)
                for mode in ("dbg", "rel"):
                    yield f"nt_sqrt {s}{cfg} {mode} {hx(x)}", t
                t, x, _ = root_case(rng, w, n, sg, 3)
                for mode in ("dbg", "rel"):
                    yield f"nt_cbrt {s}{cfg} {mode} {hx(x)}", t
                t, a, e = pow_case(rng, w, n, sg)
                t2, b2, c2 = pair(rng, w, n)
                for mode in ("dbg", "rel"):
                    yield f"nt_pow {s}{cfg} {mode} {hx(a)} {e}", t
                    yield f"nt_mul_add {s}{cfg} {mode} {hx(a)} {hx(b2)} {hx(c2)}", t2
                    yield f"nt_mul_add_assign {s}{cfg} {mode} {hx(b2)} {hx(c2)} {hx(a)}", t2
                    yield f"nt_primint_pow {s}{cfg} {mode} {hx(a)} {e}", t
                    if sg:
                        yield f"nt_abs i{cfg} {mode} {hx(a)}", t
                        yield f"nt_abs_sub i{cfg} {mode} {hx(b2)} {hx(c2)}", t2
                if sg:
                    t, a = value(rng, w, n)
                    for op in ("nt_signum", "nt_is_positive", "nt_is_negative"):
                        yield f"{op} i{cfg} {hx(a)}", t
                for op in ("nt_min_value", "nt_max_value", "nt_zero", "nt_one"):
                    yield f"{op} {s}{cfg}", "const"
                yield f"nt_from_str_radix {s}{cfg} {rng.choice([2, 10, 16, 36])} {('-' if sg and rng.random() < 0.5 else '').encode().hex()}{str(rng.randrange(1 << min(W, 60))).encode().hex()}", "str"
                yield radix_line(rng, s + cfg, w, n, sg)
                yield radix_line(rng, s + cfg, w, n, sg)
