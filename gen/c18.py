"""C18 cases: num_traits / num_integer implementations (called through the traits)."""
from .common import *
from .c03 import div_pair
from .c08 import iroot, pow_case


def fib_pair(rng, W):
    a, b = 1, 1
    k = rng.randrange(2, 3 * W)
    for _ in range(k):
        a, b = b, a + b
        if b >> W:
            break
    return a % (1 << W), (b % (1 << W))


def gcd_pair(rng, w, n, signed):
    W = w * n
    M = 1 << W
    c = rng.randrange(8)
    if c == 0:
        a, b = fib_pair(rng, W - 1)
        return "fib", a, b
    if c <= 3:
        g = rng.randrange(1, 1 << rng.randrange(1, max(2, W // 2)))
        i, j = rng.randrange(W // 2), rng.randrange(W // 2)
        a = (g * (2 * rng.randrange(1 << (W // 4)) + 1) << i) % (M >> 1)
        b = (g * (2 * rng.randrange(1 << (W // 4)) + 1) << j) % (M >> 1)
        if signed:
            if rng.random() < 0.5:
                a = pat(-a, W)
            if rng.random() < 0.5:
                b = pat(-b, W)
        return "2^i*odd", a, b
    if c == 4:
        return "min", M >> 1, rng.choice([0, M >> 1, M - 1, 2, 6])
    t, a, b = pair(rng, w, n)
    return t, a, b


def root_case(rng, w, n, signed):
    W = w * n
    M = 1 << W
    lim = (M >> 1) if signed else M
    deg = rng.choice([1, 2, 3, 4, 5, 7, 8, 16, 17, 31, 32, 40, 64, 100, 255, W - 1, W, W + 1, W + 2, (1 << 32) - 1, rng.randrange(1, 2 * W + 3)])
    deg = max(1, deg)
    c = rng.randrange(8)
    if c <= 3:
        k = rng.randrange(0, 1 << min(24, max(1, W // max(1, min(deg, W)))))
        x = (k ** min(deg, 4096) + rng.choice([-1, 0, 1])) if deg <= 4096 else k
        x = max(0, x) % lim
        tag = "k^n"
    elif c == 4:
        x = lim - 1
        tag = "max"
    else:
        tag, x = value(rng, w, n)
        x %= lim
    if rng.random() < 0.3 and x > 1:
        # degrees right at the value's bit length (early-out guards compare `bits` with n)
        deg = max(1, x.bit_length() + rng.choice([-2, -1, -1, 0, 1]))
    if signed and rng.random() < 0.4 and deg % 2 == 1:
        x = pat(-x, W)
        if rng.random() < 0.2:
            x = M >> 1
    return tag, x, deg


BIN = ["nt_checked_add", "nt_checked_sub", "nt_checked_mul", "nt_wrapping_add", "nt_wrapping_sub", "nt_wrapping_mul",
       "nt_saturating_add", "nt_saturating_sub", "nt_overflowing_add", "nt_overflowing_sub"]
DIVS = ["nt_div_floor", "nt_mod_floor", "nt_div_rem", "nt_div_mod_floor", "nt_is_multiple_of", "nt_checked_div", "nt_checked_rem",
        "nt_checked_div_euclid", "nt_checked_rem_euclid", "nt_div_euclid", "nt_rem_euclid"]
UN = ["nt_is_even", "nt_is_odd", "nt_checked_neg", "nt_wrapping_neg", "nt_count_ones", "nt_count_zeros", "nt_leading_zeros",
      "nt_trailing_zeros", "nt_swap_bytes", "nt_to_be", "nt_to_le", "nt_is_zero", "nt_is_one"]
SH = ["nt_rotate_left", "nt_rotate_right", "nt_unsigned_shl", "nt_unsigned_shr", "nt_signed_shl", "nt_signed_shr"]


def _degree_sweep(rng, tier):
    """root degrees around powers of two and digit-type limits (255/256/257 ...) on the extreme values of each type"""
    degs = [4, 5, 8, 16, 31, 32, 33, 63, 64, 65, 127, 128, 129, 255, 256, 257, 258, 259, 260, 300, 511, 512, 513, 1000, 1023, 1024, 65535, 65536]
    for cfg in cfgs(tier):
        w, n = wn(cfg)
        W = w * n
        if n > 64 or W <= 128:
            continue
        M = 1 << W
        for s in "ui":
            top = ((M >> 1) - 1) if s == "i" else (M - 1)
            for d in degs:
                if d > W + 1:
                    continue
                for x in (top, 1 << (W - 2), (1 << (W - 2)) + 1, 3 ** min(d, 200) % (top + 1)):
                    mode = rng.choice(["dbg", "rel"])
                    yield f"nt_nth_root {s}{cfg} {mode} {hx(x)} {d}", "degree-sweep"


def gen(rng, tier):
    yield from _degree_sweep(rng, tier)
    reps = 60 if tier == "thorough" else 8
    for cfg in cfgs(tier):
        w, n = wn(cfg)
        W = w * n
        if n > 64:
            continue
        for _ in range(reps):
            for s in "ui":
                sg = s == "i"
                t, a, b = gcd_pair(rng, w, n, sg)
                for mode in ("dbg", "rel"):
                    yield f"nt_gcd {s}{cfg} {mode} {hx(a)} {hx(b)}", t
                t, a, b = gcd_pair(rng, w, n, sg)
                for mode in ("dbg", "rel"):
                    yield f"nt_lcm {s}{cfg} {mode} {hx(a)} {hx(b)}", t
                for op in DIVS:
                    t, a, b = div_pair(rng, w, n, sg)
                    yield f"{op} {s}{cfg} {hx(a)} {hx(b)}", t
                for op in BIN:
                    t, a, b = pair(rng, w, n)
                    yield f"{op} {s}{cfg} {hx(a)} {hx(b)}", t
                for op in UN:
                    t, a = value(rng, w, n)
                    yield f"{op} {s}{cfg} {hx(a)}", t
                for op in SH:
                    t, a = value(rng, w, n)
                    k = rng.randrange(0, W)
                    yield f"{op} {s}{cfg} {hx(a)} {k}", t
                t, x, deg = root_case(rng, w, n, sg)
                for mode in ("dbg", "rel"):
                    yield f"nt_nth_root {s}{cfg} {mode} {hx(x)} {deg}", t
                t, x, _ = root_case(rng, w, n, False)
                for mode in ("dbg", "rel"):
                    yield f"nt_sqrt {s}{cfg} {mode} {hx(x)}", t
                t, x, _ = root_case(rng, w, n, sg)
                for mode in ("dbg", "rel"):
                    yield f"nt_cbrt {s}{cfg} {mode} {hx(x)}", t
                t, a, e = pow_case(rng, w, n, sg)
                t2, b2, c2 = pair(rng, w, n)
                for mode in ("dbg", "rel"):
                    yield f"nt_pow {s}{cfg} {mode} {hx(a)} {e}", t
                    yield f"nt_mul_add {s}{cfg} {mode} {hx(a)} {hx(b2)} {hx(c2)}", t2
                    if sg:
                        yield f"nt_abs i{cfg} {mode} {hx(a)}", t
                        yield f"nt_abs_sub i{cfg} {mode} {hx(b2)} {hx(c2)}", t2
                if sg:
                    t, a = value(rng, w, n)
                    for op in ("nt_signum", "nt_is_positive", "nt_is_negative"):
                        yield f"{op} i{cfg} {hx(a)}", t
                for op in ("nt_min_value", "nt_max_value", "nt_zero", "nt_one"):
                    yield f"{op} {s}{cfg}", "const"
                yield f"nt_from_str_radix {s}{cfg} {rng.choice([2, 10, 16, 36])} {('-' if sg and rng.random() < 0.5 else '').encode().hex()}{str(rng.randrange(1 << min(W, 60))).encode().hex()}", "str"
