"""C05 cases: shifts and rotations.

Request forms (see harness/src/bin/c05.rs, lean/Bnum/Drive/C05.lean):
  `op cfg a k`            the twelve methods of OPS
  `op cfg dbg|rel a k`    MODE_OPS: inherent `shl`/`shr` and the operators `<<` `>>` `<<=` `>>=` (u32 amount)
  `op cfg a k`, k < BITS  UNCHECKED: `unsafe` unchecked_shl / unchecked_shr (never requested out of range)

Input classes (all general, none tied to a known defect):
  * amounts: the digit-offset / bit-offset structure of the code (multiples of the digit width +-1,
    digit offset N-1 with bit offset 0 and w-1, W-w, W-1), amounts in [BITS, 2*BITS), multiples of BITS
    +-1, powers of two +-1 up to 2^32, 2^32-1 (`_amount`);
  * values: the classes of gen/common.py plus negative values with a partially shifted top digit
    (sign fill), a digit ramp (every digit different, so a misplaced digit shows) and sparse
    single-bit-per-digit patterns (`_value`);
  * complete sweep of all amounts 0..2*BITS+1 on one instantiation per digit type (and two
    power-of-two widths), every operation (`_sweep`);
  * the edge-digit grid for every operation (`_grid`);
  * the widest instantiation of every digit type (8192 bits), every operation, amounts with large
    digit offsets (`_huge`).
"""
from .common import *

# other public routes to this property's operations (check.py step 2d): the neighbour generator's requests whose
# operation matches are part of this run, answered by the neighbour's harness bin
NEIGHBOURS = {"C17": r"sh[lr]_", "C18": r"nt_((checked_|wrapping_)?sh[lr]|(un)?signed_sh[lr]|rotate_(left|right))"}
import re

OPS = ["overflowing_shl", "overflowing_shr", "checked_shl", "checked_shr", "wrapping_shl", "wrapping_shr",
       "unbounded_shl", "unbounded_shr", "rotate_left", "rotate_right", "strict_shl", "strict_shr"]
MODE_OPS = ["shl", "shr", "shl_op", "shr_op", "shl_assign", "shr_assign"]
UNCHECKED = ["unchecked_shl", "unchecked_shr"]
ALL_OPS = OPS + MODE_OPS + UNCHECKED
U32 = 1 << 32


def _lines(op, s, cfg, a, k):
    """request line(s) of one operation (both build modes for the mode-dependent ones; the unsafe
    unchecked shifts only where they are defined)"""
    if op in MODE_OPS:
        return [f"{op} {s}{cfg} {mode} {hx(a)} {k}" for mode in ("dbg", "rel")]
    if op in UNCHECKED:
        w, n = wn(cfg)
        return [f"{op} {s}{cfg} {hx(a)} {k}"] if k < w * n else []
    return [f"{op} {s}{cfg} {hx(a)} {k}"]


def _amount(rng, w, n):
    """(tag, amount): structured u32 shift / rotate amounts"""
    t, k = _amount0(rng, w, n)
    return t, min(U32 - 1, max(0, k))


def _amount0(rng, w, n):
    W = w * n
    c = rng.randrange(12)
    if c == 0:
        return "amt-boundary", rng.choice([0, 1, w - 1, w, w + 1, W - w - 1, W - w, W - w + 1, W - 2, W - 1])
    if c == 1:
        # bit offset 0 / 1 / w-1 at a random digit offset (digit offset N-1 included)
        j = rng.randrange(n)
        return "amt-digit-aligned", min(W - 1, max(0, w * j + rng.choice([0, 0, 1, w - 1, -1])))
    if c == 2:
        # digit offset N-1, any bit offset: only the top digit of a left shift / the lowest of a right shift survives
        return "amt-last-digit", W - w + rng.randrange(w)
    if c == 3:
        return "amt-ge-bits", rng.choice([W, W + 1, W + w - 1, W + w, W + w + 1, 2 * W - w, 2 * W - 1, 2 * W, 2 * W + 1,
                                          W + rng.randrange(W), W + w * rng.randrange(n)])
    if c == 4:
        # multiples of BITS +- small (rotation by 0 / 1 / BITS-1 after reduction)
        q = rng.randrange(1, U32 // W)
        return "amt-mult-bits", min(U32 - 1, max(0, q * W + rng.choice([-w, -1, 0, 0, 1, w])))
    if c == 5:
        j = rng.randrange(33)
        return "amt-pow2", min(U32 - 1, max(0, (1 << j) + rng.choice([-1, 0, 1])))
    if c == 6:
        return "amt-u32", rng.choice([U32 - 1, U32 - 2, 1 << 31, (1 << 31) - 1, rng.randrange(U32), rng.randrange(U32)])
    if c == 7:
        return "amt-lt-2bits", rng.randrange(2 * W + 2)
    return "amt-inrange", rng.randrange(W)


def _value(rng, w, n):
    """(tag, pattern): gen/common.py classes plus shift-specific ones"""
    W = w * n
    B = 1 << w
    c = rng.randrange(10)
    if c == 0:
        # negative, top digit with few / many sign bits, low part zero / random / all ones:
        # the sign fill of the partially shifted top digit
        top = rng.choice([B // 2, B // 2 + 1, B - 1, B - 2, B // 2 + B // 4, rng.randrange(B // 2, B)])
        low = rng.choice([0, 1, (1 << (W - w)) - 1, rng.randrange(1 << (W - w)) if n > 1 else 0])
        return "sign-fill", (top << (W - w)) | low
    if c == 1:
        # every digit different (and no digit 0 or B-1): a digit copied from the wrong index is visible
        return "digit-ramp", sum((((i * 37 + 11) % (B - 2)) + 1) << (w * i) for i in range(n))
    if c == 2:
        # one bit per digit at the same position (top, bottom or random): bits crossing digit boundaries
        b = rng.choice([0, w - 1, rng.randrange(w)])
        v = sum(1 << (w * i + b) for i in range(n))
        return "bit-per-digit", v if rng.random() < 0.7 else pat(~v, W)
    if c == 3:
        # positive with the bit below the sign set (left shift by one makes it negative), or top digit only
        return "top-digit", rng.choice([(1 << (W - 2)), (1 << (W - 2)) | 1, (B // 2 - 1) << (W - w), rng.randrange(1, B) << (W - w)])
    return value(rng, w, n)


def _gen_main(rng, tier):
    reps = 200 if tier == "thorough" else 100
    for cfg in cfgs(tier):
        w, n = wn(cfg)
        W = w * n
        for _ in range(reps if n <= 40 else 10):
            for s in "ui":
                for op in OPS:
                    t, a = _value(rng, w, n)
                    ta, k = _amount(rng, w, n) if rng.random() < 0.6 else ("amt-common", shift_amount(rng, w, n))
                    yield f"{op} {s}{cfg} {hx(a)} {k}", t + "/" + ta
                # `<<` / `>>`: inherent and operator forms on the same operands, both build modes
                t, a = _value(rng, w, n)
                ta, k = _amount(rng, w, n) if rng.random() < 0.6 else ("amt-common", shift_amount(rng, w, n))
                for op in MODE_OPS:
                    for l in _lines(op, s, cfg, a, k):
                        yield l, t + "/" + ta
                # unsafe unchecked shifts: in-range amounts only
                for op in UNCHECKED:
                    t, a = _value(rng, w, n)
                    ta, k = _amount(rng, w, n)
                    if k >= W:
                        ta, k = "amt-inrange", rng.choice([k % W, W - 1, W - w, rng.randrange(W)])
                    yield f"{op} {s}{cfg} {hx(a)} {k}", t + "/" + ta
    if tier == "thorough":
        for cfg in ["8x1", "8x3", "16x1"]:
            w, n = wn(cfg)
            W = w * n
            for s in "ui":
                for op in OPS:
                    vals = range(256) if cfg == "8x1" else [value(rng, w, n)[1] for _ in range(40)]
                    for a in vals:
                        for k in range(0, 2 * W + 2):
                            yield f"{op} {s}{cfg} {hx(a)} {k}", "exhaustive-amounts"


# one instantiation per digit type at a width that is not a power of two, and two power-of-two widths
SWEEP_CFGS = ["8x3", "16x3", "32x3", "64x3", "8x2", "64x2"]
SWEEP_CFGS_THOROUGH = SWEEP_CFGS + ["8x5", "8x7", "16x5", "32x2", "32x6", "64x1", "64x5", "8x17"]


def _sweep(rng, tier):
    """every amount 0..2*BITS+1, every operation (all of ALL_OPS up to BITS+1, the twelve methods above)"""
    nvals = 4 if tier == "thorough" else 1
    for cfg in (SWEEP_CFGS_THOROUGH if tier == "thorough" else SWEEP_CFGS):
        w, n = wn(cfg)
        W = w * n
        for s in "ui":
            for k in range(0, 2 * W + 2):
                for _ in range(nvals):
                    # one fresh value per amount; half of them from the shift-specific classes
                    t, a = _value(rng, w, n) if rng.random() < 0.7 else ("random", rng.randrange(1 << W))
                    for op in (ALL_OPS if k <= W + 1 else OPS):
                        for l in _lines(op, s, cfg, a, k):
                            yield l, "amount-sweep"


def _grid(rng, tier):
    first = ("overflowing_shl", "overflowing_shr", "rotate_left", "rotate_right", "unbounded_shr")
    rest = [op for op in ALL_OPS if op not in first]
    for cfg in GRID_CFGS:
        w, n = wn(cfg)
        W = w * n
        amounts = sorted(set([0, 1, w - 1, w, w + 1, W - w, W - 1, W, W + 1, 2 * W - 1] + [k for k in range(0, W, max(1, W // 6))]))
        grid = edge_grid(w, n)
        for s in "ui":
            for a in grid:
                for k in (amounts if len(grid) <= 30 else rng.sample(amounts, 4)):
                    for op in list(first) + rng.sample(rest, 3):
                        for l in _lines(op, s, cfg, a, k):
                            yield l, "edge-grid"


SHL_FAMILY = ["overflowing_shl", "checked_shl", "wrapping_shl", "unbounded_shl", "strict_shl", "unchecked_shl",
              "shl", "shl_op", "shl_assign"]
SHR_FAMILY = ["overflowing_shr", "checked_shr", "wrapping_shr", "unbounded_shr", "strict_shr", "unchecked_shr",
              "shr", "shr_op", "shr_assign"]


def _digit_offsets(rng, tier):
    """every configuration x every digit offset (a sample of 17 of them above 17 digits) x bit offsets
    {0, 1, w-1, random}: the (digit type, digit count, digit offset, bit offset) combinations that random
    amounts hit with probability ~1/(n*w).  Two operations of each shift family and both rotations."""
    for cfg in cfgs(tier):
        w, n = wn(cfg)
        js = list(range(n)) if n <= 17 else sorted(set([0, 1, 2, n // 2, n - 3, n - 2, n - 1] + rng.sample(range(n), 10)))
        for j in js:
            for b in [0, 1, w - 1, rng.randrange(w)]:
                k = w * j + b
                for s in "ui":
                    t, a = _value(rng, w, n) if rng.random() < 0.7 else ("random", rng.randrange(1 << (w * n)))
                    for op in rng.sample(SHL_FAMILY, 2) + rng.sample(SHR_FAMILY, 2) + ["rotate_left", "rotate_right"]:
                        for l in _lines(op, s, cfg, a, k):
                            yield l, "digit-offset-sweep"


def _huge(rng, tier):
    """8192 bits, every digit type: few cases (the Lean side takes ~10 ms per request here), every
    operation, amounts whose digit offset is large (> 255 for the u8/u16-digit types)"""
    draws = 8 if tier == "thorough" else 3
    for cfg in HUGE_CFGS:
        w, n = wn(cfg)
        W = w * n
        M = 1 << W
        B = 1 << w
        ramp = sum((((i * 37 + 11) % (B - 2)) + 1) << (w * i) for i in range(n))
        vals = huge_values(rng, cfg) + [ramp, pat(~ramp, W), ((B - 1) << (W - w)) | rng.randrange(1 << (W - w)), M - 2]

        def amount():
            c = rng.randrange(8)
            if c == 0:
                return rng.choice([0, 1, w - 1, w, W - w, W - w + 1, W - 1, W // 2, W // 2 - 1])
            if c == 1:
                return w * rng.randrange(n // 2, n) + rng.choice([0, 0, 1, w - 1])      # large digit offset
            if c == 2:
                return w * rng.randrange(n) + rng.randrange(w)
            if c == 3:
                return rng.choice([W, W + 1, 2 * W - 1, W + rng.randrange(W), U32 - 1, rng.randrange(U32),
                                   W * rng.randrange(1, U32 // W) + rng.choice([-1, 0, 1])])
            return _amount(rng, w, n)[1]

        for s in "ui":
            for op in ALL_OPS:
                for _ in range(draws):
                    a = rng.choice(vals)
                    k = amount()
                    if op in UNCHECKED and k >= W:
                        k = k % W
                    for l in _lines(op, s, cfg, a, k):
                        yield l, "huge-8192"


# The operators `<<` `>>` `<<=` `>>=` also exist with every primitive integer type and with `BUint<M>` / `BInt<M>` as the
# amount type (src/int/ops.rs).  Those impls convert the amount before they reach the inherent shift, and "shl returns
# x * 2^s for every s < BITS" is about them as well: the vocabulary and harness bin of C17 are reused for amounts inside
# the range and next to BITS, in particular amounts that do not fit the amount type's first digit (s >= 2^w for u8
# digits).  Added after seeded change C05-r7m1 (amount read from the low digit only).
HARNESS_BINS = ["c05", "c17"]
_C17_OP = re.compile(r"sh[lr]_(b[ui]\d*|u32|[ui](8|16|32|64|128|size))_")


def ROUTE(line):
    return "c17" if _C17_OP.match(line) else "c05"


def _typed_amounts(rng, tier):
    from . import c17
    reps = 3 if tier == "thorough" else 1
    for cfg in (c17.CFGS17 if tier == "thorough" else c17.QUICK17):
        w, n = wn(cfg)
        W = w * n
        for s in "ui":
            for _ in range(reps):
                for sh in ("shl", "shr"):
                    for kind in ("bu", "bi"):
                        for m in (n, 1, 2, n + 1):
                            Wk = w * m
                            top = min(W, 1 << (Wk - (1 if kind == "bi" else 0)))      # amounts this type can hold, below BITS
                            ks = [rng.randrange(top), top - 1, rng.choice([0, 1, W - 1, W, W + 1]) % (1 << Wk)]
                            if top > (1 << w):
                                ks += [1 << w, rng.randrange(1 << w, top), (1 << w) + rng.randrange(w)]   # needs the second digit
                            if top > (1 << 16):
                                ks.append(rng.randrange(1 << 16, top))
                            for k in ks:
                                t, a = value(rng, w, n)
                                mode = rng.choice(("dbg", "rel"))
                                yield f"{sh}_{kind}{'' if m == n else m}_{rng.choice(c17.SFORMS)} {s}{cfg} {mode} {hx(a)} {hx(k)}", "typed-amount-" + t
                    for ty in c17.PRIM:
                        bits, signed = c17.PRIM[ty]
                        top = min(W, 1 << (bits - (1 if signed else 0)))
                        for k in (rng.randrange(top), top - 1):
                            t, a = value(rng, w, n)
                            for mode in ("dbg", "rel"):
                                yield f"{sh}_{ty}_{rng.choice(c17.SFORMS)} {s}{cfg} {mode} {hx(a)} {k}", "typed-amount-" + t


def gen(rng, tier):
    yield from _gen_main(rng, tier)
    yield from _typed_amounts(rng, tier)
    yield from _grid(rng, tier)
    yield from _sweep(rng, tier)
    yield from _digit_offsets(rng, tier)
    yield from _huge(rng, tier)
