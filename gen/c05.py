"""C05 cases: shifts and rotations."""
from .common import *

OPS = ["overflowing_shl", "overflowing_shr", "checked_shl", "checked_shr", "wrapping_shl", "wrapping_shr",
       "unbounded_shl", "unbounded_shr", "rotate_left", "rotate_right", "strict_shl", "strict_shr"]


def _gen_main(rng, tier):
    reps = 200 if tier == "thorough" else 100
    for cfg in cfgs(tier):
        w, n = wn(cfg)
        for _ in range(reps if n <= 40 else 10):
            for s in "ui":
                for op in OPS:
                    t, a = value(rng, w, n)
                    k = shift_amount(rng, w, n)
                    yield f"{op} {s}{cfg} {hx(a)} {k}", t
                t, a = value(rng, w, n)
                k = shift_amount(rng, w, n)
                for op in ("shl", "shr"):
                    for mode in ("dbg", "rel"):
                        yield f"{op} {s}{cfg} {mode} {hx(a)} {k}", t
    if tier == "thorough":
        for cfg in ["8x1", "8x3", "16x1"]:
            w, n = wn(cfg)
            W = w * n
            for s in "ui":
                for op in OPS:
                    vals = range(256) if cfg == "8x1" else [value(rng, w, n)[1] for _ in range(40)]
                    for a in vals:
                        for k in range(0, 2 * W + 2):
                            yield f"{op} {s}{cfg} {hx(a)} {k}", "exhaustive-amounts"


def gen(rng, tier):
    yield from _gen_main(rng, tier)
    yield from _grid(rng, tier)


def _grid(rng, tier):
    for cfg in GRID_CFGS:
        w, n = wn(cfg)
        W = w * n
        amounts = sorted(set([0, 1, w - 1, w, w + 1, W - 1, W, W + 1, 2 * W - 1] + [k for k in range(0, W, max(1, W // 6))]))
        for s in "ui":
            for op in ("overflowing_shl", "overflowing_shr", "rotate_left", "rotate_right", "unbounded_shr"):
                for a in edge_grid(w, n):
                    for k in (amounts if len(edge_grid(w, n)) <= 30 else rng.sample(amounts, 3)):
                        yield f"{op} {s}{cfg} {hx(a)} {k}", "edge-grid"
