"""C11 cases: radix output and round trips.

Harness bin `c11` (harness/src/bin/c11.rs): the three printing methods and print-then-parse round trips through every
parsing entry point (from_str_radix, parse_str_radix, parse_bytes, FromStr, from_radix_be, from_radix_le).

Input classes (all general; see the functions below):
  * every radix 2..=256 x every standard configuration x signed/unsigned x every op (`_gen_main`), with extra
    repetitions for the radices that own a code path (byte copy 256, exact slicing 2/4/16, inexact slicing
    8/32/64/128, decimal);
  * values built from whole conversion chunks (`chunked`): chunk base = radix, radix^k, the largest radix power fitting
    half a digit / a whole digit; chunks drawn from {0, 1, base-1, radix^j, radix^j-1, random} -> interior zero
    chunks, chunks with leading zero digits, a top chunk of every length;
  * r^k and r^k-1 for every k up to the capacity (`digit_count_boundaries`, all four digit types);
  * wide configurations (`wide`): 512, 4096 and the four 8192-bit instantiations (one per digit type), few requests
    each, every code path x every op, dense/extreme operands;
  * out-of-range radices (`bad_radix`): 0, 1, 37 (strings), 257, and radices that become valid when truncated to the
    digit type (258, 266, 65546, 2^32-246, ...) x values zero / small / negative / MIN / random x every op, including
    the composed round trips (the property demands a panic for each of them).
"""
from .common import *
from . import widthsweep as _ws

HARNESS_BINS_THOROUGH = ["widths"]
HARNESS_BIN = "c11"

# set to True only to triage: classes on which the unchanged crate was seen to disagree with the SPEC (none so far)
ENABLE_UNTRIAGED = False

POW2_RADICES = (2, 4, 8, 16, 32, 64, 128, 256)
# radices that own a code path or a constant of their own: repeated in the quick tier
HOT_RADICES = (8, 32, 64, 128, 256, 10, 16, 2)
STR_RT_OPS = ("roundtrip_str", "roundtrip_parse_bytes", "roundtrip_parse_str")


def ndigits(v, r):
    k = 0
    while v:
        v //= r
        k += 1
    return k


def chunk_base(rng, w, r):
    """a chunk base the conversion uses or could use: r itself, the largest power of r fitting half a digit (what
    `radix_base_half` returns), fitting a whole digit (`radix_base`), or an arbitrary small power"""
    c = rng.randrange(4)
    if c == 0:
        return r, 1
    if c == 3:
        k = rng.randrange(1, 9)
        return r ** k, k
    lim = (1 << (w // 2)) if c == 1 else (1 << w)
    b, k = r, 1
    while b * r < lim:
        b *= r
        k += 1
    return b, k


def chunked(rng, w, n, r):
    """sum of c_i * base^i with structured chunks; the number of chunks is uniform up to the capacity"""
    W = w * n
    M = 1 << W
    base, p = chunk_base(rng, w, r)
    cap = ndigits(M - 1, base)
    cnt = rng.randrange(1, cap + 1) if rng.random() < 0.6 else cap
    kind = rng.randrange(3)          # 0: mixed, 1: mostly zero chunks, 2: mostly maximal chunks
    v = 0
    for i in range(cnt):
        c = rng.randrange(8)
        if kind == 1 and c >= 3:
            d = 0
        elif kind == 2 and c >= 3:
            d = base - 1
        elif c == 0:
            d = 0
        elif c == 1:
            d = 1
        elif c == 2:
            d = base - 1
        elif c == 3:
            d = r ** rng.randrange(p)                    # 0..010..0 inside the chunk
        elif c == 4:
            d = r ** rng.randrange(1, p + 1) - 1         # leading zero digits, then maximal digits
        elif c == 5:
            d = rng.randrange(r)                         # a single low digit: p-1 leading zero digits in the chunk
        else:
            d = rng.randrange(base)
        v += d * base ** i
    if cnt and v < base ** (cnt - 1):
        v += rng.choice([1, r - 1, base - 1]) * base ** (cnt - 1)     # top chunk non-zero
    return "chunked", v % M


def out_value(rng, w, n, r):
    W = w * n
    M = 1 << W
    c = rng.randrange(12)          # 7..11: the general value classes of gen/common.py
    if c == 0:
        k = rng.randrange(1, 40)
        return "r^k", (r ** k) % M
    if c == 1:
        k = rng.randrange(1, 40)
        return "r^k-1", (r ** k - 1) % M
    if c == 2:
        # interior zero chunks
        k = rng.randrange(1, 12)
        return "zero-chunks", (rng.randrange(1, r) * r ** (k * 3) + rng.randrange(r)) % M
    if c == 3:
        # digits that are themselves powers of the radix (chunk bases used by the conversion) +- 1
        v = 0
        for i in range(n):
            k = rng.randrange(0, 70)
            d = r ** k
            while d >= (1 << w):
                k -= 1
                d = r ** k
            if rng.random() < 0.5:
                # the largest power of r below 2^(w/2) and below 2^w (half-digit / full-digit chunk bases)
                lim = (1 << (w // 2)) if rng.random() < 0.5 else (1 << w)
                d = r
                while d * r < lim:
                    d *= r
            d = max(0, min((1 << w) - 1, d + rng.choice([0, 0, 0, 1, -1])))
            if rng.random() < 0.35:
                d = rng.choice([0, rng.randrange(1 << w)])
            v |= d << (w * i)
        return "radix-power-digits", v % M
    if c in (4, 5):
        return chunked(rng, w, n, r)
    if c == 6:
        # r^k (+-1, -r^j) for k anywhere up to (and one beyond) the capacity of the type
        cap = ndigits(M - 1, r)
        k = rng.randrange(1, cap + 2)
        z = r ** k + rng.choice([0, -1, 1, -(r ** rng.randrange(k))])
        return "r^k-any", z % M
    return value(rng, w, n)


def _ops_for(rng, s, cfg, r, reps, extra):
    """the requests of one (configuration, signedness, radix)"""
    w, n = wn(cfg)
    for _ in range(reps):
        t, a = out_value(rng, w, n, r)
        yield f"to_radix_le {s}{cfg} {r} {hx(a)}", t
        t, a = out_value(rng, w, n, r)
        yield f"to_radix_be {s}{cfg} {r} {hx(a)}", t
        yield f"roundtrip_be {s}{cfg} {r} {hx(a)}", t
        yield f"roundtrip_le {s}{cfg} {r} {hx(a)}", t
        if extra and rng.random() < 0.12:
            t, a = out_value(rng, w, n, r)
            yield f"{rng.choice(['roundtrip_be_le', 'roundtrip_le_be'])} {s}{cfg} {r} {hx(a)}", t
        if r <= 36:
            t, a = out_value(rng, w, n, r)
            yield f"to_str_radix {s}{cfg} {r} {hx(a)}", t
            yield f"roundtrip_str {s}{cfg} {r} {hx(a)}", t
            if extra:
                # the other string-parsing entry points composed with printing
                t, a = out_value(rng, w, n, r)
                yield f"{rng.choice(STR_RT_OPS[1:])} {s}{cfg} {r} {hx(a)}", t


# a radix subset for configurations with many digits (thorough tier): every power of two, the extremes, decimal,
# and a few with/without a small chunk base
MANY_DIGIT_RADICES = POW2_RADICES + (3, 5, 7, 10, 11, 15, 17, 35, 36, 37, 100, 127, 129, 200, 255)


def _gen_main(rng, tier):
    reps = 4 if tier == "thorough" else 1
    for cfg in cfgs(tier):
        w, n = wn(cfg)
        if n > 20 and tier != "thorough":
            continue            # quick tier: the many-digit configurations are covered by `wide`
        for s in "ui":
            radices = range(2, 257) if n <= 20 else MANY_DIGIT_RADICES
            for r in radices:
                k = reps if n <= 20 else 1
                if tier != "thorough" and r in HOT_RADICES:
                    k = 3
                yield from _ops_for(rng, s, cfg, r, k, True)
            # FromStr (decimal only)
            for _ in range(6 if n <= 20 else 2):
                t, a = out_value(rng, w, n, 10)
                yield f"roundtrip_from_str {s}{cfg} {hx(a)}", t


BAD_RADICES = (0, 1, 257, 258, 266, 512 + 16, 1 << 16, (1 << 16) + 10, (1 << 16) + 256, 1 << 31,
               (1 << 32) - 246, (1 << 32) - 1)
# out of range for the string methods only
BAD_STR_RADICES = (37, 38, 64, 100, 255, 256)
RADIX_OPS = ("to_radix_be", "to_radix_le", "roundtrip_be", "roundtrip_le", "roundtrip_be_le", "roundtrip_le_be")
STR_OPS = ("to_str_radix",) + STR_RT_OPS


def bad_radix(rng, tier):
    """the methods must panic for EVERY out-of-range radix and every value: zero (the range assertion comes before the
    zero shortcut), negative values (the sign is printed after the magnitude), radices whose truncation to the digit
    type is a valid radix, and also through the composed round trips"""
    for cfg in cfgs(tier) + [c for c in ("64x128", "8x1024") if c not in cfgs(tier)]:
        w, n = wn(cfg)
        W = w * n
        M = 1 << W
        if n > 20 and tier != "thorough" and cfg not in ("64x128", "8x1024", "8x64"):
            continue
        for s in "ui":
            vals = [0, 5, M - 1, M >> 1, rng.randrange(M), value(rng, w, n)[1]]
            for r in BAD_RADICES:
                a = rng.choice(vals)
                for op in ("to_str_radix", "to_radix_be", "to_radix_le", rng.choice(RADIX_OPS[2:] + STR_RT_OPS)):
                    yield f"{op} {s}{cfg} {r} {hx(a)}", "bad-radix"
                yield f"{rng.choice(RADIX_OPS + STR_OPS)} {s}{cfg} {r} 0", "bad-radix-zero"
            for r in BAD_STR_RADICES:
                a = rng.choice(vals)
                yield f"to_str_radix {s}{cfg} {r} {hx(a)}", "bad-radix"
                yield f"{rng.choice(STR_OPS)} {s}{cfg} {r} {hx(rng.choice(vals))}", "bad-radix"


def digit_count_boundaries(rng, tier):
    """r^k and r^k - 1 for EVERY k below the capacity (the numerals 100..0 and zz..z of every length):
    where a digit-count estimate or a chunk boundary can be off by one.  One wide and one odd-width
    configuration (added after seeded change C12-r4m1), plus one narrow one of the other two digit types."""
    for cfg in ["64x16", "8x17", "16x5", "32x3"] + (["16x20", "32x10", "8x40"] if tier == "thorough" else []):
        w, n = wn(cfg)
        M = 1 << (w * n)
        for r in list(range(2, 37)) + [37, 100, 128, 255, 256]:
            k, p = 1, r
            while p < M:
                for v in (p, p - 1):
                    s = "ui"[(k + v) & 1]
                    if r <= 36:
                        yield f"to_str_radix {s}{cfg} {r} {hx(v)}", "digit-count-boundary"
                    else:
                        yield f"to_radix_le {s}{cfg} {r} {hx(v)}", "digit-count-boundary"
                k += 1
                p *= r


# ---------------------------------------------------------------------------------------------- wide configurations

# (configuration, requests in the quick tier): 512 and 4096 bits, then 8192 bits on every digit type.  The Lean
# model costs ~0.5 s per division-path request at 8x1024, ~0.04 s at 64x128: few requests, every one chosen.
WIDE = [("8x64", 330), ("64x64", 150), ("64x128", 48), ("32x256", 30), ("16x512", 20), ("8x1024", 10)]
WIDE_DIV_RADICES = (10, 3, 36, 255, 7, 37, 100, 35, 251, 6)
WIDE_OPS = ("to_radix_le", "roundtrip_be", "to_str_radix", "roundtrip_le", "to_radix_be", "roundtrip_str",
            "roundtrip_parse_bytes")


def wide_values(rng, cfg, r):
    w, n = wn(cfg)
    W = w * n
    M = 1 << W
    B = 1 << w
    cap = ndigits(M - 1, r)
    yield "allones", M - 1
    yield "dense", sum(rng.randrange(B - B // 16, B) << (w * i) for i in range(n))
    yield chunked(rng, w, n, r)
    yield "r^cap-1", r ** (cap - 1) if rng.random() < 0.5 else r ** (cap - 1) - 1       # longest numerals 10..0 / zz..z
    yield "smin", M >> 1
    yield "random", rng.randrange(M)
    yield "smax", (M >> 1) - 1
    yield chunked(rng, w, n, r)
    yield "alt-digits", sum((B - 1 if i % 2 else 0) << (w * i) for i in range(n))
    yield "top-digit-only", rng.randrange(1, B) << (w * (n - 1))
    yield value(rng, w, n)
    yield "neg-small", M - rng.randrange(1, r * r)
    yield "short", rng.randrange(1 << (w * rng.randrange(1, n)))


def wide(rng, tier):
    for cfg, cnt in WIDE:
        if tier == "thorough":
            cnt *= 4
        w, n = wn(cfg)
        # every power of two (copy / exact / inexact slicing, whatever the digit type makes of it) interleaved
        # with division-path radices
        radices = [x for pr in zip((256, 8, 16, 2, 64, 4, 32, 128), WIDE_DIV_RADICES) for x in pr]
        radices += [rng.randrange(2, 37), rng.randrange(38, 256), WIDE_DIV_RADICES[8], WIDE_DIV_RADICES[9]]
        vals = {}
        for i in range(cnt):
            r = radices[i % len(radices)] if i < 3 * len(radices) else rng.randrange(2, 257)
            op = WIDE_OPS[i % len(WIDE_OPS)]
            if r > 36 and op in STR_OPS:
                op = "roundtrip_le" if op != "to_str_radix" else "to_radix_le"
            if r not in vals:
                vals[r] = list(wide_values(rng, cfg, r))
            # 13 value classes, 20 radices, 7 ops: pairwise coprime cycle lengths, every combination comes up
            t, a = vals[r][i % len(vals[r])]
            s = "ui"[(i // len(WIDE_OPS) + i) & 1]
            yield f"{op} {s}{cfg} {r} {hx(a)}", "wide/" + t
        # the remaining string entry points; at 8192 bits one request each (u: FromStr, i: parse_str_radix)
        for s in "ui":
            t, a = chunked(rng, w, n, 10)
            if s == "u" or n <= 64 or tier == "thorough":
                yield f"roundtrip_from_str {s}{cfg} {hx(a)}", "wide/" + t
            if s == "i" or n <= 64 or tier == "thorough":
                yield f"roundtrip_parse_str {s}{cfg} {rng.choice([10, 16, 36, 3])} {hx((1 << (w * n)) - 1 - a)}", "wide/" + t


def sweep_print(rng):
    """thorough tier, every u8 digit count 1..=1024 (bin `widths` knows `to_str_radix` only): the bit-slicing radices,
    which gen/widthsweep.py:print_ does not use (one cheap request per width)"""
    for n in _ws.ns(rng):
        r = (2, 4, 16, 8, 32)[n % 5]
        t, a = chunked(rng, 8, n, r)
        yield f"to_str_radix u8x{n} {r} {hx(a)}", "width-sweep"


def ROUTE(line):
    return _ws.route(line, "c11")


def gen(rng, tier):
    yield from _gen_main(rng, tier)
    yield from bad_radix(rng, tier)
    yield from digit_count_boundaries(rng, tier)
    yield from wide(rng, tier)
    if tier == "thorough":
        yield from sweep_print(rng)
