"""C11 cases: radix output and round trips."""
from .common import *
from . import widthsweep as _ws

HARNESS_BINS_THOROUGH = ["widths"]
HARNESS_BIN = "c10"


def out_value(rng, w, n, r):
    W = w * n
    M = 1 << W
    c = rng.randrange(8)
    if c == 0:
        k = rng.randrange(1, 40)
        return "r^k", (r ** k) % M
    if c == 1:
        k = rng.randrange(1, 40)
        return "r^k-1", (r ** k - 1) % M
    if c == 2:
        # interior zero chunks
        k = rng.randrange(1, 12)
        return "zero-chunks", (rng.randrange(1, r) * r ** (k * 3) + rng.randrange(r)) % M
    if c == 3:
        # digits that are themselves powers of the radix (chunk bases used by the conversion) +- 1
        v = 0
        for i in range(n):
            k = rng.randrange(0, 70)
            d = r ** k
            while d >= (1 << w):
                k -= 1
                d = r ** k
            if rng.random() < 0.5:
                # the largest power of r below 2^(w/2) and below 2^w (half-digit / full-digit chunk bases)
                lim = (1 << (w // 2)) if rng.random() < 0.5 else (1 << w)
                d = r
                while d * r < lim:
                    d *= r
            d = max(0, min((1 << w) - 1, d + rng.choice([0, 0, 0, 1, -1])))
            if rng.random() < 0.35:
                d = rng.choice([0, rng.randrange(1 << w)])
            v |= d << (w * i)
        return "radix-power-digits", v % M
    return value(rng, w, n)


def _gen_main(rng, tier):
    reps = 4 if tier == "thorough" else 1
    for cfg in cfgs(tier):
        w, n = wn(cfg)
        if n > 20:
            continue
        for s in "ui":
            for r in range(2, 257):
                for _ in range(reps):
                    t, a = out_value(rng, w, n, r)
                    yield f"to_radix_le {s}{cfg} {r} {hx(a)}", t
                    t, a = out_value(rng, w, n, r)
                    yield f"to_radix_be {s}{cfg} {r} {hx(a)}", t
                    yield f"roundtrip_be {s}{cfg} {r} {hx(a)}", t
                    yield f"roundtrip_le {s}{cfg} {r} {hx(a)}", t
                    if r <= 36:
                        t, a = out_value(rng, w, n, r)
                        yield f"to_str_radix {s}{cfg} {r} {hx(a)}", t
                        yield f"roundtrip_str {s}{cfg} {r} {hx(a)}", t
            for r in (0, 1, 37, 257):
                yield f"to_str_radix {s}{cfg} {r} 5", "bad-radix"
                yield f"to_radix_be {s}{cfg} {r} 5", "bad-radix"
                yield f"to_radix_le {s}{cfg} {r} 5", "bad-radix"


def digit_count_boundaries(rng, tier):
    """r^k and r^k - 1 for EVERY k below the capacity (the numerals 100..0 and zz..z of every length):
    where a digit-count estimate or a chunk boundary can be off by one.  One wide and one odd-width
    configuration (added after seeded change C12-r4m1)."""
    for cfg in ["64x16", "8x17"] + (["16x20", "32x10", "8x40"] if tier == "thorough" else []):
        w, n = wn(cfg)
        M = 1 << (w * n)
        for r in list(range(2, 37)) + [37, 100, 128, 255, 256]:
            k, p = 1, r
            while p < M:
                for v in (p, p - 1):
                    s = "ui"[(k + v) & 1]
                    if r <= 36:
                        yield f"to_str_radix {s}{cfg} {r} {hx(v)}", "digit-count-boundary"
                    else:
                        yield f"to_radix_le {s}{cfg} {r} {hx(v)}", "digit-count-boundary"
                k += 1
                p *= r


def ROUTE(line):
    return _ws.route(line, "c10")


def gen(rng, tier):
    yield from _gen_main(rng, tier)
    yield from digit_count_boundaries(rng, tier)
    if tier == "thorough":
        yield from _ws.print_(rng)
