"""Requests validating the trusted leaf layer (Lean `Prim.*`) against the rustc-compiled primitives:
complete enumeration at 8 bits (quick tier), edge-biased samples at 16/32/64 bits."""
from .common import *

ARITH = ["prim_overflowing_add", "prim_overflowing_sub"]
UN_ARITH = ["prim_not", "prim_is_negative", "prim_is_positive"]
BITS = ["prim_trailing_zeros", "prim_leading_zeros", "prim_trailing_ones", "prim_leading_ones", "prim_count_ones",
        "prim_count_zeros", "prim_reverse_bits", "prim_swap_bytes", "prim_swap_bytes_endian", "prim_to_le_bytes", "prim_to_be_bytes"]


def route(line, default):
    return "prim" if line.startswith("prim_") else default


def arith(rng, tier):
    for s in "ui":
        for op in ARITH:
            for a in range(256):
                for b in range(256):
                    yield f"{op} {s}8x1 {hx(a)} {hx(b)}", "prim-exhaustive8"
        for op in UN_ARITH:
            for a in range(256):
                yield f"{op} {s}8x1 {hx(a)}", "prim-exhaustive8"
    for w in (16, 32, 64):
        for _ in range(400 if tier == "thorough" else 60):
            for s in "ui":
                for op in ARITH:
                    t, a, b = pair(rng, w, 1)
                    yield f"{op} {s}{w}x1 {hx(a)} {hx(b)}", "prim-sample"
                for op in UN_ARITH:
                    t, a = value(rng, w, 1)
                    yield f"{op} {s}{w}x1 {hx(a)}", "prim-sample"


def bits(rng, tier):
    for op in BITS:
        for a in range(256):
            yield f"{op} u8x1 {hx(a)}", "prim-exhaustive8"
        for a in range(0, 1 << 16, 1 if tier == "thorough" else 7):
            yield f"{op} u16x1 {hx(a)}", "prim-16"
    for w in (32, 64):
        for _ in range(600 if tier == "thorough" else 80):
            for op in BITS:
                t, a = value(rng, w, 1)
                yield f"{op} u{w}x1 {hx(a)}", "prim-sample"


def utf8(rng, tier):
    pieces = [b"a", b"0", b"\x7f", b"\x80", b"\xbf", b"\xc0", b"\xc1", b"\xc2", b"\xc2\x80", b"\xdf\xbf", b"\xe0\x80\x80", b"\xe0\xa0\x80",
              b"\xe0\x9f\xbf", b"\xed\x9f\xbf", b"\xed\xa0\x80", b"\xee\x80\x80", b"\xef\xbf\xbf", b"\xf0\x80\x80\x80", b"\xf0\x90\x80\x80",
              b"\xf4\x8f\xbf\xbf", b"\xf4\x90\x80\x80", b"\xf5\x80\x80\x80", b"\xff", b"\xe2\x82", b"\xe2", b"\xf0\x9f\x98", "é".encode(), "€".encode(), "😀".encode()]
    for p in pieces:
        yield f"prim_utf8_valid u8x1 {p.hex()}", "utf8-piece"
    for _ in range(3000 if tier == "thorough" else 500):
        k = rng.randrange(1, 5)
        b = b"".join(rng.choice(pieces) if rng.random() < 0.7 else bytes([rng.randrange(256)]) for _ in range(k))
        yield f"prim_utf8_valid u8x1 {b.hex()}", "utf8-mix"
