"""C12 cases: formatting traits, every flag combination; primitive oracle at 8..128 bits (post hook)."""
from .common import *

TRAITS = ["display", "debug", "binary", "octal", "lower_hex", "upper_hex", "lower_exp", "upper_exp"]
PRIM_OF = {8: "8", 16: "16", 32: "32", 64: "64", 128: "128"}


def all_flags():
    out = []
    for a in "nlcr":
        for f in ("ds" if a != "n" else "d"):
            for s in "p-":
                for al in "a-":
                    for z in "z-":
                        out.append(a + f + s + al + z)
    return out


FLAGS = all_flags()


def fmt_value(rng, w, n):
    W = w * n
    M = 1 << W
    c = rng.randrange(10)
    if c == 0:
        k = rng.randrange(0, 60)
        return "10^k", (10 ** k * rng.randrange(1, 10)) % M        # trailing zeros for the exponent forms
    if c == 1:
        # interior zero digits (zero padding of lower digits)
        v = rng.randrange(1, 1 << w) << (w * (n - 1))
        v |= rng.randrange(1 << 4)
        return "interior-zero", v % M
    if c == 2:
        return "neg-small", pat(-rng.randrange(1, 1000), W)
    return value(rng, w, n)


def gen(rng, tier):
    reps = 6 if tier == "thorough" else 2
    for cfg in cfgs(tier):
        w, n = wn(cfg)
        W = w * n
        if n > 20:
            continue
        for s in "ui":
            for tr in TRAITS:
                for fl in FLAGS:
                    for _ in range(reps):
                        t, a = fmt_value(rng, w, n)
                        width = rng.choice(["-", "-", 0, 1, 5, 12, 40, rng.randrange(0, 41), 255])
                        yield f"fmt {s}{cfg} {tr} {fl} {width} {hx(a)}", t
    yield from _wide(rng, tier)
    yield from _digit_count_boundaries(rng, tier)


def _digit_count_boundaries(rng, tier):
    """10^k and 10^k - 1 for EVERY k below the capacity, decimal traits (Display/Debug/exp): the numerals of
    every length (added after seeded change C12-r4m1: a digit-count estimate one short from 681 bits on)"""
    for cfg in ["64x16", "8x17"] + (["64x64"] if tier == "thorough" else []):
        w, n = wn(cfg)
        W = w * n
        M = 1 << W
        k, p = 1, 10
        while p < M:
            for v in (p, p - 1, pat(-p, W)):
                s = "i" if v >= M // 2 or (k & 1) else "u"
                tr = TRAITS[[0, 1, 6, 7][(k + (v & 1)) % 4]]
                yield f"fmt {s}{cfg} {tr} {rng.choice(FLAGS)} {rng.choice(['-', '-', 0, 12, 400])} {hx(v)}", "digit-count-boundary"
            k += 1
            p *= 10
        for tr, r in (("binary", 2), ("octal", 8), ("lower_hex", 16), ("upper_hex", 16)):
            k, p = 1, r
            while p < M:
                for v in (p, p - 1):
                    yield f"fmt {'ui'[k & 1]}{cfg} {tr} {rng.choice(FLAGS)} {rng.choice(['-', '-', 0, 12, 400])} {hx(v)}", "digit-count-boundary"
                k += 1
                p *= r


def _wide(rng, tier):
    """very wide values (4096 / 8192 bits): decimal exponents >= 1000, long digit strings"""
    for cfg in (["64x64"] if tier != "thorough" else ["64x64", "64x128", "8x64"]):
        w, n = wn(cfg)
        W = w * n
        M = 1 << W
        vals = [M - 1, M >> 1, (M >> 1) - 1, 10 ** 1000 % M, 25 * 10 ** 1100 % M, 10 ** 999 % M, 7, pat(-25 * 10 ** 1100, W)]
        for s in "ui":
            for tr in TRAITS:
                for a in vals:
                    fl = rng.choice(FLAGS)
                    width = rng.choice(["-", 0, 12, 1300])
                    yield f"fmt {s}{cfg} {tr} {fl} {width} {hx(a % M)}", "very-wide"


def post(ctx, lines, R, mo_sp):
    """crate vs Rust's own formatter on a primitive of the same width (8, 16, 32, 64, 128 bits)."""
    bins = ctx.get("bins")
    if not bins:
        return []
    idx, plines = [], []
    for i, l in enumerate(lines):
        t = l.split(" ")
        if t[0] != "fmt":
            continue
        w, n = wn(t[1][1:])
        if w * n in PRIM_OF:
            idx.append(i)
            plines.append("fmt_prim " + t[1][0] + PRIM_OF[w * n] + " " + " ".join(t[2:]))
    out = ctx["run_chunked"](bins["dbg"], plines)
    bad = []
    for i, o in zip(idx, out):
        for mode, outs in R.items():
            if outs[i] not in ("skip", o):
                bad.append({"line": lines[i], "mode": mode, "crate": outs[i], "spec": o + "  (Rust's formatter on the primitive of equal width)", "model": mo_sp[i]})
    ctx["prim_oracle_cases"] = len(idx)
    return bad


def evidence_extra(ctx):
    return {"primitive_oracle_cases": ctx.get("prim_oracle_cases", 0)}
