"""C12 cases: formatting traits, every flag combination (six fill classes, three of them multi-byte chars),
minimum widths placed around the natural length of the text, every quick/thorough configuration (reduced sweep
above 20 digits) plus the widest instantiation of every digit type (8192 bits); primitive oracle (post hook) for
every configuration below or at 128 bits: the primitive of equal width where one exists, otherwise
`u128`/`i128` holding the same value."""
import sys
from .common import *

if hasattr(sys, "set_int_max_str_digits"):
    sys.set_int_max_str_digits(0)          # 8192-bit values have 2467 decimal digits

TRAITS = ["display", "debug", "binary", "octal", "lower_hex", "upper_hex", "lower_exp", "upper_exp"]
DECIMAL = ("display", "debug", "lower_exp", "upper_exp")
PRIM_OF = {8: "8", 16: "16", 32: "32", 64: "64", 128: "128"}
WIDEST_CFGS = ["8x1024", "16x512", "32x256", "64x128"]     # 8192 bits with every digit type


def all_flags(fills="ds"):
    out = []
    for a in "nlcr":
        for f in (fills if a != "n" else "d"):
            for s in "p-":
                for al in "a-":
                    for z in "z-":
                        out.append(a + f + s + al + z)
    return out


FLAGS = all_flags()                                                  # the 56 one-byte-fill combinations
# fill classes u '€' (3 bytes), o '0', e 'é' (2 bytes), g U+1D11E (4 bytes); a fill needs an alignment
FLAGS_X = [f for f in all_flags("uoeg") if f[0] != "n"]              # 96 more
ALL_FLAGS = FLAGS + FLAGS_X


def dec_digits(W):
    """number of decimal digits of 2^W - 1"""
    return len(str((1 << W) - 1))


def fmt_value(rng, w, n):
    W = w * n
    M = 1 << W
    c = rng.randrange(16)
    if c == 0:
        k = rng.randrange(0, 60)
        return "10^k", (10 ** k * rng.randrange(1, 10)) % M        # trailing zeros for the exponent forms
    if c == 1:
        # interior zero digits (zero padding of lower digits)
        v = rng.randrange(1, 1 << w) << (w * (n - 1))
        v |= rng.randrange(1 << 4)
        return "interior-zero", v % M
    if c == 2:
        return "neg-small", pat(-rng.randrange(1, 1000), W)
    if c == 3:
        # m * 10^k below the capacity, for EVERY decimal length of the configuration: one-digit mantissa (the
        # `d e<k>` branch of the exponent forms), a mantissa with interior zeros, a long random mantissa
        D = dec_digits(W)
        k = rng.randrange(0, D)
        m = rng.choice([1, rng.randrange(1, 10), 10 ** rng.randrange(1, 6) + 1, rng.randrange(1, 10 ** rng.randrange(1, 8)),
                        rng.randrange(1, max(2, M // 10 ** k))])
        v = m * 10 ** k
        if v >= M:
            v = 10 ** k if 10 ** k < M else 10 ** (k - 1)
        if rng.random() < 0.4:
            v = pat(-v, W)
        return "mantissa*10^k", v
    if c == 4:
        # 10^k, 10^k +- 1 and their negatives: the numerals of every length (all configurations)
        D = dec_digits(W)
        k = rng.randrange(0, D)
        v = 10 ** k + rng.choice([0, 0, -1, 1])
        if v >= M:
            v = 10 ** (k - 1) if k else 1
        if rng.random() < 0.4:
            v = pat(-v, W)
        return "pow10+-1", v
    if c == 5:
        # every digit = a random value shifted right by a random amount (leading zero bits / nibbles / octal
        # groups inside the interior digits), some digits zero, the top digits possibly zero
        v = 0
        top = rng.randrange(1, n + 1)
        for i in range(top):
            d = rng.randrange(1 << w) >> rng.randrange(w + 1)
            if rng.random() < 0.2:
                d = 0
            v |= d << (w * i)
        return "leading-zero-bits-in-digits", v
    if c == 6:
        # r^k and r^k - 1 for the radices of the four bit-pattern forms (the text gains a digit), +1 sometimes
        r, L = rng.choice([(2, W), (8, (W + 2) // 3), (16, W // 4)])
        k = rng.randrange(0, L)
        v = r ** k - rng.choice([0, 1]) + rng.choice([0, 0, 0, r ** rng.randrange(0, k + 1)])
        return "radix-pow", pat(v, W) if rng.random() < 0.8 else pat(-v, W)
    if c == 7:
        # around the capacity of the primitive integers (8, 16, 32, 64, 128 bits) and of one / two / ... digits:
        # 2^k + small, and a random value of exactly k + 1 .. k + w bits ("fits in a u128" shortcuts and the like)
        k = rng.choice([8, 16, 32, 64, 128, 128, w, 2 * w, w * rng.randrange(1, n + 1)])
        if rng.random() < 0.5:
            v = (1 << k) + rng.choice([-2, -1, 0, 1, 2, rng.randrange(1 << min(k, 8))])
        else:
            b = k + rng.randrange(1, w + 1)
            v = rng.randrange(1 << (b - 1), 1 << b)
        return "primitive-capacity", pat(v, W) if rng.random() < 0.75 else pat(-v, W)
    return value(rng, w, n)


def natural_len(s, W, tr, fl, a):
    """length in chars of the text before padding (sign, prefix, digits) - only used to place the minimum
    widths of the requests next to it; never compared with anything"""
    z = to_signed(a, W) if s == "i" else a
    neg = False
    if tr in ("display", "debug"):
        body = len(str(abs(z)))
        neg = z < 0
    elif tr in ("lower_exp", "upper_exp"):
        neg = z < 0
        if z == 0:
            body = 3
        else:
            d = str(abs(z))
            t = d.rstrip("0")
            body = len(t) + (1 if len(t) > 1 else 0) + 1 + len(str(len(d) - 1))
    else:
        body = len(format(a, {"binary": "b", "octal": "o", "lower_hex": "x", "upper_hex": "x"}[tr]))
    pfx = 2 if fl[3] == "a" and tr not in DECIMAL else 0
    return body + (1 if neg or fl[2] == "p" else 0) + pfx


def pick_width(rng, L):
    """a minimum width: none / tiny / just below, at, just above the natural length `L` (odd and even amounts of
    padding: the centre alignment splits it unevenly) / far above / the historical fixed ones"""
    c = rng.randrange(16)
    if c == 0:
        return "-"
    if c == 1:
        return rng.choice([0, 1])
    if c == 2:
        return max(0, L - 1)
    if c == 3:
        return L
    if c == 4:
        return L + 1
    if c == 5:
        return L + 2
    if c == 6:
        return L + 3
    if c == 7:
        return L + 2 * rng.randrange(2, 20)
    if c == 8:
        return L + 2 * rng.randrange(2, 20) + 1
    if c == 9:
        return L + rng.randrange(40, 300)
    if c == 10:
        return rng.randrange(0, 256)
    if c == 11:
        return 255
    if c == 12:
        return rng.choice([5, 12, 40])
    if c == 13:
        return max(0, L - rng.randrange(2, 10))
    return rng.choice(["-", rng.randrange(0, 41), L + rng.randrange(1, 9)])


def req(rng, s, cfg, tr, fl, a, tag, width=None):
    w, n = wn(cfg)
    if width is None:
        width = pick_width(rng, natural_len(s, w * n, tr, fl, a))
    return f"fmt {s}{cfg} {tr} {fl} {width} {hx(a)}", tag


def gen(rng, tier):
    reps = 3 if tier == "thorough" else 1
    for cfg in cfgs(tier):
        w, n = wn(cfg)
        for s in "ui":
            for tr in TRAITS:
                # above 20 digits: a random quarter-or-less of the flag combinations per (sign, trait)
                flags = ALL_FLAGS if n <= 20 else rng.sample(ALL_FLAGS, 16 if tier != "thorough" else 40)
                for fl in flags:
                    for _ in range(reps):
                        t, a = fmt_value(rng, w, n)
                        yield req(rng, s, cfg, tr, fl, a, t)
                # more values per (configuration, sign, trait) than flag combinations need, random flags
                for _ in range((24 if n <= 20 else 8) * reps):
                    t, a = fmt_value(rng, w, n)
                    yield req(rng, s, cfg, tr, rng.choice(ALL_FLAGS), a, t)
    yield from _wide(rng, tier)
    yield from _widest(rng, tier)
    yield from _digit_count_boundaries(rng, tier)


def _digit_count_boundaries(rng, tier):
    """10^k, 10^k - 1 and -10^k for EVERY k below the capacity, decimal traits (Display/Debug and exp): the numerals
    of every length (added after seeded change C12-r4m1: a digit-count estimate one short from 681 bits on)"""
    for cfg in ["64x16", "8x17"] + (["64x64"] if tier == "thorough" else []):
        w, n = wn(cfg)
        W = w * n
        M = 1 << W
        k, p = 1, 10
        while p < M:
            for v in (p, p - 1, pat(-p, W)):
                s = "i" if v >= M // 2 or (k & 1) else "u"
                # every value through one plain-decimal form AND one exponent form (the exponent gains a digit at
                # k = 10, 100, 1000; the mantissa is one digit for 10^k and k digits for 10^k - 1)
                for tr in (TRAITS[(k + (v & 1)) % 2], TRAITS[6 + (k + (v & 1)) // 2 % 2]):
                    yield f"fmt {s}{cfg} {tr} {rng.choice(FLAGS)} {rng.choice(['-', '-', 0, 12, 400])} {hx(v)}", "digit-count-boundary"
            k += 1
            p *= 10
        for tr, r in (("binary", 2), ("octal", 8), ("lower_hex", 16), ("upper_hex", 16)):
            k, p = 1, r
            while p < M:
                for v in (p, p - 1):
                    yield f"fmt {'ui'[k & 1]}{cfg} {tr} {rng.choice(FLAGS)} {rng.choice(['-', '-', 0, 12, 400])} {hx(v)}", "digit-count-boundary"
                k += 1
                p *= r


def _wide(rng, tier):
    """very wide values (4096 / 8192 bits): decimal exponents >= 1000, long digit strings"""
    for cfg in (["64x64"] if tier != "thorough" else ["64x64", "64x128", "8x64"]):
        w, n = wn(cfg)
        W = w * n
        M = 1 << W
        vals = [M - 1, M >> 1, (M >> 1) - 1, 10 ** 1000 % M, 25 * 10 ** 1100 % M, 10 ** 999 % M, 7, pat(-25 * 10 ** 1100, W)]
        for s in "ui":
            for tr in TRAITS:
                for a in vals:
                    fl = rng.choice(FLAGS)
                    width = rng.choice(["-", 0, 12, 1300])
                    yield f"fmt {s}{cfg} {tr} {fl} {width} {hx(a % M)}", "very-wide"


def _widest(rng, tier):
    """the widest in-scope instantiation of EVERY digit type (8192 bits: 1024 / 512 / 256 / 128 digits), all eight
    traits, signed and unsigned, padded just around the natural length (binary: > 8192 chars).  The decimal forms
    of the 8-bit-digit type cost ~0.5 s per request in the model, hence one request per trait there (quick)."""
    for cfg in WIDEST_CFGS:
        w, n = wn(cfg)
        W = w * n
        M = 1 << W
        D = dec_digits(W)
        for tr in TRAITS:
            if tier == "thorough":
                signs = "uiuiui"
            elif tr in DECIMAL:
                signs = rng.choice("ui") if w == 8 else "ui" if w == 16 else "uiu"
            else:
                signs = "uiui"
            for s in signs:
                c = rng.randrange(6)
                if c == 0:
                    a = rng.randrange(M >> 8, M)                                   # full length
                elif c == 1:
                    a = pat(-rng.randrange(1, M >> rng.randrange(1, W)), W)         # negative, random magnitude
                elif c == 2:
                    kk = rng.randrange(D - 40, D - 1)
                    a = rng.randrange(1, 10 ** rng.randrange(1, 30)) * 10 ** kk % M  # exponent >= 1000, trailing zeros
                elif c == 3:
                    # sparse digits: interior digits zero or with leading zero bits, top digit set
                    a = rng.randrange(1, 1 << w) << (w * (n - 1))
                    for i in rng.sample(range(n - 1), min(n - 1, 12)):
                        a |= (rng.randrange(1 << w) >> rng.randrange(w)) << (w * i)
                elif c == 4:
                    a = rng.choice([M - 1, M >> 1, (M >> 1) - 1, (M >> 1) + 1])
                else:
                    a = rng.randrange(1 << rng.randrange(1, W))                   # random length
                yield req(rng, s, cfg, tr, rng.choice(ALL_FLAGS), a, "widest-8192")


def prim_line(t):
    """the `fmt_prim` request for the `fmt` request `t` (split), or None above 128 bits: the primitive of equal
    width if there is one; otherwise "a primitive integer holding the same value": `u128` for unsigned values and
    for the bit pattern of the radix forms, `i128` (sign-extended) for the signed decimal forms"""
    s, cfg = t[1][0], t[1][1:]
    w, n = wn(cfg)
    W = w * n
    if W in PRIM_OF:
        return "fmt_prim " + s + PRIM_OF[W] + " " + " ".join(t[2:])
    if W > 128:
        return None
    a = int(t[5], 16)
    if s == "i" and t[2] in DECIMAL:
        return "fmt_prim i128 " + " ".join(t[2:5]) + " " + hx(pat(to_signed(a, W), 128))
    return "fmt_prim u128 " + " ".join(t[2:])


def post(ctx, lines, R, mo_sp):
    """crate vs Rust's own formatter on a primitive holding the same value (every configuration <= 128 bits)."""
    bins = ctx.get("bins")
    if not bins:
        return []
    idx, plines = [], []
    for i, l in enumerate(lines):
        t = l.split(" ")
        if t[0] != "fmt":
            continue
        p = prim_line(t)
        if p is not None:
            idx.append(i)
            plines.append(p)
    out = ctx["run_chunked"](bins["dbg"], plines)
    bad = []
    for i, o in zip(idx, out):
        for mode, outs in R.items():
            if outs[i] not in ("skip", o):
                bad.append({"line": lines[i], "mode": mode, "crate": outs[i], "spec": o + "  (Rust's formatter on a primitive holding the same value)", "model": mo_sp[i]})
    ctx["prim_oracle_cases"] = len(idx)
    return bad


def evidence_extra(ctx):
    return {"primitive_oracle_cases": ctx.get("prim_oracle_cases", 0)}
