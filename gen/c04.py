"""C04 cases: panic behaviour per build mode. Cross-cutting: re-uses the request vocabularies (and harness
bins) of the other properties, with operands on both sides of every overflow / range boundary.

Coverage (what the property names x where a request goes):
  * operators `+ - * / %` in all six operand forms and their inherent const twins, unary `-` (3 forms), `<< >>`
    with each of the twelve primitive amount types: the c17 bin on its 15 configurations (all forms), the c04 bin
    (harness/src/bin/c04.rs) on every other configuration of the harness, up to the four 8192-bit ones;
  * unsuffixed methods pow / abs / next_power_of_two / next_multiple_of / shl / shr, ilog family: c08 c01 c06 c03 c05;
  * every `strict_*`, `checked_*`, `wrapping_*`, `overflowing_*`, `saturating_*` function of the crate (the complete
    list of Props/C04.lean's coverage table): c01 c02 c03 c05 c06 c08.  Methods whose Rust body reaches
    `cfg(debug_assertions)`-dependent code although their result does not depend on it (signed div family,
    checked_next_multiple_of, checked_ilog*) are sent WITH a `dbg|rel` word wherever the c04 bin has the
    configuration, so that the driver evaluates the model variant of the build that answers.
Configurations: the quick list of gen/common.py + those of the c17 bin + the widest instantiation of every digit type
(quick); all of them (thorough)."""
import re
from .common import *
from .c02 import mul_pair
from .c03 import div_pair
from .c08 import pow_case, log_case, iroot
from .c17 import CFGS17, QUICK17, FORMS, SFORMS, PRIM

HARNESS_BINS = ["c01", "c02", "c03", "c04", "c05", "c06", "c08", "c17"]
# harness/src/bin/c04.rs `for_config04!`: the configurations of the harness that the c17 bin does not have
CFGS04 = ["8x4", "8x7", "8x8", "8x9", "8x12", "8x16", "8x24", "8x40", "8x1024", "16x2", "16x5", "16x9", "16x12", "16x20", "16x512",
          "32x1", "32x4", "32x6", "32x10", "32x12", "32x256", "64x4", "64x5", "64x8", "64x9", "64x12", "64x64", "64x128"]
SFORMS04 = ["vv", "asr"]            # shift forms of the c04 bin
_PRIMS = "|".join(PRIM)
OPERATOR_RE = re.compile(r"^((add|sub|mul|div|rem)_(vv|vr|rv|rr|as|asr|inh)|neg_(v|r|inh)|(shl|shr)_(%s)_(vv|vr|rv|rr|as|asr)|(shl|shr)_u32_inh)$" % _PRIMS)
_DIVS = ["div", "rem", "div_euclid", "rem_euclid"]
# methods the c04 bin answers with a profile word
MODE_METHODS = set(_DIVS + [p + "_" + d for p in ("strict", "checked", "wrapping", "overflowing") for d in _DIVS]
                   + ["saturating_div", "checked_next_multiple_of", "checked_ilog", "checked_ilog2", "checked_ilog10"])
MULS = ("strict_mul", "checked_mul", "wrapping_mul", "overflowing_mul", "saturating_mul", "mul")

# input classes that are switched off until a crate-vs-spec disagreement they produce has been triaged (none so far)
ENABLE_UNTRIAGED = False


def ROUTE(line):
    p = line.split(" ")
    op, cfg = p[0], p[1][1:]
    if OPERATOR_RE.match(op):
        return "c17" if cfg in CFGS17 else "c04"
    if len(p) > 2 and p[2] in ("dbg", "rel") and op in MODE_METHODS:
        return "c04"
    if "next_power_of_two" in op:
        return "c06"
    if "pow" in op or "ilog" in op:
        return "c08"
    if op in MULS:
        return "c02"
    if "shl" in op or "shr" in op:
        return "c05"
    if "div" in op or "rem" in op or "next_multiple_of" in op:
        return "c03"
    return "c01"


def _lim(W, signed):
    M = 1 << W
    return (-(M >> 1), (M >> 1) - 1) if signed else (0, M - 1)


def _edge(rng, lo, hi):
    """a value of [lo, hi]: its ends, zero / +-1 when inside, or uniform"""
    c = [v for v in (lo, lo + 1, lo + 2, hi - 2, hi - 1, hi, 0, 1, -1, (lo + hi) // 2, (lo + hi) // 2 + 1) if lo <= v <= hi]
    return rng.choice(c) if rng.random() < 0.5 else rng.randrange(lo, hi + 1)


def boundary_pair(rng, w, n, sa, sb, kind):
    """operands (a of signedness `sa`, b of signedness `sb`) whose exact sum (`add`) / difference (`sub`) sits on
    either side of the range of a's type: lo-1, lo, lo+1, hi-1, hi, hi+1.  sa == sb: the operators and the plain
    methods; sa != sb: add_signed / add_unsigned / sub_unsigned."""
    W = w * n
    lo, hi = _lim(W, sa)
    blo, bhi = _lim(W, sb)
    for _ in range(6):
        target = rng.choice([lo - 1, lo, lo + 1, hi - 1, hi, hi + 1])
        if rng.random() < 0.5:
            a = _edge(rng, lo, hi)
            b = target - a if kind == "add" else a - target
        else:
            b = _edge(rng, blo, bhi)
            a = target - b if kind == "add" else target + b
        if lo <= a <= hi and blo <= b <= bhi:
            return "boundary", pat(a, W), pat(b, W)
    t, x, y = pair(rng, w, n)
    return t, x, y


def unary_value(rng, w, n):
    W = w * n
    M = 1 << W
    H = M >> 1
    if rng.random() < 0.75:
        return "unary-edge", rng.choice([H, H + 1, H - 1, M - 1, 0, 1, 2, M - 2, H + 2])
    return value(rng, w, n)


def amount(rng, ty, W):
    """a shift amount of primitive type `ty`: both sides of 0 and of BITS; values whose `as u32` truncation
    (release builds) is small although they are out of range themselves (2^32 + k, -2^32 + k, 2^64 + k, -k)"""
    bits, signed = PRIM[ty]
    lo, hi = (-(1 << (bits - 1)), (1 << (bits - 1)) - 1) if signed else (0, (1 << bits) - 1)
    r = rng.randrange(W)
    k = rng.choice([0, 1, W - 1, W, W + 1, 2 * W, 2 * W - 1, -1, -W, -r, lo, hi, lo + r, hi - r,
                    (1 << 32) - 1, 1 << 32, (1 << 32) + r, (1 << 32) + W, (1 << 32) - W, -(1 << 32) + r, -(1 << 32),
                    (1 << 64) + r, (3 << 32) + r, -(1 << 64) + r, (1 << 31) + r, -(1 << 31) + r,
                    r, r, r, r, rng.randrange(W), rng.randrange(W)])
    return max(lo, min(hi, k))


def mul_edge(rng, w, n, sg):
    """digit-aligned factors d1*B^i (+ low part), d2*B^j (+ low part) with i + j in {N-2, N-1, N}: the top partial
    product lands on / just below / just beyond the most significant digit, with small and with extreme top digits
    (the overflow test of a multiplication is about digit positions first, carries second)"""
    W = w * n
    B = 1 << w
    i = rng.randrange(n)
    j = max(0, min(n - 1, n - i - rng.choice([0, 1, 1, 2])))

    def part(k):
        d = rng.choice([1, 1, 2, 3, B // 2 - 1, B // 2, B - 1, rng.randrange(1, B)])
        low = rng.choice([0, 0, (1 << (w * k)) - 1, rng.randrange(1 << (w * k))]) if k else 0
        return (d << (w * k)) + low

    a, b = part(i), part(j)
    if sg:
        a = a if rng.random() < 0.5 else -a
        b = b if rng.random() < 0.5 else -b
    return "mul-digit-edge", pat(a, W), pat(b, W)


def nmo_pair(rng, w, n, sg):
    """next_multiple_of: the multiple just beyond MAX (positive rhs), just below MIN (signed, negative rhs:
    `self.sub(rem)`), zero rhs, and the division classes"""
    W = w * n
    M = 1 << W
    H = M >> 1
    c = rng.random()
    t, a, b = div_pair(rng, w, n, sg)
    small = rng.choice([2, 3, 5, 7, 10, (1 << w) - 1, (1 << w) + 1, rng.randrange(2, 1 << min(W - 1, 40)), rng.randrange(1, H)])
    if small >= H:
        small = 3
    if c < 0.3:
        a = pat((H if sg else M) - rng.randrange(1, 4), W)
        t = "nmo-above-max"
        if rng.random() < 0.5:
            b = small
    elif sg and c < 0.6:
        a = pat(-H + rng.randrange(0, 4), W)
        b = pat(-small, W)
        t = "nmo-below-min"
    elif sg and c < 0.7:
        # negative self / negative rhs, all four sign combinations around a multiple
        q = rng.randrange(-5, 6)
        sb = rng.choice([small, -small])
        a = pat(q * sb + rng.choice([-1, 0, 1]), W)
        b = pat(sb, W)
        t = "nmo-signs"
    elif c < 0.75:
        b = 0
        t = "nmo-zero"
    return t, a, b


def ilog_case(rng, w, n, sg):
    """ilog arguments: the classes of C08 plus (a) every kind of non-positive argument with every kind of base (powers
    of two / of the digit radix, one- and multi-digit, near the limits), (b) every kind of base < 2 with every kind of
    argument, (c) arguments at the top of the range with bases whose square / cube straddles the limit (the running
    power inside `iilog` must not overflow: that would be a debug-only panic of checked_ilog)"""
    W = w * n
    M = 1 << W
    lim = (M >> 1) if sg else M
    B = 1 << w

    def base():
        k = rng.randrange(1, W)
        return rng.choice([2, 3, 4, 7, 10, 16, B - 1, B, B + 1, 1 << k, (1 << k) - 1, B ** rng.randrange(1, n + 1), lim - 1, lim - 2,
                           iroot(lim - 1, 2) + rng.choice([-1, 0, 1]), rng.randrange(2, lim), rng.randrange(2, 1 << min(W - 1, 40))]) % lim

    r = rng.random()
    if r < 0.15:
        a = rng.choice([0, 0, M - 1, M >> 1, (M >> 1) + 1, pat(-rng.randrange(1, lim), W)]) if sg else 0
        return "ilog-nonpositive", a, max(2, base()) % M
    if r < 0.3:
        b = rng.choice([0, 1, M - 1, M >> 1, M - 2]) if sg else rng.choice([0, 1])
        a = rng.choice([0, 1, 2, lim - 1, value(rng, w, n)[1] % lim])
        return "ilog-badbase", a, b
    if r < 0.5:
        a = lim - 1 - rng.choice([0, 0, 1, 2, rng.randrange(1 << (W // 2))])
        j = rng.choice([2, 2, 3, 4])
        rt = iroot(lim - 1, j)
        b = rng.choice([max(2, rt + rng.choice([-1, 0, 0, 1, 2])), max(2, base())])
        return "ilog-top", a % M, b % lim
    return log_case(rng, w, n, sg)


def cases(rng, cfg, s, mode):
    """one round of requests for configuration `cfg`, signedness letter `s`, build mode word `mode`"""
    w, n = wn(cfg)
    W = w * n
    M = 1 << W
    H = M >> 1
    sg = s == "i"
    in17 = cfg in CFGS17
    c = f"{s}{cfg}"

    def meth(op, args):
        # a method whose model takes `dbg` although its answer does not depend on it: with the profile word where
        # the c04 bin has the configuration (the other build answers `skip`), without it on the c17 configurations
        return f"{op} {c} {args}" if in17 else f"{op} {c} {mode} {args}"

    # ---- operators + - and the whole add / sub family on the same boundary operands
    for op in ("add", "sub"):
        t, a, b = boundary_pair(rng, w, n, sg, sg, op)
        ab = f"{hx(a)} {hx(b)}"
        yield f"{op}_{rng.choice(FORMS)} {c} {mode} {ab}", t
        for p in ("strict", "checked", "wrapping", "overflowing", "saturating"):
            yield f"{p}_{op} {c} {ab}", t
    # ---- mixed-sign forms: BUint::*_add_signed, BInt::*_add_unsigned / *_sub_unsigned
    for name, kind in ((("add_unsigned", "add"), ("sub_unsigned", "sub")) if sg else (("add_signed", "add"),)):
        t, a, b = boundary_pair(rng, w, n, sg, not sg, kind)
        for p in ("strict", "checked", "wrapping", "overflowing", "saturating"):
            yield f"{p}_{name} {c} {hx(a)} {hx(b)}", "mixed-" + t
    # ---- *
    t, a, b = mul_edge(rng, w, n, sg) if rng.random() < 0.35 else mul_pair(rng, w, n, sg)
    ab = f"{hx(a)} {hx(b)}"
    yield f"mul_{rng.choice(FORMS)} {c} {mode} {ab}", t
    yield f"mul {c} {mode} {ab}", t
    for p in ("strict", "checked", "wrapping", "overflowing", "saturating"):
        yield f"{p}_mul {c} {ab}", t
    # ---- / % : zero divisor, MIN / -1, MIN % -1
    for op in ("div", "rem"):
        t, a, b = div_pair(rng, w, n, sg)
        r = rng.random()
        if r < 0.25:
            b, t = 0, "zero-divisor"
        elif sg and r < 0.5:
            a, b, t = H, M - 1, "min/-1"
        elif sg and r < 0.6:
            a, b, t = rng.choice([H, H + 1, H - 1, M - 1, 1]), rng.choice([M - 1, 1, M - 2, H]), "near-min/-1"
        ab = f"{hx(a)} {hx(b)}"
        yield f"{op}_{rng.choice(FORMS)} {c} {mode} {ab}", t
        for f in (op, f"{op}_euclid", f"strict_{op}", f"strict_{op}_euclid", f"checked_{op}", f"checked_{op}_euclid",
                  f"wrapping_{op}", f"wrapping_{op}_euclid", f"overflowing_{op}", f"overflowing_{op}_euclid"):
            yield meth(f, ab), t
        if op == "div":
            yield meth("saturating_div", ab), t
    # ---- unary - , abs, and the neg / abs families
    t, a = unary_value(rng, w, n)
    if sg:
        yield f"neg_{rng.choice(['v', 'r', 'inh'])} {c} {mode} {hx(a)}", t
        yield f"abs {c} {mode} {hx(a)}", t
        for p in ("strict", "checked", "wrapping", "overflowing", "saturating"):
            yield f"{p}_neg {c} {hx(a)}", t
            yield f"{p}_abs {c} {hx(a)}", t
    else:
        for p in ("strict", "checked", "wrapping", "overflowing"):
            yield f"{p}_neg {c} {hx(a)}", t
    # ---- << >> with every primitive amount type, every form the answering bin has
    for ty in PRIM:
        sh = rng.choice(["shl", "shr"])
        t, a = value(rng, w, n)
        k = amount(rng, ty, W)
        yield f"{sh}_{ty}_{rng.choice(SFORMS if in17 else SFORMS04)} {c} {mode} {hx(a)} {k}", "amount"
    t, a = value(rng, w, n)
    k = rng.choice([0, 1, W - 1, W, W + 1, 2 * W, (1 << 32) - 1, (1 << 32) - W, 1 << 31, rng.randrange(W), rng.randrange(W)])
    for sh in ("shl", "shr"):
        yield f"{sh}_u32_inh {c} {mode} {hx(a)} {k}", "amount"
        yield f"{sh} {c} {mode} {hx(a)} {k}", "amount"
        for p in ("strict", "checked", "wrapping", "overflowing"):
            yield f"{p}_{sh} {c} {hx(a)} {k}", "amount"
    # ---- pow
    t, a, e = pow_case(rng, w, n, sg)
    yield f"pow {c} {mode} {hx(a)} {e}", t
    for p in ("strict", "checked", "wrapping", "overflowing", "saturating"):
        yield f"{p}_pow {c} {hx(a)} {e}", t
    # ---- ilog family
    t, a, b = ilog_case(rng, w, n, sg)
    yield f"ilog {c} {mode} {hx(a)} {hx(b)}", t
    yield f"ilog2 {c} {mode} {hx(a)}", t
    yield f"ilog10 {c} {mode} {hx(a)}", t
    yield meth("checked_ilog", f"{hx(a)} {hx(b)}"), t
    yield meth("checked_ilog2", hx(a)), t
    yield meth("checked_ilog10", hx(a)), t
    # ---- next_multiple_of
    t, a, b = nmo_pair(rng, w, n, sg)
    yield f"next_multiple_of {c} {mode} {hx(a)} {hx(b)}", t
    yield meth("checked_next_multiple_of", f"{hx(a)} {hx(b)}"), t
    # ---- next_power_of_two family
    if not sg:
        a = rng.choice([0, 1, 2, 3, H - 1, H, H + 1, M - 1, (1 << rng.randrange(W)) + rng.choice([-1, 0, 1]), value(rng, w, n)[1]]) % M
        yield f"next_power_of_two {c} {mode} {hx(a)}", "npot"
        yield f"checked_next_power_of_two {c} {hx(a)}", "npot"
        yield f"wrapping_next_power_of_two {c} {hx(a)}", "npot"


def huge_cases(rng, cfg, s, mode):
    """8192 bits: the same classes as `cases`, without the requests whose model evaluation is slow at 1024 digits
    (general pow / ilog / division by long divisors are C08's / C03's dense requests; here: the panic boundaries)"""
    w, n = wn(cfg)
    W = w * n
    M = 1 << W
    H = M >> 1
    sg = s == "i"
    c = f"{s}{cfg}"
    for op in ("add", "sub"):
        t, a, b = boundary_pair(rng, w, n, sg, sg, op)
        ab = f"{hx(a)} {hx(b)}"
        yield f"{op}_{rng.choice(FORMS)} {c} {mode} {ab}", "huge-" + t
        p = rng.choice(["strict", "checked", "wrapping", "overflowing", "saturating"])
        yield f"{p}_{op} {c} {ab}", "huge-" + t
    for name, kind in ((("add_unsigned", "add"), ("sub_unsigned", "sub")) if sg else (("add_signed", "add"),)):
        t, a, b = boundary_pair(rng, w, n, sg, not sg, kind)
        p = rng.choice(["strict", "checked", "wrapping", "overflowing", "saturating"])
        yield f"{p}_{name} {c} {hx(a)} {hx(b)}", "huge-mixed-" + t
    # products straddling the limit: 2^i * 2^j, (2^i - 1)(2^j + 1), MIN * -1
    i = rng.randrange(W)
    j = rng.choice([W - i - 2, W - i - 1, W - i]) % W
    a, b = rng.choice([(1 << i, 1 << j), ((1 << i) - 1, (1 << j) + 1), (H, M - 1), (M - 1, H), (pat(-(1 << i), W), 1 << j),
                       mul_edge(rng, w, n, sg)[1:], mul_edge(rng, w, n, sg)[1:]])
    ab = f"{hx(a % M)} {hx(b % M)}"
    yield f"mul_{rng.choice(FORMS)} {c} {mode} {ab}", "huge-mul"
    yield f"{rng.choice(['strict', 'checked', 'wrapping', 'overflowing', 'saturating'])}_mul {c} {ab}", "huge-mul"
    for op in ("div", "rem"):
        r = rng.random()
        a = rng.choice([H, H + 1, M - 1, rng.randrange(M)])
        b = 0 if r < 0.3 else (M - 1 if r < 0.7 else rng.choice([1, 2, (1 << w) - 1, H, M - 2]))
        ab = f"{hx(a)} {hx(b)}"
        yield f"{op}_{rng.choice(FORMS)} {c} {mode} {ab}", "huge-div"
        p = rng.choice(["", "strict_", "checked_", "wrapping_", "overflowing_"])
        yield f"{p}{op}{rng.choice(['', '_euclid'])} {c} {mode} {ab}", "huge-div"
    t, a = unary_value(rng, w, n)
    if sg:
        yield f"neg_{rng.choice(['v', 'r', 'inh'])} {c} {mode} {hx(a)}", "huge-unary"
        yield f"abs {c} {mode} {hx(a)}", "huge-unary"
        p = rng.choice(["strict", "checked", "wrapping", "overflowing", "saturating"])
        yield f"{p}_neg {c} {hx(a)}", "huge-unary"
        yield f"{p}_abs {c} {hx(a)}", "huge-unary"
    else:
        yield f"{rng.choice(['strict', 'checked', 'wrapping', 'overflowing'])}_neg {c} {hx(a)}", "huge-unary"
    # at 8192 bits every u8 / i8 amount is in range and BITS itself needs 14 bits
    for ty in PRIM:
        for sh in ("shl", "shr"):
            a = rng.choice([1, M - 1, H, H - 1, rng.randrange(M)])
            yield f"{sh}_{ty}_{rng.choice(SFORMS04)} {c} {mode} {hx(a)} {amount(rng, ty, W)}", "huge-amount"
    k = rng.choice([0, W - 1, W, W + 1, 255, 256, 65535, 65536, (1 << 32) - 1, rng.randrange(W)])
    sh = rng.choice(["shl", "shr"])
    yield f"{sh}_u32_inh {c} {mode} {hx(a)} {k}", "huge-amount"
    yield f"{sh} {c} {mode} {hx(a)} {k}", "huge-amount"
    yield f"{rng.choice(['strict', 'checked', 'wrapping', 'overflowing'])}_{sh} {c} {hx(a)} {k}", "huge-amount"
    # powers of +-2^k around the limit with a small exponent (a 1024-digit model multiplication takes ~0.1 s: the
    # dense / long-exponent cases at this width are C08's)
    k = rng.choice([W // 2, W // 2 - 1, W // 3, W // 4 + 1, W // 5, W - 1])
    e = rng.choice([(W - 1) // k, (W - 1) // k + 1, W // k, W // k + 1, max(0, (W - 1) // k - 1)])
    a = pat(-(1 << k), W) if sg and rng.random() < 0.5 else 1 << k
    p = rng.choice(["", "", "strict_", "checked_", "wrapping_", "overflowing_", "saturating_"])
    yield (f"{p}pow {c} {hx(a)} {e}" if p else f"pow {c} {mode} {hx(a)} {e}"), "huge-pow"
    a = rng.choice([0, 1, M - 1, H, H - 1, 1 << rng.randrange(W), rng.randrange(M)])
    yield f"ilog2 {c} {mode} {hx(a)}", "huge-ilog"
    yield f"checked_ilog2 {c} {mode} {hx(a)}", "huge-ilog"
    yield f"ilog {c} {mode} {hx(a)} {hx(rng.choice([0, 1, M - 1, H]))}", "huge-ilog-badbase"
    # next_multiple_of just beyond MAX / below MIN with a one-digit rhs
    d = rng.choice([2, 3, 7, (1 << w) - 1])
    if sg and rng.random() < 0.5:
        a, b = pat(-H + rng.randrange(0, 3), W), pat(-d, W)
    else:
        a, b = pat((H if sg else M) - rng.randrange(1, 3), W), d
    yield f"next_multiple_of {c} {mode} {hx(a)} {hx(b)}", "huge-nmo"
    yield f"checked_next_multiple_of {c} {mode} {hx(a)} {hx(b)}", "huge-nmo"
    if not sg:
        a = rng.choice([H - 1, H, H + 1, M - 1, (1 << rng.randrange(W)) + 1])
        yield f"next_power_of_two {c} {mode} {hx(a)}", "huge-npot"
        yield f"{rng.choice(['checked', 'wrapping'])}_next_power_of_two {c} {hx(a)}", "huge-npot"


def config_list(tier):
    base = list(QUICK_CFGS) + [c for c in QUICK17 if c not in QUICK_CFGS]
    if tier == "thorough":
        base = list(THOROUGH_CFGS) + [c for c in CFGS17 if c not in THOROUGH_CFGS]
    return [c for c in base if c not in HUGE_CFGS]


def gen(rng, tier):
    for cfg in config_list(tier):
        w, n = wn(cfg)
        W = w * n
        if tier == "thorough":
            reps = 48 if W <= 256 else 24 if W <= 1024 else 8
        else:
            reps = 6 if W <= 256 else 4 if W <= 1024 else 2
        for _ in range(reps):
            for s in "ui":
                for mode in ("dbg", "rel"):
                    yield from cases(rng, cfg, s, mode)
    for cfg in HUGE_CFGS:
        for _ in range(10 if tier == "thorough" else 2):
            for s in "ui":
                for mode in ("dbg", "rel"):
                    yield from huge_cases(rng, cfg, s, mode)
