"""C04 cases: panic behaviour per build mode. Cross-cutting: re-uses the request vocabularies (and harness
bins) of the other properties, with operands on both sides of every overflow / range boundary."""
import re
from .common import *
from .c02 import mul_pair
from .c03 import div_pair
from .c08 import pow_case, log_case
from .c17 import QUICK17, CFGS17, PRIM, prim_amount

HARNESS_BINS = ["c01", "c02", "c03", "c05", "c06", "c08", "c17"]
C17_RE = re.compile(r"^((add|sub|mul|div|rem)_(vv|as)|neg_v|(shl|shr)_[a-z0-9]+_(vv|as))$")


def ROUTE(line):
    op = line.split(" ", 1)[0]
    if C17_RE.match(op):
        return "c17"
    if "next_power_of_two" in op:
        return "c06"
    if "pow" in op or "ilog" in op:
        return "c08"
    if op in ("strict_mul", "checked_mul", "wrapping_mul", "overflowing_mul", "saturating_mul", "mul"):
        return "c02"
    if "sh" in op and ("shl" in op or "shr" in op):
        return "c05"
    if "div" in op or "rem" in op or "next_multiple_of" in op:
        return "c03"
    return "c01"


def boundary_pair(rng, w, n, signed, kind):
    """operands whose exact add/sub result sits on either side of the representable range"""
    W = w * n
    M = 1 << W
    lo, hi = (-(M >> 1), (M >> 1) - 1) if signed else (0, M - 1)
    a = rng.randrange(lo, hi + 1) if rng.random() < 0.5 else rng.choice([lo, hi, lo + 1, hi - 1, 0, -1 if signed else 1])
    target = rng.choice([lo - 1, lo, lo + 1, hi - 1, hi, hi + 1])
    b = target - a if kind == "add" else a - target
    if lo <= b <= hi:
        return "boundary", pat(a, W), pat(b, W)
    t, x, y = pair(rng, w, n)
    return t, x, y


def gen(rng, tier):
    reps = 30 if tier == "thorough" else 12
    for cfg in (CFGS17 if tier == "thorough" else QUICK17):
        w, n = wn(cfg)
        W = w * n
        M = 1 << W
        for _ in range(reps):
            for s in "ui":
                sg = s == "i"
                for mode in ("dbg", "rel"):
                    # operators + - * / % and unary -
                    for op, kind in (("add", "add"), ("sub", "sub")):
                        t, a, b = boundary_pair(rng, w, n, sg, kind)
                        yield f"{op}_vv {s}{cfg} {mode} {hx(a)} {hx(b)}", t
                        yield f"{op}_as {s}{cfg} {mode} {hx(a)} {hx(b)}", t
                        yield f"strict_{op} {s}{cfg} {hx(a)} {hx(b)}", t
                        yield f"checked_{op} {s}{cfg} {hx(a)} {hx(b)}", t
                    t, a, b = mul_pair(rng, w, n, sg)
                    yield f"mul_vv {s}{cfg} {mode} {hx(a)} {hx(b)}", t
                    yield f"mul {s}{cfg} {mode} {hx(a)} {hx(b)}", t
                    yield f"strict_mul {s}{cfg} {hx(a)} {hx(b)}", t
                    yield f"checked_mul {s}{cfg} {hx(a)} {hx(b)}", t
                    for op in ("div", "rem"):
                        t, a, b = div_pair(rng, w, n, sg)
                        if rng.random() < 0.3:
                            b = 0
                        if sg and rng.random() < 0.3:
                            a, b = M >> 1, M - 1
                        yield f"{op}_vv {s}{cfg} {mode} {hx(a)} {hx(b)}", t
                        for f in (op, f"{op}_euclid", f"strict_{op}", f"strict_{op}_euclid", f"checked_{op}", f"checked_{op}_euclid", f"wrapping_{op}", f"wrapping_{op}_euclid",
                                  f"overflowing_{op}", f"overflowing_{op}_euclid"):
                            yield f"{f} {s}{cfg} {hx(a)} {hx(b)}", t
                        if op == "div":
                            yield f"saturating_div {s}{cfg} {hx(a)} {hx(b)}", t
                    if sg:
                        a = rng.choice([M >> 1, (M >> 1) + 1, (M >> 1) - 1, M - 1, 0, 1, value(rng, w, n)[1]])
                        yield f"neg_v i{cfg} {mode} {hx(a)}", "neg"
                        yield f"abs i{cfg} {mode} {hx(a)}", "abs"
                        yield f"strict_neg i{cfg} {hx(a)}", "neg"
                        yield f"strict_abs i{cfg} {hx(a)}", "abs"
                        yield f"checked_neg i{cfg} {hx(a)}", "neg"
                        yield f"checked_abs i{cfg} {hx(a)}", "abs"
                    # shifts with every primitive amount type
                    for ty in PRIM:
                        sh = rng.choice(["shl", "shr"])
                        t, a = value(rng, w, n)
                        k = prim_amount(rng, ty, W)
                        yield f"{sh}_{ty}_vv {s}{cfg} {mode} {hx(a)} {k}", "amount"
                    t, a = value(rng, w, n)
                    k = rng.choice([0, W - 1, W, W + 1, (1 << 32) - 1, rng.randrange(W)])
                    for sh in ("shl", "shr"):
                        yield f"strict_{sh} {s}{cfg} {hx(a)} {k}", "amount"
                        yield f"checked_{sh} {s}{cfg} {hx(a)} {k}", "amount"
                        yield f"wrapping_{sh} {s}{cfg} {hx(a)} {k}", "amount"
                        yield f"overflowing_{sh} {s}{cfg} {hx(a)} {k}", "amount"
                    # unsuffixed methods
                    t, a, e = pow_case(rng, w, n, sg)
                    yield f"pow {s}{cfg} {mode} {hx(a)} {e}", t
                    yield f"strict_pow {s}{cfg} {hx(a)} {e}", t
                    yield f"checked_pow {s}{cfg} {hx(a)} {e}", t
                    t, a, b = log_case(rng, w, n, sg)
                    yield f"ilog {s}{cfg} {mode} {hx(a)} {hx(b)}", t
                    yield f"ilog2 {s}{cfg} {mode} {hx(a)}", t
                    yield f"ilog10 {s}{cfg} {mode} {hx(a)}", t
                    yield f"checked_ilog {s}{cfg} {hx(a)} {hx(b)}", t
                    yield f"checked_ilog2 {s}{cfg} {hx(a)}", t
                    yield f"checked_ilog10 {s}{cfg} {hx(a)}", t
                    t, a, b = div_pair(rng, w, n, sg)
                    if rng.random() < 0.5:
                        # multiple just beyond the range
                        a = pat(((M >> 1) if sg else M) - rng.randrange(1, 4), W)
                    yield f"next_multiple_of {s}{cfg} {mode} {hx(a)} {hx(b)}", t
                    yield f"checked_next_multiple_of {s}{cfg} {hx(a)} {hx(b)}", t
                    if not sg:
                        a = rng.choice([0, 1, (M >> 1) - 1, M >> 1, (M >> 1) + 1, M - 1, value(rng, w, n)[1]])
                        yield f"next_power_of_two u{cfg} {mode} {hx(a)}", "npot"
                        yield f"checked_next_power_of_two u{cfg} {hx(a)}", "npot"
                        yield f"wrapping_next_power_of_two u{cfg} {hx(a)}", "npot"
