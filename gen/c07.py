"""C07 cases: comparison, equality, hashing, sign.

Every two-operand operation (inherent const fns, operators, `Ord`/`PartialOrd` trait forms, `HashSet`
lookup) sees every pair class on every configuration, including the edge grid, the 8192-bit
instantiations of all four digit types and (thorough) the complete 8-bit enumeration.
"""
from .common import *

# other public routes to this property's operations (check.py step 2d): the neighbour generator's requests whose
# operation matches are part of this run, answered by the neighbour's harness bin
NEIGHBOURS = {"C17": r"(cmp_|ord_|max_|min_|clamp_)"}

BIN = ["eq", "ne", "cmp", "lt", "le", "gt", "ge", "max", "min", "op_eq", "op_ne", "op_lt", "op_le", "op_gt", "op_ge",
       "ord_cmp", "partial_cmp", "ord_max", "ord_min", "hash_set"]
CLAMP = ["clamp", "ord_clamp"]
SIGN = ["signum", "is_positive", "is_negative"]


def _digits(v, w, n):
    m = (1 << w) - 1
    return [(v >> (w * i)) & m for i in range(n)]


def _undigits(ds, w):
    return sum(d << (w * i) for i, d in enumerate(ds))


def cmp_pair(rng, w, n):
    W = w * n
    B = 1 << w
    c = rng.randrange(14)
    if c < 3:
        t, a, b = pair(rng, w, n)
        return t, a, b
    if c in (8, 9):
        # exactly one digit differs, at every position equally likely
        _, a = value(rng, w, n)
        i = rng.randrange(n)
        d = rng.choice([1, 1 << (w - 1), (1 << w) - 1, rng.randrange(1, 1 << w)])
        return "one-digit-diff@%d" % (i % 8), a, a ^ (d << (w * i))
    if c == 10:
        # two digits differ and order the two values in OPPOSITE directions (the higher one must win);
        # everything else agrees.  n = 1: falls back to a single differing digit.
        _, a = value(rng, w, n)
        da = _digits(a, w, n)
        db = list(da)
        j = rng.randrange(n)
        i = rng.randrange(j) if j else 0
        def two():
            if rng.random() < 0.5:
                x = rng.randrange(B - 1)
                return [x, rng.randrange(x + 1, B)]
            return rng.choice([[0, 1], [B // 2 - 1, B // 2], [B - 2, B - 1], [0, B - 1]])
        hi, lo = two(), two()
        da[j], db[j] = hi[1], hi[0]
        if i != j:
            da[i], db[i] = lo[0], lo[1]
        a, b = _undigits(da, w), _undigits(db, w)
        if rng.random() < 0.5:
            a, b = b, a
        return "two-digit-diff-opposed", a, b
    if c == 11:
        # k digits (same positions) re-drawn from the extreme-digit set, the rest identical; half the time
        # the same XOR mask is applied at every chosen position
        _, a = value(rng, w, n)
        k = rng.randrange(1, min(n, 4) + 1)
        if rng.random() < 0.5:
            i0 = rng.randrange(n - k + 1)            # a contiguous run of digits (word-at-a-time folds)
            pos = list(range(i0, i0 + k))
        else:
            pos = rng.sample(range(n), k)
        b = a
        if rng.random() < 0.5:
            m = rng.choice([1, B // 2, B - 1, rng.randrange(1, B)])
            for i in pos:
                b ^= m << (w * i)
        else:
            for i in pos:
                b = (b & ~((B - 1) << (w * i))) | (digit_value(rng, w) << (w * i))
        return "k-digit-diff", a, b
    if c == 12:
        # both operands are sign-/zero-extensions of narrow values around +-2^(w*j-1), +-2^(w*j) (the zones
        # where "fits in j digits" tests change their answer)
        j = rng.randrange(1, n + 1)

        def narrow():
            base = rng.choice([0, 1 << (w * j - 1), -(1 << (w * j - 1)), 1 << (w * j), -(1 << (w * j)),
                               rng.randrange(-(1 << (w * j)), (1 << (w * j)) + 1)])
            return pat(base + rng.randrange(-2, 3), W)
        return "narrow-zone", narrow(), narrow()
    # agree on the k leading digits, differ below
    _, a = value(rng, w, n)
    k = rng.randrange(0, n + 1)
    lowbits = w * (n - k)
    if lowbits == 0:
        return "agree-all", a, a
    b = (a >> lowbits << lowbits) | rng.randrange(1 << lowbits)
    if c == 3:
        # same magnitude opposite sign pattern
        return "opp", a, pat(-a, W)
    if c == 4:
        # zero top digit, non-zero tail
        a &= (1 << (w * (n - 1))) - 1
        return "zerotop", a, b
    if c == 13:
        # agree on the k leading digits and differ by +-1 in the value below (carry / borrow runs)
        return "agree-adjacent", a, pat(a + rng.choice([-1, 1]), W)
    return "agree%d" % k, a, b


def clamp_triple(rng, w, n, signed):
    """(tag, self, mn, mx): bounds that share leading digits, `self` inside / on / next to [mn, mx]."""
    W = w * n
    key = (lambda v: to_signed(v, W)) if signed else (lambda v: v)
    t, mn, mx = cmp_pair(rng, w, n)
    if key(mn) > key(mx):
        mn, mx = mx, mn
    lo, hi = key(mn), key(mx)
    c = rng.randrange(12)
    if c == 0:
        x, tg = mn, "at-min"
    elif c == 1:
        x, tg = mx, "at-max"
    elif c == 2:
        x, tg = pat(lo - 1, W), "below-min"      # wraps to the far end at the type's minimum
    elif c == 3:
        x, tg = pat(hi + 1, W), "above-max"
    elif c == 4:
        x, tg = pat((lo + hi) // 2, W), "midpoint"
    elif c in (5, 6):
        base = mn if c == 5 else mx
        lb = w * rng.randrange(1, n + 1)
        x, tg = (base >> lb << lb) | rng.randrange(1 << lb), "low-digits-redrawn"
    elif c == 7:
        base = rng.choice([mn, mx])
        x, tg = base ^ (rng.choice([1, 1 << (w - 1), (1 << w) - 1]) << (w * rng.randrange(n))), "one-digit-off-bound"
    elif c in (8, 9):
        x, tg = pat(lo + rng.randrange(hi - lo + 1), W), "inside"
    elif c == 10:
        x, tg = pat(rng.choice([lo, hi]) + rng.randrange(-3, 4), W), "near-bound"
    else:
        x, tg = value(rng, w, n)[1], "independent"
    if rng.random() < 0.12:
        mn, mx = mx, mn                              # min > max: the assert (unless the bounds are equal)
        tg += "-swapped"
    return "clamp-" + tg, x, mn, mx


def sign_value(rng, w, n):
    """patterns for signum / is_positive / is_negative: the sign lives in the top digit, zero-ness in all digits"""
    W = w * n
    B = 1 << w
    c = rng.randrange(8)
    if c < 3:
        return value(rng, w, n)
    if c == 3:
        # exactly one non-zero digit, at any position
        i = rng.randrange(n)
        return "single-digit@%d" % (i % 8), rng.choice([1, B // 2, B - 1, B // 2 - 1, rng.randrange(1, B)]) << (w * i)
    top = rng.choice([0, 0, B - 1, B // 2, B // 2 - 1, 1])
    tail_bits = w * (n - 1)
    if c == 4 or tail_bits == 0:
        tail = 0
    elif c == 5:
        tail = (1 << tail_bits) - 1
    elif c == 6:
        tail = 1 << rng.randrange(tail_bits)
    else:
        tail = rng.randrange(1 << tail_bits)
    return "top%x-tail" % (top >> (w - 4)), (top << tail_bits) | tail


def _gen_main(rng, tier):
    reps = 150 if tier == "thorough" else 40
    for cfg in cfgs(tier):
        w, n = wn(cfg)
        for _ in range(reps if n <= 40 else 10):
            for s in "ui":
                for op in BIN:
                    t, a, b = cmp_pair(rng, w, n)
                    yield f"{op} {s}{cfg} {hx(a)} {hx(b)}", t
                for op in CLAMP:
                    for _k in range(2):
                        t, x, mn, mx = clamp_triple(rng, w, n, s == "i")
                        yield f"{op} {s}{cfg} {hx(x)} {hx(mn)} {hx(mx)}", t
                t, a, b = cmp_pair(rng, w, n)
                yield f"hash_eq {s}{cfg} {hx(a)} {hx(a)}", "hash"
                yield f"hash_eq {s}{cfg} {hx(a)} {hx(b)}", "hash"
                yield f"hash_routes {s}{cfg} {hx(b)}", "hash-routes"
                yield f"hash_digits {s}{cfg} {hx(b)}", "hash-digits"
                if s == "i":
                    for op in SIGN:
                        t, a = sign_value(rng, w, n)
                        yield f"{op} i{cfg} {hx(a)}", t
    if tier == "thorough":
        rest = [op for op in BIN if op not in ("cmp", "eq", "lt", "ge")]
        for s in "ui":
            for op in ["cmp", "eq", "lt", "ge"]:
                for a in range(256):
                    for b in range(256):
                        yield f"{op} {s}8x1 {hx(a)} {hx(b)}", "exhaustive8"
            # every other two-operand form on an evenly spread 1/len(rest) of the complete 8-bit square
            for a in range(256):
                for b in range(256):
                    op = rest[(a * 7 + b) % len(rest)]
                    yield f"{op} {s}8x1 {hx(a)} {hx(b)}", "exhaustive8-rotated"
            for a in range(256):
                yield f"hash_routes {s}8x1 {hx(a)}", "exhaustive8"
                if s == "i":
                    for op in SIGN:
                        yield f"{op} i8x1 {hx(a)}", "exhaustive8"
            # clamp on the complete 8-bit edge cube plus neighbours
            e = sorted(set(pat(v + d, 8) for v in edge_grid(8, 1) for d in (-1, 0, 1)))
            for x in e:
                for mn in e:
                    for mx in e:
                        yield f"{CLAMP[(x + mn + mx) % 2]} {s}8x1 {hx(x)} {hx(mn)} {hx(mx)}", "exhaustive8-clamp"


# `num_traits::Signed::{signum, is_positive, is_negative}` (src/bint/numtraits.rs) are a second public route to the sign
# of a value; "signum, is_positive and is_negative report the sign of the denoted value" is about them too.  Every sign
# request is repeated through the trait (vocabulary and harness bin of C18).  Added after seeded change C07-r7m2
# (`Signed::is_positive` reading only the sign digit: true for zero).
HARNESS_BINS = ["c07", "c18"]


def ROUTE(line):
    return "c18" if line.startswith("nt_") else "c07"


def _all(rng, tier):
    yield from _gen_main(rng, tier)
    yield from _grid(rng, tier)
    yield from _huge(rng, tier)


def gen(rng, tier):
    for c in _all(rng, tier):
        yield c
        op = c[0].split(" ", 1)[0]
        if op in SIGN:
            yield ("nt_" + c[0],) + tuple(c[1:])


def _grid(rng, tier):
    lim = 20000 if tier == "thorough" else 700
    per_pair = 8 if tier == "thorough" else 5
    rest = [op for op in BIN if op != "cmp"]
    for cfg in GRID_CFGS:
        w, n = wn(cfg)
        g = edge_grid(w, n)
        for s in "ui":
            # `cmp` on every pair; the other 19 forms rotate so that each one sees an evenly spread share
            for k, (a, b) in enumerate(grid_pairs(rng, cfg, lim)):
                yield f"cmp {s}{cfg} {hx(a)} {hx(b)}", "edge-grid"
                for j in range(per_pair):
                    op = rest[(k * per_pair + j) % len(rest)]
                    yield f"{op} {s}{cfg} {hx(a)} {hx(b)}", "edge-grid"
            # clamp on grid triples (complete for n = 1)
            if len(g) ** 3 <= 200:
                tr = [(x, mn, mx) for x in g for mn in g for mx in g]
            else:
                tr = [(rng.choice(g), rng.choice(g), rng.choice(g)) for _ in range(2000 if tier == "thorough" else 200)]
            for k, (x, mn, mx) in enumerate(tr):
                yield f"{CLAMP[k % 2]} {s}{cfg} {hx(x)} {hx(mn)} {hx(mx)}", "edge-grid-clamp"
        for a in g:
            for op in SIGN:
                yield f"{op} i{cfg} {hx(a)}", "edge-grid"
        for a in g[:: max(1, len(g) // 25)]:
            yield f"hash_routes {'ui'[a % 2]}{cfg} {hx(a)}", "edge-grid"


def _huge(rng, tier):
    """the 8192-bit end of the quantifier, all four digit types: every operation form, differences at digit
    positions spread over the whole array (indices > 255, last/first digit), all sign classes"""
    npairs = 240 if tier == "thorough" else 60
    for cfg in HUGE_CFGS:
        w, n = wn(cfg)
        vals = huge_values(rng, cfg)
        pairs = [("huge", a, b) for a in vals for b in vals[:5]]
        for i in (0, 1, n // 2, n - 2, n - 1):
            # one differing digit at the ends / the middle of the array
            a = vals[1]
            pairs.append(("huge-one-digit-diff", a, a ^ (1 << (w * i))))
        pairs += [cmp_pair(rng, w, n) for _ in range(npairs)]
        k = 0
        for t, a, b in pairs:
            for s in "ui":
                op = BIN[k % len(BIN)]
                k += 7                                  # 7 is coprime to len(BIN) = 20 and odd: all (op, s) meet
                yield f"{op} {s}{cfg} {hx(a)} {hx(b)}", t if t.startswith("huge") else "huge-" + t
        for j in range(12 if tier == "thorough" else 6):
            s = "ui"[j % 2]
            t, x, mn, mx = clamp_triple(rng, w, n, s == "i")
            yield f"{CLAMP[(j // 2) % 2]} {s}{cfg} {hx(x)} {hx(mn)} {hx(mx)}", "huge-" + t
        sv = [0, 1, (1 << (w * n)) - 1, 1 << (w * n - 1), (1 << (w * n - 1)) - 1, 1 << (w * (n - 1)), 1 << (w * (n - 1) - 1),
              1 << (w * (n // 2))] + [sign_value(rng, w, n)[1] for _ in range(4)]
        for j, a in enumerate(sv):
            for op in (SIGN if tier == "thorough" else [SIGN[j % 3], SIGN[(j + 1) % 3]]):
                yield f"{op} i{cfg} {hx(a)}", "huge-sign"
        for j, a in enumerate(vals[:4]):
            yield f"hash_routes {'ui'[j % 2]}{cfg} {hx(a)}", "huge-hash"
            yield f"hash_digits {'iu'[j % 2]}{cfg} {hx(a)}", "huge-hash"
