"""C07 cases: comparison, equality, hashing, sign."""
from .common import *

BIN = ["eq", "ne", "cmp", "lt", "le", "gt", "ge", "max", "min", "op_eq", "op_ne", "op_lt", "op_le", "op_gt", "op_ge",
       "ord_cmp", "partial_cmp", "ord_max", "ord_min"]


def cmp_pair(rng, w, n):
    W = w * n
    c = rng.randrange(10)
    if c < 3:
        t, a, b = pair(rng, w, n)
        return t, a, b
    if c >= 8:
        # exactly one digit differs, at every position equally likely
        _, a = value(rng, w, n)
        i = rng.randrange(n)
        d = rng.choice([1, 1 << (w - 1), (1 << w) - 1, rng.randrange(1, 1 << w)])
        return "one-digit-diff@%d" % (i % 8), a, a ^ (d << (w * i))
    # agree on the k leading digits, differ below
    _, a = value(rng, w, n)
    k = rng.randrange(0, n + 1)
    lowbits = w * (n - k)
    if lowbits == 0:
        return "agree-all", a, a
    b = (a >> lowbits << lowbits) | rng.randrange(1 << lowbits)
    if c == 3:
        # same magnitude opposite sign pattern
        return "opp", a, pat(-a, W)
    if c == 4:
        # zero top digit, non-zero tail
        a &= (1 << (w * (n - 1))) - 1
        return "zerotop", a, b
    return "agree%d" % k, a, b


def _gen_main(rng, tier):
    reps = 150 if tier == "thorough" else 40
    for cfg in cfgs(tier):
        w, n = wn(cfg)
        for _ in range(reps if n <= 40 else 10):
            for s in "ui":
                for op in BIN:
                    t, a, b = cmp_pair(rng, w, n)
                    yield f"{op} {s}{cfg} {hx(a)} {hx(b)}", t
                t, a, b = cmp_pair(rng, w, n)
                _, c = value(rng, w, n)
                for op in ("clamp", "ord_clamp"):
                    yield f"{op} {s}{cfg} {hx(c)} {hx(a)} {hx(b)}", t
                    yield f"{op} {s}{cfg} {hx(c)} {hx(b)} {hx(a)}", t
                yield f"hash_eq {s}{cfg} {hx(a)} {hx(a)}", "hash"
                if s == "i":
                    for op in ("signum", "is_positive", "is_negative"):
                        t, a = value(rng, w, n)
                        yield f"{op} i{cfg} {hx(a)}", t
    if tier == "thorough":
        for s in "ui":
            for op in ["cmp", "eq", "lt", "ge"]:
                for a in range(256):
                    for b in range(256):
                        yield f"{op} {s}8x1 {hx(a)} {hx(b)}", "exhaustive8"


def gen(rng, tier):
    yield from _gen_main(rng, tier)
    yield from _grid(rng, tier)
    yield from _huge(rng, tier)


def _grid(rng, tier):
    lim = 20000 if tier == "thorough" else 700
    for cfg in GRID_CFGS:
        for s in "ui":
            for op in ("cmp", "op_lt", "eq", "max"):
                for a, b in grid_pairs(rng, cfg, lim):
                    yield f"{op} {s}{cfg} {hx(a)} {hx(b)}", "edge-grid"


def _huge(rng, tier):
    for cfg in HUGE_CFGS:
        vals = huge_values(rng, cfg)
        k = 0
        for a in vals:
            for b in vals[:5]:
                s = "ui"[k % 2]
                op = ['cmp', 'eq', 'op_lt', 'max'][k % 4]
                k += 1
                yield f"{op} {s}{cfg} {hx(a)} {hx(b)}", "huge"
