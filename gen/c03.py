"""C03 cases: division and remainder."""
from .common import *
from . import widthsweep as _ws

HARNESS_BINS_THOROUGH = ["widths"]
from .knuth import addback_pairs, knuth_events

EXTRA_QUICK = ["8x4", "16x4", "32x4", "64x4"]  # n >= 4: add-back at quotient positions j >= 1

BIN = ["checked_div", "checked_rem", "checked_div_euclid", "checked_rem_euclid",
       "overflowing_div", "overflowing_rem", "overflowing_div_euclid", "overflowing_rem_euclid",
       "wrapping_div", "wrapping_rem", "wrapping_div_euclid", "wrapping_rem_euclid", "saturating_div",
       "div", "rem", "div_euclid", "rem_euclid", "checked_next_multiple_of"]
MODE = ["div_floor", "div_ceil", "next_multiple_of"]


def divisor(rng, w, n):
    """divisor shapes for Knuth D: length 1..n, top digit B/2, B-1, 1, random; second digit 0 / B-1"""
    B = 1 << w
    ln = rng.randrange(1, n + 1)
    ds = [digit_value(rng, w) for _ in range(ln)]
    ds[-1] = rng.choice([B // 2, B - 1, 1, B // 2 - 1, B // 2 + 1, 2, rng.randrange(1, B)])
    if ln >= 2 and rng.random() < 0.5:
        ds[-2] = rng.choice([0, B - 1, B // 2])
    return sum(d << (w * i) for i, d in enumerate(ds))


def div_pair(rng, w, n, signed):
    W = w * n
    M = 1 << W
    B = 1 << w
    c = rng.choice([0, 1, 2, 3, 3, 3, 4, 5, 6, 7, 8, 9, 10, 11])
    if c == 0:
        t, a, b = pair(rng, w, n)
        return "pair:" + t, a, b
    if c == 1:
        _, a = value(rng, w, n)
        return "zero-divisor", a, 0
    if c == 2:
        return "min/-1", M >> 1, rng.choice([M - 1, 1, M - 2, 2, M >> 1])
    if c == 3:
        _, a = value(rng, w, n)
        if rng.random() < 0.6:
            # single-digit divisors of every bit length (half-digit fast paths, normalisation shifts)
            bl = rng.randrange(1, w + 1)
            d = rng.choice([(1 << bl) - 1, 1 << (bl - 1), (1 << (bl - 1)) + 1, (1 << (bl - 1)) | rng.randrange(1 << (bl - 1))])
            if rng.random() < 0.5:
                # dividend with extreme digits so that the running remainder gets large
                a = sum(rng.choice([B - 1, B - 2, d - 1 if d > 1 else 0, rng.randrange(B)]) << (w * i) for i in range(n))
            return "by-one-digit-bitlen", a, max(1, d)
        return "by-one-digit", a, rng.choice([1, 2, 3, B - 1, B // 2, 10, rng.randrange(1, B)])
    d = divisor(rng, w, n)
    if c <= 8:
        # n = q*d + r with chosen extreme quotient digits
        dl = max(1, (d.bit_length() + w - 1) // w)
        ql = max(1, n - dl + 1)
        q = sum(rng.choice([0, B - 1, B // 2, B - 2, 1, rng.randrange(B)]) << (w * i) for i in range(ql))
        r = rng.choice([0, d - 1, d // 2, rng.randrange(d)]) if d else 0
        v = q * d + r
        if v >= M:
            v = v % M
        a = v
        tag = "qd+r"
    else:
        _, a = value(rng, w, n)
        tag = "shape"
    b = d
    if signed:
        if rng.random() < 0.5:
            a = pat(-a, W)
        if rng.random() < 0.5:
            b = pat(-b, W)
    return tag, a, b


def _gen_main(rng, tier):
    reps = 120 if tier == "thorough" else 14
    clist = cfgs(tier) if tier == "thorough" else cfgs(tier) + EXTRA_QUICK
    # directed Knuth-D cases: operand pairs whose division takes the add-back branch (found by exact simulation)
    for cfg in clist:
        w, n = wn(cfg)
        if n < 2 or n > 40:
            continue
        W = w * n
        for (u, v) in addback_pairs(rng, w, n, 24 if tier == "thorough" else 8):
            ev = knuth_events(u, v, w)
            tag = "knuth-addback@%d" % max(ev["addback"])
            for op in ("checked_div", "checked_rem", "div", "rem", "checked_rem_euclid", "overflowing_div_euclid"):
                yield f"{op} u{cfg} {hx(u)} {hx(v)}", tag
            if u < (1 << (W - 1)):
                for sa in (1, -1):
                    for sb in (1, -1):
                        yield f"checked_div i{cfg} {hx(pat(sa * u, W))} {hx(pat(sb * v, W))}", tag
                        yield f"checked_rem i{cfg} {hx(pat(sa * u, W))} {hx(pat(sb * v, W))}", tag
                        yield f"checked_rem_euclid i{cfg} {hx(pat(sa * u, W))} {hx(pat(sb * v, W))}", tag
    for cfg in clist:
        w, n = wn(cfg)
        if n > 40 and tier != "thorough":
            continue
        for _ in range(reps if n <= 40 else 3):
            for s in "ui":
                for op in BIN:
                    t, a, b = div_pair(rng, w, n, s == "i")
                    yield f"{op} {s}{cfg} {hx(a)} {hx(b)}", t
                for op in MODE:
                    t, a, b = div_pair(rng, w, n, s == "i")
                    for mode in ("dbg", "rel"):
                        yield f"{op} {s}{cfg} {mode} {hx(a)} {hx(b)}", t
    if tier == "thorough":
        for s in "ui":
            for op in ["checked_div", "checked_rem", "checked_div_euclid", "checked_rem_euclid", "overflowing_div", "overflowing_rem"]:
                for a in range(256):
                    for b in range(256):
                        yield f"{op} {s}8x1 {hx(a)} {hx(b)}", "exhaustive8"


def gen(rng, tier):
    yield from _gen_main(rng, tier)
    if tier == "thorough":
        yield from _ws.rem(rng)
    yield from _grid(rng, tier)
    yield from _huge(rng, tier)
    yield from _exh8(rng, tier)


def _grid(rng, tier):
    lim = 20000 if tier == "thorough" else 700
    for cfg in GRID_CFGS:
        for s in "ui":
            for op in ("checked_div", "checked_rem", "checked_div_euclid", "checked_rem_euclid", "overflowing_div"):
                for a, b in grid_pairs(rng, cfg, lim):
                    yield f"{op} {s}{cfg} {hx(a)} {hx(b)}", "edge-grid"
            for a, b in grid_pairs(rng, cfg, lim):
                yield f"div_floor {s}{cfg} dbg {hx(a)} {hx(b)}", "edge-grid"
                yield f"div_ceil {s}{cfg} rel {hx(a)} {hx(b)}", "edge-grid"


def _huge(rng, tier):
    for cfg in HUGE_CFGS:
        vals = huge_values(rng, cfg)
        k = 0
        for a in vals:
            for b in vals[:5]:
                s = "ui"[k % 2]
                op = ['checked_div', 'checked_rem', 'checked_rem_euclid'][k % 3]
                k += 1
                yield f"{op} {s}{cfg} {hx(a)} {hx(b)}", "huge"


def _exh8(rng, tier):
    """complete enumeration of the 8-bit instantiation (a test of the u8 digit primitives through N = 1)"""
    if tier == "thorough":
        return
    for s in "ui":
        for op in ['checked_div', 'checked_rem']:
            for a in range(256):
                for b in range(256):
                    yield f"{op} {s}8x1 {hx(a)} {hx(b)}", "exhaustive8"


def ROUTE(line):
    return _ws.route(line, "c03")
