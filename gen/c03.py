"""C03 cases: division and remainder."""
import random
from .common import *

# other public routes to this property's operations (check.py step 2d): the neighbour generator's requests whose
# operation matches are part of this run, answered by the neighbour's harness bin
NEIGHBOURS = {"C17": r"(div|rem)_", "C18": r"nt_((checked_)?(div|rem)|mod_floor|next_multiple_of|prev_multiple_of|is_multiple_of|divides)"}
from . import widthsweep as _ws

HARNESS_BINS_THOROUGH = ["widths"]
from .knuth import addback_pairs, knuth_events, d3_boundary_pairs

EXTRA_QUICK = ["8x4", "16x4", "32x4", "64x4"]  # n >= 4: add-back at quotient positions j >= 1

BIN = ["checked_div", "checked_rem", "checked_div_euclid", "checked_rem_euclid",
       "overflowing_div", "overflowing_rem", "overflowing_div_euclid", "overflowing_rem_euclid",
       "wrapping_div", "wrapping_rem", "wrapping_div_euclid", "wrapping_rem_euclid", "saturating_div",
       "div", "rem", "div_euclid", "rem_euclid", "checked_next_multiple_of"]
MODE = ["div_floor", "div_ceil", "next_multiple_of"]
# `strict_*` (int/strict.rs) forward to div/rem/div_euclid/rem_euclid; the driver answers them through the C04 handler
STRICT = ["strict_div", "strict_rem", "strict_div_euclid", "strict_rem_euclid"]
ALL_FORMS = [(op, None) for op in BIN + STRICT] + [(op, m) for op in MODE for m in ("dbg", "rel")]

# Signed div_floor / div_ceil of MIN / -1: the crate returns MIN silently in both build modes (theorem
# C03.i_divFloor_divCeil_min_neg_one); the statement does not name these two methods in its list of MIN / -1 results.
# The Drive spec answers `P|MIN` there (both readings accepted, anything else is a violation), so these requests are
# generated like all others and no class is parked behind a flag.


def req(op, mode, s, cfg, a, b):
    return f"{op} {s}{cfg} {mode} {hx(a)} {hx(b)}" if mode else f"{op} {s}{cfg} {hx(a)} {hx(b)}"


def knuth_trace(u, v, w):
    """Exact replay of `basecase_div_rem` (src/buint/div.rs) on u > v >= B: per quotient position j the set of
    branches taken.  Tags: tie (a correction test compares equal), qmax (u[j+n] >= v[n-1], estimate Digit::MAX),
    c1 (first q_hat correction),
    c2 / c2no (second test evaluated: taken / not taken), rovf (r_hat + v[n-1] overflows, second test skipped),
    addback (D6), q0 (quotient digit 0), qB1 (quotient digit B-1).  Returns (list of (j, tags), shift, q, r)."""
    B = 1 << w
    n = (v.bit_length() + w - 1) // w
    lu = (u.bit_length() + w - 1) // w
    if n < 2 or lu < n:
        return None
    m = lu - n
    s = w - (v >> (w * (n - 1))).bit_length()
    vn = v << s
    R = u << s
    vn1 = vn >> (w * (n - 1))
    vn2 = (vn >> (w * (n - 2))) & (B - 1)
    steps = []
    q = 0
    for j in range(m, -1, -1):
        win = R >> (w * j)
        low = R & ((1 << (w * j)) - 1)
        ujn = win >> (w * n)
        ujn1 = (win >> (w * (n - 1))) & (B - 1)
        ujn2 = (win >> (w * (n - 2))) & (B - 1)
        tags = set()
        if ujn < vn1:
            qh, rh = divmod(ujn * B + ujn1, vn1)
            if qh and qh * vn2 == rh * B + ujn2:
                tags.add("tie")             # the strict `>` of tuple_gt decides
            if qh * vn2 > rh * B + ujn2:
                qh -= 1
                tags.add("c1")
                if rh + vn1 < B:
                    rh += vn1
                    if qh and qh * vn2 == rh * B + ujn2:
                        tags.add("tie")
                    if qh * vn2 > rh * B + ujn2:
                        qh -= 1
                        tags.add("c2")
                    else:
                        tags.add("c2no")
                else:
                    tags.add("rovf")
        else:
            qh = B - 1
            tags.add("qmax")
        win -= qh * vn
        if win < 0:
            win += vn
            qh -= 1
            tags.add("addback")
        assert 0 <= win < vn and 0 <= qh < B
        if qh == 0:
            tags.add("q0")
        if qh == B - 1:
            tags.add("qB1")
        q |= qh << (w * j)
        R = (win << (w * j)) | low
        steps.append((j, tags))
    assert q == u // v and R >> s == u % v
    return steps, s, q, R >> s


def _mk(rng, w, ln, top=None):
    B = 1 << w
    ds = [rng.choice([0, 0, 1, B - 1, B - 1, B // 2, B // 2 - 1, B // 2 + 1, B - 2, 2, rng.randrange(B)]) for _ in range(ln)]
    ds[-1] = top if top is not None else (ds[-1] or rng.choice([1, B - 1, B // 2]))
    return sum(d << (w * i) for i, d in enumerate(ds))


def event_pairs(rng, w, n, want, tries):
    """(u, v, tag) with u, v n-digit operands (v of 2..n digits, every length) whose Algorithm-D run takes a rare
    branch, found by exact simulation.  One bucket per (branch combination, position class j = 0 / j >= 1 / top j,
    normalisation shift zero / non-zero): rare combinations are kept, frequent ones fill up and are dropped."""
    if n < 2:
        return []
    B = 1 << w
    buckets = {}
    for t in range(tries):
        lv = rng.choice([2, 2, n, max(2, n - 1), max(2, n // 2), rng.randrange(2, n + 1)])
        lu = rng.choice([n, n, n, lv, min(n, lv + 1), rng.randrange(lv, n + 1)])
        v = _mk(rng, w, lv, rng.choice([None, None, 1, B // 2, B - 1, B // 2 - 1]))
        c = rng.randrange(4)
        if c == 0:
            # dividend sharing its leading digits with the divisor (q_hat = MAX estimates, cmp-like ties)
            k = rng.randrange(1, lv + 1)
            u = ((v >> (w * (lv - k))) << (w * (lu - k))) | (_mk(rng, w, lu) & ((1 << (w * max(0, lu - k))) - 1))
            u += rng.choice([0, 0, -1, 1]) << (w * max(0, lu - k))
            u = max(u, 0) % (1 << (w * lu))
        elif c == 1:
            # q * v + r with extreme quotient digits and r at the ends of its range
            q = _mk(rng, w, max(1, lu - lv + 1))
            u = (q * v + rng.choice([0, v - 1, v // 2, 1, rng.randrange(v)])) % (1 << (w * lu))
        else:
            u = _mk(rng, w, lu)
        if u <= v or u >> (w * n):
            continue
        tr = knuth_trace(u, v, w)
        if tr is None:
            continue
        steps, sh, _, _ = tr
        top = steps[0][0]
        for j, tags in steps:
            rare = tags & {"qmax", "c1", "c2", "c2no", "rovf", "addback", "tie"}
            if not rare:
                continue
            pos = "0" if j == 0 else ("top" if j == top else "mid")
            key = ("+".join(sorted(rare)), pos, sh == 0)
            lst = buckets.setdefault(key, [])
            if len(lst) < want and (u, v) not in [(x, y) for x, y, _ in lst]:
                lst.append((u, v, "knuth-%s@%s%s" % (key[0], pos, "/shift0" if sh == 0 else "")))
    out = []
    for key in sorted(buckets):
        out += buckets[key]
    return out


def divisor(rng, w, n):
    """divisor shapes for Knuth D: length 1..n, top digit B/2, B-1, 1, random; second digit 0 / B-1"""
    B = 1 << w
    ln = rng.randrange(1, n + 1)
    ds = [digit_value(rng, w) for _ in range(ln)]
    ds[-1] = rng.choice([B // 2, B - 1, 1, B // 2 - 1, B // 2 + 1, 2, rng.randrange(1, B)])
    if ln >= 2 and rng.random() < 0.5:
        ds[-2] = rng.choice([0, B - 1, B // 2])
    return sum(d << (w * i) for i, d in enumerate(ds))


def div_pair(rng, w, n, signed):
    W = w * n
    M = 1 << W
    B = 1 << w
    c = rng.choice([0, 1, 2, 3, 3, 3, 4, 5, 6, 7, 8, 9, 10, 11])
    if c == 0:
        t, a, b = pair(rng, w, n)
        return "pair:" + t, a, b
    if c == 1:
        _, a = value(rng, w, n)
        return "zero-divisor", a, 0
    if c == 2:
        return "min/-1", M >> 1, rng.choice([M - 1, 1, M - 2, 2, M >> 1])
    if c == 3:
        _, a = value(rng, w, n)
        if rng.random() < 0.6:
            # single-digit divisors of every bit length (half-digit fast paths, normalisation shifts)
            bl = rng.randrange(1, w + 1)
            d = rng.choice([(1 << bl) - 1, 1 << (bl - 1), (1 << (bl - 1)) + 1, (1 << (bl - 1)) | rng.randrange(1 << (bl - 1))])
            if rng.random() < 0.5:
                # dividend with extreme digits so that the running remainder gets large
                a = sum(rng.choice([B - 1, B - 2, d - 1 if d > 1 else 0, rng.randrange(B)]) << (w * i) for i in range(n))
            return "by-one-digit-bitlen", a, max(1, d)
        return "by-one-digit", a, rng.choice([1, 2, 3, B - 1, B // 2, 10, rng.randrange(1, B)])
    d = divisor(rng, w, n)
    if c <= 8:
        # n = q*d + r with chosen extreme quotient digits
        dl = max(1, (d.bit_length() + w - 1) // w)
        ql = max(1, n - dl + 1)
        q = sum(rng.choice([0, B - 1, B // 2, B - 2, 1, rng.randrange(B)]) << (w * i) for i in range(ql))
        r = rng.choice([0, d - 1, d // 2, rng.randrange(d)]) if d else 0
        v = q * d + r
        if v >= M:
            v = v % M
        a = v
        tag = "qd+r"
    else:
        _, a = value(rng, w, n)
        tag = "shape"
    b = d
    if signed:
        if rng.random() < 0.5:
            a = pat(-a, W)
        if rng.random() < 0.5:
            b = pat(-b, W)
    return tag, a, b


def _gen_main(rng, tier):
    reps = 120 if tier == "thorough" else 14
    clist = cfgs(tier) if tier == "thorough" else cfgs(tier) + EXTRA_QUICK
    # directed Knuth-D cases: operand pairs whose division takes the add-back branch (found by exact simulation)
    for cfg in clist:
        w, n = wn(cfg)
        if n < 2 or n > 40:
            continue
        W = w * n
        for (u, v) in addback_pairs(rng, w, n, 24 if tier == "thorough" else 8):
            ev = knuth_events(u, v, w)
            tag = "knuth-addback@%d" % max(ev["addback"])
            for op in ("checked_div", "checked_rem", "div", "rem", "checked_rem_euclid", "overflowing_div_euclid"):
                yield f"{op} u{cfg} {hx(u)} {hx(v)}", tag
            if u < (1 << (W - 1)):
                for sa in (1, -1):
                    for sb in (1, -1):
                        yield f"checked_div i{cfg} {hx(pat(sa * u, W))} {hx(pat(sb * v, W))}", tag
                        yield f"checked_rem i{cfg} {hx(pat(sa * u, W))} {hx(pat(sb * v, W))}", tag
                        yield f"checked_rem_euclid i{cfg} {hx(pat(sa * u, W))} {hx(pat(sb * v, W))}", tag
    for cfg in clist:
        w, n = wn(cfg)
        for _ in range(reps if n <= 40 else 3 if tier == "thorough" else 2):
            for s in "ui":
                for op in BIN + STRICT:
                    t, a, b = div_pair(rng, w, n, s == "i")
                    yield f"{op} {s}{cfg} {hx(a)} {hx(b)}", t
                for op in MODE:
                    t, a, b = div_pair(rng, w, n, s == "i")
                    for mode in ("dbg", "rel"):
                        yield f"{op} {s}{cfg} {mode} {hx(a)} {hx(b)}", t
    if tier == "thorough":
        for s in "ui":
            for op in ["checked_div", "checked_rem", "checked_div_euclid", "checked_rem_euclid", "overflowing_div", "overflowing_rem"]:
                for a in range(256):
                    for b in range(256):
                        yield f"{op} {s}8x1 {hx(a)} {hx(b)}", "exhaustive8"


def gen(rng, tier):
    yield from _gen_main(rng, tier)
    yield from _grid(rng, tier)
    yield from _huge(rng, tier)
    yield from _exh8(rng, tier)
    # independent PRNG streams for the classes added later: the cases above stay what they were for a given seed
    yield from _events(random.Random(rng.random()), tier)
    yield from _boundary(random.Random(rng.random()), tier)
    yield from _nmo_boundary(random.Random(rng.random()), tier)
    yield from _huge_div(random.Random(rng.random()), tier)
    yield from _light_sweep(random.Random(rng.random()), tier)
    yield from _relations(random.Random(rng.random()), tier)
    yield from _d3_ties(random.Random(rng.random()), tier)


def _d3_ties(rng, tier):
    """operands constructed so that Algorithm D's refinement test `q_hat*v[n-2] vs r_hat*b + u[j+n-2]` is within one
    of an exact tie, for the ordinary and for the clamped estimate (gen/knuth.py:d3_boundary_pairs), every configuration"""
    for cfg in cfgs(tier):
        w, n = wn(cfg)
        if n < 2:
            continue
        for (u, v) in d3_boundary_pairs(rng, w, min(n, 40), 12 if tier == "thorough" else 6, tries=600):
            for op in ("checked_div", "checked_rem"):
                yield f"{op} u{cfg} {hx(u)} {hx(v)}", "knuth-d3-tie"
            if u >> (w * n - 1) == 0 and v >> (w * n - 1) == 0:
                yield f"checked_div_euclid i{cfg} {hx(u)} {hx(v)}", "knuth-d3-tie"


def _all_cfgs(tier):
    cl = cfgs(tier) if tier == "thorough" else cfgs(tier) + EXTRA_QUICK
    return cl + [c for c in HUGE_CFGS if c not in cl]


def _signed_variants(u, v, W):
    """the four sign combinations of a magnitude pair (only when both magnitudes are representable)"""
    if u >= (1 << (W - 1)) or v >= (1 << (W - 1)):
        return []
    return [(pat(sa * u, W), pat(sb * v, W)) for sa in (1, -1) for sb in (1, -1)]


def _events(rng, tier):
    """Algorithm-D branch combinations (q_hat = MAX estimate, one / two corrections, r_hat overflow, add-back, at the
    lowest / a middle / the top quotient position, with and without a normalisation shift) found by exact simulation,
    for every configuration up to 8192 bits, driven through EVERY entry point: unsigned all forms; signed all four
    sign combinations (sign fix-ups, Euclid / floor / ceil adjustments and next_multiple_of on top of such a
    quotient)."""
    k = 0
    for cfg in _all_cfgs(tier):
        w, n = wn(cfg)
        if n < 2:
            continue
        W = w * n
        wide = n > 40
        thorough = tier == "thorough"
        ps = event_pairs(rng, w, n, (3 if thorough else 2) if not wide else 1,
                         (2500 if thorough else 600) if not wide else (300 if thorough else 120))
        if wide and not thorough:
            # the Lean model needs ~0.1 s per 8192-bit Algorithm-D run with 8-bit digits: keep a spread of the buckets
            keep = 14 if n > 512 else 24 if n > 256 else len(ps)
            if len(ps) > keep:
                ps = [ps[(i * len(ps)) // keep] for i in range(keep)]
        for (u, v, tag) in ps:
            forms = ALL_FORMS
            if wide:
                # few requests on the wide configurations: rotate through the forms
                forms = [ALL_FORMS[(5 * k) % len(ALL_FORMS)]]
            for (op, mode) in forms:
                yield req(op, mode, "u", cfg, u, v), tag
            sv = _signed_variants(u, v, W)
            if wide and sv:
                sv = [sv[k % 4]]
            for i, (a, b) in enumerate(sv):
                if wide:
                    fs = [ALL_FORMS[(7 * k + 1) % len(ALL_FORMS)]]
                else:
                    fs = [ALL_FORMS[(k + 4 * i + 7 * t) % len(ALL_FORMS)] for t in range(7)]
                for (op, mode) in fs:
                    yield req(op, mode, "i", cfg, a, b), tag
            k += 1


def _relations(rng, tier):
    """dividend in a fixed relation to a divisor of every length class: equal (cmp shortcut), one less / one more
    (quotient 0 / 1 with remainder b-1 / 1), 2b, 2b-1, b*B, b*B-1 (first quotient digit 0 / B-1), b*b-1, k*b exactly and
    k*b-1 (remainder 0 / b-1 under every rounding mode); every instantiation, forms rotating, signs random"""
    k = 0
    cl = _all_cfgs(tier)
    if tier != "thorough":
        cl = cl + [c for c in THOROUGH_CFGS if c not in cl]
    for cfg in cl:
        w, n = wn(cfg)
        W = w * n
        M = 1 << W
        B = 1 << w
        for ln in sorted(set([1, 2, (n + 1) // 2, max(1, n - 1), n])):
            if ln > n:
                continue
            b = _mk(rng, w, ln, rng.choice([None, 1, B - 1, B // 2]))
            kq = _mk(rng, w, max(1, n - ln))
            rel = [b, b - 1, b + 1, 2 * b, 2 * b - 1, b * B, b * B - 1, b * b - 1, kq * b, kq * b - 1, kq * b + b - 1, b // 2]
            for a in rel:
                if not (0 <= a < M):
                    continue
                op, mode = ALL_FORMS[(5 * k) % len(ALL_FORMS)]
                yield req(op, mode, "u", cfg, a, b), "relation"
                if a < (M >> 1) and b < (M >> 1):
                    op, mode = ALL_FORMS[(7 * k + 3) % len(ALL_FORMS)]
                    yield req(op, mode, "i", cfg, pat(rng.choice([1, -1]) * a, W), pat(rng.choice([1, -1]) * b, W)), "relation"
                k += 1


def _light_sweep(rng, tier):
    """quick tier only: a light pass over the instantiations that are otherwise thorough-tier only (every digit type x
    digit count the harness instantiates is then divided at least a few dozen times in every quick run): Algorithm-D
    branch pairs, structured random pairs and MIN / -1, forms rotating"""
    if tier == "thorough":
        return
    k = 0
    have = set(_all_cfgs(tier))
    for cfg in THOROUGH_CFGS:
        if cfg in have:
            continue
        w, n = wn(cfg)
        W = w * n
        M = 1 << W
        ps = [(u, v, t) for (u, v, t) in event_pairs(rng, w, n, 1, 300 if n <= 40 else 100)]
        if n > 40 and len(ps) > 16:
            ps = [ps[(i * len(ps)) // 16] for i in range(16)]
        for (u, v, tag) in ps:
            op, mode = ALL_FORMS[(5 * k) % len(ALL_FORMS)]
            yield req(op, mode, "u", cfg, u, v), tag
            sv = _signed_variants(u, v, W)
            if sv:
                a, b = sv[k % 4]
                op, mode = ALL_FORMS[(7 * k + 1) % len(ALL_FORMS)]
                yield req(op, mode, "i", cfg, a, b), tag
            k += 1
        for i, (op, mode) in enumerate(ALL_FORMS):
            for s in "ui":
                t, a, b = div_pair(rng, w, n, s == "i")
                yield req(op, mode, s, cfg, a, b), t
            yield req(op, mode, "i", cfg, M >> 1, M - 1), "boundary"
            yield req(op, mode, "iu"[i % 2], cfg, (M >> 1) + (i % 3), [0, 1, M - 2][i % 3]), "boundary"


def _boundary(rng, tier):
    """the documented special pairs on EVERY configuration and EVERY form in both build modes: MIN / -1 (overflow),
    MIN / 1 (early return), MIN / MIN, neighbours of MIN / MAX with +-1, +-2, zero divisor, equal operands"""
    for cfg in _all_cfgs(tier):
        w, n = wn(cfg)
        W = w * n
        M = 1 << W
        mn, mx = M >> 1, (M >> 1) - 1
        prs = [(mn, M - 1), (mn, 1), (mn, mn), (mn + 1, M - 1), (mx, M - 1), (M - 1, mn), (0, M - 1), (mn, 2),
               (mn, M - 2), (mn, 0), (0, 0), (M - 1, 0), (mn, mx), (mx, mn), (mn, mn + 1), (mn + 1, mn),
               (M - 1, M - 1), (M - 1, 1), (mx, mx), (M - 2, M - 1), (M - 1, M - 2)]
        if n > 40:
            # wide: every pair once per signedness, forms rotating
            for i, (a, b) in enumerate(prs):
                for j, s in enumerate("ui"):
                    op, mode = ALL_FORMS[(3 * i + 11 * j + n) % len(ALL_FORMS)]
                    yield req(op, mode, s, cfg, a, b), "boundary"
            # ... and MIN / -1, MIN / 1, x / 0 on every form
            for (a, b) in prs[:2] + prs[9:10]:
                for (op, mode) in ALL_FORMS:
                    yield req(op, mode, "i", cfg, a, b), "boundary"
            continue
        for (a, b) in prs:
            for s in "ui":
                for (op, mode) in ALL_FORMS:
                    yield req(op, mode, s, cfg, a, b), "boundary"


def _nmo_boundary(rng, tier):
    """next_multiple_of / checked_next_multiple_of (and div_ceil / div_floor) where the multiple is the last
    representable one or the first unrepresentable one: a = k*b + delta around the extreme multiples of b"""
    for cfg in _all_cfgs(tier):
        w, n = wn(cfg)
        W = w * n
        M = 1 << W
        B = 1 << w
        for rep in range((1 if tier != "thorough" else 3) if n > 40 else 6 if tier != "thorough" else 30):
            for s in "ui":
                lo, hi = (-(M >> 1), (M >> 1) - 1) if s == "i" else (0, M - 1)
                # (wide configurations: mostly divisors that take the short-division / cmp / single-step paths, which
                #  the Lean model evaluates quickly; Algorithm D on 8192 bits is exercised by _events / _huge_div)
                c = rng.randrange(5) if n <= 40 else rng.choice([0, 2, 3, 4, 4 if n > 512 else 1])
                if c == 0:
                    b = rng.choice([2, 3, 7, 10, B - 1, B // 2, B // 2 + 1, rng.randrange(1, B)])
                elif c == 1:
                    b = divisor(rng, w, n)
                elif c == 2:
                    b = hi - rng.randrange(0, 4)
                elif c == 3:
                    b = (hi + 1) // 2 + rng.randrange(-2, 3)
                else:
                    b = rng.randrange(1, hi + 1)
                b = max(1, min(hi, b))
                if s == "i" and rng.random() < 0.5:
                    b = -b
                # extreme multiples of b inside [lo, hi]
                kmax = hi // abs(b)
                kmin = -((-lo) // abs(b))
                for base in (kmax * abs(b), kmin * abs(b)):
                    for dl in (-1, 0, 1, rng.choice([2, abs(b) - 1, abs(b) // 2])):
                        a = base + dl
                        if not (lo <= a <= hi):
                            continue
                        for (op, mode) in (("next_multiple_of", "dbg"), ("next_multiple_of", "rel"),
                                           ("checked_next_multiple_of", None), ("div_ceil", "dbg"),
                                           ("div_ceil", "rel"), ("div_floor", "dbg"), ("div_floor", "rel")):
                            yield req(op, mode, s, cfg, pat(a, W), pat(b, W)), "multiple-boundary"


def _huge_div(rng, tier):
    """8192-bit operands against divisors of EVERY length class (one digit, two digits, a quarter, half, n-1 and n
    digits; normalised and unnormalised top digit; 2^(W/2)+1), all forms rotating, both signs: Algorithm D with many
    quotient digits, short division over 128..1024 digits, the cmp path"""
    k = 0
    for cfg in HUGE_CFGS:
        w, n = wn(cfg)
        W = w * n
        B = 1 << w
        vals = huge_values(rng, cfg)
        divs = []
        for ln in (1, 1, 2, 3, n // 4, n // 2, n // 2 + 1, n - 1, n):
            top = rng.choice([1, B // 2, B - 1, B // 2 - 1, rng.randrange(1, B)])
            divs.append(_mk(rng, w, ln, top))
        divs += [(1 << (W // 2)) + 1, 1 << (W // 2), (1 << (w * (n // 2))) - 1, B - 1, 1 << (W - w)]
        for b in divs:
            dividends = [vals[0], vals[1], vals[4], vals[5], _mk(rng, w, n), _mk(rng, w, max(1, n - rng.randrange(1, 4)))]
            if tier != "thorough":
                rng.shuffle(dividends)
                dividends = dividends[:1 if n > 512 else 2 if n > 256 else 3]
            for a in dividends:
                op, mode = ALL_FORMS[k % len(ALL_FORMS)]
                k += 1
                yield req(op, mode, "u", cfg, a, b), "huge-div"
                sa, sb = rng.choice([1, -1]), rng.choice([1, -1])
                op, mode = ALL_FORMS[(k * 7) % len(ALL_FORMS)]
                yield req(op, mode, "i", cfg, pat(sa * (a >> 1), W), pat(sb * b, W)), "huge-div"


def _grid(rng, tier):
    lim = 20000 if tier == "thorough" else 700
    for cfg in GRID_CFGS:
        for s in "ui":
            for op in ("checked_div", "checked_rem", "checked_div_euclid", "checked_rem_euclid", "overflowing_div"):
                for a, b in grid_pairs(rng, cfg, lim):
                    yield f"{op} {s}{cfg} {hx(a)} {hx(b)}", "edge-grid"
            for a, b in grid_pairs(rng, cfg, lim):
                yield f"div_floor {s}{cfg} dbg {hx(a)} {hx(b)}", "edge-grid"
                yield f"div_ceil {s}{cfg} rel {hx(a)} {hx(b)}", "edge-grid"
            for a, b in grid_pairs(rng, cfg, lim):
                yield f"div_floor {s}{cfg} rel {hx(a)} {hx(b)}", "edge-grid"
                yield f"div_ceil {s}{cfg} dbg {hx(a)} {hx(b)}", "edge-grid"
                yield f"next_multiple_of {s}{cfg} dbg {hx(a)} {hx(b)}", "edge-grid"
                yield f"next_multiple_of {s}{cfg} rel {hx(a)} {hx(b)}", "edge-grid"
                yield f"checked_next_multiple_of {s}{cfg} {hx(a)} {hx(b)}", "edge-grid"
            for op in ("overflowing_rem_euclid", "wrapping_div_euclid", "saturating_div", "rem", "div_euclid"):
                for a, b in grid_pairs(rng, cfg, lim // 2):
                    yield f"{op} {s}{cfg} {hx(a)} {hx(b)}", "edge-grid"


def _huge(rng, tier):
    for cfg in HUGE_CFGS:
        vals = huge_values(rng, cfg)
        k = 0
        for a in vals:
            for b in vals[:5]:
                s = "ui"[k % 2]
                op = ['checked_div', 'checked_rem', 'checked_rem_euclid'][k % 3]
                k += 1
                yield f"{op} {s}{cfg} {hx(a)} {hx(b)}", "huge"


def _exh8(rng, tier):
    """complete enumeration of the 8-bit instantiation (a test of the u8 digit primitives through N = 1)"""
    if tier == "thorough":
        return
    for s in "ui":
        for op in ['checked_div', 'checked_rem']:
            for a in range(256):
                for b in range(256):
                    yield f"{op} {s}8x1 {hx(a)} {hx(b)}", "exhaustive8"
    # the signed adjustments (Euclid / floor / ceil / next multiple) on every i8 pair, one build mode each
    for op in ['checked_rem_euclid', 'div_floor dbg', 'div_ceil rel', 'checked_next_multiple_of']:
        o, _, m = op.partition(" ")
        for a in range(256):
            for b in range(256):
                yield req(o, m or None, "i", "8x1", a, b), "exhaustive8"


def ROUTE(line):
    return _ws.route(line, "c03")
