/-
  gen/translate_sigs.lean — bootstrap helper of gen/translate.py (NOT part of the Lake library).

  Dumps, for every definition / constructor in the `Bnum.*` namespaces of the hand model, its defining module,
  binder list and result type, one TAB-separated line per constant:

      <name> TAB <module> TAB <binder>;<binder>;... TAB <result type> TAB <Bnum constants used by the body> TAB def|proj|ctor|opaque
                                                                                   binder = <(|{|[><name>:<type>

  Run through `python3 gen/translate.py --dump-sigs` (which prepends the `import Bnum.Model.*` lines and
  rewrites gen/translate_sigs.json).  The translator only uses this table to know (a) which Lean constants exist,
  (b) their leading context parameters (`dbg`, `w`, `n`, …), (c) whether the result is an `Outcome`, and (d) which
  module to import.  A stale table cannot make a wrong theorem pass: the generated file is elaborated and
  kernel-checked against the real constants.
-/
open Lean Meta Elab Command

run_cmd liftTermElabM do
  let env ← getEnv
  let mut out : Array String := #[]
  for (n, ci) in env.constants.fold (fun acc n ci => acc.push (n, ci)) #[] do
    if !(`Bnum).isPrefixOf n then continue
    if n.isInternalDetail then continue
    let ok := match ci with
      | .defnInfo _ | .ctorInfo _ | .opaqueInfo _ => true
      | _ => false
    if !ok then continue
    let modName : String := match env.getModuleIdxFor? n with
      | some idx => toString env.header.moduleNames[idx.toNat]!
      | none => "?"
    let s ← forallTelescope ci.type fun xs body => do
      let mut ps : Array String := #[]
      for x in xs do
        let d ← x.fvarId!.getDecl
        let t ← ppExpr d.type
        let bi := match d.binderInfo with
          | .implicit => "{" | .instImplicit => "[" | .strictImplicit => "{" | _ => "("
        ps := ps.push s!"{bi}{d.userName.eraseMacroScopes}:{(toString t).replace "\n" " "}"
      let b ← ppExpr body
      let used : List String := match ci with
        | .defnInfo d => (d.value.getUsedConstants.toList.filter fun c =>
            (`Bnum).isPrefixOf c && !c.isInternalDetail && c != n).map toString
        | _ => []
      let kind : String := match ci with
        | .defnInfo _ => if (env.getProjectionFnInfo? n).isSome then "proj" else "def"
        | .ctorInfo _ => "ctor" | _ => "opaque"
      pure s!"{n}\t{modName}\t{String.intercalate ";" ps.toList}\t{(toString b).replace "\n" " "}\t{String.intercalate ";" used}\t{kind}"
    out := out.push s
  IO.println (String.intercalate "\n" out.toList)
