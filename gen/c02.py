"""C02 cases: multiplication."""
from .common import *

# other public routes to this property's operations (check.py step 2d): the neighbour generator's requests whose
# operation matches are part of this run, answered by the neighbour's harness bin
NEIGHBOURS = {"C17": r"(mul_|product)", "C18": r"nt_((checked_|wrapping_|saturating_)?mul|mul_add)"}
from . import widthsweep as _ws

# thorough tier: `widths` answers the unsigned overflowing_mul sweep of gen/widthsweep.py, `c02w` (all digit counts of
# every digit type, see harness/src/bin/c02w.rs) the sweep of `_sweep` below
HARNESS_BINS_THOROUGH = ["widths", "c02w"]

OPS = ["overflowing_mul", "checked_mul", "wrapping_mul", "saturating_mul"]
FORMS = ["vv", "vr", "rv", "rr", "as", "asr"]

# digit counts instantiated by the c02 bin only (`for_config_extra!` in harness/src/bin/c02.rs): around powers
# of two, odd / prime counts, the neighbours of the 8192-bit limit -- for EVERY digit type, signed and unsigned
# (changes keyed to one digit count or to one digit type x digit count).  Reduced vocabulary (`lean`, see c02.rs).
EXTRA_CFGS = ["8x6", "8x10", "8x11", "8x13", "8x15", "8x31", "8x32", "8x33", "8x65", "8x129", "8x1023",
              "16x6", "16x7", "16x8", "16x15", "16x17", "16x33", "16x255",
              "32x5", "32x7", "32x8", "32x9", "32x15", "32x17", "32x33", "32x127",
              "64x6", "64x7", "64x10", "64x11", "64x13", "64x15", "64x17", "64x31", "64x33", "64x127"]
# digit counts whose instantiations answer the operator forms (`mulop`; `imp!` in c02.rs)
FORM_NS = (1, 3, 17, 1024)


def mul_pair(rng, w, n, signed):
    """operand pairs whose product straddles the modulus / the sign boundary
    (also imported by gen/c04.py, gen/c16.py, gen/c17.py: keep its draws stable; C02 itself uses `mul_pair2`)"""
    W = w * n
    M = 1 << W
    H = M >> 1
    c = rng.randrange(12)
    if c < 4:
        t, a, b = pair(rng, w, n)
        return "pair:" + t, a, b
    if c < 7:
        # a * b just below / at / above the limit
        lim = H if (signed and rng.random() < 0.7) else M
        _, b = value(rng, w, n)
        b = b % lim or 3
        bb = to_signed(b, W) if signed else b
        if bb == 0:
            bb = 3
        q = lim // abs(bb)
        a = q + rng.randrange(-2, 3)
        if signed and rng.random() < 0.5:
            a = -a
        return "straddle", pat(a, W), pat(bb, W)
    if c == 7:
        # short operands: digit lengths i + j around n (overflow only through the last carry)
        i = rng.randrange(1, n + 1)
        j = max(1, n - i + rng.randrange(0, 2))
        a = rng.randrange(1 << (w * i))
        b = rng.randrange(1 << (w * min(j, n)))
        return "short", a, b
    if c == 8:
        i = rng.randrange(n)
        j = rng.randrange(n)
        return "digitpair", digit_value(rng, w) << (w * i), digit_value(rng, w) << (w * j)
    if c == 9:
        return "min*x", H, rng.choice([0, 1, M - 1, 2, M - 2, H, H - 1])
    if c == 10:
        k = rng.randrange(W)
        return "pow2", (1 << k), (1 << rng.randrange(W))
    return "sq", *([value(rng, w, n)[1]] * 2)


def _low(rng, w, k):
    """a k-digit filler: zero, all ones, one, random"""
    if k <= 0:
        return 0
    m = 1 << (w * k)
    return rng.choice([0, m - 1, 1, rng.randrange(m), rng.randrange(m)])


def _sparse(rng, w, top):
    """digits 0..top, the top one non-zero, most of the others zero"""
    v = (digit_value(rng, w) or 1) << (w * top)
    for i in range(top):
        if rng.random() < 0.3:
            v |= digit_value(rng, w) << (w * i)
    return v


def _sgn(rng, signed, a, b, W):
    """signed configurations: the same magnitudes with every combination of signs"""
    if signed:
        if rng.random() < 0.5:
            a = -a
        if rng.random() < 0.5:
            b = -b
    return pat(a, W), pat(b, W)


def mul_pair2(rng, w, n, signed):
    """`mul_pair` plus further GENERAL operand relations (each decides overflow by one digit, one carry or one bit):
       short-top   digit lengths i + j = n + 1 (no digit pair lands at column >= n): overflow is decided by the last
                   row carry alone, i.e. by (top digit of a) * (top digit of b) against B (signed: against B/2)
       ones        (B^i - 1) * (B^j - 1), i + j in {n, n + 1}: maximal carries through every column
       sparse      few non-zero digits; highest non-zero positions i + j in {n-2, ..., n+2}: the `index >= N` scan of
                   long_mul sees zero and non-zero digits in every order
       spow2       +-2^k * +-2^e with k + e in {W-2, W-1, W}: exactly MIN (representable) against exactly -MIN (not)
       exact       f * ((limit + d) / f) for small / digit-aligned factors f: the product is within f of
                   2^BITS, of 2^(BITS-1) or of -2^(BITS-1)
       min*x       MIN on either side, against 0, +-1, +-2, MIN, MAX, MIN+1 and arbitrary values
       dense       both operands with every digit close to B - 1 or exactly B/2 .. (column sums at their maximum)"""
    W = w * n
    M = 1 << W
    H = M >> 1
    B = 1 << w
    c = rng.randrange(16)
    if c < 4:
        return mul_pair(rng, w, n, signed)
    if c == 4:
        c = 14
    if c in (5, 6, 7):
        i = rng.randrange(1, n + 1)
        j = n + 1 - i
        lim = B // 2 if (signed and rng.random() < 0.6) else B
        ta = rng.choice([1, 2, 3, B - 1, B // 2, B // 2 - 1, rng.randrange(1, B), rng.randrange(1, B)])
        tb = min(B - 1, max(1, lim // ta + rng.randrange(-1, 2)))
        a = (ta << (w * (i - 1))) | _low(rng, w, i - 1)
        b = (tb << (w * (j - 1))) | _low(rng, w, j - 1)
        if rng.random() < 0.5:
            a, b = b, a
        return ("short-top",) + _sgn(rng, signed, a, b, W)
    if c == 8:
        i = rng.randrange(1, n + 1)
        j = min(n, max(1, n - i + rng.randrange(0, 2)))
        return ("ones",) + _sgn(rng, signed, (1 << (w * i)) - 1, (1 << (w * j)) - 1, W)
    if c in (9, 10):
        i = rng.randrange(n)
        j = min(n - 1, max(0, n - 1 - i + rng.randrange(-1, 4)))
        a, b = _sparse(rng, w, i), _sparse(rng, w, j)
        if rng.random() < 0.5:
            a, b = b, a
        return ("sparse",) + _sgn(rng, signed and rng.random() < 0.5, a, b, W)
    if c == 11:
        k = rng.randrange(W)
        e = min(W - 1, max(0, W - 1 - k + rng.randrange(-1, 2)))
        return ("spow2",) + _sgn(rng, signed, 1 << k, 1 << e, W)
    if c in (12, 13):
        lim = H if (signed and rng.random() < 0.7) else M
        k = rng.randrange(1, n + 1)
        f = rng.choice([2, 3, 5, 7, 10, 255, 257, B - 1, B + 1, (1 << (w * k)) - 1, (1 << (w * k)) + 1, 1 << (w * k - 1),
                        rng.randrange(2, 1 << (w * k))])
        f = min(f, lim - 1) or 1
        q = (lim + rng.choice([-f, -1, 0, 0, 1, f - 1, f])) // f
        a, b = (f, q) if rng.random() < 0.5 else (q, f)
        return ("exact",) + _sgn(rng, signed, a, b, W)
    if c == 14:
        x = rng.choice([0, 1, M - 1, 2, M - 2, H, H - 1, H + 1, 3, M - 3, value(rng, w, n)[1], rng.randrange(M)])
        return ("min*x", H, x) if rng.random() < 0.5 else ("x*min", x, H)
    hi = [B - 1, B - 1, B - 2, B // 2, B // 2 - 1, B // 2 + 1]
    a = sum(rng.choice(hi) << (w * i) for i in range(n))
    b = sum(rng.choice(hi) << (w * i) for i in range(n))
    return "dense", a, b


def carry_for(rng, w, n, a, b):
    """carry words for carrying_mul: the addition of the carry just crosses / just does not cross 2^BITS"""
    M = 1 << (w * n)
    lo = (a * b) % M
    c = rng.randrange(7)
    if c == 0:
        return M - 1
    if c in (1, 2):
        return (M - lo + rng.randrange(-1, 2)) % M
    if c == 3:
        return (M - 1 - lo) % M
    if c == 4:
        return rng.choice([0, 1])
    return value(rng, w, n)[1]


# every entry point of the `a * b` family, visited in rotation
NAMED = OPS + ["strict_mul", "mul dbg", "mul rel"]
ENTRIES = NAMED + ["mulop dbg", "mulop rel"]
PROJECTIONS = [e for e in ENTRIES if e not in ("overflowing_mul", "saturating_mul")]
LEAN = {"u": ["overflowing_mul", "mul dbg", "mul rel"], "i": ["overflowing_mul", "saturating_mul", "mul dbg", "mul rel"]}


def entries_of(cfg, s="u"):
    """what the c02 bin instantiates for `cfg` (operator forms / every named method / the reduced set)"""
    if cfg in EXTRA_CFGS:
        return LEAN[s]
    return ENTRIES if wn(cfg)[1] in FORM_NS else NAMED


def _entry(rng, k, s, cfg, a, b, entries=None):
    if entries is None:
        entries = entries_of(cfg, s)
    else:
        ok = entries_of(cfg, s)
        entries = [e for e in entries if e in ok]
    e = entries[k % len(entries)]
    if e.startswith("mulop"):
        return f"mulop {s}{cfg} {e.split()[1]} {rng.choice(FORMS)} {hx(a)} {hx(b)}"
    if e.startswith("mul "):
        return f"mul {s}{cfg} {e.split()[1]} {hx(a)} {hx(b)}"
    return f"{e} {s}{cfg} {hx(a)} {hx(b)}"


def _gen_main(rng, tier):
    reps = 150 if tier == "thorough" else 30
    for cfg in cfgs(tier):
        w, n = wn(cfg)
        for _ in range(reps if n <= 40 else 5):
            for s in "ui":
                for op in OPS + ["strict_mul"]:
                    t, a, b = mul_pair2(rng, w, n, s == "i")
                    yield f"{op} {s}{cfg} {hx(a)} {hx(b)}", t
                t, a, b = mul_pair2(rng, w, n, s == "i")
                for mode in ("dbg", "rel"):
                    yield f"mul {s}{cfg} {mode} {hx(a)} {hx(b)}", t
                if n in FORM_NS:
                    t, a, b = mul_pair2(rng, w, n, s == "i")
                    f = rng.choice(FORMS)
                    for mode in ("dbg", "rel"):
                        yield f"mulop {s}{cfg} {mode} {f} {hx(a)} {hx(b)}", t
            t, a, b = mul_pair2(rng, w, n, False)
            yield f"widening_mul u{cfg} {hx(a)} {hx(b)}", t
            yield f"carrying_mul u{cfg} {hx(a)} {hx(b)} {hx(carry_for(rng, w, n, a, b))}", t
            t, a, b = mul_pair2(rng, w, n, False)
            yield f"carrying_mul u{cfg} {hx(a)} {hx(b)} {hx(carry_for(rng, w, n, a, b))}", t
    if tier == "thorough":
        for s in "ui":
            for op in ["overflowing_mul", "saturating_mul"]:
                for a in range(256):
                    for b in range(256):
                        yield f"{op} {s}8x1 {hx(a)} {hx(b)}", "exhaustive8"


def _extra(rng, tier):
    """further digit counts of every digit type: EXTRA_CFGS, and in the quick tier also the configurations of the
    thorough list (the bin instantiates them anyway); every available entry point, signed and unsigned"""
    k = rng.randrange(len(ENTRIES))
    more = [c for c in THOROUGH_CFGS if c not in QUICK_CFGS and c not in HUGE_CFGS] if tier != "thorough" else []
    for cfg in EXTRA_CFGS + more:
        w, n = wn(cfg)
        rounds = (12 if tier == "thorough" else 6) if w * n <= 2100 else (2 if tier == "thorough" else 1)
        for _ in range(rounds):
            for s in "ui":
                for _ in range(3):
                    t, a, b = mul_pair2(rng, w, n, s == "i")
                    yield _entry(rng, k, s, cfg, a, b), t
                    k += 1
            t, a, b = mul_pair2(rng, w, n, False)
            yield f"widening_mul u{cfg} {hx(a)} {hx(b)}", t
            t, a, b = mul_pair2(rng, w, n, False)
            yield f"carrying_mul u{cfg} {hx(a)} {hx(b)} {hx(carry_for(rng, w, n, a, b))}", t


def _words(rng, tier):
    """chains of carrying_mul: a k-word number times one word (the hi word of each step is the next carry)"""
    for cfg in cfgs(tier) + EXTRA_CFGS + HUGE_CFGS:
        w, n = wn(cfg)
        if n > 130 and cfg not in HUGE_CFGS[:1]:
            continue
        M = 1 << (w * n)
        for _ in range(1 if n > 40 else 3):
            k = rng.choice([0, 1, 2, 3, 4, 7]) if n <= 40 else 2
            t, a, b = mul_pair2(rng, w, n, False)
            ws = [a] + [rng.choice([M - 1, 0, value(rng, w, n)[1], rng.randrange(M)]) for _ in range(k)]
            ws = ws[:k]
            yield f"mul_words u{cfg} {hx(b)} {hx(carry_for(rng, w, n, a, b))} {','.join(hx(x) for x in ws) or '-'}", "words"


def _sweep(rng):
    """thorough tier: EVERY digit count -- u8 digits N = 1..1024, u64 digits N = 1..128, u32 / u16 digits N = 1..64 --
    signed and unsigned, through the entry points that have a body of their own (bin `c02w`)"""
    def one(k, w, n):
        cfg = f"{w}x{n}"
        e = k % 6
        if e == 0:
            t, a, b = mul_pair2(rng, w, n, True)
            return f"overflowing_mul i{cfg} {hx(a)} {hx(b)}", "sweep:" + t
        if e == 1:
            t, a, b = mul_pair2(rng, w, n, False)
            return f"widening_mul u{cfg} {hx(a)} {hx(b)}", "sweep:" + t
        if e == 2:
            t, a, b = mul_pair2(rng, w, n, False)
            return f"carrying_mul u{cfg} {hx(a)} {hx(b)} {hx(carry_for(rng, w, n, a, b))}", "sweep:" + t
        if e == 3:
            t, a, b = mul_pair2(rng, w, n, True)
            return f"saturating_mul i{cfg} {hx(a)} {hx(b)}", "sweep:" + t
        if e == 4:
            t, a, b = mul_pair2(rng, w, n, False)
            return f"overflowing_mul u{cfg} {hx(a)} {hx(b)}", "sweep:" + t
        s = rng.choice("ui")
        t, a, b = mul_pair2(rng, w, n, s == "i")
        return f"mul {s}{cfg} {rng.choice(['dbg', 'rel'])} {hx(a)} {hx(b)}", "sweep:" + t

    k = 0
    for w, top in ((8, 1024), (64, 128), (32, 64), (16, 64)):
        for n in range(1, top + 1):
            # 8192-bit requests are slow in the Lean model: one per digit count above 2048 bits, twelve below
            for _ in range(12 if w * n <= 2048 else 1):
                yield one(k, w, n)
                k += 1
        k += 1


def _edges(rng, tier):
    """the limits of the type against each other, on EVERY instantiated configuration and through every available
    entry point: 0, +-1, +-2, +-3, MIN, MAX, MIN+1, 2^(W/2) and neighbours, one full digit, the top digit alone"""
    all_cfgs = list(dict.fromkeys(cfgs(tier) + [c for c in THOROUGH_CFGS if c not in HUGE_CFGS] + EXTRA_CFGS + HUGE_CFGS))
    for cfg in all_cfgs:
        w, n = wn(cfg)
        W = w * n
        M = 1 << W
        H = M >> 1
        h = 1 << (W // 2)
        E = [0, 1, 2, 3, M - 1, M - 2, M - 3, H, H - 1, H + 1, h, h - 1, pat(h + 1, W), pat(-h, W), (1 << w) - 1,
             pat(((1 << w) - 1) << (W - w), W), 1 << (W - w), pat((1 << ((W + 1) // 2)) + 1, W)]
        count = 2 * len(E) ** 2 if W <= 320 else 160 if W <= 1100 else 48 if W <= 2200 else 12
        if tier == "thorough":
            count *= 3
        k = rng.randrange(len(ENTRIES))
        if count >= 2 * len(E) ** 2:
            todo = [(s, a, b) for s in "ui" for a in E for b in E]
        else:
            todo = [("ui"[i % 2], rng.choice(E), rng.choice(E)) for i in range(count)]
        for s, a, b in todo:
            yield _entry(rng, k, s, cfg, a, b), "limits"
            k += 1
            if k % 11 == 0 and s == "u":
                yield f"carrying_mul u{cfg} {hx(a)} {hx(b)} {hx(rng.choice(E))}", "limits"


def gen(rng, tier):
    yield from _gen_main(rng, tier)
    if tier == "thorough":
        yield from _sweep(rng)
    yield from _grid(rng, tier)
    yield from _huge(rng, tier)
    yield from _extra(rng, tier)
    yield from _words(rng, tier)
    yield from _edges(rng, tier)
    yield from _exh8(rng, tier)


def _grid(rng, tier):
    lim = 20000 if tier == "thorough" else 700
    for cfg in GRID_CFGS:
        for s in "ui":
            for op in ("overflowing_mul", "saturating_mul"):
                for a, b in grid_pairs(rng, cfg, lim):
                    yield f"{op} {s}{cfg} {hx(a)} {hx(b)}", "edge-grid"
            # the projections and the operator forms on the same dense set, one entry point per pair
            k = rng.randrange(len(PROJECTIONS))
            for a, b in grid_pairs(rng, cfg, lim):
                yield _entry(rng, k, s, cfg, a, b, PROJECTIONS), "edge-grid"
                k += 1
        for a, b in grid_pairs(rng, cfg, lim):
            yield f"widening_mul u{cfg} {hx(a)} {hx(b)}", "edge-grid"
            yield f"carrying_mul u{cfg} {hx(a)} {hx(b)} {hx(rng.choice(edge_grid(*wn(cfg))))}", "edge-grid"


def _huge(rng, tier):
    for cfg in HUGE_CFGS:
        w, n = wn(cfg)
        vals = huge_values(rng, cfg)
        pairs = [(a, b) for a in vals[:5] for b in vals[:3] + vals[6:]]
        if tier != "thorough":
            pairs = pairs[::3]
        for k, (a, b) in enumerate(pairs):
            yield _entry(rng, k, "ui"[k % 2], cfg, a, b), "huge"
        yield f"widening_mul u{cfg} {hx(vals[0])} {hx(vals[1])}", "huge"
        yield f"carrying_mul u{cfg} {hx(vals[1])} {hx(vals[0])} {hx(vals[0])}", "huge"
        # the structured relations at 8192 bits: products that fit / overflow by one digit, carry or bit
        k = rng.randrange(len(ENTRIES))
        for _ in range(28 if tier == "thorough" else 7):
            for s in "ui":
                t, a, b = mul_pair2(rng, w, n, s == "i")
                yield _entry(rng, k, s, cfg, a, b), "huge:" + t
                k += 1
        for _ in range(2):
            t, a, b = mul_pair2(rng, w, n, False)
            yield f"widening_mul u{cfg} {hx(a)} {hx(b)}", "huge:" + t
            yield f"carrying_mul u{cfg} {hx(a)} {hx(b)} {hx(carry_for(rng, w, n, a, b))}", "huge:" + t


def _exh8(rng, tier):
    """complete enumeration of the 8-bit instantiation (a test of the u8 digit primitives through N = 1)"""
    edge = [0, 1, 0x7f, 0x80, 0xff]
    if tier == "thorough":
        for a in range(256):
            for b in range(256):
                for c in edge:
                    yield f"carrying_mul u8x1 {hx(a)} {hx(b)} {hx(c)}", "exhaustive8"
    else:
        for s in "ui":
            for a in range(256):
                for b in range(256):
                    yield f"overflowing_mul {s}8x1 {hx(a)} {hx(b)}", "exhaustive8"
    for a in range(256):
        for b in range(256):
            yield f"widening_mul u8x1 {hx(a)} {hx(b)}", "exhaustive8"
            if tier != "thorough":
                yield f"carrying_mul u8x1 {hx(a)} {hx(b)} {hx(edge[(a * 3 + b) % 5] if (a + b) % 3 else (256 - a * b % 256 + (a % 3) - 1) % 256)}", "exhaustive8"


_C02_CFGS = None


def ROUTE(line):
    """thorough tier: the c02 bin answers its own configurations (shared list + EXTRA_CFGS); of the others, the
    unsigned overflowing_mul u8xN of gen/widthsweep.py go to the `widths` bin, everything else to `c02w`"""
    global _C02_CFGS
    if _C02_CFGS is None:
        _C02_CFGS = set(THOROUGH_CFGS + HUGE_CFGS + EXTRA_CFGS)
    op, cfg = line.split(" ", 2)[:2]
    if cfg[1:] in _C02_CFGS:
        return "c02"
    if op == "overflowing_mul" and cfg.startswith("u8x"):
        return "widths"
    return "c02w"
