"""C02 cases: multiplication."""
from .common import *
from . import widthsweep as _ws

HARNESS_BINS_THOROUGH = ["widths"]

OPS = ["overflowing_mul", "checked_mul", "wrapping_mul", "saturating_mul"]


def mul_pair(rng, w, n, signed):
    """operand pairs whose product straddles the modulus / the sign boundary"""
    W = w * n
    M = 1 << W
    H = M >> 1
    c = rng.randrange(12)
    if c < 4:
        t, a, b = pair(rng, w, n)
        return "pair:" + t, a, b
    if c < 7:
        # a * b just below / at / above the limit
        lim = H if (signed and rng.random() < 0.7) else M
        _, b = value(rng, w, n)
        b = b % lim or 3
        bb = to_signed(b, W) if signed else b
        if bb == 0:
            bb = 3
        q = lim // abs(bb)
        a = q + rng.randrange(-2, 3)
        if signed and rng.random() < 0.5:
            a = -a
        return "straddle", pat(a, W), pat(bb, W)
    if c == 7:
        # short operands: digit lengths i + j around n (overflow only through the last carry)
        i = rng.randrange(1, n + 1)
        j = max(1, n - i + rng.randrange(0, 2))
        a = rng.randrange(1 << (w * i))
        b = rng.randrange(1 << (w * min(j, n)))
        return "short", a, b
    if c == 8:
        i = rng.randrange(n)
        j = rng.randrange(n)
        return "digitpair", digit_value(rng, w) << (w * i), digit_value(rng, w) << (w * j)
    if c == 9:
        return "min*x", H, rng.choice([0, 1, M - 1, 2, M - 2, H, H - 1])
    if c == 10:
        k = rng.randrange(W)
        return "pow2", (1 << k), (1 << rng.randrange(W))
    return "sq", *([value(rng, w, n)[1]] * 2)


def _gen_main(rng, tier):
    reps = 150 if tier == "thorough" else 20
    for cfg in cfgs(tier):
        w, n = wn(cfg)
        if n > 40 and tier != "thorough":
            continue
        for _ in range(reps if n <= 40 else 5):
            for s in "ui":
                for op in OPS + ["strict_mul"]:
                    t, a, b = mul_pair(rng, w, n, s == "i")
                    yield f"{op} {s}{cfg} {hx(a)} {hx(b)}", t
                t, a, b = mul_pair(rng, w, n, s == "i")
                for mode in ("dbg", "rel"):
                    yield f"mul {s}{cfg} {mode} {hx(a)} {hx(b)}", t
            t, a, b = mul_pair(rng, w, n, False)
            yield f"widening_mul u{cfg} {hx(a)} {hx(b)}", t
            _, c = value(rng, w, n)
            yield f"carrying_mul u{cfg} {hx(a)} {hx(b)} {hx(c)}", t
    if tier == "thorough":
        for s in "ui":
            for op in ["overflowing_mul", "saturating_mul"]:
                for a in range(256):
                    for b in range(256):
                        yield f"{op} {s}8x1 {hx(a)} {hx(b)}", "exhaustive8"
        for a in range(256):
            for b in range(256):
                yield f"widening_mul u8x1 {hx(a)} {hx(b)}", "exhaustive8"


def gen(rng, tier):
    yield from _gen_main(rng, tier)
    if tier == "thorough":
        yield from _ws.mul(rng)
    yield from _grid(rng, tier)
    yield from _huge(rng, tier)
    yield from _exh8(rng, tier)


def _grid(rng, tier):
    lim = 20000 if tier == "thorough" else 700
    for cfg in GRID_CFGS:
        for s in "ui":
            for op in ("overflowing_mul", "saturating_mul"):
                for a, b in grid_pairs(rng, cfg, lim):
                    yield f"{op} {s}{cfg} {hx(a)} {hx(b)}", "edge-grid"
        for a, b in grid_pairs(rng, cfg, lim):
            yield f"widening_mul u{cfg} {hx(a)} {hx(b)}", "edge-grid"
            yield f"carrying_mul u{cfg} {hx(a)} {hx(b)} {hx(rng.choice(edge_grid(*wn(cfg))))}", "edge-grid"


def _huge(rng, tier):
    for cfg in HUGE_CFGS:
        vals = huge_values(rng, cfg)
        k = 0
        for a in vals[:5]:
            for b in vals[:3] + vals[6:]:
                s = "ui"[k % 2]
                op = ["overflowing_mul", "checked_mul", "wrapping_mul", "saturating_mul"][k % 4]
                k += 1
                yield f"{op} {s}{cfg} {hx(a)} {hx(b)}", "huge"
        yield f"widening_mul u{cfg} {hx(vals[0])} {hx(vals[1])}", "huge"
        yield f"carrying_mul u{cfg} {hx(vals[1])} {hx(vals[0])} {hx(vals[0])}", "huge"


def _exh8(rng, tier):
    """complete enumeration of the 8-bit instantiation (a test of the u8 digit primitives through N = 1)"""
    if tier == "thorough":
        return
    for s in "ui":
        for op in ['overflowing_mul']:
            for a in range(256):
                for b in range(256):
                    yield f"{op} {s}8x1 {hx(a)} {hx(b)}", "exhaustive8"


def ROUTE(line):
    return _ws.route(line, "c02")
