"""tr_lex.py — Rust front end of gen/translate.py (standard library only).

  * tokenizer -> token trees (comments, doc comments and white space vanish here, which is why a
    comment/white-space-only edit of the crate cannot change anything downstream);
  * a `macro_rules!` matcher / transcriber for the fragment kinds the crate uses
    (ident, ty, expr, tt, literal, path, block, lifetime, vis) including `$( … ) sep rep` repetitions;
  * item extraction: walks the (macro-expanded) items of every source file and collects every `fn` that sits in an
    `impl` block, together with the impl header (self type, trait), its signature and its body token tree.

Nothing in this file knows anything about the Lean model.
"""
import os

# ------------------------------------------------------------------------------------------------ tokens

class Tok:
    __slots__ = ('k', 's', 'line', 'joint', 'ch', 'f')
    # k: 'id' 'num' 'str' 'chr' 'life' 'p' (one punctuation char) 'mv' ($name) 'grp' (s = '(' '[' '{', ch = children)
    def __init__(self, k, s, line=0, joint=False, ch=None):
        self.k = k; self.s = s; self.line = line; self.joint = joint; self.ch = ch; self.f = None
    def __repr__(self):
        return 'Tok(%s,%r)' % (self.k, self.s if self.k != 'grp' else self.s + '…')

CLOSE = {'(': ')', '[': ']', '{': '}'}
PUNCT = set('+-*/%^!&|=<>@.,;:#$?~\\')

class LexError(Exception):
    pass

def tokenize(src):
    """-> list of token trees"""
    i = 0; n = len(src); line = 1
    stack = [[]]; opens = []
    def push(t):
        stack[-1].append(t)
    while i < n:
        c = src[i]
        if c == '\n':
            line += 1; i += 1; continue
        if c.isspace():
            i += 1; continue
        if src.startswith('//', i):
            j = src.find('\n', i)
            i = n if j < 0 else j
            continue
        if src.startswith('/*', i):
            depth = 1; i += 2
            while i < n and depth:
                if src.startswith('/*', i): depth += 1; i += 2
                elif src.startswith('*/', i): depth -= 1; i += 2
                else:
                    if src[i] == '\n': line += 1
                    i += 1
            continue
        if c.isalpha() or c == '_':
            # raw / byte strings
            if c in 'rb':
                j = i
                if src.startswith('br', j): j += 2
                elif c == 'r' or c == 'b': j += 1
                k = j
                while k < n and src[k] == '#': k += 1
                if k < n and src[k] == '"' and (src[i:j] in ('r', 'br') or (src[i:j] == 'b' and k == j)):
                    hashes = k - j
                    if 'r' in src[i:j]:
                        end = src.find('"' + '#' * hashes, k + 1)
                        if end < 0: raise LexError('unterminated raw string at line %d' % line)
                        text = src[i:end + 1 + hashes]
                        line += text.count('\n')
                        push(Tok('str', text, line)); i = end + 1 + hashes
                        continue
                    # b"…" falls through to the ordinary string lexer below
                    i = j; c = '"'
                    # (handled by the string branch on the next loop turn)
                    continue
                if src[i:j] == 'b' and j < n and src[j] == "'":
                    i = j; continue
                if c == 'r' and src.startswith('r#', i) and i + 2 < n and (src[i + 2].isalpha() or src[i + 2] == '_'):
                    i += 2
            j = i
            while j < n and (src[j].isalnum() or src[j] == '_'): j += 1
            push(Tok('id', src[i:j], line)); i = j
            continue
        if c.isdigit():
            j = i
            prev = stack[-1][-1] if stack[-1] else None
            after_dot = prev is not None and prev.k == 'p' and prev.s == '.'
            if after_dot:
                while j < n and src[j].isdigit(): j += 1
            else:
                while j < n and (src[j].isalnum() or src[j] == '_'): j += 1
                if j + 1 < n and src[j] == '.' and src[j + 1].isdigit():
                    j += 1
                    while j < n and (src[j].isalnum() or src[j] == '_'): j += 1
            push(Tok('num', src[i:j], line)); i = j
            continue
        if c == '"':
            j = i + 1
            while j < n and src[j] != '"':
                if src[j] == '\\': j += 1
                if j < n and src[j] == '\n': line += 1
                j += 1
            push(Tok('str', src[i:j + 1], line)); i = j + 1
            continue
        if c == "'":
            # char literal or lifetime
            if i + 1 < n and src[i + 1] == '\\':
                j = src.find("'", i + 3)
                push(Tok('chr', src[i:j + 1], line)); i = j + 1
                continue
            if i + 2 < n and src[i + 2] == "'":
                push(Tok('chr', src[i:i + 3], line)); i += 3
                continue
            j = i + 1
            while j < n and (src[j].isalnum() or src[j] == '_'): j += 1
            push(Tok('life', src[i:j], line)); i = j
            continue
        if c == '$' and i + 1 < n and (src[i + 1].isalpha() or src[i + 1] == '_'):
            j = i + 1
            while j < n and (src[j].isalnum() or src[j] == '_'): j += 1
            push(Tok('mv', src[i + 1:j], line)); i = j
            continue
        if c in '([{':
            t = Tok('grp', c, line, ch=[])
            push(t); stack.append(t.ch); opens.append(c); i += 1
            continue
        if c in ')]}':
            if not opens or CLOSE[opens[-1]] != c:
                raise LexError('unbalanced %r at line %d' % (c, line))
            opens.pop(); stack.pop(); i += 1
            continue
        if c in PUNCT:
            joint = i + 1 < n and src[i + 1] in PUNCT
            push(Tok('p', c, line, joint)); i += 1
            continue
        raise LexError('unexpected character %r at line %d' % (c, line))
    if opens:
        raise LexError('unclosed %r' % opens[-1])
    return stack[0]

def set_file(toks, rel):
    for t in toks:
        t.f = rel
        if t.k == 'grp': set_file(t.ch, rel)

def is_p(t, s):
    return t is not None and t.k == 'p' and t.s == s

def is_id(t, s=None):
    return t is not None and t.k == 'id' and (s is None or t.s == s)

def is_grp(t, d=None):
    return t is not None and t.k == 'grp' and (d is None or t.s == d)

def text(toks):
    """canonical one-line rendering of a token sequence (diagnostics, type strings)"""
    out = []
    prev = None
    for t in toks:
        if t.k == 'grp':
            s = t.s + text(t.ch) + CLOSE[t.s]
        elif t.k == 'mv':
            s = '$' + t.s
        else:
            s = t.s
        if prev is not None:
            sp = True
            if prev.k == 'p' and prev.joint and t.k == 'p': sp = False
            elif prev.k == 'p' and prev.s in '.:!#<$': sp = False
            if t.k == 'p' and t.s in '.,;:?>': sp = False
            if t.k == 'p' and t.s == '<' and prev.k == 'id': sp = False
            if t.k == 'grp' and t.s in '([' and prev.k in ('id', 'grp'): sp = False
            if t.k == 'p' and t.s == '!' and prev.k == 'id': sp = False
            if prev.k == 'p' and prev.s == ':' and not prev.joint and not (len(out) >= 2 and out[-2] == ':'): sp = True
            if sp: out.append(' ')
        out.append(s)
        prev = t
    return ''.join(out)

# ------------------------------------------------------------------------------------------------ macro_rules

class MacroError(Exception):
    pass

class Macro:
    def __init__(self, name, rules, module, line):
        self.name = name; self.rules = rules; self.module = module; self.line = line; self.file = None

def parse_pattern(toks):
    out = []; i = 0
    while i < len(toks):
        t = toks[i]
        if t.k == 'mv' and i + 2 < len(toks) and is_p(toks[i + 1], ':') and toks[i + 2].k == 'id':
            out.append(('var', t.s, toks[i + 2].s)); i += 3
            continue
        if is_p(t, '$') and i + 1 < len(toks) and is_grp(toks[i + 1], '('):
            inner = parse_pattern(toks[i + 1].ch)
            i += 2
            sep = None
            if i < len(toks) and toks[i].k == 'p' and toks[i].s in '*+?':
                op = toks[i].s; i += 1
            else:
                sep = toks[i]; i += 1
                if not (i < len(toks) and toks[i].k == 'p' and toks[i].s in '*+?'):
                    raise MacroError('bad repetition')
                op = toks[i].s; i += 1
            out.append(('rep', inner, sep, op))
            continue
        if t.k == 'grp':
            out.append(('grp', t.s, parse_pattern(t.ch))); i += 1
            continue
        out.append(('tok', t)); i += 1
    return out

def parse_macro_rules(name, body_grp, module, line):
    toks = body_grp.ch
    rules = []; i = 0
    while i < len(toks):
        if is_p(toks[i], ';'):
            i += 1; continue
        if not is_grp(toks[i]): raise MacroError('macro %s: matcher expected' % name)
        pat = parse_pattern(toks[i].ch)
        if not (is_p(toks[i + 1], '=') and is_p(toks[i + 2], '>')): raise MacroError('macro %s: => expected' % name)
        if not is_grp(toks[i + 3]): raise MacroError('macro %s: transcriber expected' % name)
        rules.append((pat, toks[i + 3].ch))
        i += 4
    return Macro(name, rules, module, line)

def tok_eq(a, b):
    if a.k != b.k: return False
    if a.k == 'grp': return a.s == b.s and len(a.ch) == len(b.ch) and all(tok_eq(x, y) for x, y in zip(a.ch, b.ch))
    return a.s == b.s

TY_STOP = set(',;=|{}')

def ty_extent(toks, pos):
    """end index of the type starting at pos (heuristic, good for the crate's macro invocations)"""
    i = pos; depth = 0; n = len(toks)
    prev = None
    while i < n:
        t = toks[i]
        if t.k == 'p':
            if t.s == '<':
                depth += 1
            elif t.s == '>':
                if prev is not None and is_p(prev, '-'):
                    pass
                elif depth == 0:
                    break
                else:
                    depth -= 1
            elif depth == 0:
                if t.s in ',;=|?@#$':
                    break
                if t.s == ':':
                    # '::' continues a path, a single ':' ends the type
                    if t.joint and i + 1 < n and is_p(toks[i + 1], ':'):
                        prev = toks[i + 1]; i += 2; continue
                    break
        elif t.k == 'grp':
            if depth == 0 and t.s == '{': break
            if depth == 0 and prev is not None and (prev.k == 'grp' or (prev.k == 'id' and prev.s not in ('fn', 'mut', 'const', 'dyn', 'impl')) or is_p(prev, '>')):
                if not (prev.k == 'id' and prev.s == 'fn'):
                    break
        elif t.k in ('id', 'mv'):
            if depth == 0 and prev is not None and (prev.k in ('id', 'mv', 'grp') or is_p(prev, '>')) \
                    and not (prev.k == 'id' and prev.s in ('mut', 'const', 'dyn', 'impl', 'as')) and t.s != 'as':
                break
            if depth == 0 and t.s == 'as' and prev is not None and not is_p(prev, '<'):
                # `<T as Trait>` only occurs inside angle brackets (depth > 0)
                break
        elif t.k in ('num', 'str', 'chr'):
            if depth == 0: break
        prev = t; i += 1
    return i

def expr_extent(toks, pos):
    i = pos; n = len(toks)
    while i < n:
        t = toks[i]
        if t.k == 'p' and t.s in ',;':
            break
        if t.k == 'p' and t.s == '=' and t.joint and i + 1 < n and is_p(toks[i + 1], '>'):
            break
        i += 1
    return i

def match_frag(frag, toks, pos):
    """-> (end, tokens) or None"""
    n = len(toks)
    if pos >= n: return None
    t = toks[pos]
    if frag == 'ident':
        if t.k in ('id',) : return pos + 1, [t]
        return None
    if frag == 'tt':
        return pos + 1, [t]
    if frag == 'lifetime':
        return (pos + 1, [t]) if t.k == 'life' else None
    if frag == 'literal':
        if t.k in ('num', 'str', 'chr') or (t.k == 'id' and t.s in ('true', 'false')): return pos + 1, [t]
        if is_p(t, '-') and pos + 1 < n and toks[pos + 1].k == 'num': return pos + 2, toks[pos:pos + 2]
        return None
    if frag == 'block':
        return (pos + 1, [t]) if is_grp(t, '{') else None
    if frag in ('ty', 'path'):
        e = ty_extent(toks, pos)
        return (e, toks[pos:e]) if e > pos else None
    if frag == 'expr':
        e = expr_extent(toks, pos)
        return (e, toks[pos:e]) if e > pos else None
    if frag == 'meta':
        return n, toks[pos:]
    if frag == 'vis':
        if is_id(t, 'pub'):
            if pos + 1 < n and is_grp(toks[pos + 1], '('): return pos + 2, toks[pos:pos + 2]
            return pos + 1, [t]
        return pos, []
    raise MacroError('fragment kind %s not supported' % frag)

def pat_vars(pat, acc=None):
    acc = [] if acc is None else acc
    for p in pat:
        if p[0] == 'var': acc.append(p[1])
        elif p[0] == 'rep': pat_vars(p[1], acc)
        elif p[0] == 'grp': pat_vars(p[2], acc)
    return acc

def match_pat(pat, toks, pos, binds):
    """match the whole pattern sequence starting at pos; -> end position or None"""
    for idx, p in enumerate(pat):
        kind = p[0]
        if kind == 'tok':
            if pos < len(toks) and tok_eq(toks[pos], p[1]): pos += 1
            else: return None
        elif kind == 'var':
            r = match_frag(p[2], toks, pos)
            if r is None: return None
            pos, frag = r
            binds[p[1]] = ('leaf', frag, p[2])
        elif kind == 'grp':
            if pos < len(toks) and is_grp(toks[pos], p[1]):
                b2 = {}
                e = match_pat(p[2], toks[pos].ch, 0, b2)
                if e is None or e != len(toks[pos].ch): return None
                binds.update(b2); pos += 1
            else: return None
        elif kind == 'rep':
            inner, sep, op = p[1], p[2], p[3]
            iters = []
            while True:
                if op == '?' and iters: break
                start = pos
                if iters and sep is not None:
                    if pos < len(toks) and tok_eq(toks[pos], sep): start = pos + 1
                    else: break
                if start >= len(toks) and inner: break
                b2 = {}
                e = match_pat(inner, toks, start, b2)
                if e is None or e == start: break
                iters.append(b2); pos = e
            if op == '+' and not iters: return None
            # a trailing separator is tolerated by many of the crate's invocations? no: keep strict
            for v in pat_vars(inner):
                binds[v] = ('list', [it.get(v) for it in iters])
    return pos

def clone_tok(t, line=None):
    if t.k == 'grp':
        n = Tok('grp', t.s, t.line, ch=[clone_tok(c) for c in t.ch])
    else:
        n = Tok(t.k, t.s, t.line, t.joint)
    n.f = t.f
    return n

def transcribe(body, binds):
    out = []; i = 0
    while i < len(body):
        t = body[i]
        if t.k == 'mv':
            if t.s == 'crate':
                out.append(Tok('id', 'crate', t.line)); i += 1; continue
            b = binds.get(t.s)
            if b is None:
                out.append(clone_tok(t)); i += 1; continue
            if b[0] != 'leaf':
                raise MacroError('variable $%s used at wrong repetition depth' % t.s)
            frag = [clone_tok(x) for x in b[1]]
            if b[2] == 'expr' and len(frag) > 1:
                out.append(Tok('grp', '(', t.line, ch=frag))
            else:
                out.extend(frag)
            i += 1; continue
        if is_p(t, '$') and i + 1 < len(body) and is_grp(body[i + 1], '('):
            inner = body[i + 1].ch
            j = i + 2
            sep = None
            if j < len(body) and body[j].k == 'p' and body[j].s in '*+?':
                j += 1
            else:
                sep = body[j]; j += 2
            used = [v for v in mv_names(inner) if v in binds and binds[v][0] == 'list']
            if not used:
                raise MacroError('repetition without repeated variable')
            cnt = len(binds[used[0]][1])
            for k in range(cnt):
                b2 = dict(binds)
                for v in used:
                    lst = binds[v][1]
                    if k < len(lst) and lst[k] is not None: b2[v] = lst[k]
                    else: b2.pop(v, None)
                if k and sep is not None: out.append(clone_tok(sep))
                out.extend(transcribe(inner, b2))
            i = j; continue
        if t.k == 'grp':
            g = Tok('grp', t.s, t.line, ch=transcribe(t.ch, binds)); g.f = t.f
            out.append(g); i += 1; continue
        out.append(clone_tok(t)); i += 1
    return out

def mv_names(toks, acc=None):
    acc = [] if acc is None else acc
    for t in toks:
        if t.k == 'mv': acc.append(t.s)
        elif t.k == 'grp': mv_names(t.ch, acc)
    return acc

def expand_macro(mac, arg_toks):
    for pat, body in mac.rules:
        binds = {}
        try:
            e = match_pat(pat, arg_toks, 0, binds)
        except MacroError:
            e = None
        if e is not None and e == len(arg_toks):
            return transcribe(body, binds)
    raise MacroError('no rule of macro %s matches `%s`' % (mac.name, text(arg_toks)[:120]))

# ------------------------------------------------------------------------------------------------ crate model

PRIM_SELF = ('u8', 'u16', 'u32', 'u64', 'u128', 'usize', 'i8', 'i16', 'i32', 'i64', 'i128', 'isize', 'bool', 'char', 'f32', 'f64')

class FnItem:
    """one `fn` found in an impl block (after macro expansion)"""
    def __init__(self):
        self.file = ''; self.site = ''; self.line = 0; self.name = ''   # file: where the text is; site: where the macro was expanded
        self.self_kind = None      # 'UI' | 'II' | None (other type)
        self.self_ref = False      # impl … for &T
        self.self_text = ''
        self.trait = None          # trait name or None
        self.trait_args = ''       # normalised generic arguments of the trait
        self.params = []           # [(pattern tokens, type tokens)]  (receiver excluded)
        self.recv = None           # None | 'val' | 'ref' | 'refmut'
        self.ret = []              # type tokens ([] = unit)
        self.body = None           # '{' group
        self.generics = []
        self.attrs = []            # attribute strings
        self.via = ''              # macro path that produced it ('' = written in the file's own macro)
        self.uses = set()          # names imported by `use` in the defining file
        self.impl_consts = {}      # associated consts defined in the same impl: name -> (type toks, expr toks)
    @property
    def key(self):
        st = ('r' if self.self_ref else '') + (self.self_kind or (self.self_text if self.self_text in PRIM_SELF else '<' + self.self_text + '>'))
        if self.trait:
            return '%s::%s%s::%s' % (st, self.trait, ('<' + self.trait_args + '>') if self.trait_args else '', self.name)
        return '%s::%s' % (st, self.name)

SKIP_DIRS = ('test', 'doc', 'float')

class Crate:
    def __init__(self, src):
        self.src = src
        self.files = {}        # rel path -> token trees
        self.macros = {}       # (module tuple, name) -> Macro
        self.fns = []          # FnItem
        self.free_fns = []     # FnItem (no impl)
        self.errors = []       # (file, message)
        self.file_uses = {}
        self.instances = {}    # rel path -> list of (BUint, BInt, Digit) instantiations seen via main_impl!
        self._load()

    def _module_of(self, rel):
        parts = rel[:-3].split('/')
        if parts[-1] in ('mod', 'lib'): parts = parts[:-1]
        return tuple(parts)

    def _load(self):
        for root, dirs, files in os.walk(self.src):
            dirs.sort()
            relroot = os.path.relpath(root, self.src)
            top = relroot.split(os.sep)[0]
            if top in SKIP_DIRS: continue
            for f in sorted(files):
                if not f.endswith('.rs'): continue
                rel = os.path.normpath(os.path.join(relroot, f)).replace(os.sep, '/')
                try:
                    with open(os.path.join(root, f), encoding='utf-8') as fh:
                        self.files[rel] = tokenize(fh.read())
                    set_file(self.files[rel], rel)
                except (LexError, OSError, UnicodeDecodeError) as e:
                    self.errors.append((rel, 'lex: %s' % e))
        # pass 1: top-level macro definitions of every file
        for rel, toks in self.files.items():
            mod = self._module_of(rel)
            i = 0
            while i < len(toks):
                if is_id(toks[i], 'macro_rules') and i + 3 < len(toks) and is_p(toks[i + 1], '!') and toks[i + 2].k == 'id' and is_grp(toks[i + 3]):
                    try:
                        mc = parse_macro_rules(toks[i + 2].s, toks[i + 3], mod, toks[i].line)
                        mc.file = rel
                        self.macros[(mod, toks[i + 2].s)] = mc
                    except MacroError as e:
                        self.errors.append((rel, str(e)))
                    i += 4
                else:
                    i += 1
        # pass 2: items
        for rel, toks in self.files.items():
            ctx = ItemCtx(self, rel, self._module_of(rel))
            ctx.uses = collect_uses(toks)
            self.file_uses[rel] = ctx.uses
            try:
                ctx.items(toks, None, {}, '', 0, rel)
            except (MacroError, LexError, IndexError) as e:
                self.errors.append((rel, 'items: %s' % e))

    def resolve_macro(self, path, module, local):
        """path: list of identifier strings (last = macro name)"""
        name = path[-1]
        if len(path) == 1:
            if name in local: return local[name]
            m = self.macros.get((module, name))
            if m: return m
            cands = [v for (mod, nm), v in self.macros.items() if nm == name]
            # imported through `use crate::…::name;` — accept only a unique definition
            if len(cands) == 1: return cands[0]
            return None
        segs = [p for p in path[:-1] if p not in ('crate', 'self', 'super')]
        m = self.macros.get((tuple(segs), name))
        if m: return m
        cands = [v for (mod, nm), v in self.macros.items() if nm == name and mod[:len(segs)] == tuple(segs)]
        if len(cands) == 1: return cands[0]
        return None

def collect_uses(toks):
    names = set()
    def leafs(ts):
        # every identifier that ends a use path (or group member)
        last = None
        for t in ts:
            if t.k == 'id': last = t.s
            elif t.k == 'grp':
                leafs_group(t.ch)
                last = None
            elif is_p(t, ','):
                if last: names.add(last)
                last = None
        if last: names.add(last)
    def leafs_group(ts):
        cur = []
        for t in ts:
            if is_p(t, ','):
                leafs(cur); cur = []
            else: cur.append(t)
        leafs(cur)
    def walk(ts):
        i = 0
        while i < len(ts):
            if is_id(ts[i], 'use'):
                j = i + 1; cur = []
                while j < len(ts) and not is_p(ts[j], ';'):
                    cur.append(ts[j]); j += 1
                leafs(cur); i = j
            elif ts[i].k == 'grp':
                walk(ts[i].ch); i += 1
            else: i += 1
    walk(toks)
    return names

ITEM_MACRO_DEPTH = 12

class ItemCtx:
    def __init__(self, crate, rel, module):
        self.crate = crate; self.rel = rel; self.module = module; self.uses = set()

    def items(self, toks, impl, local, via, depth, srcfile):
        """walk items; impl = None or dict(kind, ref, text, trait, targs, consts)"""
        local = dict(local)
        i = 0; n = len(toks)
        attrs = []
        while i < n:
            t = toks[i]
            if is_p(t, '#'):
                j = i + 1
                if j < n and is_p(toks[j], '!'): j += 1
                if j < n and is_grp(toks[j], '['):
                    attrs.append(text(toks[j].ch)); i = j + 1; continue
            if is_p(t, ';'):
                i += 1; attrs = []; continue
            if any(a.replace(' ', '').startswith('cfg(test') or a.replace(' ', '').startswith('cfg(all(test') for a in attrs):
                i = self.skip_item(toks, i); attrs = []; continue
            # visibility / qualifiers
            j = i
            if is_id(toks[j], 'pub'):
                j += 1
                if j < n and is_grp(toks[j], '('): j += 1
            if j >= n: break
            t = toks[j]
            if is_id(t, 'macro_rules') and j + 3 < n and is_p(toks[j + 1], '!'):
                try:
                    local[toks[j + 2].s] = parse_macro_rules(toks[j + 2].s, toks[j + 3], self.module, t.line)
                    local[toks[j + 2].s].file = srcfile
                except MacroError as e:
                    self.crate.errors.append((self.rel, str(e)))
                i = j + 4; attrs = []; continue
            if is_id(t, 'impl'):
                k = j + 1
                while k < n and not is_grp(toks[k], '{'): k += 1
                if k >= n: break
                hdr = self.impl_header(toks[j + 1:k])
                hdr['consts'] = {}
                self.items(toks[k].ch, hdr, local, via, depth, srcfile)
                i = k + 1; attrs = []; continue
            # fn item
            k = j
            while k < n and is_id(toks[k]) and toks[k].s in ('const', 'unsafe', 'async', 'extern', 'default'):
                k += 1
                if k < n and toks[k].k == 'str': k += 1
            if k < n and is_id(toks[k], 'fn'):
                end = self.fn_item(toks, k, impl, attrs, via, srcfile)
                i = end; attrs = []; continue
            if is_id(t, 'const') and impl is not None and j + 1 < n and toks[j + 1].k == 'id':
                # associated const:  const NAME: ty = expr;
                k = j + 2; ty = []; ex = []
                if k < n and is_p(toks[k], ':'):
                    k += 1
                    while k < n and not is_p(toks[k], '=') and not is_p(toks[k], ';'):
                        ty.append(toks[k]); k += 1
                if k < n and is_p(toks[k], '='):
                    k += 1
                    while k < n and not is_p(toks[k], ';'):
                        ex.append(toks[k]); k += 1
                impl['consts'][toks[j + 1].s] = (ty, ex)
                i = k + 1; attrs = []; continue
            # macro invocation in item position
            inv = self.invocation(toks, j)
            if inv is not None:
                path, grp, end = inv
                mac = self.crate.resolve_macro(path, self.module, local)
                if path[-1] == 'macro_impl' or path[-1] == 'main_impl':
                    # crate::macro_impl!(name): instantiate `name` for the 64-bit digit types (the four instantiations
                    # share one macro body; the Lean model is generic in the digit width)
                    inner = [x for x in grp.ch if x.k == 'id']
                    if inner:
                        m2 = self.crate.resolve_macro([inner[0].s], self.module, local)
                        if m2 is not None and depth < ITEM_MACRO_DEPTH:
                            args = [Tok('id', 'BUint'), Tok('p', ','), Tok('id', 'BInt'), Tok('p', ','), Tok('id', 'u64')]
                            try:
                                exp = expand_macro(m2, args)
                                self.items(exp, impl, local, via, depth + 1, m2.file or srcfile)
                            except MacroError as e:
                                self.crate.errors.append((self.rel, str(e)))
                    i = end; attrs = []; continue
                if mac is not None and depth < ITEM_MACRO_DEPTH and path[0] != 'test' and 'test' not in path[:-1]:
                    try:
                        exp = expand_macro(mac, grp.ch)
                        v = via or '::'.join(path)
                        self.items(exp, impl, local, v if mac.module != self.module or via else via, depth + 1, mac.file or srcfile)
                    except MacroError as e:
                        self.crate.errors.append((self.rel, str(e)))
                i = end; attrs = []; continue
            i = self.skip_item(toks, j); attrs = []

    def invocation(self, toks, j):
        """path ! group [;]  at position j -> (path idents, group, end) or None"""
        n = len(toks); k = j; path = []
        if k < n and is_p(toks[k], ':') and k + 1 < n and is_p(toks[k + 1], ':'): k += 2
        while k < n and toks[k].k == 'id':
            path.append(toks[k].s); k += 1
            if k + 1 < n and is_p(toks[k], ':') and is_p(toks[k + 1], ':'): k += 2
            else: break
        if path and k + 1 < n and is_p(toks[k], '!') and is_grp(toks[k + 1]):
            end = k + 2
            if end < n and is_p(toks[end], ';'): end += 1
            return path, toks[k + 1], end
        return None

    def skip_item(self, toks, i):
        n = len(toks)
        while i < n:
            if is_p(toks[i], ';'): return i + 1
            if is_grp(toks[i], '{'):
                i += 1
                if i < n and is_p(toks[i], ';'): i += 1
                return i
            i += 1
        return n

    def impl_header(self, hdr):
        # strip generics
        i = 0
        if hdr and is_p(hdr[0], '<'):
            i = skip_angle(hdr, 0)
        rest = hdr[i:]
        # cut where-clause
        for k, t in enumerate(rest):
            if is_id(t, 'where'):
                rest = rest[:k]; break
        trait = None; targs = ''
        depth = 0; split = None
        for k, t in enumerate(rest):
            if is_p(t, '<'): depth += 1
            elif is_p(t, '>') and not (k and is_p(rest[k - 1], '-')): depth -= 1
            elif depth == 0 and is_id(t, 'for'): split = k; break
        ty = rest
        if split is not None:
            tr = rest[:split]; ty = rest[split + 1:]
            # trait name = last identifier before its generic args
            k = 0; name = None; args = []
            while k < len(tr):
                if tr[k].k == 'id': name = tr[k].s; k += 1
                elif is_p(tr[k], '<'):
                    e = skip_angle(tr, k); args = tr[k + 1:e - 1]; k = e
                else: k += 1
            trait = name; targs_toks = args
        ref = False
        if ty and is_p(ty[0], '&'):
            ref = True; ty = ty[1:]
            if ty and ty[0].k == 'life': ty = ty[1:]
        kind = type_kind(ty)
        if trait is not None:
            targs = norm_type_text(targs_toks, ('r' if ref else '') + (kind or text(ty)))
        return {'kind': kind, 'ref': ref, 'text': text(ty), 'trait': trait, 'targs': targs}

    def fn_item(self, toks, k, impl, attrs, via, srcfile):
        n = len(toks)
        f = FnItem(); f.file = toks[k].f or srcfile; f.site = self.rel; f.line = toks[k].line; f.attrs = list(attrs); f.via = via; f.uses = self.uses
        k += 1
        f.name = toks[k].s
        if toks[k].f: f.file = toks[k].f; f.line = toks[k].line   # the name token comes from the text that defines the function
        k += 1
        if k < n and is_p(toks[k], '<'):
            e = skip_angle(toks, k); f.generics = toks[k + 1:e - 1]; k = e
        if not is_grp(toks[k], '('): raise MacroError('fn %s: parameter list expected' % f.name)
        params = split_commas(toks[k].ch); k += 1
        for p in params:
            if not p: continue
            # attributes on params are not used by the crate
            ptxt = [x for x in p]
            if is_id(ptxt[-1], 'self') and all(is_p(x, '&') or is_id(x, 'mut') or x.k == 'life' for x in ptxt[:-1]):
                if any(is_p(x, '&') for x in ptxt[:-1]):
                    f.recv = 'refmut' if any(is_id(x, 'mut') for x in ptxt[:-1]) else 'ref'
                else:
                    f.recv = 'val'
                continue
            if is_id(ptxt[0], 'self') or (is_id(ptxt[0], 'mut') and len(ptxt) > 1 and is_id(ptxt[1], 'self')):
                f.recv = 'val'   # `self: Type` forms are not used
                if len(ptxt) <= 2: continue
            # pattern : type  (split at the first single ':' at depth 0)
            c = None
            for idx, x in enumerate(ptxt):
                if is_p(x, ':') and not x.joint and not (idx and is_p(ptxt[idx - 1], ':') and ptxt[idx - 1].joint):
                    c = idx; break
            if c is None:
                f.params.append((ptxt, []))
            else:
                f.params.append((ptxt[:c], ptxt[c + 1:]))
        if k + 1 < n and is_p(toks[k], '-') and is_p(toks[k + 1], '>'):
            k += 2
            while k < n and not is_grp(toks[k], '{') and not is_id(toks[k], 'where') and not is_p(toks[k], ';'):
                f.ret.append(toks[k]); k += 1
        while k < n and not is_grp(toks[k], '{') and not is_p(toks[k], ';'):
            k += 1
        if k < n and is_grp(toks[k], '{'):
            f.body = toks[k]
        k += 1
        if impl is not None:
            f.self_kind = impl['kind']; f.self_ref = impl['ref']; f.self_text = impl['text']
            f.trait = impl['trait']; f.trait_args = impl['targs']; f.impl_consts = impl['consts']
            if f.body is not None: self.crate.fns.append(f)
        else:
            if f.body is not None: self.crate.free_fns.append(f)
        return k

def skip_angle(toks, i):
    """toks[i] is '<': index just after the matching '>'"""
    depth = 0; n = len(toks)
    while i < n:
        t = toks[i]
        if is_p(t, '<'): depth += 1
        elif is_p(t, '>') and not (i and is_p(toks[i - 1], '-')):
            depth -= 1
            if depth == 0: return i + 1
        i += 1
    return n

def split_commas(toks):
    out = []; cur = []; depth = 0
    for i, t in enumerate(toks):
        if is_p(t, '<'): depth += 1
        elif is_p(t, '>') and not (i and is_p(toks[i - 1], '-')): depth = max(0, depth - 1)
        if is_p(t, ',') and depth == 0:
            out.append(cur); cur = []
        else:
            cur.append(t)
    if cur: out.append(cur)
    return out

UNSIGNED_NAMES = ('BUint',)
SIGNED_NAMES = ('BInt',)

def type_kind(ty):
    """'UI' / 'II' for the big integer types, else None"""
    ids = []
    i = 0
    while i < len(ty):
        if is_p(ty[i], '<'):
            i = skip_angle(ty, i); continue
        if ty[i].k == 'id': ids.append(ty[i].s)
        i += 1
    ids = [x for x in ids if x not in ('crate', 'self', 'super')]
    if len(ids) == 1:
        if ids[0] in UNSIGNED_NAMES: return 'UI'
        if ids[0] in SIGNED_NAMES: return 'II'
    return None

def norm_type_text(toks, selfname='Self'):
    """generic arguments of a trait, normalised: BUint<…> -> UI, BInt<…> -> II, &T -> rT, Self -> the impl's type"""
    parts = []
    for arg in split_commas(toks):
        ref = ''
        while arg and (is_p(arg[0], '&') or arg[0].k == 'life'):
            if is_p(arg[0], '&'): ref = 'r'
            arg = arg[1:]
        k = type_kind(arg)
        if len(arg) == 1 and is_id(arg[0], 'Self'):
            parts.append(ref + selfname); continue
        t = k if k else text(arg).replace(' ', '')
        if t in ('ExpType', 'crate::ExpType'): t = 'u32'
        parts.append(ref + t)
    return ','.join(parts)
