"""C09 cases: As / CastFrom between integer types."""
from .common import *

GRID = {8: [1, 2, 3, 5, 8, 16, 17], 16: [1, 2, 3, 4, 5], 32: [1, 2, 3, 4, 6], 64: [1, 2, 3]}
PRIMS = {"u8": 8, "u16": 16, "u32": 32, "u64": 64, "u128": 128, "usize": 64,
         "i8": 8, "i16": 16, "i32": 32, "i64": 64, "i128": 128, "isize": 64}


def bn_types():
    out = []
    for w, ns in GRID.items():
        for n in ns:
            for s in "ui":
                out.append((f"{s}{w}x{n}", w, n, s == "i"))
    return out


def type_bits(name):
    if name in PRIMS:
        return PRIMS[name], name[0] == "i", None
    s = name[0]
    w, n = name[1:].split("x")
    return int(w) * int(n), s == "i", int(w)


def src_value(rng, sname, dname):
    """source patterns: sign runs crossing digit boundaries, bit exactly at the target's top, limits"""
    sb, ssigned, sw = type_bits(sname)
    db, dsigned, dw = type_bits(dname)
    M = 1 << sb
    c = rng.randrange(10)
    if c == 0:
        k = min(sb, db)
        return "attop", pat((1 << (k - 1)) + rng.randrange(-2, 3), sb)
    if c == 1:
        k = min(sb, db)
        return "atmod", pat((1 << k) + rng.randrange(-2, 3), sb)
    if c == 2:
        # negative with a sign run ending inside some digit
        k = rng.randrange(1, sb + 1)
        return "signrun", pat(-(1 << (k - 1)) - rng.randrange(0, 3), sb)
    if c == 3:
        k = rng.randrange(0, sb)
        return "posrun", pat((1 << k) - 1, sb)
    if c == 4:
        # values whose bit length sits on a primitive width (8 .. 128): fast paths through u64 / i128 / u128
        k = rng.choice([7, 8, 15, 16, 31, 32, 63, 64, 127, 128])
        z = (1 << k) + rng.choice([-1, 0, 1]) if rng.random() < 0.6 else rng.randrange(1 << (k - 1), 1 << k) if k > 1 else 1
        if ssigned and rng.random() < 0.4:
            z = -z
        return "prim-width-boundary", pat(z, sb)
    w = sw or 8
    n = sb // w
    t, v = value(rng, w, n)
    return t, v


def gen(rng, tier):
    bn = [t[0] for t in bn_types()]
    prims = list(PRIMS)
    alltypes = bn + prims
    npairs = 6000 if tier == "thorough" else 900
    reps = 12 if tier == "thorough" else 10
    pairs = set()
    # every ordered (source, target) pair in both tiers: a change may be keyed to one particular combination
    for s in alltypes:
        for d in alltypes:
            if not (s in PRIMS and d in PRIMS):
                pairs.add((s, d))
    pairs = sorted(pairs)
    for s, d in pairs:
        for _ in range(reps):
            t, v = src_value(rng, s, d)
            yield f"cast {s} {d} {hx(v)}", t
        # a fixed boundary set for EVERY ordered pair: bit lengths at primitive widths and at both type widths
        sb, ssigned, _ = type_bits(s)
        db, _, _ = type_bits(d)
        ks = sorted(set(k for k in (8, 16, 32, 64, 128, sb, db, sb - 1, db - 1) if 0 < k <= sb))
        for k in ks:
            for z in ((1 << k) - 1, 1 << (k - 1)):
                yield f"cast {s} {d} {hx(pat(z, sb))}", "pair-boundary"
                if ssigned:
                    yield f"cast {s} {d} {hx(pat(-z, sb))}", "pair-boundary"
    for d in bn:
        yield f"cast bool {d} 0", "bool"
        yield f"cast bool {d} 1", "bool"
        for c in (0, 0x41, 0x7f, 0x80, 0xff, 0x100, 0xd7ff, 0xe000, 0xffff, 0x10000, 0x10ffff, rng.randrange(0xd800)):
            yield f"cast char {d} {hx(c)}", "char"
    for name, w, n, signed in bn_types():
        for _ in range(reps):
            t, v = value(rng, w, n)
            if signed:
                yield f"cast_unsigned {name} {hx(v)}", t
                yield f"to_bits {name} {hx(v)}", t
                yield f"from_bits {name} {hx(v)}", t
            else:
                yield f"cast_signed {name} {hx(v)}", t
