"""C09 cases: As / CastFrom between integer types."""
from .common import *

GRID = {8: [1, 2, 3, 5, 8, 16, 17], 16: [1, 2, 3, 4, 5], 32: [1, 2, 3, 4, 6], 64: [1, 2, 3]}
PRIMS = {"u8": 8, "u16": 16, "u32": 32, "u64": 64, "u128": 128, "usize": 64,
         "i8": 8, "i16": 16, "i32": 32, "i64": 64, "i128": 128, "isize": 64}


# The WIDE instantiations (harness: `for_wide!` in bin c09): 8192 bits in every digit type, and the widest
# digit counts whose bit width is not a multiple of the wider digit sizes (partial last packed digit).
# They are paired with each other, with every primitive and with the SMALL bnum types (`for_small!`).
WIDE = {8: [1024, 1021], 16: [512], 32: [256], 64: [128, 127]}
SMALL = ["i8x3", "u8x17", "i16x5", "u16x1", "i32x3", "u32x6", "i64x1", "u64x3"]


def wide_types():
    return [f"{s}{w}x{n}" for w, ns in WIDE.items() for n in ns for s in "ui"]


def bn_types():
    out = []
    for w, ns in GRID.items():
        for n in ns:
            for s in "ui":
                out.append((f"{s}{w}x{n}", w, n, s == "i"))
    return out


def type_bits(name):
    if name in PRIMS:
        return PRIMS[name], name[0] == "i", None
    s = name[0]
    w, n = name[1:].split("x")
    return int(w) * int(n), s == "i", int(w)


def src_value(rng, sname, dname):
    """source patterns: sign runs crossing digit boundaries, bit exactly at the target's top, limits"""
    sb, ssigned, sw = type_bits(sname)
    db, dsigned, dw = type_bits(dname)
    M = 1 << sb
    c = rng.randrange(10)
    if c == 0:
        k = min(sb, db)
        return "attop", pat((1 << (k - 1)) + rng.randrange(-2, 3), sb)
    if c == 1:
        k = min(sb, db)
        return "atmod", pat((1 << k) + rng.randrange(-2, 3), sb)
    if c == 2:
        # negative with a sign run ending inside some digit
        k = rng.randrange(1, sb + 1)
        return "signrun", pat(-(1 << (k - 1)) - rng.randrange(0, 3), sb)
    if c == 3:
        k = rng.randrange(0, sb)
        return "posrun", pat((1 << k) - 1, sb)
    if c == 4:
        # values whose bit length sits on a primitive width (8 .. 128): fast paths through u64 / i128 / u128
        k = rng.choice([7, 8, 15, 16, 31, 32, 63, 64, 127, 128])
        z = (1 << k) + rng.choice([-1, 0, 1]) if rng.random() < 0.6 else rng.randrange(1 << (k - 1), 1 << k) if k > 1 else 1
        if ssigned and rng.random() < 0.4:
            z = -z
        return "prim-width-boundary", pat(z, sb)
    w = sw or 8
    n = sb // w
    t, v = value(rng, w, n)
    return t, v


def wide_value(rng, sname, dname, j):
    """j-th source pattern of a pair that involves a wide type.  General classes: a random pattern with the
    sign forced (every digit position carries information, so an indexing slip anywhere shows); one set (or
    one clear) bit at a position drawn from all over the width and around digit / target boundaries; a
    negative number of small or boundary magnitude (sign extension through every digit); the classes of
    `src_value`."""
    sb, ssigned, sw = type_bits(sname)
    db, dsigned, dw = type_bits(dname)
    c = j % 4
    if c == 0:
        v = rng.randrange(1 << sb)
        top = 1 << (sb - 1)
        if ssigned and rng.random() < 0.7:
            return "w-random-neg", v | top
        return "w-random", v
    if c == 1:
        ws = [x for x in (sw, dw, 64) if x]
        q = rng.randrange(5)
        if q == 0:
            k = rng.randrange(sb)
        elif q == 1:
            k = rng.choice(ws) * rng.randrange(0, sb // 8) + rng.choice([-1, 0, 1])
        elif q == 2:
            k = min(sb, db) + rng.choice([-65, -64, -9, -8, -2, -1, 0, 1, 7, 8, 63, 64])
        elif q == 3:
            k = sb - 1 - rng.randrange(0, 130)
        else:
            k = rng.randrange(0, 130)
        k = max(0, min(sb - 1, k))
        if rng.random() < 0.5:
            return "w-bit-set", 1 << k
        return "w-bit-clear", pat(~(1 << k), sb)
    if c == 2 and ssigned:
        q = rng.randrange(3)
        if q == 0:
            z = -rng.randrange(1, 1 << rng.choice([1, 7, 8, 9, 63, 64, 65, 128]))
        elif q == 1:
            k = min(sb, db)
            z = -(1 << (k - 1)) + rng.randrange(-2, 3)
        else:
            z = -(1 << rng.randrange(sb - 1)) - rng.randrange(0, 3)
        return "w-neg", pat(z, sb)
    return src_value(rng, sname, dname)


def char_points(rng):
    """code points of every UTF-8 length class and of bit lengths around the digit sizes 8 / 16 and the
    maximum 21 (never a surrogate)"""
    out = [0, 0x41, 0x7f, 0x80, 0xff, 0x100, 0x7ff, 0x800, 0xd7ff, 0xe000, 0xffff, 0x10000, 0x1ffff, 0x20000,
           0xfffff, 0x100000, 0x10ffff]
    for bl in (7, 8, 9, 11, 12, 15, 16, 17, 20, 21):
        while True:
            c = rng.randrange(1 << (bl - 1), 1 << bl)
            if c <= 0x10ffff and not 0xd800 <= c <= 0xdfff:
                break
        out.append(c)
    return out


def gen(rng, tier):
    bn = [t[0] for t in bn_types()]
    prims = list(PRIMS)
    alltypes = bn + prims
    npairs = 6000 if tier == "thorough" else 900
    reps = 12 if tier == "thorough" else 10
    pairs = set()
    # every ordered (source, target) pair in both tiers: a change may be keyed to one particular combination
    # (primitive -> primitive included: `primitive_cast_impl!` of src/cast/mod.rs)
    for s in alltypes:
        for d in alltypes:
            pairs.add((s, d))
    pairs = sorted(pairs)
    for s, d in pairs:
        for _ in range(reps):
            t, v = src_value(rng, s, d)
            yield f"cast {s} {d} {hx(v)}", t
        # a fixed boundary set for EVERY ordered pair: bit lengths at primitive widths and at both type widths
        sb, ssigned, _ = type_bits(s)
        db, _, _ = type_bits(d)
        ks = sorted(set(k for k in (8, 16, 32, 64, 128, sb, db, sb - 1, db - 1) if 0 < k <= sb))
        for k in ks:
            for z in ((1 << k) - 1, 1 << (k - 1)):
                yield f"cast {s} {d} {hx(pat(z, sb))}", "pair-boundary"
                if ssigned:
                    yield f"cast {s} {d} {hx(pat(-z, sb))}", "pair-boundary"
    # the blanket `As::as_` (harness: operands / results of BInt through `as_bits`): every ordered pair of the
    # small bnum types and the primitives
    asty = SMALL + prims
    for s_ in asty:
        for d in asty:
            for _ in range(3 if tier == "thorough" else 2):
                t, v = src_value(rng, s_, d)
                yield f"as {s_} {d} {hx(v)}", "as/" + t
            sb, ssigned, _ = type_bits(s_)
            db, _, _ = type_bits(d)
            k = min(sb, db)
            z = (1 << (k - 1)) + rng.randrange(-1, 2)
            yield f"as {s_} {d} {hx(pat(-z if ssigned else z, sb))}", "as/pair-boundary"
    # wide instantiations (up to 8192 bits): every ordered pair wide x (wide | small | primitive)
    wide = wide_types()
    partners = wide + SMALL + prims
    wreps = 8 if tier == "thorough" else 3
    for s_ in partners:
        for d in partners:
            if s_ in wide or d in wide:
                for j in range(wreps):
                    t, v = wide_value(rng, s_, d, j)
                    yield f"cast {s_} {d} {hx(v)}", t
    for d in bn + wide:
        for op in ("cast", "as") if d in SMALL else ("cast",):
            yield f"{op} bool {d} 0", "bool"
            yield f"{op} bool {d} 1", "bool"
            for c in char_points(rng):
                yield f"{op} char {d} {hx(c)}", "char"
    for name, w, n, signed in bn_types() + [(t,) + type_bits(t)[2:] + (int(t.split("x")[1]), t[0] == "i") for t in wide]:
        for _ in range(reps if name not in wide else 4):
            t, v = value(rng, w, n)
            if signed:
                yield f"cast_unsigned {name} {hx(v)}", t
                yield f"to_bits {name} {hx(v)}", t
                yield f"from_bits {name} {hx(v)}", t
                # the same three observed without from_bits / to_bits on the harness side
                yield f"cast_unsigned_obs {name} {hx(v)}", t
                yield f"to_bits_obs {name} {hx(v)}", t
                yield f"from_bits_obs {name} {hx(v)}", t
            else:
                yield f"cast_signed {name} {hx(v)}", t
                yield f"cast_signed_obs {name} {hx(v)}", t
            yield f"reinterp_vs_cast {name} {hx(v)}", t
