"""Thorough tier only: a few width-sensitive operations on EVERY digit count N = 1..=1024 of the u8-digit type
(all widths 8, 16, ..., 8192 bits), answered by harness bin `widths` (1024 instantiations, slow to build).
Catches changes keyed to one particular width (thresholds derived from BITS, approximations of log10(2), ...)."""
import re
from .common import *

_STD = None


def is_sweep(line):
    """requests for configurations u8xN outside the standard list go to the `widths` bin"""
    global _STD
    if _STD is None:
        _STD = set(THOROUGH_CFGS + HUGE_CFGS)
    m = re.match(r"\S+ u(8x\d+) ", line + " ")
    return bool(m) and m.group(1) not in _STD


def route(line, default, inner=None):
    if is_sweep(line):
        return "widths"
    return inner(line) if inner else default


def ns(rng):
    return range(1, 1025)


def parse_print(rng):
    for n in ns(rng):
        W = 8 * n
        M = 1 << W
        for z in (M - 1, M, 10 ** (len(str(M - 1)) - 1), rng.randrange(M)):
            yield f"from_str u8x{n} {str(z).encode().hex()}", "width-sweep"
        yield f"from_str_radix u8x{n} {rng.choice([3, 7, 10, 36])} {('0' * 3 + str(rng.randrange(10))).encode().hex()}", "width-sweep"


def print_(rng):
    for n in ns(rng):
        M = 1 << (8 * n)
        for z in (M - 1, rng.randrange(M)):
            yield f"to_str_radix u8x{n} 10 {hx(z)}", "width-sweep"
        yield f"to_str_radix u8x{n} {rng.choice([3, 8, 32, 36])} {hx(M - 1)}", "width-sweep"


def ilog(rng):
    for n in ns(rng):
        M = 1 << (8 * n)
        yield f"checked_ilog10 u8x{n} {hx(M - 1)}", "width-sweep"
        yield f"checked_ilog10 u8x{n} {hx(10 ** (len(str(M - 1)) - 1))}", "width-sweep"


def mul(rng):
    for n in ns(rng):
        W = 8 * n
        M = 1 << W
        k = rng.randrange(W)
        yield f"overflowing_mul u8x{n} {hx(1 << k)} {hx(1 << (W - k - 1))}", "width-sweep"
        yield f"overflowing_mul u8x{n} {hx((1 << k) + 1)} {hx(1 << (W - k))}", "width-sweep"
        if n <= 300 or n % 16 == 0:
            yield f"overflowing_mul u8x{n} {hx(M - 1)} {hx(M - 1)}", "width-sweep"


def rem(rng):
    for n in ns(rng):
        M = 1 << (8 * n)
        d = rng.randrange(1, M)
        yield f"checked_rem u8x{n} {hx(M - 1)} {hx(d)}", "width-sweep"
        yield f"checked_rem u8x{n} {hx(rng.randrange(M))} {hx(rng.randrange(1, 1 << (8 * max(1, n // 2))))}", "width-sweep"


def to_f64(rng):
    for n in ns(rng):
        M = 1 << (8 * n)
        yield f"to_f64 u8x{n} {hx(M - 1)}", "width-sweep"
        yield f"to_f64 u8x{n} {hx(rng.randrange(M))}", "width-sweep"


def count(rng):
    for n in ns(rng):
        M = 1 << (8 * n)
        yield f"count_ones u8x{n} {hx(M - 1)}", "width-sweep"
        yield f"count_ones u8x{n} {hx(rng.randrange(M))}", "width-sweep"
