"""All-widths sweep: width-sensitive requests on EVERY digit count N = 1..=1024 of the u8-digit types (all widths
8, 16, ..., 8192 bits, unsigned and signed), answered by the harness bins `widths`, `widths2`, `widths3`
(tools/gen_widths.py; 1024 instantiations each, built without optimisation).  Catches changes keyed to one
particular width or digit count (thresholds derived from BITS, approximations of log10(2), fast paths for N == k,
accumulators that overflow beyond N digits, ...).

Every generator yields (request, tag, expected): `expected` is the answer computed here with Python's exact integers.
check.py sends such requests to the real crate first and consults the Lean driver (model + spec) only for the
requests whose crate answer differs from `expected` - the Lean spec stays the judge of every reported violation, the
Python value is only a pre-filter that keeps the (slow, list-based) Lean model out of ~10^4 8192-bit evaluations per
run.  A sample of the requests (N <= 40 and every 64th N) is always sent through the driver as well, so the model is
still tied to the code at sampled widths in every run."""
import math
import re
import struct
from .common import *

_STD = None
BINS = ["widths", "widths2", "widths3"]
_B1 = {"from_str_radix", "from_str", "parse_bytes", "from_radix_be", "from_radix_le", "to_str_radix", "to_radix_be", "to_radix_le",
       "checked_ilog10", "checked_ilog2", "checked_ilog", "overflowing_pow", "checked_pow"}
_B3 = {"to_f32", "to_f64", "from_f32", "from_f64", "from_le_slice", "from_be_slice", "nt_sqrt", "nt_cbrt", "nt_nth_root", "nt_gcd"}


def is_sweep(line):
    """requests for configurations u8xN / i8xN outside the standard list go to the `widths*` bins"""
    global _STD
    if _STD is None:
        _STD = set(THOROUGH_CFGS + HUGE_CFGS)
    m = re.match(r"\S+ [ui](8x\d+) ", line + " ")
    return bool(m) and m.group(1) not in _STD


_B2 = {"overflowing_add", "overflowing_sub", "checked_add", "saturating_sub", "overflowing_neg", "overflowing_mul", "checked_mul",
       "checked_div", "checked_rem", "checked_rem_euclid", "checked_shl", "checked_shr", "rotate_left", "rotate_right", "count_ones",
       "count_zeros", "leading_zeros", "leading_ones", "trailing_zeros", "trailing_ones", "reverse_bits", "swap_bytes",
       "is_power_of_two", "cmp", "eq", "widening_mul", "carrying_mul", "checked_next_power_of_two"}


def sweep_bin(line):
    """the sweep bin that knows the operation of `line` (None: not an operation of the sweep bins)"""
    op = line.split(" ", 1)[0]
    return "widths" if op in _B1 else "widths3" if op in _B3 else "widths2" if op in _B2 else None


def route(line, default, inner=None):
    if is_sweep(line) and sweep_bin(line):
        return sweep_bin(line)
    return inner(line) if inner else default


TIER = "thorough"


def set_tier(t):
    global TIER
    TIER = t


def ns(rng, cost=0):
    """digit counts swept.  Thorough tier: every N.  Quick tier: every N for cheap operations (cost 0); for
    operations whose cost grows like N^2 (cost 1: parsing, printing) every N up to 320 and every 3rd beyond, for the
    N^3 ones (cost 2: logarithms, powers, roots) every N up to 128 and every 8th beyond - the residue class is drawn
    from the run's seed."""
    if TIER != "quick" or cost == 0:
        return range(1, 1025)
    if cost == 1:
        r = rng.randrange(3)
        return [n for n in range(1, 1025) if n <= 320 or n % 3 == r]
    r = rng.randrange(8)
    return [n for n in range(1, 1025) if n <= 128 or n % 8 == r]


def always_driver(line):
    """sampled widths whose requests always go through the Lean driver too"""
    m = re.match(r"\S+ [ui]8x(\d+) ", line + " ")
    if not m:
        return True
    n = int(m.group(1))
    return n <= 40 or n % 64 == 0


# ---------------------------------------------------------------- answer formats of the harness
def _pat(z, W):
    return hx(z % (1 << W))


def _opt(x):
    return "N" if x is None else f"S({x})"


def _tohex(s):
    return s.encode().hex() if isinstance(s, str) else bytes(s).hex()


def _sval(p, W):
    return p - (1 << W) if p >> (W - 1) else p


def _rep(z, W, signed):
    return -(1 << (W - 1)) <= z < (1 << (W - 1)) if signed else 0 <= z < (1 << W)


def _parse_expected(z, W, signed):
    if _rep(z, W, signed):
        return f"Ok({_pat(z, W)})"
    return "Err(NegOverflow)" if z < 0 else "Err(PosOverflow)"


DIG = "0123456789abcdefghijklmnopqrstuvwxyz"


def _to_radix(z, r):
    out = []
    while z:
        z, d = divmod(z, r)
        out.append(d)
    return out      # little endian, empty for zero


def _str_radix(z, r):
    s = "".join(DIG[d] for d in reversed(_to_radix(abs(z), r))) or "0"
    return ("-" if z < 0 else "") + s


def _cfg(signed, n):
    return f"{'i' if signed else 'u'}8x{n}"


def _ilog(x, b):
    if x <= 0 or b < 2:
        return None
    k, p = 0, b
    while p <= x:
        p *= b
        k += 1
    return k


# ---------------------------------------------------------------- sweeps (name -> generator)
def parse_print(rng):
    """decimal parsing at the limits of every width (FromStr and from_str_radix), unsigned and signed"""
    for n in ns(rng, 1):
        W = 8 * n
        M = 1 << W
        digs = len(str(M - 1))
        for z in (M - 1, M, 10 ** (digs - 1), 10 ** digs - 1, rng.randrange(M)):
            yield f"from_str u8x{n} {_tohex(str(z))}", "width-sweep", _parse_expected(z, W, False)
        H = M >> 1
        for z in (H - 1, H, -H, -H - 1, -(10 ** (len(str(H)) - 1))):
            yield f"from_str i8x{n} {_tohex(str(z))}", "width-sweep", _parse_expected(z, W, True)
        r = rng.choice([3, 7, 10, 36])
        d = rng.randrange(10) % r
        yield f"from_str_radix u8x{n} {r} {_tohex('0' * 3 + str(d))}", "width-sweep", f"Ok({hx(d)})"
        r = rng.choice([2, 4, 16, 8, 32, 10, 36])
        z = rng.choice([M - 1, M, rng.randrange(M)])
        yield f"from_str_radix u8x{n} {r} {_tohex(_str_radix(z, r))}", "width-sweep", _parse_expected(z, W, False)
        yield f"parse_bytes u8x{n} {r} {_tohex('+' + _str_radix(M - 1, r))}", "width-sweep", f"S({hx(M - 1)})"


def from_radix(rng):
    for n in ns(rng, 1):
        W = 8 * n
        M = 1 << W
        for r in (256, rng.choice([2, 10, 16, 100, 255, 128])):
            for z in (M - 1, M, rng.randrange(M)):
                ds = _to_radix(z, r) or [0]
                exp = _opt(hx(z)) if z < M else "N"
                if rng.random() < 0.5:
                    yield f"from_radix_le u8x{n} {r} {_tohex(ds)}", "width-sweep", exp
                else:
                    yield f"from_radix_be u8x{n} {r} {_tohex(list(reversed(ds)))}", "width-sweep", exp


def print_(rng):
    for n in ns(rng, 1):
        W = 8 * n
        M = 1 << W
        for z in (M - 1, rng.randrange(M)):
            yield f"to_str_radix u8x{n} 10 {hx(z)}", "width-sweep", _tohex(_str_radix(z, 10))
        r = rng.choice([3, 8, 32, 36, 2, 16])
        yield f"to_str_radix u8x{n} {r} {hx(M - 1)}", "width-sweep", _tohex(_str_radix(M - 1, r))
        p = rng.choice([M >> 1, M - 1, (M >> 1) + rng.randrange(M >> 1)])
        yield f"to_str_radix i8x{n} 10 {hx(p)}", "width-sweep", _tohex(_str_radix(_sval(p, W), 10))
        r = rng.choice([256, 10, 128, 255, 7])
        z = rng.choice([M - 1, rng.randrange(M), 1 << rng.randrange(W)])
        ds = _to_radix(z, r) or [0]
        yield f"to_radix_le u8x{n} {r} {hx(z)}", "width-sweep", _tohex(ds)
        yield f"to_radix_be u8x{n} {r} {hx(z)}", "width-sweep", _tohex(list(reversed(ds)))


def ilog(rng):
    for n in ns(rng, 2):
        W = 8 * n
        M = 1 << W
        p10 = 10 ** (len(str(M - 1)) - 1)
        yield f"checked_ilog10 u8x{n} {hx(M - 1)}", "width-sweep", _opt(_ilog(M - 1, 10))
        yield f"checked_ilog10 u8x{n} {hx(p10)}", "width-sweep", _opt(_ilog(p10, 10))
        yield f"checked_ilog10 u8x{n} {hx(p10 - 1)}", "width-sweep", _opt(_ilog(p10 - 1, 10))
        yield f"checked_ilog2 u8x{n} {hx(M - 1)}", "width-sweep", _opt(W - 1)
        H = M >> 1
        yield f"checked_ilog10 i8x{n} {hx(H - 1)}", "width-sweep", _opt(_ilog(H - 1, 10))
        yield f"checked_ilog10 i8x{n} {hx(H)}", "width-sweep", "N"
        b = rng.choice([3, 7, 255, 256, 1000])
        x = rng.choice([M - 1, rng.randrange(1, M)])
        if b < M:
            yield f"checked_ilog u8x{n} {hx(x)} {hx(b)}", "width-sweep", _opt(_ilog(x, b))


def pow_(rng):
    for n in ns(rng, 2):
        W = 8 * n
        M = 1 << W
        b = rng.choice([2, 3, 10, 255, 257])
        e = max(1, int(W * math.log(2) / math.log(b)))
        for ee in (e, e + 1):
            z = b ** ee
            yield f"overflowing_pow u8x{n} {hx(b)} {ee}", "width-sweep", f"({_pat(z, W)},{'true' if z >= M else 'false'})"
        z = 3 ** ee
        H = M >> 1
        yield f"checked_pow i8x{n} {_pat(-3, W)} {ee}", "width-sweep", _opt(_pat((-3) ** ee, W) if _rep((-3) ** ee, W, True) else None)


def addsub(rng):
    for n in ns(rng):
        W = 8 * n
        M = 1 << W
        H = M >> 1
        a = rng.randrange(M)
        yield f"overflowing_add u8x{n} {hx(M - 1)} 1", "width-sweep", "(0,true)"
        yield f"overflowing_add u8x{n} {hx(a)} {hx(M - 1 - a)}", "width-sweep", f"({hx(M - 1)},false)"
        yield f"overflowing_sub u8x{n} 0 1", "width-sweep", f"({hx(M - 1)},true)"
        b = rng.randrange(M)
        yield f"overflowing_sub u8x{n} {hx(a)} {hx(b)}", "width-sweep", f"({_pat(a - b, W)},{'true' if a < b else 'false'})"
        yield f"overflowing_add i8x{n} {hx(H - 1)} 1", "width-sweep", f"({hx(H)},true)"
        yield f"overflowing_sub i8x{n} {hx(H)} 1", "width-sweep", f"({hx(H - 1)},true)"
        yield f"overflowing_neg i8x{n} {hx(H)}", "width-sweep", f"({hx(H)},true)"
        yield f"overflowing_neg i8x{n} {hx(a)}", "width-sweep", f"({_pat(-a, W)},{'true' if a == H else 'false'})"
        yield f"checked_add u8x{n} {hx(a)} {hx(b)}", "width-sweep", _opt(hx(a + b) if a + b < M else None)
        yield f"saturating_sub i8x{n} {hx(a)} {hx(b)}", "width-sweep", hx(max(-H, min(H - 1, _sval(a, W) - _sval(b, W))) % M)


def mul(rng):
    for n in ns(rng):
        W = 8 * n
        M = 1 << W
        k = rng.randrange(W)
        yield f"overflowing_mul u8x{n} {hx(1 << k)} {hx(1 << (W - k - 1))}", "width-sweep", f"({hx(1 << (W - 1))},false)"
        z = ((1 << k) + 1) << (W - k)
        yield f"overflowing_mul u8x{n} {hx((1 << k) + 1)} {hx(1 << (W - k))}" if W - k < W else f"overflowing_mul u8x{n} 1 1", "width-sweep", (f"({_pat(z, W)},true)" if W - k < W else "(1,false)")
        if n <= 300 or n % 16 == 0:
            z = (M - 1) * (M - 1)
            yield f"overflowing_mul u8x{n} {hx(M - 1)} {hx(M - 1)}", "width-sweep", f"({_pat(z, W)},{'true' if z >= M else 'false'})"
            yield f"widening_mul u8x{n} {hx(M - 1)} {hx(M - 1)}", "width-sweep", f"({_pat(z, W)},{hx(z >> W)})"
            a, b, c = rng.randrange(M), rng.randrange(M), rng.choice([M - 1, rng.randrange(M)])
            z = a * b + c
            yield f"carrying_mul u8x{n} {hx(a)} {hx(b)} {hx(c)}", "width-sweep", f"({_pat(z, W)},{hx(z >> W)})"
        H = M >> 1
        yield f"overflowing_mul i8x{n} {hx(H)} {hx(M - 1)}", "width-sweep", f"({hx(H)},true)"
        a = rng.randrange(1 << (W // 2))
        b = rng.randrange(1 << (W - W // 2 - 1))
        yield f"checked_mul i8x{n} {_pat(-a, W)} {hx(b)}", "width-sweep", _opt(_pat(-a * b, W) if _rep(-a * b, W, True) else None)


def rem(rng):
    for n in ns(rng):
        W = 8 * n
        M = 1 << W
        d = rng.randrange(1, M)
        yield f"checked_rem u8x{n} {hx(M - 1)} {hx(d)}", "width-sweep", _opt(hx((M - 1) % d))
        a, d = rng.randrange(M), rng.randrange(1, 1 << (8 * max(1, n // 2)))
        yield f"checked_rem u8x{n} {hx(a)} {hx(d)}", "width-sweep", _opt(hx(a % d))
        yield f"checked_div u8x{n} {hx(a)} {hx(d)}", "width-sweep", _opt(hx(a // d))
        if n >= 3:
            d = rng.randrange(1 << (8 * (n - 2)), 1 << (8 * (n - 1)))
            yield f"checked_div u8x{n} {hx(M - 1)} {hx(d)}", "width-sweep", _opt(hx((M - 1) // d))
        x, y = _sval(a, W), rng.choice([-1, 1]) * d
        q = abs(x) // abs(y) * (1 if (x < 0) == (y < 0) else -1)
        yield f"checked_div i8x{n} {hx(a)} {_pat(y, W)}", "width-sweep", _opt(_pat(q, W) if _rep(q, W, True) else None)
        yield f"checked_rem_euclid i8x{n} {hx(a)} {_pat(y, W)}", "width-sweep", _opt(hx(x % abs(y)))


def shift(rng):
    for n in ns(rng):
        W = 8 * n
        M = 1 << W
        a = rng.choice([M - 1, rng.randrange(M), (M >> 1) | 1])
        for k in (W - 1, W, rng.randrange(W), 8 * rng.randrange(n)):
            yield f"checked_shl u8x{n} {hx(a)} {k}", "width-sweep", _opt(_pat(a << k, W) if k < W else None)
            yield f"checked_shr i8x{n} {hx(a)} {k}", "width-sweep", _opt(_pat(_sval(a, W) >> k, W) if k < W else None)
        k = rng.choice([1, W - 1, W, W + 1, rng.randrange(4 * W)])
        r = k % W
        yield f"rotate_left u8x{n} {hx(a)} {k}", "width-sweep", hx(((a << r) | (a >> (W - r))) % M)
        yield f"rotate_right i8x{n} {hx(a)} {k}", "width-sweep", hx(((a >> r) | (a << (W - r))) % M)


def count(rng):
    for n in ns(rng):
        W = 8 * n
        M = 1 << W
        a = rng.randrange(M)
        yield f"count_ones u8x{n} {hx(M - 1)}", "width-sweep", str(W)
        yield f"count_ones u8x{n} {hx(a)}", "width-sweep", str(bin(a).count("1"))
        yield f"count_zeros i8x{n} {hx(a)}", "width-sweep", str(W - bin(a).count("1"))
        yield f"leading_zeros u8x{n} 0", "width-sweep", str(W)
        yield f"leading_ones i8x{n} {hx(M - 1)}", "width-sweep", str(W)
        yield f"trailing_zeros u8x{n} 0", "width-sweep", str(W)
        yield f"trailing_ones u8x{n} {hx(M - 1)}", "width-sweep", str(W)
        k = rng.randrange(W)
        yield f"leading_zeros u8x{n} {hx(1 << k)}", "width-sweep", str(W - 1 - k)
        yield f"trailing_zeros i8x{n} {hx(1 << k)}", "width-sweep", str(k)
        yield f"reverse_bits u8x{n} {hx(a)}", "width-sweep", hx(int(format(a, f"0{W}b")[::-1], 2))
        yield f"swap_bytes i8x{n} {hx(a)}", "width-sweep", hx(int.from_bytes(a.to_bytes(n, "little"), "big"))
        yield f"is_power_of_two u8x{n} {hx(1 << k)}", "width-sweep", "true"
        yield f"checked_next_power_of_two u8x{n} {hx((M >> 1) + 1)}", "width-sweep", "N"
        yield f"checked_next_power_of_two u8x{n} {hx((1 << k) + (1 if k else 0))}", "width-sweep", _opt(hx(1 << (k + 1)) if 0 < k < W - 1 else None if k == W - 1 and k else hx(1))


def cmp_(rng):
    for n in ns(rng):
        W = 8 * n
        M = 1 << W
        a = rng.randrange(M)
        b = a ^ (1 << rng.randrange(W))
        yield f"cmp u8x{n} {hx(a)} {hx(b)}", "width-sweep", "Less" if a < b else "Greater"
        yield f"cmp i8x{n} {hx(a)} {hx(b)}", "width-sweep", "Less" if _sval(a, W) < _sval(b, W) else "Greater"
        yield f"eq u8x{n} {hx(a)} {hx(b)}", "width-sweep", "false"
        yield f"eq i8x{n} {hx(a)} {hx(a)}", "width-sweep", "true"


def _rne_bits(v, mant, emax, ebits):
    """bit pattern of the float nearest to the non-negative integer v (ties to even; +inf on overflow)"""
    if v == 0:
        return 0
    L = v.bit_length()
    p = mant + 1
    if L <= p:
        m, e = v << (p - L), L - 1
    else:
        sh = L - p
        m = v >> sh
        rem = v & ((1 << sh) - 1)
        half = 1 << (sh - 1)
        if rem > half or (rem == half and (m & 1)):
            m += 1
        e = L - 1
        if m >> p:
            m >>= 1
            e += 1
    if e > emax:
        return ((1 << ebits) - 1) << mant
    return ((e + emax) << mant) | (m & ((1 << mant) - 1))


def _fbits(z, kind):
    mant, emax, ebits, tot = (23, 127, 8, 32) if kind == 32 else (52, 1023, 11, 64)
    b = _rne_bits(abs(z), mant, emax, ebits)
    return format(b | ((1 << (tot - 1)) if z < 0 else 0), "x")


def _fval(bits, kind):
    """(kind, exact value as Fraction-free pair) of a float bit pattern: ('nan',), ('inf', sign) or ('fin', int trunc)"""
    mant, emax, ebits, tot = (23, 127, 8, 32) if kind == 32 else (52, 1023, 11, 64)
    s = bits >> (tot - 1)
    e = (bits >> mant) & ((1 << ebits) - 1)
    m = bits & ((1 << mant) - 1)
    if e == (1 << ebits) - 1:
        return ("nan",) if m else ("inf", s)
    if e == 0:
        mm, ee = m, 1 - emax - mant
    else:
        mm, ee = m | (1 << mant), e - emax - mant
    t = mm << ee if ee >= 0 else mm >> (-ee)
    return ("fin", -t if s else t)


def _from_float(bits, kind, W, signed):
    v = _fval(bits, kind)
    lo, hi = (-(1 << (W - 1)), (1 << (W - 1)) - 1) if signed else (0, (1 << W) - 1)
    if v[0] == "nan":
        return "0"
    if v[0] == "inf":
        return hx((lo if v[1] else hi) % (1 << W))
    return hx(max(lo, min(hi, v[1])) % (1 << W))


def floats(rng):
    for n in ns(rng):
        W = 8 * n
        M = 1 << W
        H = M >> 1
        for z in (M - 1, rng.randrange(M), (1 << (W - 1)) + (1 << max(0, W - 25)), (1 << (W - 1)) + (1 << max(0, W - 54))):
            yield f"to_f64 u8x{n} {hx(z)}", "width-sweep", _fbits(z, 64)
            yield f"to_f32 u8x{n} {hx(z)}", "width-sweep", _fbits(z, 32)
        for p in (H, H + 1, M - 1, rng.randrange(M)):
            yield f"to_f64 i8x{n} {hx(p)}", "width-sweep", _fbits(_sval(p, W), 64)
            yield f"to_f32 i8x{n} {hx(p)}", "width-sweep", _fbits(_sval(p, W), 32)
        # floats at and around 2^W, 2^(W-1) (saturation boundaries of this width) and a random one
        for kind, emax, mant in ((32, 127, 23), (64, 1023, 52)):
            for e in (W, W - 1, W - 2, rng.randrange(0, W + 3)):
                if e > emax:
                    continue
                for frac in (0, (1 << mant) - 1, rng.randrange(1 << mant)):
                    for sgn in (0, 1):
                        bits = (sgn << (kind - 1)) | ((e + emax) << mant) | frac
                        if rng.random() < 0.35:
                            yield f"from_f{kind} u8x{n} {bits:x}", "width-sweep", _from_float(bits, kind, W, False)
                        if rng.random() < 0.35:
                            yield f"from_f{kind} i8x{n} {bits:x}", "width-sweep", _from_float(bits, kind, W, True)


def slices(rng):
    for n in ns(rng):
        W = 8 * n
        M = 1 << W
        z = rng.randrange(M)
        le = z.to_bytes(n, "little")
        yield f"from_le_slice u8x{n} {_tohex(le)}", "width-sweep", _opt(hx(z))
        yield f"from_be_slice u8x{n} {_tohex(le[::-1])}", "width-sweep", _opt(hx(z))
        yield f"from_le_slice u8x{n} {_tohex(le + bytes([0, 0]))}", "width-sweep", _opt(hx(z))
        yield f"from_be_slice u8x{n} {_tohex(bytes([1]) + le[::-1])}", "width-sweep", "N"
        k = rng.randrange(1, n + 1)
        yield f"from_le_slice i8x{n} {_tohex(le[:k])}", "width-sweep", _opt(_pat(int.from_bytes(le[:k], "little", signed=True), W))
        sgn = 0xff if le[-1] & 0x80 else 0
        yield f"from_be_slice i8x{n} {_tohex(bytes([sgn]) + le[::-1])}", "width-sweep", _opt(hx(z))
        yield f"from_be_slice i8x{n} {_tohex(bytes([sgn ^ 0xff]) + le[::-1])}", "width-sweep", "N"


def _iroot(x, k):
    if x < 2:
        return x
    r = 1 << -(-x.bit_length() // k)
    while True:
        t = ((k - 1) * r + x // r ** (k - 1)) // k
        if t >= r:
            return r
        r = t


def roots(rng):
    for n in ns(rng, 2):
        W = 8 * n
        M = 1 << W
        for x in (M - 1, rng.randrange(M)):
            yield f"nt_sqrt u8x{n} {hx(x)}", "width-sweep", hx(_iroot(x, 2))
        if n <= 256 or n % 8 == 0:
            yield f"nt_cbrt u8x{n} {hx(M - 1)}", "width-sweep", hx(_iroot(M - 1, 3))
            k = rng.choice([4, 5, 7, W // 2, W - 1, W, 255, 256, 257])
            if k >= 1:
                yield f"nt_nth_root u8x{n} {hx(M - 1)} {k}", "width-sweep", hx(_iroot(M - 1, k))
        a, b = rng.randrange(M), rng.randrange(M)
        if n <= 128 or n % 32 == 0:
            g = rng.randrange(1, 1 << max(1, W // 3))
            a, b = (a // g) * g, (b // g) * g
            yield f"nt_gcd u8x{n} {hx(a)} {hx(b)}", "width-sweep", hx(math.gcd(a, b))
        H = M >> 1
        yield f"nt_sqrt i8x{n} {hx(H - 1)}", "width-sweep", hx(_iroot(H - 1, 2))


SWEEPS = {"parse_print": parse_print, "from_radix": from_radix, "print_": print_, "ilog": ilog, "pow": pow_, "addsub": addsub,
          "mul": mul, "rem": rem, "shift": shift, "count": count, "cmp": cmp_, "floats": floats, "slices": slices, "roots": roots}


# backwards-compatible names used by the property generators
def to_f64(rng):
    yield from floats(rng)
