"""C19 cases: num_traits FromPrimitive / ToPrimitive / AsPrimitive."""
from .common import *
from .c14 import float_case, int_case, FMT, exponent_sweep, bound_fractions

PRIMS = {"u8": 8, "u16": 16, "u32": 32, "u64": 64, "u128": 128, "usize": 64,
         "i8": 8, "i16": 16, "i32": 32, "i64": 64, "i128": 128, "isize": 64}


def prim_value(rng, p, W, tsigned):
    """pattern of primitive p at the bnum target's boundaries"""
    b = PRIMS[p]
    ps = p[0] == "i"
    dmax = (1 << (W - 1)) - 1 if tsigned else (1 << W) - 1
    dmin = -(1 << (W - 1)) if tsigned else 0
    smax = (1 << (b - 1)) - 1 if ps else (1 << b) - 1
    smin = -(1 << (b - 1)) if ps else 0
    c = rng.randrange(8)
    if c < 5:
        z = rng.choice([dmax, dmax + 1, dmin, dmin - 1, 0, 1, -1, smax, smin, dmax - 1])
        z = max(smin, min(smax, z))
        return "boundary", pat(z, b)
    t, v = value(rng, 8, b // 8)
    return t, v


def big_value(rng, w, n, p):
    """bnum value at the primitive's boundaries"""
    W = w * n
    b = PRIMS[p]
    ps = p[0] == "i"
    pmax = (1 << (b - 1)) - 1 if ps else (1 << b) - 1
    pmin = -(1 << (b - 1)) if ps else 0
    c = rng.randrange(10)
    if c < 4:
        z = rng.choice([pmax, pmax + 1, pmin, pmin - 1, 0, -1, 1, pmax - 1])
        return "boundary", pat(z, W)
    if c < 6 and n >= 2:
        # low digit = a valid (sign-extended) target value, upper digits say otherwise
        low = pat(rng.choice([pmax, pmin, -1, 0, 1, pmin + 1, rng.randrange(pmin, pmax + 1)]), w)
        hi = rng.choice([0, (1 << (W - w)) - 1, 1, rng.randrange(1 << (W - w))])
        return "low-digit-decoy", (hi << w) | low
    return value(rng, w, n)


def gen(rng, tier):
    for cfg in ["8x1", "16x1", "64x2", "8x17"] + (["32x3", "64x16"] if tier == "thorough" else []):
        w, n = wn(cfg)
        for s in "ui":
            for fmt in ("f32", "f64"):
                for f in exponent_sweep(rng, fmt, w * n):
                    yield f"nt_from_{fmt} {s}{cfg} {hx(f)}", "exponent-sweep"
    reps = 60 if tier == "thorough" else 30
    for cfg in cfgs(tier):
        w, n = wn(cfg)
        W = w * n
        if n > 40:
            continue
        if W <= 64:
            for s in "ui":
                for fmt in ("f32", "f64"):
                    for f in bound_fractions(fmt, W):
                        yield f"nt_from_{fmt} {s}{cfg} {hx(f)}", "bound-fraction"
        for _ in range(reps):
            for s in "ui":
                for p in PRIMS:
                    t, v = prim_value(rng, p, W, s == "i")
                    yield f"from_{p} {s}{cfg} {hx(v)}", t
                    t, a = big_value(rng, w, n, p)
                    yield f"to_{p} {s}{cfg} {hx(a)}", t
                    t, a = big_value(rng, w, n, p)
                    yield f"as_{p} {s}{cfg} {hx(a)}", t
                for fmt in ("f32", "f64"):
                    t, f = float_case(rng, fmt, W)
                    yield f"nt_from_{fmt} {s}{cfg} {hx(f)}", t
                    t, a = int_case(rng, w, n, FMT[fmt][0])
                    yield f"nt_to_{fmt} {s}{cfg} {hx(a)}", t
                    yield f"as_{fmt} {s}{cfg} {hx(a)}", t
