"""C19 cases: num_traits FromPrimitive / ToPrimitive / AsPrimitive.

Request vocabulary: lean/Bnum/Drive/C19.lean (header) = harness/src/bin/c19.rs.
  * every float request carries a build-mode token and is sent once per mode (`dbg` to the debug
    build and the `dbg = true` model, `rel` to the release build and the `dbg = false` model);
  * all four `AsPrimitive` impl families of src/int/numtraits.rs: bnum -> primitive (`as_<prim>`,
    `as_f32/f64`), primitive / char / bool / float -> bnum (`as_from_*`), bnum -> bnum of the same
    digit type (`as_big`);
  * every configuration of the tier (no digit-count cut-off) plus, in BOTH tiers, the widest in-scope
    instantiation of every digit type (8192 bits) with a few cases per operation.
"""
from .common import *
from .c14 import float_case, int_case, FMT, exponent_sweep, bound_fractions

PRIMS = {"u8": 8, "u16": 16, "u32": 32, "u64": 64, "u128": 128, "usize": 64,
         "i8": 8, "i16": 16, "i32": 32, "i64": 64, "i128": 128, "isize": 64}

# widest in-scope instantiation of each digit type (8192 bits); all four are harness configurations
WIDE = ["8x1024", "16x512", "32x256", "64x128"]
# digit counts per digit width for `as_big` (= the size lists of `run_as_big` in harness/src/bin/c19.rs)
BIG_SIZES = {8: [1, 2, 3, 17, 1024], 16: [1, 3, 5, 512], 32: [2, 3, 6, 256], 64: [1, 2, 3, 8, 128]}
MODES = ("dbg", "rel")
CHARS = (0, 0x41, 0x7f, 0x80, 0xff, 0x100, 0xd7ff, 0xe000, 0xffff, 0x10000, 0x10ffff)


def prim_range(p):
    b = PRIMS[p]
    return ((-(1 << (b - 1)), (1 << (b - 1)) - 1) if p[0] == "i" else (0, (1 << b) - 1))


def prim_digit_window(rng, p, w, n):
    """a primitive whose only non-zero (for negatives: only non-0xff..) w-bit digit sits at index j, for j around
    the digit count n of the target (n-1: last stored digit, n / n+1 / top digit of the primitive: must be
    rejected) — optionally with arbitrary digits below it"""
    b = PRIMS[p]
    k = max(1, b // w)
    j = max(0, min(k - 1, rng.choice([n - 1, n, n, n + 1, k - 1, rng.randrange(k)])))
    d = rng.choice([1, (1 << w) - 1, 1 << (w - 1), (1 << (w - 1)) - 1, rng.randrange(1, 1 << w)])
    v = d << (w * j)
    if rng.random() < 0.4 and j > 0:
        v |= rng.randrange(1 << (w * j))
    v = pat(v, b)
    if p[0] == "i" and rng.random() < 0.5:
        v = pat(~v, b)
    return "prim-digit-window", v


def prim_value(rng, p, W, tsigned, w=8, n=1):
    """pattern of primitive p at the bnum target's boundaries"""
    b = PRIMS[p]
    dmax = (1 << (W - 1)) - 1 if tsigned else (1 << W) - 1
    dmin = -(1 << (W - 1)) if tsigned else 0
    smin, smax = prim_range(p)
    c = rng.randrange(10)
    if c < 5:
        z = rng.choice([dmax, dmax + 1, dmin, dmin - 1, 0, 1, -1, smax, smin, dmax - 1])
        z = max(smin, min(smax, z))
        return "boundary", pat(z, b)
    if c < 7:
        return prim_digit_window(rng, p, w, n)
    t, v = value(rng, 8, b // 8)
    return t, v


def padding_disturbed(rng, w, n, p):
    """a value that FITS primitive p (sign-extended to the bnum width) in which exactly one digit above the
    primitive's width — the first one, the top one, or any — or only the bnum's sign bit is changed"""
    W = w * n
    b = PRIMS[p]
    pmin, pmax = prim_range(p)
    z = rng.choice([pmax, pmin, -1, 0, 1, pmin + 1, pmax - 1, rng.randrange(pmin, pmax + 1)])
    v = pat(z, W)
    first = max(1, -(-b // w))
    c = rng.randrange(6)
    if c == 0:
        return "sign-bit-disturbed", v ^ (1 << (W - 1))
    if first >= n:
        # the primitive covers every digit: disturb a bit above the primitive's width, if there is one
        if W > b:
            return "padding-disturbed", v ^ (1 << rng.randrange(b, W))
        return "boundary", v
    j = rng.choice([first, n - 1, rng.randrange(first, n)])
    d = rng.choice([1, 1 << (w - 1), (1 << w) - 1, rng.randrange(1, 1 << w)])
    return "padding-disturbed", v ^ (d << (w * j))


def big_value(rng, w, n, p):
    """bnum value at the primitive's boundaries"""
    W = w * n
    pmin, pmax = prim_range(p)
    c = rng.randrange(12)
    if c < 4:
        z = rng.choice([pmax, pmax + 1, pmin, pmin - 1, 0, -1, 1, pmax - 1])
        return "boundary", pat(z, W)
    if c < 6 and n >= 2:
        # low digit = a valid (sign-extended) target value, upper digits say otherwise
        low = pat(rng.choice([pmax, pmin, -1, 0, 1, pmin + 1, rng.randrange(pmin, pmax + 1)]), w)
        hi = rng.choice([0, (1 << (W - w)) - 1, 1, rng.randrange(1 << (W - w))])
        return "low-digit-decoy", (hi << w) | low
    if c < 8:
        return padding_disturbed(rng, w, n, p)
    return value(rng, w, n)


def limit_floats(fmt, W):
    """floats at the limits of a W-bit target: (1 + m·ulp)·2^k for k in W-2 .. W+1, m in {0, 1, max}, both signs
    (2^(W-1) and 2^W themselves, their float neighbours; -2^(W-1) = MIN is the one negative value of that
    magnitude that is representable)"""
    p, eb, bits = FMT[fmt]
    mb = p - 1
    bias = (1 << (eb - 1)) - 1
    out = []
    for k in (W - 2, W - 1, W, W + 1):
        e = k + bias
        if not 1 <= e <= (1 << eb) - 2:
            continue
        for m in (0, 1, (1 << mb) - 1):
            for sign in (0, 1):
                out.append((sign << (bits - 1)) | (e << mb) | m)
    return out


def wide_sweep(rng, fmt, W):
    """exponent sweep for the 8192-bit targets: a sample of the exponents, the top binades of the format (the
    longest shifts the conversion performs), zero / subnormal / inf / nan"""
    p, eb, bits = FMT[fmt]
    mb = p - 1
    emaxf = (1 << eb) - 1
    exps = sorted(set(rng.sample(range(1, emaxf), 40) + list(range(emaxf - 10, emaxf + 1)) + [0, 1]))
    for e in exps:
        for sign in (0, 1):
            m = rng.choice([0, 1, (1 << mb) - 1, rng.randrange(1 << mb)])
            yield (sign << (bits - 1)) | (e << mb) | m


def fl(op, cfg, arg, tag):
    """one float request per build mode"""
    for mode in MODES:
        yield f"{op} {cfg} {mode} {arg}", tag


def dst_boundary(rng, sW, ssigned, dW):
    """source patterns at the limits of a dW-bit target (both signednesses of the target)"""
    k = min(sW, dW)
    c = rng.randrange(5)
    if c == 0:
        return "attop", pat((1 << (k - 1)) + rng.randrange(-2, 3), sW)
    if c == 1:
        return "atmod", pat((1 << k) + rng.randrange(-2, 3), sW)
    if c == 2:
        return "neg-attop", pat(-(1 << (k - 1)) + rng.randrange(-2, 3), sW)
    if c == 3:
        j = rng.randrange(1, sW + 1)
        return "signrun", pat(-(1 << (j - 1)) - rng.randrange(0, 3), sW)
    j = rng.randrange(0, sW)
    return "posrun", pat((1 << j) - 1, sW)


def gen_as_big(rng, tier):
    """`AsPrimitive<BUint<M>>` / `AsPrimitive<BInt<M>>` for `BUint<N>` / `BInt<N>`: every ordered pair of digit
    counts of BIG_SIZES, all four signedness combinations (widening with zero / sign extension, same size,
    truncation; 8192-bit source and / or target)"""
    reps = 10 if tier == "thorough" else 4
    for w, sizes in BIG_SIZES.items():
        for n in sizes:
            for m in sizes:
                for ss in "ui":
                    for ds in "ui":
                        src, dst = f"{ss}{w}x{n}", f"{ds}{w}x{m}"
                        sW, dW = w * n, w * m
                        for _ in range(reps):
                            t, v = value(rng, w, n)
                            yield f"as_big {src} {dst} {hx(v)}", t
                            t, v = dst_boundary(rng, sW, ss == "i", dW)
                            yield f"as_big {src} {dst} {hx(v)}", t
                        for z in ((1 << (sW - 1)), (1 << sW) - 1, (1 << (min(sW, dW) - 1)) - 1):
                            yield f"as_big {src} {dst} {hx(pat(z, sW))}", "pair-boundary"


def gen(rng, tier):
    thorough = tier == "thorough"
    # --- one float per exponent value, narrow to mid-size targets (every branch on the decoded exponent)
    for cfg in ["8x1", "16x1", "64x2", "8x17", "32x3"] + (["64x16", "16x5", "8x64"] if thorough else []):
        w, n = wn(cfg)
        for s in "ui":
            for fmt in ("f32", "f64"):
                for f in exponent_sweep(rng, fmt, w * n):
                    yield from fl(f"nt_from_{fmt}", s + cfg, hx(f), "exponent-sweep")
    # --- 1024 bits (the f64 range ends inside the type) and the 8192-bit types: sampled sweep
    for cfg in ["64x16"] + WIDE:
        w, n = wn(cfg)
        for s in "ui":
            for fmt in ("f32", "f64"):
                for f in wide_sweep(rng, fmt, w * n):
                    yield from fl(f"nt_from_{fmt}", s + cfg, hx(f), "wide-sweep")
                    if rng.random() < 0.25:
                        yield from fl(f"as_from_{fmt}", s + cfg, hx(f), "wide-sweep")
    reps = 60 if thorough else 24
    seen = set()
    for cfg in list(cfgs(tier)) + WIDE:
        if cfg in seen:
            continue
        seen.add(cfg)
        w, n = wn(cfg)
        W = w * n
        for s in "ui":
            for fmt in ("f32", "f64"):
                fs = list(limit_floats(fmt, W))
                tag = "limit-float"
                if W <= 64:
                    fs += bound_fractions(fmt, W)
                    tag = "bound-fraction"
                for f in fs:
                    yield from fl(f"nt_from_{fmt}", s + cfg, hx(f), tag)
                for f in limit_floats(fmt, W):
                    yield from fl(f"as_from_{fmt}", s + cfg, hx(f), "limit-float")
            yield f"as_from_bool {s}{cfg} 0", "bool"
            yield f"as_from_bool {s}{cfg} 1", "bool"
            for c in CHARS + (rng.randrange(0xd800), rng.randrange(0xe000, 0x110000)):
                yield f"as_from_char {s}{cfg} {hx(c)}", "char"
        for _ in range(reps if n <= 40 else 6):
            for s in "ui":
                for p in PRIMS:
                    t, v = prim_value(rng, p, W, s == "i", w, n)
                    yield f"from_{p} {s}{cfg} {hx(v)}", t
                    t, v = prim_value(rng, p, W, s == "i", w, n)
                    yield f"as_from_{p} {s}{cfg} {hx(v)}", t
                    t, a = big_value(rng, w, n, p)
                    yield f"to_{p} {s}{cfg} {hx(a)}", t
                    t, a = big_value(rng, w, n, p)
                    yield f"as_{p} {s}{cfg} {hx(a)}", t
                for fmt in ("f32", "f64"):
                    t, f = float_case(rng, fmt, W)
                    yield from fl(f"nt_from_{fmt}", s + cfg, hx(f), t)
                    t, f = float_case(rng, fmt, W)
                    yield from fl(f"as_from_{fmt}", s + cfg, hx(f), t)
                    t, a = int_case(rng, w, n, fmt, s == "i")
                    yield from fl(f"nt_to_{fmt}", s + cfg, hx(a), t)
                    yield from fl(f"as_{fmt}", s + cfg, hx(a), t)
    yield from gen_as_big(rng, tier)
    if thorough:
        # complete enumeration of the 8-bit instantiation (a test, not the proof)
        for s in "ui":
            for a in range(256):
                for p in PRIMS:
                    yield f"to_{p} {s}8x1 {hx(a)}", "enum8"
                    yield f"as_{p} {s}8x1 {hx(a)}", "enum8"
                for p in ("u8", "i8"):
                    yield f"from_{p} {s}8x1 {hx(a)}", "enum8"
                    yield f"as_from_{p} {s}8x1 {hx(a)}", "enum8"
