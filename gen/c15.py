"""C15 cases: byte-slice decoding and endianness helpers."""
from .common import *

NIGHTLY = True  # to_*_bytes / from_*_bytes need bnum's `nightly` feature (cargo +nightly)


def slice_case(rng, w, n, signed):
    BY = w * n // 8
    ln = rng.randrange(0, 2 * BY + 3)
    c = rng.randrange(8)
    core_len = min(ln, BY)
    core = bytes(rng.randrange(256) for _ in range(core_len))
    if c <= 1 and ln > 0:
        core = bytes([rng.choice([0, 0x7f, 0x80, 0xff])]) + core[1:]
    pad_len = ln - core_len
    pad = rng.choice([b"\x00", b"\xff", None])
    if pad is None:
        padb = bytes(rng.choice([0, 0xff, 1, 0x80]) for _ in range(pad_len))
    else:
        padb = pad * pad_len
    # big-endian layout: padding first (most significant), then the core
    return "len%s" % ("<" if ln < BY else "=" if ln == BY else ">"), padb + core


def gen(rng, tier):
    reps = 80 if tier == "thorough" else 40
    for cfg in cfgs(tier):
        w, n = wn(cfg)
        if n > 40:
            continue
        for _ in range(reps):
            for s in "ui":
                t, b = slice_case(rng, w, n, s == "i")
                yield f"from_be_slice {s}{cfg} {b.hex() or '-'}", t
                t, b = slice_case(rng, w, n, s == "i")
                yield f"from_le_slice {s}{cfg} {b[::-1].hex() or '-'}", t
                t, a = value(rng, w, n)
                for op in ("to_be", "to_le", "from_be", "from_le", "to_be_bytes", "to_le_bytes", "to_ne_bytes"):
                    yield f"{op} {s}{cfg} {hx(a)}", t
                BY = w * n // 8
                for op in ("from_be_bytes", "from_le_bytes", "from_ne_bytes"):
                    yield f"{op} {s}{cfg} {bytes(rng.choice([0, 0xff, 0x80, rng.randrange(256)]) for _ in range(BY)).hex()}", "bytes"
    # all lengths 0..=2*BYTES+2 for small configurations
    for cfg in ["8x1", "8x3", "16x1", "32x2", "64x1"]:
        w, n = wn(cfg)
        BY = w * n // 8
        for ln in range(0, 2 * BY + 3):
            for fill in (0, 0xff):
                for top in (0x00, 0x7f, 0x80, 0xff):
                    core = bytes([top] + [rng.randrange(256) for _ in range(min(ln, BY) - 1)]) if ln else b""
                    b = bytes([fill]) * (ln - len(core)) + core
                    for s in "ui":
                        yield f"from_be_slice {s}{cfg} {b.hex() or '-'}", "all-lengths"
                        yield f"from_le_slice {s}{cfg} {b[::-1].hex() or '-'}", "all-lengths"
    # over-long slices with exactly ONE byte of the excess region deviating from the padding, at every excess
    # position and every length up to three whole digits (+ a partial one) beyond BYTES — the partial top digit
    # and each whole excess digit are checked by different code (added after seeded change C15-r4m1)
    for cfg in ["8x3", "16x2", "16x3", "32x2", "32x3", "64x1", "64x2"]:
        w, n = wn(cfg)
        BY = w * n // 8
        for ln in range(BY + 1, BY + 3 * (w // 8) + 2):
            for fill, top in ((0, 0x00), (0, 0x7f), (0xff, 0x80), (0xff, 0xff), (0, 0x80)):
                core = bytes([top] + [rng.randrange(256) for _ in range(BY - 1)])
                for p in range(ln - BY):
                    pad = bytearray([fill]) * (ln - BY)
                    pad[p] = rng.choice([fill ^ 0xff, fill ^ 0x01, fill ^ 0x80, rng.randrange(256)])
                    b = bytes(pad) + core
                    for sgn in "ui":
                        yield f"from_be_slice {sgn}{cfg} {b.hex()}", "one-bad-pad-byte"
                        yield f"from_le_slice {sgn}{cfg} {b[::-1].hex()}", "one-bad-pad-byte"
