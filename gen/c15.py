"""C15 cases: byte-slice decoding and endianness helpers.

Beyond the request stream answered by the three ordinary harness builds (dbg, rel, nightly-dbg) this module
adds two runs of its own (hooks `pre` / `post` of check.py):
  * `nightly-rel`: the `*_bytes` methods (bnum's `nightly` feature) in a build WITHOUT debug assertions /
    overflow checks (check.py builds the nightly binary in the debug profile only);
  * `miri-be`: the requests `X@be` ("method X on a big-endian target") are answered by the same harness
    binary interpreted by Miri for s390x-unknown-linux-gnu, so the `#[cfg(target_endian = "big")]` arms of
    src/buint/endian.rs are really compiled and executed (the Lean driver answers `X@be` with `e = false`).
"""
import os
import subprocess

from .common import *

# other public routes to this property's operations (check.py step 2d): the neighbour generator's requests whose
# operation matches are part of this run, answered by the neighbour's harness bin
NEIGHBOURS = {"C18": r"nt_(from|to)_(be|le)\b"}

NIGHTLY = True  # to_*_bytes / from_*_bytes need bnum's `nightly` feature (cargo +nightly)

# the big-endian target the harness is interpreted for (Miri needs no linker / emulator for it)
BE_TARGET = "s390x-unknown-linux-gnu"
# set VERIF_C15_NO_MIRI=1 to switch the big-endian run off (development only; the run says so)
NO_MIRI = bool(os.environ.get("VERIF_C15_NO_MIRI"))

SLICE_OPS = ("from_be_slice", "from_le_slice")
SWAP_OPS = ("to_be", "to_le", "from_be", "from_le")
TO_BYTES = ("to_be_bytes", "to_le_bytes", "to_ne_bytes")
FROM_BYTES = ("from_be_bytes", "from_le_bytes", "from_ne_bytes")
NIGHTLY_OPS = TO_BYTES + FROM_BYTES


def slice_case(rng, w, n, signed):
    BY = w * n // 8
    ln = rng.randrange(0, 2 * BY + 3)
    c = rng.randrange(8)
    core_len = min(ln, BY)
    core = bytes(rng.randrange(256) for _ in range(core_len))
    if c <= 1 and ln > 0:
        core = bytes([rng.choice([0, 0x7f, 0x80, 0xff])]) + core[1:]
    pad_len = ln - core_len
    pad = rng.choice([b"\x00", b"\xff", None])
    if pad is None:
        padb = bytes(rng.choice([0, 0xff, 1, 0x80]) for _ in range(pad_len))
    else:
        padb = pad * pad_len
    # big-endian layout: padding first (most significant), then the core
    return "len%s" % ("<" if ln < BY else "=" if ln == BY else ">"), padb + core


def length_classes(w, n):
    """Slice lengths that select different paths of the decoding loops: around 0, one digit, the last whole
    digit below BYTES, BYTES itself, one and two digits beyond it, 2*BYTES(+2), and EVERY residue modulo the
    digit size for the partial digit landing on the top (sign) digit and on the first excess digit."""
    bw = w // 8
    BY = bw * n
    L = {0, 1, 2, bw - 1, bw, bw + 1, BY - bw - 1, BY - bw, BY - 1, BY, BY + 1, BY + bw - 1, BY + bw, BY + bw + 1,
         BY + 2 * bw, BY + 2 * bw + 1, 2 * BY - 1, 2 * BY, 2 * BY + 1, 2 * BY + 2}
    for r in range(1, bw):
        L.add(BY - bw + r)      # partial digit = digit N-1 (sign digit of the signed types)
        L.add(BY + r)           # partial digit = first excess digit
        L.add(2 * BY - bw + r)  # partial digit = last excess digit of an almost double-length slice
    return sorted(l for l in L if 0 <= l <= 2 * BY + 2)


def slice_contents(rng, ln, BY, bw):
    """(tag, big-endian byte string of length ln): general content classes.  `excess` most significant bytes
    beyond BYTES (pure 00 / pure ff / one deviating byte) in front of a core whose top byte has each sign."""
    ex = max(0, ln - BY)
    cl = ln - ex
    if ln == 0:
        return [("empty", b"")]

    def core(top):
        return bytes([top] + [rng.randrange(256) for _ in range(cl - 1)]) if cl else b""
    out = [("all-00", bytes(ln)), ("all-ff", b"\xff" * ln),
           ("min-of-len", b"\x80" + bytes(ln - 1)), ("max-of-len", b"\x7f" + b"\xff" * (ln - 1)),
           ("minus-small", b"\xff" * (ln - 1) + bytes([rng.randrange(0x80, 0x100)])),
           ("plus-small", bytes(ln - 1) + bytes([rng.randrange(1, 0x80)]))]
    for top in (0x00, 0x7f, 0x80, 0xff):
        if ex == 0:
            out.append(("short/top%02x" % top, core(top)))
        else:
            for fill in (0x00, 0xff):
                out.append(("pad%02x/top%02x" % (fill, top), bytes([fill]) * ex + core(top)))
    if ex:
        # core = exactly MIN / MAX / -1 / M-1 behind correct and behind wrong padding
        out.append(("padff/core-min", b"\xff" * ex + b"\x80" + bytes(cl - 1)))
        out.append(("pad00/core-max", bytes(ex) + b"\x7f" + b"\xff" * (cl - 1)))
        out.append(("pad00/core-min", bytes(ex) + b"\x80" + bytes(cl - 1)))
        out.append(("padff/core-max", b"\xff" * ex + b"\x7f" + b"\xff" * (cl - 1)))
        # ONE deviating byte in the excess region: first byte (it carries the sign), last byte, a digit boundary
        pos = {0, ex - 1, rng.randrange(ex)}
        if ex > bw:
            pos |= {ex - bw, ex - bw - 1, (ex - 1) % bw}
        for p in sorted(pos):
            fill, top = rng.choice(((0, 0x00), (0, 0x7f), (0xff, 0x80), (0xff, 0xff), (0, 0x80)))
            pad = bytearray([fill]) * ex
            pad[p] = rng.choice([fill ^ 0xff, fill ^ 0x01, fill ^ 0x80, rng.randrange(256)])
            out.append(("one-bad-pad-byte@%s" % ("first" if p == 0 else "last" if p == ex - 1 else "inner"), bytes(pad) + core(top)))
    return out


def slice_lines(s, cfg, tag, b, suffix=""):
    yield f"from_be_slice{suffix} {s}{cfg} {b.hex() or '-'}", tag
    yield f"from_le_slice{suffix} {s}{cfg} {b[::-1].hex() or '-'}", tag


def length_sweep(rng, cfg, per_len, lens=None, suffix=""):
    """every length class x (all content classes | a sample of `per_len` of them) x u/i x be/le"""
    w, n = wn(cfg)
    bw = w // 8
    BY = bw * n
    for ln in (lens if lens is not None else length_classes(w, n)):
        cs = slice_contents(rng, ln, BY, bw)
        if per_len is not None and len(cs) > per_len:
            cs = rng.sample(cs, per_len)
        for tag, b in cs:
            for s in "ui":
                yield from slice_lines(s, cfg, "lenclass/" + tag, b, suffix)


def value_lines(rng, cfg, a, tag, suffix="", ops=SWAP_OPS + TO_BYTES):
    for s in "ui":
        for op in ops:
            yield f"{op}{suffix} {s}{cfg} {hx(a)}", tag


def bytes_lines(rng, cfg, suffix="", ops=FROM_BYTES):
    w, n = wn(cfg)
    BY = w * n // 8
    for s in "ui":
        for op in ops:
            c = rng.randrange(4)
            if c == 0:
                b = bytes(rng.choice([0, 0xff, 0x80, rng.randrange(256)]) for _ in range(BY))
            elif c == 1:
                b = bytes(rng.randrange(256) for _ in range(BY))
            elif c == 2:
                # every byte distinct from its neighbours and position-dependent: any misplaced byte shows
                b = bytes((i * 37 + 11) & 0xff for i in range(BY))
            else:
                # a single non-zero byte at a random position
                b = bytearray(BY)
                b[rng.randrange(BY)] = rng.choice([1, 0x80, 0xff, rng.randrange(1, 256)])
                b = bytes(b)
            yield f"{op}{suffix} {s}{cfg} {b.hex()}", "bytes"


def position_value(w, n):
    """the pattern whose byte i (little-endian) is (i*37+11) mod 256: every byte permutation is visible"""
    return sum(((i * 37 + 11) & 0xff) << (8 * i) for i in range(w * n // 8))


# configurations of the big-endian (Miri) run: every digit type, odd and even digit counts.  Miri interprets
# the harness at roughly 20 requests per second, hence a small, dense sample (the big-endian arms are
# `return x` / `swap_bytes()` / `to_be_bytes()` / `from_be_bytes()`: what has to be seen is WHICH one is taken).
BE_CFGS = ["8x3", "16x3", "32x2", "64x3"]
BE_CFGS_LIGHT = ["8x1", "16x1", "64x1", "64x2", "64x5"]       # byte-position pattern only
BE_CFGS_THOROUGH = ["8x12", "16x2", "32x3", "32x6", "64x12"]


def be_lines(rng, cfg, light):
    w, n = wn(cfg)
    bw = w // 8
    BY = bw * n
    vals = [("byte-positions", position_value(w, n))] + ([] if light else [value(rng, w, n)])
    for t, a in vals:
        yield from value_lines(rng, cfg, a, "big-endian-target/" + t, "@be")
    yield from bytes_lines(rng, cfg, "@be", FROM_BYTES[1:] if light else FROM_BYTES)
    if not light:
        yield from length_sweep(rng, cfg, 1, [BY - 1, BY + 1], "@be")


def gen(rng, tier):
    thorough = tier == "thorough"
    reps = 80 if thorough else 40
    for cfg in cfgs(tier):
        w, n = wn(cfg)
        # wide instantiations (8x64; thorough: 64x64, 64x128) get fewer repetitions, not none
        r = reps if w * n <= 1024 else max(4, reps * 1024 // (w * n) // 2)
        for _ in range(r):
            for s in "ui":
                t, b = slice_case(rng, w, n, s == "i")
                yield f"from_be_slice {s}{cfg} {b.hex() or '-'}", t
                t, b = slice_case(rng, w, n, s == "i")
                yield f"from_le_slice {s}{cfg} {b[::-1].hex() or '-'}", t
                t, a = value(rng, w, n)
                for op in SWAP_OPS + TO_BYTES:
                    yield f"{op} {s}{cfg} {hx(a)}", t
                BY = w * n // 8
                for op in FROM_BYTES:
                    yield f"{op} {s}{cfg} {bytes(rng.choice([0, 0xff, 0x80, rng.randrange(256)]) for _ in range(BY)).hex()}", "bytes"
        yield from value_lines(rng, cfg, position_value(w, n), "byte-positions")
        yield from bytes_lines(rng, cfg)
    # all lengths 0..=2*BYTES+2 for small configurations
    for cfg in ["8x1", "8x3", "16x1", "32x2", "64x1"]:
        w, n = wn(cfg)
        BY = w * n // 8
        for ln in range(0, 2 * BY + 3):
            for fill in (0, 0xff):
                for top in (0x00, 0x7f, 0x80, 0xff):
                    core = bytes([top] + [rng.randrange(256) for _ in range(min(ln, BY) - 1)]) if ln else b""
                    b = bytes([fill]) * (ln - len(core)) + core
                    for s in "ui":
                        yield f"from_be_slice {s}{cfg} {b.hex() or '-'}", "all-lengths"
                        yield f"from_le_slice {s}{cfg} {b[::-1].hex() or '-'}", "all-lengths"
    # over-long slices with exactly ONE byte of the excess region deviating from the padding, at every excess
    # position and every length up to three whole digits (+ a partial one) beyond BYTES — the partial top digit
    # and each whole excess digit are checked by different code (added after seeded change C15-r4m1)
    for cfg in ["8x3", "16x2", "16x3", "32x2", "32x3", "64x1", "64x2"]:
        w, n = wn(cfg)
        BY = w * n // 8
        for ln in range(BY + 1, BY + 3 * (w // 8) + 2):
            for fill, top in ((0, 0x00), (0, 0x7f), (0xff, 0x80), (0xff, 0xff), (0, 0x80)):
                core = bytes([top] + [rng.randrange(256) for _ in range(BY - 1)])
                for p in range(ln - BY):
                    pad = bytearray([fill]) * (ln - BY)
                    pad[p] = rng.choice([fill ^ 0xff, fill ^ 0x01, fill ^ 0x80, rng.randrange(256)])
                    b = bytes(pad) + core
                    for sgn in "ui":
                        yield f"from_be_slice {sgn}{cfg} {b.hex()}", "one-bad-pad-byte"
                        yield f"from_le_slice {sgn}{cfg} {b[::-1].hex()}", "one-bad-pad-byte"
    # EVERY configuration: the length classes (digit boundaries, BYTES, every residue of the partial digit on
    # the sign digit / on the first excess digit, 2*BYTES+2) x the content classes (sign of the top byte x
    # 00/ff padding, exact MIN/MAX cores, one deviating padding byte).  Small types: all classes; wide: a sample.
    for cfg in cfgs(tier):
        w, n = wn(cfg)
        BY = w * n // 8
        per = None if BY <= 24 else (6 if thorough else 3) if BY <= 128 else 2
        yield from length_sweep(rng, cfg, per)
    # the widest in-scope instantiation of every digit type (8192 bits): few, well-chosen requests
    for cfg in HUGE_CFGS + ([] if thorough else ["64x64"]):
        w, n = wn(cfg)
        bw = w // 8
        BY = bw * n
        lens = sorted({0, 1, BY - bw - 1, BY - 1, BY, BY + 1, BY + bw + 1, 2 * BY + 2})
        if thorough:
            lens = sorted(set(lens + [bw, BY - bw, BY - bw + bw // 2, BY + bw // 2, BY + bw, BY + 2 * bw + 1, 2 * BY, 2 * BY + 1]))
        yield from length_sweep(rng, cfg, 4 if thorough else 2, lens)
        # every residue of the partial digit, landing on the sign digit and on the first excess digit
        res = [BY - bw + r for r in range(1, bw)] + [BY + r for r in range(1, bw)]
        yield from length_sweep(rng, cfg, 3 if thorough else 2, [l for l in res if l not in lens])
        vals = huge_values(rng, cfg)
        picked = [position_value(w, n)] + (vals if thorough else [vals[1], vals[5]])
        for a in picked:
            yield from value_lines(rng, cfg, a, "huge")
        for _ in range(3 if thorough else 1):
            yield from bytes_lines(rng, cfg)
    # big-endian target (answered by the Miri run of `post`; the ordinary builds answer `skip`)
    for cfg in BE_CFGS + (BE_CFGS_THOROUGH if thorough else []):
        for _ in range(3 if thorough else 1):
            yield from be_lines(rng, cfg, False)
    for cfg in BE_CFGS_LIGHT:
        yield from be_lines(rng, cfg, not thorough or cfg == "64x5")


# ------------------------------------------------------------------ extra runs (hooks of check.py)

def _env(extra=None):
    e = dict(os.environ)
    e["CARGO_NET_OFFLINE"] = "true"
    e.pop("RUSTFLAGS", None)
    e.update(extra or {})
    return e


def _errs(err):
    return "\n".join(l for l in err.split("\n") if l.startswith("error") or "panicked" in l)[-1200:]


def _miri_cmd(harness):
    return ["cargo", "+nightly", "miri", "run", "--offline", "--quiet", "--target", BE_TARGET, "--bin", "c15",
            "--features", "nightly", "--target-dir", os.path.join(harness, "target", "miri")]


def _miri_env(harness):
    # own sysroot inside harness/target (never the shared ~/.cache/miri); stdin needs isolation off
    return _env({"MIRI_SYSROOT": os.path.join(harness, "target", "miri-sysroot"), "MIRIFLAGS": "-Zmiri-disable-isolation"})


def pre(ctx):
    """builds of the two extra runs; a failure is a broken obligation (like any other harness build failure)"""
    problems = []
    harness, run = ctx["harness"], ctx["run"]
    info = ctx.setdefault("c15_extra", {})
    # 1. nightly feature, release semantics
    cmd = ["cargo", "+nightly", "build", "--offline", "--bin", "c15", "--features", "nightly", "--profile", "rel",
           "--target-dir", os.path.join(harness, "target", "nightly")]
    rc, out, err = run(cmd, cwd=harness, env=_env(), timeout=3600)
    ctx["log"].append((" ".join(cmd), rc, _errs(err)))
    if rc != 0:
        problems.append("harness build failed (nightly, rel profile): " + (_errs(err) or err[-1200:]))
    else:
        info["nightly_rel_bin"] = os.path.join(harness, "target", "nightly", "rel", "c15")
    # 2. big-endian target under Miri
    if NO_MIRI:
        info["miri"] = "switched off by VERIF_C15_NO_MIRI"
        return problems
    rc, out, err = run(["cargo", "+nightly", "miri", "--version"], cwd=harness, env=_env())
    if rc != 0:
        info["miri"] = "not installed"
        print("WARNING: cargo +nightly miri is not installed: the big-endian-target requests (op@be) of C15 are NOT executed")
        return problems
    cmd = ["cargo", "+nightly", "miri", "setup", "--target", BE_TARGET]
    rc, out, err = run(cmd, cwd=harness, env=_miri_env(harness), timeout=3600)
    ctx["log"].append((" ".join(cmd), rc, _errs(err)))
    if rc != 0:
        info["miri"] = "sysroot for %s cannot be built (rust-src missing?)" % BE_TARGET
        print("WARNING: the Miri sysroot for %s cannot be built: the big-endian-target requests (op@be) of C15 are NOT executed: %s" % (BE_TARGET, err[-300:]))
        return problems
    # build (and run on an empty request list) the harness for the big-endian target
    rc, out, err = run(_miri_cmd(harness), cwd=harness, env=_miri_env(harness), inp="", timeout=3600)
    ctx["log"].append((" ".join(_miri_cmd(harness)), rc, _errs(err)))
    if rc != 0:
        problems.append("harness build failed (Miri, big-endian target %s): %s" % (BE_TARGET, _errs(err) or err[-1200:]))
    else:
        info["miri"] = "ok"
    return problems


def _compare(lines, idx, outs, mo_sp, mode):
    bad, n = [], 0
    for i, r in zip(idx, outs):
        ms = mo_sp[i]
        if "\t" not in ms or r == "skip":
            continue
        mo, sp = ms.split("\t", 1)
        n += 1
        if r != sp:
            bad.append({"line": lines[i], "mode": mode, "crate": r, "spec": sp, "model": mo})
        elif r != mo:
            bad.append({"line": lines[i], "mode": mode, "crate": r, "model": mo,
                        "spec": sp + "   (the crate agrees with the spec, the MODEL does not: correspondence broken)"})
    return bad, n


def post(ctx, lines, R, mo_sp):
    info = ctx.setdefault("c15_extra", {})
    bad = []
    if not ctx.get("bins"):
        return bad
    # 1. the nightly-only methods without debug assertions / overflow checks
    exe = info.get("nightly_rel_bin")
    if exe and os.path.exists(exe):
        idx = [i for i, l in enumerate(lines) if l.split(" ", 1)[0] in NIGHTLY_OPS]
        outs = ctx["run_chunked"](exe, [lines[i] for i in idx])
        b, n = _compare(lines, idx, outs, mo_sp, "nightly-rel")
        bad += b
        info["nightly_rel_evaluations"] = n
    # 2. big-endian target
    idx = [i for i, l in enumerate(lines) if l.split(" ", 1)[0].endswith("@be")]
    info["big_endian_requests"] = len(idx)
    if info.get("miri") == "ok" and idx:
        harness = ctx["harness"]
        p = subprocess.run(_miri_cmd(harness), cwd=harness, env=_miri_env(harness), input="\n".join(lines[i] for i in idx) + "\n",
                           capture_output=True, text=True)
        outs = p.stdout.split("\n")
        if outs and outs[-1] == "":
            outs.pop()
        if len(outs) != len(idx):
            # Miri stopped (undefined behaviour, unsupported operation, abort): report the request it stopped at
            k = len(outs)
            bad.append({"line": lines[idx[k]] if k < len(idx) else "(end of input)", "mode": "miri-be",
                        "crate": "ABORT under Miri: " + _errs(p.stderr)[-400:], "spec": mo_sp[idx[k]] if k < len(idx) else "", "model": ""})
            idx = idx[:k]
        b, n = _compare(lines, idx, outs, mo_sp, "miri-be")
        bad += b
        info["big_endian_evaluations"] = n
        info["big_endian_target"] = BE_TARGET + " (interpreted by Miri, debug assertions on, --features nightly)"
    elif idx:
        print("WARNING: %d big-endian-target requests of C15 were not executed (Miri: %s)" % (len(idx), info.get("miri", "not built")))
    return bad


def evidence_extra(ctx):
    d = dict(ctx.get("c15_extra", {}))
    d.pop("nightly_rel_bin", None)
    return {"c15_extra_runs": d}
