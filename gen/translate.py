#!/usr/bin/env python3
"""gen/translate.py — static tie between the delegation layer of the Rust crate and the hand-written Lean model.

On every run the CURRENT Rust sources under --src (default /repo/src) are re-read, macro-expanded and parsed; for
every function of a `BUint` / `BInt` impl whose body lies in a small expression subset a theorem

    theorem tr_<key> (ctx…) (params…) : <model constant applied to the parameters> = <translated Rust body> := by deleg_tac

is written to lean/Bnum/Generated/Deleg.lean and re-checked by the Lean kernel.  See docs/translator.md.

  python3 gen/translate.py                 regenerate Deleg.lean, print a summary
  python3 gen/translate.py --check         regenerate, build, compare with gen/translate_expected.json, print ONE JSON object
  python3 gen/translate.py --list          status of every parsed function (tied / skipped and why)
  python3 gen/translate.py --show KEY      show the translation of one function (e.g. UI::wrapping_add)
  python3 gen/translate.py --write-expected   (after a clean --check) rewrite gen/translate_expected.json
  python3 gen/translate.py --dump-sigs     re-dump gen/translate_sigs.json from the built Lean model
  --src DIR                                Rust source directory (default /repo/src)

Standard library only.
"""
import sys, os, re, json, time, argparse, subprocess, hashlib

HERE = os.path.dirname(os.path.abspath(__file__))
ROOT = os.path.dirname(HERE)
sys.path.insert(0, HERE)
import tr_lex, tr_parse, tr_core
from tr_core import Unsupported, Unresolved

LEAN_DIR = os.path.join(ROOT, 'lean')
GEN_FILE = os.path.join(LEAN_DIR, 'Bnum', 'Generated', 'Deleg.lean')
SIGS_JSON = os.path.join(HERE, 'translate_sigs.json')
SYMS_JSON = os.path.join(HERE, 'translate_symbols.json')
EXPECTED_JSON = os.path.join(HERE, 'translate_expected.json')
ALLOWED_AXIOMS = {'propext', 'Classical.choice', 'Quot.sound'}
NS = 'Bnum.Generated.Deleg'

SIMPSET = '''Bool.and_true, Bool.true_and, Bool.and_false, Bool.false_and,
        Bool.or_true, Bool.true_or, Bool.or_false, Bool.false_or, Bool.not_true, Bool.not_false, Bool.false_eq_true,
        Bool.true_eq_false, Bool.and_eq_true, Bool.or_eq_true, Bool.not_eq_true', beq_iff_eq, bne_iff_ne, ne_eq,
        decide_eq_true_eq, beq_self_eq_true, not_true_eq_false, not_false_eq_true, and_true, true_and, and_false,
        false_and, and_self, or_true, true_or, or_false, false_or, or_self, not_and, not_or, imp_self, implies_true,
        Bnum.Outcome.ok.injEq, Option.some.injEq, Prod.mk.injEq, forall_eq, forall_eq', imp_false, reduceCtorEq'''

TACTIC = r'''/-- the ONE generic proof script of every generated theorem.  Arguments: the model constant on the left-hand side, then
    (computed from the dumped reference graph of the model, never written by hand) the model-internal helper
    definitions it is built from and that the translated Rust body does not mention.
    1. definitional unfolding; 2. the same after unfolding the model constant; 3. if the elaborator cannot see through two
    differently compiled `match`es on a stuck scrutinee: unfold the `Outcome` combinators, rewrite the model's synonyms
    (`alias_*` above) and case-split on whatever is stuck; 4. as 3. with the helper definitions unfolded too.
    Between 2. and 3.: the same case-splitting after unfolding, one level deep, exactly the definitions that ONE side
    mentions and the other does not (`gs`: the callees of the Rust body whose definition the model inlines, and the
    model's direct helpers that neither the Rust body nor those callees mention). -/
macro "deleg_tac " f:ident gs:ident* " ; " hs:ident* : tactic => `(tactic| first
  | rfl
  | (unfold $f; rfl)
  | (simp only [$f:ident, $[$gs:ident],*, ALIASES Bnum.Outcome.expect, Bnum.Outcome.bind, Bnum.Outcome.map]
     repeat' (first | rfl | (split <;> try simp_all only [SIMPSET]))
     done)
  | (unfold $f
     try simp only [ALIASES Bnum.Outcome.expect, Bnum.Outcome.bind, Bnum.Outcome.map]
     repeat' (first | rfl | (split <;> try simp_all only [SIMPSET]))
     done)
  | (simp only [$f:ident, $[$hs:ident],*, ALIASES Bnum.Outcome.expect, Bnum.Outcome.bind, Bnum.Outcome.map]
     repeat' (first | rfl | (split <;> try simp_all only [SIMPSET]))
     done) )'''.replace('SIMPSET', SIMPSET)

# ------------------------------------------------------------------------------------------------ tables
def load_tables():
    with open(SIGS_JSON) as fh: sigs = json.load(fh)
    with open(SYMS_JSON) as fh: syms = json.load(fh)
    return tr_core.Symbols(sigs, syms)

def dump_sigs():
    models = sorted(f[:-5] for f in os.listdir(os.path.join(LEAN_DIR, 'Bnum', 'Model')) if f.endswith('.lean'))
    subprocess.run(['lake', 'build'] + ['Bnum.Model.' + m for m in models], cwd=LEAN_DIR, check=True,
                   stdout=subprocess.DEVNULL)
    src = 'import Lean\n' + ''.join('import Bnum.Model.%s\n' % m for m in models)
    with open(os.path.join(HERE, 'translate_sigs.lean')) as fh:
        body = fh.read()
    body = body[body.index('open Lean'):]
    tmp = os.path.join(LEAN_DIR, '.translate_sigs_tmp.lean')
    with open(tmp, 'w') as fh: fh.write(src + body)
    try:
        out = subprocess.run(['lake', 'env', 'lean', tmp], cwd=LEAN_DIR, capture_output=True, text=True)
    finally:
        os.remove(tmp)
    if out.returncode != 0:
        sys.stderr.write(out.stdout + out.stderr); sys.exit(2)
    sigs = {}
    for line in out.stdout.splitlines():
        parts = line.split('\t')
        if len(parts) != 6: continue
        name, mod, binders, ret, used, kind = parts
        ps = []
        for b in binders.split(';'):
            if not b: continue
            bi = b[0]; nm, _, ty = b[1:].partition(':')
            ps.append([bi, nm, ty])
        sigs[name] = {'module': mod, 'params': ps, 'ret': ret, 'uses': sorted(set(u for u in used.split(';') if u)), 'kind': kind}
    with open(SIGS_JSON, 'w') as fh:
        json.dump(sigs, fh, indent=0, sort_keys=True)
    print('wrote %s (%d constants)' % (SIGS_JSON, len(sigs)))

# ------------------------------------------------------------------------------------------------ translation of the whole crate
def thm_name(key):
    return 'tr_' + re.sub(r'[^A-Za-z0-9]+', '_', key).strip('_')

def body_text(f):
    return tr_lex.text(f.body.ch)

def analyse(src):
    """-> (results: key -> dict, crate)"""
    sy = load_tables()
    crate = tr_lex.Crate(src)
    tb = tr_core.FnTable(crate)
    results = {}
    for key, f in sorted(tb.bykey.items()):
        r = {'key': key, 'file': 'src/' + f.file, 'line': f.line, 'fn': f.name,
             'impl': ('impl %s for %s' % (f.trait + (('<' + f.trait_args + '>') if f.trait_args else ''), ('&' if f.self_ref else '') + (f.self_kind or f.self_text)))
                     if f.trait else 'impl ' + (f.self_kind or f.self_text),
             'thm': thm_name(key), 'via': f.via, 'site': 'src/' + f.site}
        results[key] = r
        dup_differs = [d for d in tb.dups.get(key, []) if body_text(d) != body_text(f)]
        if dup_differs:
            r.update(status='unsupported', reason='several differing definitions for one key (cfg variants)')
            continue
        ent = sy.lookup(key)
        c = ent['lean'] if ent else None
        if c is None:
            r.update(status='nomodel', reason='no model constant mapped to this function')
            continue
        if c not in sy.sigs:
            r.update(status='nomodel', reason='mapped Lean constant %s is not in the signature table' % c)
            continue
        r['lean'] = c
        try:
            t = tr_core.Translator(tb, sy, f, c, ent['pre'], ent['post'], ent['named'])
            out = t.translate_fn()
            if out['lhs'].replace('(', '').replace(')', '') == out['rhs'].replace('(', '').replace(')', ''):
                r.update(status='trivial', reason='model constant and translated body coincide syntactically (same constant models caller and callee, or direct recursion): no theorem')
            else:
                r.update(status='ok', **out)
        except Unsupported as e:
            r.update(status='unsupported', reason=str(e))
        except Unresolved as e:
            r.update(status='unresolved', reason=str(e))
        except tr_parse.ParseError as e:
            r.update(status='unsupported', reason='parse: %s' % e)
        except tr_lex.MacroError as e:
            r.update(status='unsupported', reason='macro: %s' % e)
        except (IndexError, KeyError, TypeError, ValueError, AttributeError, RecursionError) as e:
            r.update(status='unsupported', reason='translator could not handle the body (%s: %s)' % (type(e).__name__, e))
    for r in results.values():
        if r['status'] == 'ok': r['helpers'] = helpers_of(sy, r); r['onelevel'] = one_level_of(sy, r)
    # theorem names must be unique
    seen = {}
    for key, r in results.items():
        if r['thm'] in seen:
            r['thm'] += '_' + hashlib.sha1(key.encode()).hexdigest()[:6]
        seen[r['thm']] = key
    return results, crate, sy

def helpers_of(sy, r):
    """model-internal definitions (reference graph of the model, depth <= 2 from the left-hand constant) that the translated
    Rust body does not mention; plus the `Ops.buint` / `Ops.bint` records when they occur"""
    rhs_consts = set(r['consts']) - {r['lean']}
    skip = set(sy.aliases) | set(sy.aliases.values())
    out = []
    frontier = [r['lean']]
    for depth in range(2):
        nxt = []
        for c in frontier:
            for u in sy.sigs.get(c, {}).get('uses', []):
                s2 = sy.sigs.get(u)
                if s2 is None or s2.get('kind') != 'def': continue
                if u in rhs_consts or u in skip or u in out or u == r['lean']: continue
                if u.startswith('Bnum.Outcome.') or u in ('Bnum.tupleToOption',): continue
                out.append(u); nxt.append(u)
        frontier = nxt
    for c in ('Bnum.Ops.buint', 'Bnum.Ops.bint'):
        if c in r['consts'] and c not in out: out.append(c)
    return out

def one_level_of(sy, r):
    """definitions mentioned by ONE side only, one level deep: B \\ A (callees of the Rust body that the model constant does
    not call: the model inlines them) and A \\ (B ∪ what those callees use) (the model's own direct helpers)"""
    def is_def(u):
        s2 = sy.sigs.get(u)
        return s2 is not None and s2.get('kind') == 'def' and not u.startswith('Bnum.Outcome.') and u != 'Bnum.tupleToOption' \
            and any(p[0] == '(' for p in s2['params'])      # functions only: constants such as `fmtF32` stay folded
    skip = set(sy.aliases) | set(sy.aliases.values())
    A = [u for u in sy.sigs.get(r['lean'], {}).get('uses', []) if u != r['lean']]
    B = sorted(set(r['consts']) - {r['lean']})
    rhs_only = [g for g in B if g not in A and is_def(g) and g not in skip and not g.startswith('Bnum.Ops.b')]
    B2 = set(B)
    for g in rhs_only: B2.update(sy.sigs[g].get('uses', []))
    lhs_only = [h for h in A if h not in B2 and is_def(h) and h not in skip]
    return rhs_only + lhs_only

CTX_ORDER = ['dbg', 'e', 'bw', 'w', 'n']
CTX_TYPES = {'dbg': 'Bool', 'e': 'Bool', 'bw': 'Nat', 'w': 'Nat', 'n': 'Nat'}

def theorem_text(r):
    ctx = [c for c in CTX_ORDER if c in r['ctx']]
    extra = [c for c in r['ctx'] if c not in CTX_ORDER]
    bs = ''.join(' (%s : %s)' % (c, CTX_TYPES.get(c, 'Nat')) for c in ctx + extra)
    for nm, lty, _ in r['binders']:
        bs += ' (%s : %s)' % (nm, lty)
    doc = '/-- `%s` — %s:%d (%s) -/' % (r['key'], r['file'], r['line'], r['impl'])
    return '%s\ntheorem %s%s :\n    %s\n    = %s := by deleg_tac %s\n' % (doc, r['thm'], bs, r['lhs'], r['rhs'], '%s ; %s' % (' '.join([r['lean']] + r.get('onelevel', [])), ' '.join(r.get('helpers', []))))

def generate(results, sy, exclude=()):
    """write Deleg.lean; -> (line ranges: [(first, last, key)], names)"""
    ok = [r for r in results.values() if r['status'] == 'ok']
    ok.sort(key=lambda r: (r['file'], r['line'], r['key']))
    mods = set()
    for r in ok:
        if r['key'] in exclude: continue
        for c in r['consts']:
            s = sy.sigs.get(c)
            if s and s['module'] != '?': mods.add(s['module'])
    mods.add('Bnum.Model.Basic')
    lines = []
    lines.append('/- GENERATED by gen/translate.py from the Rust sources on every run; do not edit.')
    lines.append('   One theorem per translated Rust function: <hand model> = <translation of the Rust body>.  See docs/translator.md. -/')
    for a, b in sy.aliases.items():
        for c in (a, b):
            if c in sy.sigs: mods.add(sy.sigs[c]['module'])
    for m in sorted(mods): lines.append('import %s' % m)
    lines.append('namespace %s' % NS)
    lines.append('')
    lines.append('/-! the monad laws of `Outcome` that the translator applies when it sequences a panicking sub-expression -/')
    lines.append('theorem law_bind_ok {α β : Type} (a : α) (k : α → Bnum.Outcome β) : Bnum.Outcome.bind (.ok a) k = k a := rfl')
    lines.append('theorem law_bind_panic {α β : Type} (k : α → Bnum.Outcome β) : Bnum.Outcome.bind .panic k = .panic := rfl')
    lines.append('theorem law_bind_ite {α β : Type} (c : Prop) [Decidable c] (x y : Bnum.Outcome α) (k : α → Bnum.Outcome β) :')
    lines.append('    Bnum.Outcome.bind (if c then x else y) k = if c then Bnum.Outcome.bind x k else Bnum.Outcome.bind y k := by split <;> rfl')
    lines.append('theorem law_bind_assoc {α β γ : Type} (m : Bnum.Outcome α) (f : α → Bnum.Outcome β) (g : β → Bnum.Outcome γ) :')
    lines.append('    Bnum.Outcome.bind (Bnum.Outcome.bind m f) g = Bnum.Outcome.bind m (fun x => Bnum.Outcome.bind (f x) g) := by cases m <;> rfl')
    lines.append('')
    alias_names = []
    for i, (a, b) in enumerate(sorted(sy.aliases.items())):
        nm = 'alias_%s' % re.sub(r'[^A-Za-z0-9]+', '_', a)
        lines.append('/-- model synonym (kernel-checked): `%s` is `%s` -/' % (a, b))
        lines.append('theorem %s : @%s = @%s := by rfl' % (nm, a, b))
        alias_names.append(nm)
        for c in (a, b):
            if c in sy.sigs: mods.add(sy.sigs[c]['module'])
    lines.append('')
    lines.extend(TACTIC.replace('ALIASES ', ''.join(n + ', ' for n in alias_names)).split('\n'))
    lines.append('')
    ranges = []
    names = []
    for r in ok:
        txt = theorem_text(r)
        if r['key'] in exclude:
            lines.append('-- NOT CHECKED on this tree (%s): %s' % (exclude[r['key']], r['thm']))
            for l in txt.split('\n'):
                if l: lines.append('-- ' + l)
            lines.append('')
            continue
        first = len(lines) + 1
        for l in txt.rstrip('\n').split('\n'): lines.append(l)
        ranges.append((first, len(lines), r['key']))
        names.append(r['thm'])
        lines.append('')
    lines.append('end %s' % NS)
    lines.append('')
    ax_first = len(lines) + 1
    for n in names:
        lines.append('#print axioms %s.%s' % (NS, n))
    os.makedirs(os.path.dirname(GEN_FILE), exist_ok=True)
    new = '\n'.join(lines) + '\n'
    old = None
    if os.path.exists(GEN_FILE):
        with open(GEN_FILE) as fh: old = fh.read()
    if old != new:
        with open(GEN_FILE, 'w') as fh: fh.write(new)
    return ranges, names, sorted(mods), ax_first

MSG_RE = re.compile(r'^(?:(?P<sev0>error|warning|info): )?(?P<file>[^:\n]+\.lean):(?P<line>\d+):(?P<col>\d+):(?: (?P<sev>error|warning|info):)? ?(?P<msg>.*)$')
AX_LINE = re.compile(r"^'[^']+' (depends on axioms|does not depend on any axioms)")

def run_lean(mods):
    """`lake build Bnum.Generated.Deleg` (Lake replays the log of an up-to-date module, so the `#print axioms` output is
    always there); -> (messages [(line, sev, text)], returncode, raw)"""
    p = subprocess.run(['lake', 'build', 'Bnum.Generated.Deleg'], cwd=LEAN_DIR,
                       stdout=subprocess.PIPE, stderr=subprocess.STDOUT, text=True)
    msgs = []
    cur = None
    for line in p.stdout.splitlines():
        m = MSG_RE.match(line)
        if m and m.group('file').endswith('Deleg.lean'):
            cur = [int(m.group('line')), m.group('sev0') or m.group('sev') or 'error', m.group('msg')]
            msgs.append(cur)
        elif AX_LINE.match(line) or line.startswith(('ℹ', '✖', '✔', '⚠', 'Build completed', 'error: Lean exited', 'Some required', '- ')):
            cur = None
        elif cur is not None:
            cur[2] += '\n' + line
    return msgs, p.returncode, p.stdout

def check_generated(results, sy, known_unproved=()):
    """generate + elaborate (+ regenerate without failing theorems). -> (tied names->key, failed: key -> detail, axioms problems, wall)
    known_unproved: keys whose equation did not check when the expected list was written; they are not attempted again (they
    stay in the file as comments and are reported as `known_unproved`), so that the unchanged tree needs ONE build"""
    failed = {k: 'equation did not check when the expected list was written (--write-expected); not attempted' for k in known_unproved
              if k in results and results[k]['status'] == 'ok'}
    for attempt in range(3):
        ranges, names, mods, ax_first = generate(results, sy, exclude={k: 'equation no longer checks' for k in failed})
        msgs, rc, raw = run_lean(mods)
        newfail = {}
        axioms = {}
        stray = []
        for m in re.finditer(r"'([^'\n]+)' depends on axioms: \[([^\]]*)\]", raw):
            axioms[m.group(1)] = set(a.strip() for a in m.group(2).replace('\n', ' ').split(',') if a.strip())
        for m in re.finditer(r"'([^'\n]+)' does not depend on any axioms", raw):
            axioms[m.group(1)] = set()
        for line, sev, msg in msgs:
            if sev == 'error' or (sev == 'warning' and 'sorry' in msg):
                hit = None
                for a, b, key in ranges:
                    if a <= line <= b: hit = key; break
                if hit is None:
                    if line >= ax_first:
                        idx = line - ax_first
                        if 0 <= idx < len(names):
                            # `#print axioms` of a theorem that failed above
                            continue
                    stray.append('%d: %s' % (line, msg))
                else:
                    newfail.setdefault(hit, msg.strip()[:600])
        if stray and not newfail:
            return None, failed, {'stray': stray}, raw
        if not newfail:
            bad_ax = {}
            for n in names:
                full = '%s.%s' % (NS, n)
                if full not in axioms:
                    bad_ax[n] = 'no #print axioms output'
                elif not axioms[full] <= ALLOWED_AXIOMS:
                    bad_ax[n] = 'axioms: %s' % sorted(axioms[full])
            return names, failed, bad_ax, raw
        failed.update(newfail)
    return None, failed, {'stray': ['did not converge']}, raw

FORBIDDEN = re.compile(r"\b(sorry|admit|native_decide|bv_decide|implemented_by)\b|^\s*axiom\s|^\s*unsafe\s|maxHeartbeats\s+0\b", re.M)

def forbidden_tokens():
    """the framework's scan (check.py), applied to the generated file with comments stripped"""
    with open(GEN_FILE) as fh: txt = fh.read()
    txt = re.sub(r'/-.*?-/', '', txt, flags=re.S)
    txt = re.sub(r'--[^\n]*', '', txt)
    return sorted(set(m.group(0).strip() for m in FORBIDDEN.finditer(txt)))

# ------------------------------------------------------------------------------------------------ commands
def cmd_check(args):
    t0 = time.time()
    try:
        return cmd_check_inner(args, t0)
    except Exception as e:     # the caller wants ONE JSON object and exit status 0 whatever happens
        import traceback
        expected = []
        if os.path.exists(EXPECTED_JSON):
            with open(EXPECTED_JSON) as fh: expected = json.load(fh)['functions']
        print(json.dumps({'tied': [], 'new': [], 'wall_s': round(time.time() - t0, 1),
                          'error': '%s: %s' % (type(e).__name__, e), 'traceback': traceback.format_exc()[-1500:],
                          'broken': [{'fn': ex['fn'], 'key': ex['key'], 'file': ex['file'], 'theorem': ex['theorem'],
                                      'reason': 'equation no longer checks', 'detail': 'translate.py failed before the check: %s' % e}
                                     for ex in expected]}))
        return 0

def cmd_check_inner(args, t0):
    results, crate, sy = analyse(args.src)
    expected = []; known = []
    if os.path.exists(EXPECTED_JSON):
        with open(EXPECTED_JSON) as fh: ej = json.load(fh)
        expected = ej['functions']; known = ej.get('unproved', [])
    names, failed, bad_ax, raw = check_generated(results, sy, known)
    # final library build of the (now clean) generated file
    byname = {r['thm']: r for r in results.values()}
    tied = []
    if names is not None:
        tied = [n for n in names if n not in bad_ax]
    broken = []
    exp_names = set()
    for ex in expected:
        exp_names.add(ex['theorem'])
        r = results.get(ex['key'])
        ent = {'fn': ex['fn'], 'key': ex['key'], 'file': ex['file'], 'theorem': ex['theorem']}
        if r is None:
            ent.update(reason='function disappeared', detail='no function with key %s in %s' % (ex['key'], args.src))
            broken.append(ent); continue
        if r['status'] != 'ok':
            ent.update(reason='body no longer in the translatable subset', detail='%s: %s' % (r['status'], r.get('reason', '')))
            broken.append(ent); continue
        if r['key'] in failed:
            ent.update(reason='equation no longer checks',
                       detail='model: %s | translated Rust body: %s | Lean: %s' % (r['lhs'], r['rhs'], failed[r['key']]))
            broken.append(ent); continue
        if r['thm'] in bad_ax:
            ent.update(reason='equation no longer checks', detail=bad_ax[r['thm']])
            broken.append(ent); continue
        if names is None:
            ent.update(reason='equation no longer checks', detail='generated file did not elaborate: %s' % json.dumps(bad_ax)[:500])
            broken.append(ent); continue
    new = [n for n in tied if n not in exp_names]
    # failing theorems that are not in the expected list are reported too (they are neither tied nor expected)
    unexpected_fail = [{'fn': results[k]['fn'], 'key': k, 'file': results[k]['file'], 'reason': 'equation does not check (not in expected list)',
                        'detail': failed[k]} for k in failed if results[k]['thm'] not in exp_names and k not in known]
    out = {'tied': tied, 'broken': broken, 'new': new, 'wall_s': round(time.time() - t0, 1)}
    if unexpected_fail: out['untied_new_failures'] = unexpected_fail
    if known: out['known_unproved'] = sorted(k for k in known if k in failed)
    if crate.errors: out['frontend_errors'] = ['%s: %s' % e for e in crate.errors]
    bad = forbidden_tokens()
    if bad: out['forbidden_tokens'] = bad
    print(json.dumps(out))
    return 0

def cmd_write_expected(args):
    results, crate, sy = analyse(args.src)
    names, failed, bad_ax, raw = check_generated(results, sy)
    if names is None:
        sys.stderr.write('generated file does not elaborate:\n%s\n' % raw[-3000:]); return 1
    byname = {r['thm']: r for r in results.values()}
    fns = []
    for n in names:
        if n in bad_ax: continue
        r = byname[n]
        fns.append({'key': r['key'], 'file': r['file'], 'impl': r['impl'], 'fn': r['fn'], 'theorem': n, 'model': r['lean']})
    with open(EXPECTED_JSON, 'w') as fh:
        json.dump({'_doc': 'Rust functions tied by a generated theorem of lean/Bnum/Generated/Deleg.lean on the unchanged tree '
                           '(written by gen/translate.py --write-expected); `unproved`: translated functions whose equation did not check '
                           '(untied; not attempted again by --check until the next --write-expected)', 'functions': fns,
                   'unproved': sorted(failed)}, fh, indent=1)
    print('wrote %s: %d functions; %d failing, %d with axiom problems' % (EXPECTED_JSON, len(fns), len(failed), len(bad_ax)))
    for k, d in failed.items(): print('FAIL', k, d[:300].replace('\n', ' '))
    return 0

def cmd_list(args):
    results, crate, sy = analyse(args.src)
    from collections import Counter
    if os.path.exists(EXPECTED_JSON):
        with open(EXPECTED_JSON) as fh: known = json.load(fh).get('unproved', [])
        for k in known:
            if k in results and results[k]['status'] == 'ok':
                results[k]['status'] = 'unproved'
                results[k]['reason'] = 'translated, but the equation with %s does not check (untied): %s' % (results[k]['lean'], results[k]['rhs'][:120])
    cnt = Counter(r['status'] for r in results.values())
    for key, r in sorted(results.items(), key=lambda kv: (kv[1]['status'], kv[0])):
        if args.status and r['status'] != args.status: continue
        print('%-11s %-55s %s:%d  %s' % (r['status'], key, r['file'], r['line'], r.get('reason', r.get('lean', ''))))
    print(dict(cnt), 'total', len(results))
    for e in crate.errors: print('FRONTEND ERROR', e)

def cmd_show(args):
    results, crate, sy = analyse(args.src)
    for key in args.show:
        r = results.get(key)
        if r is None:
            print('no such key', key); continue
        print(json.dumps({k: (sorted(v) if isinstance(v, set) else v) for k, v in r.items()}, indent=1, default=str))
        if r['status'] == 'ok': print(theorem_text(r))

def cmd_default(args):
    results, crate, sy = analyse(args.src)
    ranges, names, mods, _ = generate(results, sy)
    from collections import Counter
    print('wrote %s: %d theorems' % (GEN_FILE, len(names)))
    print(dict(Counter(r['status'] for r in results.values())))

def main():
    ap = argparse.ArgumentParser()
    ap.add_argument('--src', default='/repo/src')
    ap.add_argument('--check', action='store_true')
    ap.add_argument('--list', action='store_true')
    ap.add_argument('--status')
    ap.add_argument('--show', nargs='+')
    ap.add_argument('--write-expected', action='store_true')
    ap.add_argument('--dump-sigs', action='store_true')
    args = ap.parse_args()
    if args.dump_sigs: return dump_sigs()
    if args.check: return cmd_check(args)
    if args.write_expected: return cmd_write_expected(args)
    if args.list: return cmd_list(args)
    if args.show: return cmd_show(args)
    return cmd_default(args)

if __name__ == '__main__':
    sys.exit(main() or 0)
