"""C17 cases: std trait implementations vs inherent methods (see harness/src/bin/c17.rs header).

Input classes (all general, none keyed to a particular change):
  * every operator form (vv vr rv rr as asr inh) of every binary operator, both build modes, signed and unsigned;
  * Shl/Shr: in the first repetition of every configuration EVERY (amount type x direction x form) is called, the six
    forms of one group share the operand and the amount and are followed by the inherent `sh*_u32_inh` on the same
    operand and `amount mod 2^32` (`post` compares the crate's answers directly, also where the specification leaves
    the value open: release shifts whose reduced amount is >= BITS at a width that is not a power of two); the amount
    classes rotate so that every (type, mode) sees every class;
  * bnum-typed amounts `BUint<M>` / `BInt<M>` with M = N and M in {1, 2, N+1} (`impl<const N, const M>`), amounts around
    BITS, around 2^32, negative, with only high digits set;
  * `Ord::max/min/clamp` (overridden in {buint,bint}/cmp.rs) and their inherent twins;
  * Sum/Product lists whose left fold overflows at an intermediate step only, or lands exactly on the limits;
  * FromStr numerals at the representable limits of EVERY configuration (MAX, MAX+1, 2^BITS-1, 2^BITS, 10^k-1, 10^k for
    k = decimal length of MAX and k +- 1; signed also MIN, MIN-1, -(10^k)), with '+' and leading zeros;
  * the widest instantiation of every digit type (8192 bits): every operator family with a few well-chosen operands.
"""
from .common import *
from .c03 import div_pair
from .c02 import mul_pair
from . import widthsweep as _ws

HARNESS_BINS_THOROUGH = ["widths"]


def ROUTE(line):
    # the c17 bin instantiates ALL17 only; every other u8xN (from the all-widths sweep) goes to `widths`
    p = line.split(" ")
    if p[0] == "from_str" and p[1].startswith("u8x") and p[1][1:] not in ALL17:
        return "widths"
    return "c17"


CFGS17 = ["8x1", "8x2", "8x3", "8x4", "8x5", "8x6", "8x7", "8x8", "8x17", "8x64", "16x1", "16x3", "16x4", "32x2", "32x3",
          "64x1", "64x2", "64x3", "64x16"]
QUICK17 = ["8x1", "8x3", "8x5", "16x3", "32x2", "64x1", "64x2", "64x3", "8x17", "64x16", "8x64", "8x4", "8x6", "8x7", "8x8"]
# 32, 48, 56, 64 bits with u8 digits (56 bits: the only width strictly between the f64 mantissa and 64): fewer repetitions
LIGHT17 = ["8x4", "8x6", "8x7", "8x8"]
# the widest in-scope instantiation of every digit type (8192 bits): a few well-chosen requests each (WIDE_CASES)
WIDE17 = list(HUGE_CFGS)
ALL17 = CFGS17 + WIDE17
FORMS = ["vv", "vr", "rv", "rr", "as", "asr", "inh"]
SFORMS = ["vv", "vr", "rv", "rr", "as", "asr"]
PRIM = {"u8": (8, False), "u16": (16, False), "u32": (32, False), "u64": (64, False), "u128": (128, False), "usize": (64, False),
        "i8": (8, True), "i16": (16, True), "i32": (32, True), "i64": (64, True), "i128": (128, True), "isize": (64, True)}
U32 = 1 << 32
N_AMOUNT_CLASSES = 22


def prim_amount(rng, ty, W, cls=None):
    """a shift amount of primitive type `ty` (clamped into the type's range); `cls` selects the class"""
    bits, signed = PRIM[ty]
    lo, hi = (-(1 << (bits - 1)), (1 << (bits - 1)) - 1) if signed else (0, (1 << bits) - 1)
    classes = [0, 1, W - 1, W, W + 1, 2 * W, -1, -W, lo, hi, U32 - 1, U32, U32 + 3, U32 + W,
               # `as u32` truncation lands below BITS: from above 2^32, from a negative value, from above 2^64
               U32 + W - 1, 5 - U32, (1 << 64) + 7, (1 << 40) + (W >> 1),
               rng.randrange(W), rng.randrange(W), rng.randrange(W), rng.randrange(max(1, min(W, hi + 1)))]
    assert len(classes) == N_AMOUNT_CLASSES
    k = classes[cls % len(classes)] if cls is not None else rng.choice(classes)
    return max(lo, min(hi, k))


def bnum_amount(rng, w, m, W, cls=None):
    """the pattern of a `BUint<m>` / `BInt<m>` shift amount (w-bit digits) for an operand of W bits"""
    Wk = w * m
    Mk = 1 << Wk
    classes = [0, 1, W - 1, W, W + 1, rng.randrange(W), rng.randrange(W), rng.randrange(W), Mk - 1, Mk >> 1, (Mk >> 1) - 1,
               U32 - 1, U32, U32 + 1, U32 + (W >> 1),
               # only the top digit set / low digits in range but one high digit set (-> does not fit u32)
               1 << (w * (m - 1)), rng.randrange(W) | (1 << (Wk - 1)), rng.randrange(W) | (rng.randrange(1, 1 << w) << (w * rng.randrange(m))),
               Mk - rng.randrange(1, W + 2), rng.randrange(Mk)]
    k = classes[cls % len(classes)] if cls is not None else rng.choice(classes)
    return k % Mk


def bnum_amount_value(kind, w, m, k):
    """exact value of the amount pattern `k`"""
    Wk = w * m
    return k - (1 << Wk) if (kind == "bi" and k >> (Wk - 1)) else k


def inh_partner(sh, s, cfg, mode, a, eff):
    return f"{sh}_u32_inh {s}{cfg} {mode} {hx(a)} {eff}"


def prim_eff(mode, k):
    """the u32 the inherent method is called with (None: the conversion itself panics)"""
    if mode == "rel":
        return k % U32
    return k if 0 <= k < U32 else None


def limit_numerals(W, sg):
    """decimal numerals at the representable limits of a W-bit type: (text, tag)"""
    M = 1 << W
    mx = (M >> 1) - 1 if sg else M - 1
    nd = len(str(mx))
    vals = [mx, mx + 1, M - 1, M, mx - 1]
    for k in (nd - 1, nd, nd + 1):
        if k >= 1:
            vals += [10 ** k - 1, 10 ** k]
    vals.append(int("9" * nd))                  # the largest numeral with as many digits as MAX
    vals.append(int(str(mx)[:-1] + "0") + 10)   # MAX rounded up to the next multiple of ten (same length, too large)
    out = []
    seen = set()
    for v in vals:
        if v in seen or v < 0:
            continue
        seen.add(v)
        for pre in ("", "+", "00", "+000", "0" * nd):
            out.append((pre + str(v), "from_str-limit"))
    if sg:
        mn = M >> 1
        negs = [mn, mn + 1, mn - 1, mx + 2]
        for k in (nd - 1, nd, nd + 1):
            if k >= 1:
                negs += [10 ** k, 10 ** k - 1]
        seen = set()
        for v in negs:
            if v in seen:
                continue
            seen.add(v)
            for pre in ("-", "-00", "-" + "0" * nd):
                out.append((pre + str(v), "from_str-limit-neg"))
    else:
        out += [("-0", "from_str-limit-neg"), ("-1", "from_str-limit-neg")]
    return out


def fold_lists(rng, w, n, sg):
    """lists for Sum / Product whose LEFT fold overflows at an intermediate step only, or lands on the limits"""
    W = w * n
    M = 1 << W
    mx = (M >> 1) - 1 if sg else M - 1
    m1 = M - 1          # pattern of -1 (signed) / MAX (unsigned)
    i = rng.randrange(1, W)
    out = []
    if sg:
        out += [("sum", [mx, 1, m1]), ("sum", [m1, mx, 1]), ("sum", [M >> 1, m1, 1]), ("sum", [1, M >> 1, m1]),
                ("sum", [mx, mx, M >> 1, M >> 1, 2]),
                # product = -2^(W-1) = MIN exactly / +2^(W-1) (not representable) / through 0
                ("product", [1 << i, 1 << (W - 1 - i), m1]), ("product", [1 << i, m1, 1 << (W - 1 - i), m1]),
                ("product", [1 << i, 1 << (W - 1 - i), 0]), ("product", [m1, M >> 1]), ("product", [M >> 1, m1, 0]),
                ("product", [m1, m1, mx]), ("product", [2, mx, 0])]
    else:
        out += [("sum", [mx, 1]), ("sum", [mx - 1, 1]), ("sum", [1, mx, 0]), ("sum", [M >> 1, M >> 1]), ("sum", [M >> 1, (M >> 1) - 1, 1]),
                ("sum", [mx, mx, 2]),
                ("product", [1 << i, 1 << (W - i)]), ("product", [1 << i, 1 << (W - 1 - i)]), ("product", [1 << i, 1 << (W - i), 0]),
                ("product", [(1 << i) - 1, 1 << (W - i)]), ("product", [mx, 1, 1]), ("product", [mx, 2, 0])]
    return out


def long_folds(rng, w, n, sg):
    """LONG iterators (257 ... 1000 elements) whose left fold never leaves the range: many elements with saturated low
    digits (a per-column accumulator of digit or double-digit width overflows long before the total does), signed
    lists alternating x, -x, and products of many ones with a few twos"""
    W = w * n
    M = 1 << W
    B = 1 << w
    lim = (M >> 1) if sg else M
    out = []
    for L in (rng.choice([257, 258, 300]), rng.choice([513, 520, 1000])):
        c = max(1, min(n, (W - 11) // w)) if W > 11 else 0
        e = min((1 << (w * c)) - 1, (lim - 1) // L) if c else (lim - 1) // L
        out.append(("sum", [e] * L))
        out.append(("sum", [rng.choice([e, e // 2, 0, e - 1 if e else 0]) for _ in range(L)]))
        if sg:
            x = rng.randrange(1, lim)
            out.append(("sum", [x if i % 2 == 0 else (M - x) for i in range(L)]))
        twos = rng.randrange(0, W - 1 if sg else W)
        xs = [1] * (L - twos) + [2] * twos
        rng.shuffle(xs)
        out.append(("product", xs))
    return out


def fold_reqs(s, cfg, mode, fam, xs, tag):
    lst = ",".join(hx(x) for x in xs) or "-"
    for op in ((fam, fam + "_ref")):
        yield f"{op} {s}{cfg} {mode} {lst}", tag


def clamp_triple(rng, w, n):
    t, a, b = pair(rng, w, n)
    c = rng.choice([a, b, value(rng, w, n)[1], value(rng, w, n)[1]])
    xs = [a, b, c]
    rng.shuffle(xs)
    return t, xs


def wide_cases(rng, cfg, seq):
    """8192-bit instantiations: every operator family, few requests (the Lean side costs 10-150 ms per request here)"""
    w, n = wn(cfg)
    W = w * n
    M = 1 << W
    for s in "ui":
        sg = s == "i"
        texts = [str(((M >> 1) if sg else M) - 1), str((M >> 1) if sg else M)]
        if sg:
            texts += ["-" + str(M >> 1), "-" + str((M >> 1) + 1)]
        for tx in texts:
            yield f"from_str {s}{cfg} {tx.encode().hex()}", "from_str-limit"
        for mode in ("dbg", "rel"):
            hv = huge_values(rng, cfg)
            for op in ("add", "sub", "bitand", "bitor", "bitxor"):
                t, a, b = pair(rng, w, n)
                if rng.random() < 0.5:
                    a = rng.choice(hv)
                yield f"{op}_{rng.choice(FORMS)} {s}{cfg} {mode} {hx(a)} {hx(b)}", "wide/" + t
            t, a, b = mul_pair(rng, w, n, sg)
            yield f"mul_{rng.choice(FORMS)} {s}{cfg} {mode} {hx(a)} {hx(b)}", "wide/" + t
            t, a, b = div_pair(rng, w, n, sg)
            yield f"div_{rng.choice(FORMS)} {s}{cfg} {mode} {hx(a)} {hx(b)}", "wide/" + t
            yield f"rem_{rng.choice(FORMS)} {s}{cfg} {mode} {hx(a)} {hx(b)}", "wide/" + t
            a = rng.choice(hv + [M >> 1])
            yield f"not_{rng.choice(['v', 'r', 'inh'])} {s}{cfg} {mode} {hx(a)}", "wide"
            if sg:
                yield f"neg_{rng.choice(['v', 'r', 'inh'])} i{cfg} {mode} {hx(rng.choice([M >> 1, a, 1]))}", "wide"
            # every amount type once (direction and form drawn), amounts biased to the neighbourhood of BITS = 8192
            for ty in PRIM:
                sh = rng.choice(["shl", "shr"])
                a = rng.choice(hv)
                seq[0] += 1
                k = prim_amount(rng, ty, W, seq[0] if rng.random() < 0.6 else rng.choice([2, 3, 4, 13, 14, 17]))
                yield f"{sh}_{ty}_{rng.choice(SFORMS)} {s}{cfg} {mode} {hx(a)} {k}", "wide-shift"
                eff = prim_eff(mode, k)
                if eff is not None and rng.random() < 0.5:
                    yield inh_partner(sh, s, cfg, mode, a, eff), "wide-shift"
            for m in (n, 1, 2, n + 1):
                sh = rng.choice(["shl", "shr"])
                kind = rng.choice(["bu", "bi"])
                a = rng.choice(hv)
                seq[0] += 1
                k = bnum_amount(rng, w, m, W, seq[0] if rng.random() < 0.5 else rng.choice([2, 3, 4, 5]))
                yield f"{sh}_{kind}{'' if m == n else m}_{rng.choice(SFORMS)} {s}{cfg} {mode} {hx(a)} {hx(k)}", "wide-shift-bnum"
                v = bnum_amount_value(kind, w, m, k)
                if 0 <= v < U32:
                    yield inh_partner(sh, s, cfg, mode, a, v), "wide-shift-bnum"
            fam, xs = rng.choice(fold_lists(rng, w, n, sg))
            yield from fold_reqs(s, cfg, mode, fam, xs, "wide-fold")
            xs = [rng.randrange(0, 12) for _ in range(rng.choice([0, 3, 17]))]
            yield from fold_reqs(s, cfg, mode, rng.choice(["sum", "product"]), xs, "wide-fold")
            yield f"default {s}{cfg} {mode}", "default"
            t, a, b = pair(rng, w, n)
            for op in rng.sample(["cmp_partial_cmp", "cmp_ord_cmp", "cmp_cmp_inh", "cmp_eq", "cmp_eq_inh", "cmp_ne", "cmp_lt", "cmp_le", "cmp_gt", "cmp_ge"], 3):
                yield f"{op} {s}{cfg} {mode} {hx(a)} {hx(b)}", "wide/" + t
            for op in rng.sample(["ord_max", "max_inh", "ord_min", "min_inh"], 2):
                yield f"{op} {s}{cfg} {mode} {hx(a)} {hx(b)}", "wide/" + t
            t, xs = clamp_triple(rng, w, n)
            yield f"{rng.choice(['ord_clamp', 'clamp_inh'])} {s}{cfg} {mode} {hx(xs[0])} {hx(xs[1])} {hx(xs[2])}", "wide-clamp"
            if not sg:
                # the carry of `+ digit` runs through all N digits / stops one digit short
                d = rng.choice([1, (1 << w) - 1])
                yield f"add_digit u{cfg} {mode} {hx(M - d)} {hx(d)}", "wide-carry-chain"
                yield f"add_digit u{cfg} {mode} {hx((M >> w) - d)} {hx(d)}", "wide-carry-chain"
                k = rng.randrange(1, n)
                yield f"add_digit u{cfg} {mode} {hx(((1 << (w * k)) - 1) | (rng.randrange(1 << w) << (w * k)))} {hx(rng.choice([1, 2]))}", "wide-carry-chain"
                a = rng.choice(hv)
                d = digit_value(rng, w)
                yield f"div_digit u{cfg} {mode} {hx(a)} {hx(d)}", "wide"
                yield f"rem_digit u{cfg} {mode} {hx(a)} {hx(d)}", "wide"


def gen(rng, tier):
    # FromStr on every width 8..8192 (u8 digits): the all-widths sweep `parse_print` is added by check.py (SWEEPS)
    reps = 12 if tier == "thorough" else 6
    seq = [rng.randrange(1000)]      # rotating amount-class counter

    def nxt():
        seq[0] += 1
        return seq[0]

    for cfg in WIDE17:
        for _ in range(3 if tier == "thorough" else 1):
            yield from wide_cases(rng, cfg, seq)
    for cfg in (CFGS17 if tier == "thorough" else QUICK17):
        w, n = wn(cfg)
        W = w * n
        M = 1 << W
        for s in "ui":
            for tx, tag in limit_numerals(W, s == "i"):
                yield f"from_str {s}{cfg} {tx.encode().hex()}", tag
        for rep in range(reps if cfg not in LIGHT17 else reps // 2):
            for s in "ui":
                sg = s == "i"
                # FromStr (decimal): values around the type's limits, u64-sized values on narrow types, signs
                lim = (M >> 1) if sg else M
                for z in (lim - 1, lim, lim + 1, 0, rng.randrange(lim), rng.randrange(1 << 64), (1 << 64) - 1, 1 << 64, rng.randrange(1 << 70)):
                    sign = rng.choice(["", "+", "-"]) if sg else rng.choice(["", "+"])
                    yield f"from_str {s}{cfg} {(sign + str(z)).encode().hex()}", "from_str"
                for k in (1, 7, W - 1, W, W + 1, 2 * W):
                    for sgn in "+-":
                        yield f"from_str {s}{cfg} {('0' * k + sgn + str(rng.randrange(1, 100))).encode().hex()}", "from_str-zeros-then-sign"
                    yield f"from_str {s}{cfg} {('0' * k + str(rng.randrange(0, 100))).encode().hex()}", "from_str-zeros"
                for junk in ("", "+", "-", "12a", " 1", "1_0"):
                    yield f"from_str {s}{cfg} {junk.encode().hex() or '-'}", "from_str-junk"
                for mode in ("dbg", "rel"):
                    for op in ("add", "sub", "bitand", "bitor", "bitxor"):
                        for f in FORMS:
                            t, a, b = pair(rng, w, n)
                            yield f"{op}_{f} {s}{cfg} {mode} {hx(a)} {hx(b)}", t
                    for f in FORMS:
                        t, a, b = mul_pair(rng, w, n, sg)
                        yield f"mul_{f} {s}{cfg} {mode} {hx(a)} {hx(b)}", t
                    for op in ("div", "rem"):
                        for f in FORMS:
                            t, a, b = div_pair(rng, w, n, sg)
                            yield f"{op}_{f} {s}{cfg} {mode} {hx(a)} {hx(b)}", t
                    t, a = value(rng, w, n)
                    for f in ("v", "r", "inh"):
                        yield f"not_{f} {s}{cfg} {mode} {hx(a)}", t
                        if sg:
                            yield f"neg_{f} i{cfg} {mode} {hx(a)}", t
                    bn_ms = [n, 1, 2, n + 1]
                    if rep == 0:
                        # EVERY impl: amount type x direction x form; the forms of a group share operand and amount and
                        # are followed by the inherent method on the same operand and `amount as u32` (compared in `post`)
                        for ty in PRIM:
                            for sh in ("shl", "shr"):
                                t, a = value(rng, w, n)
                                k = prim_amount(rng, ty, W, nxt())
                                for f in SFORMS:
                                    yield f"{sh}_{ty}_{f} {s}{cfg} {mode} {hx(a)} {k}", t
                                eff = prim_eff(mode, k)
                                if eff is not None:
                                    yield inh_partner(sh, s, cfg, mode, a, eff), t
                        for kind in ("bu", "bi"):
                            for m in bn_ms:
                                for sh in ("shl", "shr"):
                                    t, a = value(rng, w, n)
                                    k = bnum_amount(rng, w, m, W, nxt())
                                    for f in SFORMS:
                                        yield f"{sh}_{kind}{'' if m == n else m}_{f} {s}{cfg} {mode} {hx(a)} {hx(k)}", t
                                    v = bnum_amount_value(kind, w, m, k)
                                    if 0 <= v < U32:
                                        yield inh_partner(sh, s, cfg, mode, a, v), t
                    else:
                        for ty in PRIM:
                            for sh in ("shl", "shr"):
                                f = rng.choice(SFORMS)
                                t, a = value(rng, w, n)
                                k = prim_amount(rng, ty, W)
                                yield f"{sh}_{ty}_{f} {s}{cfg} {mode} {hx(a)} {k}", t
                                eff = prim_eff(mode, k)
                                if eff is not None and eff >= W and mode == "rel":
                                    # the specification may leave this value open: the inherent twin on the same operands decides
                                    yield inh_partner(sh, s, cfg, mode, a, eff), t
                        for sh in ("shl", "shr"):
                            t, a = value(rng, w, n)
                            yield f"{sh}_u32_inh {s}{cfg} {mode} {hx(a)} {max(0, min((1 << 32) - 1, prim_amount(rng, 'u32', W)))}", t
                            for kind in ("bu", "bi"):
                                f = rng.choice(SFORMS)
                                t, a = value(rng, w, n)
                                k = rng.choice([0, 1, W - 1, W, W + 1, rng.randrange(W), rng.randrange(W), M - 1, M >> 1, (1 << 32) % M, ((1 << 32) + 1) % M])
                                yield f"{sh}_{kind}_{f} {s}{cfg} {mode} {hx(a)} {hx(k % M)}", t
                                # amount of a different digit count
                                m = rng.choice(bn_ms[1:])
                                f = rng.choice(SFORMS)
                                t, a = value(rng, w, n)
                                k = bnum_amount(rng, w, m, W)
                                yield f"{sh}_{kind}{'' if m == n else m}_{f} {s}{cfg} {mode} {hx(a)} {hx(k)}", t
                                v = bnum_amount_value(kind, w, m, k)
                                if W <= v < U32 and mode == "rel":
                                    yield inh_partner(sh, s, cfg, mode, a, v), t
                    # Sum / Product
                    k = rng.choice([0, 1, 2, 3, 4, 4, 5, 8, 9, 16, 17, 33])
                    small = rng.random() < 0.6
                    xs = [(rng.randrange(0, 12) if small else value(rng, w, n)[1]) for _ in range(k)]
                    if sg and small:
                        xs = [pat(x - 5, W) for x in xs]
                    lst = ",".join(hx(x) for x in xs) or "-"
                    for op in ("sum", "sum_ref", "product", "product_ref"):
                        yield f"{op} {s}{cfg} {mode} {lst}", "fold%d" % min(k, 6)
                    fl = fold_lists(rng, w, n, sg)
                    for fam, xs in (fl if rep == 0 else rng.sample(fl, 2)):
                        yield from fold_reqs(s, cfg, mode, fam, xs, "fold-boundary")
                    if rep == 0:
                        for fam, xs in long_folds(rng, w, n, sg):
                            yield from fold_reqs(s, cfg, mode, fam, xs, "fold-long")
                    yield f"default {s}{cfg} {mode}", "default"
                    t, a, b = pair(rng, w, n)
                    for op in ("cmp_partial_cmp", "cmp_ord_cmp", "cmp_cmp_inh", "cmp_eq", "cmp_eq_inh", "cmp_ne", "cmp_lt", "cmp_le", "cmp_gt", "cmp_ge"):
                        yield f"{op} {s}{cfg} {mode} {hx(a)} {hx(b)}", t
                    # Ord::max / min / clamp (overridden) and the inherent twins, same operands
                    t, a, b = pair(rng, w, n)
                    for op in ("ord_max", "max_inh", "ord_min", "min_inh"):
                        yield f"{op} {s}{cfg} {mode} {hx(a)} {hx(b)}", t
                    t, xs = clamp_triple(rng, w, n)
                    for op in ("ord_clamp", "clamp_inh"):
                        yield f"{op} {s}{cfg} {mode} {hx(xs[0])} {hx(xs[1])} {hx(xs[2])}", "clamp/" + t
                    if not sg:
                        t, a = value(rng, w, n)
                        d = digit_value(rng, w)
                        yield f"add_digit u{cfg} {mode} {hx(a)} {hx(d)}", t
                        yield f"div_digit u{cfg} {mode} {hx(a)} {hx(d)}", t
                        yield f"rem_digit u{cfg} {mode} {hx(a)} {hx(d)}", t
                        # carry chains of every length: the low k digits saturated (minus a small delta), the
                        # digit operand just reaching / just missing the carry (added after seeded change C17-r4m1)
                        for _ in range(4):
                            k = rng.randrange(1, n + 1)
                            delta = rng.choice([0, 0, 1, rng.randrange(1 << w)])
                            up = rng.choice([0, 0, 1, (1 << w) - 1, rng.randrange(1 << w), rng.randrange(M)])
                            a = (((1 << (w * k)) - 1 - delta) | (up << (w * k))) % M
                            d = max(0, min((1 << w) - 1, delta + rng.choice([1, 1, 0, 2])))
                            yield f"add_digit u{cfg} {mode} {hx(a)} {hx(d)}", "carry-chain-%d" % min(k, 4)


def post(ctx, lines, R, mo_sp):
    """Trait form vs inherent method ON IDENTICAL OPERANDS, crate answer against crate answer: every `sh*_<ty>_<form>`
    whose amount converts to the u32 `e` must answer what `sh*_u32_inh` answers for the same operand and `e`
    (this also decides the cases the specification leaves open: release shifts with a reduced amount >= BITS at a
    width that is not a power of two)."""
    inh = {}
    for i, l in enumerate(lines):
        t = l.split(" ")
        if t[0] in ("shl_u32_inh", "shr_u32_inh") and len(t) == 5:
            inh[(t[0][:3], t[1], t[2], t[3], int(t[4]))] = i
    bad = []
    n_pairs = 0
    for i, l in enumerate(lines):
        t = l.split(" ")
        p = t[0].split("_")
        if len(p) != 3 or p[0] not in ("shl", "shr") or p[2] == "inh" or len(t) != 5:
            continue
        cfg, mode, a = t[1], t[2], t[3]
        if p[1] in PRIM:
            eff = prim_eff(mode, int(t[4]))
        else:
            w, n = wn(cfg[1:])
            m = int(p[1][2:]) if p[1][2:] else n
            v = bnum_amount_value(p[1][:2], w, m, int(t[4], 16))
            eff = v if 0 <= v < U32 else None
        if eff is None:
            continue
        j = inh.get((p[0], cfg, mode, a, eff))
        if j is None:
            continue
        for bm, outs in R.items():
            r, q = outs[i], outs[j]
            if r in ("skip", "bad-op") or q in ("skip", "bad-op"):
                continue
            n_pairs += 1
            if r != q:
                bad.append({"line": l + "   vs   " + lines[j], "mode": bm, "crate": r + " vs " + q,
                            "spec": "the trait form answers what the inherent method answers on the same operands", "model": mo_sp[i]})
    ctx["c17_pairs"] = n_pairs
    return bad


def evidence_extra(ctx):
    return {"trait_vs_inherent_shift_pairs_compared_on_crate_answers": ctx.get("c17_pairs", 0)}
